"""App Engine harness (real app binary x3 + fake API server) shared by C17, C18 and C19:
runs harness/cmd/appengine, translates its histories into cases for App/AppCheck.v and
evaluates the properties directly on the observations."""
import collections
import json
import os
import re

from . import common as C

LIMIT = 1000000
IDENTS = {"admin": (True, False), "oauthadmin": (False, True), "user": (False, False), "oauth": (False, False), "none": (False, False)}
FAULT = {"oauth": "F_oauth", "get_backend": "F_get_backend", "get_tracker": "F_get_tracker", "get_req": "F_get_req", "get_resp": "F_get_resp",
         "get_parts": "F_get_parts", "put_req": "F_put_req", "put_resp": "F_put_resp", "put_parts": "F_put_parts", "put_tracker": "F_put_tracker",
         "put_activity": "F_put_activity", "put_backend": "F_put_backend", "query_backend": "F_query_backend", "mc_get": "F_mc_get", "mc_set": "F_mc_set"}


def run(ctx, histories, ops, with_timeout, name="ae.jsonl", faultp=0.25, bigp=0.12, with_late=False):
    ok, out, dt_b = C.build_repo_binary("app", os.path.join(ctx.work, "app.bin"))
    if not ok:
        raise RuntimeError("the App Engine app does not build: " + out[-1500:])
    C.ensure_tool("appengine", "./cmd/appengine")
    p = os.path.join(ctx.work, name)
    rc, out, dt = C.run([os.path.join(C.BIN, "appengine"), "-app", os.path.join(ctx.work, "app.bin"), "-repo", C.REPO, "-out", p, "-seed", str(ctx.seed),
                         "-histories", str(histories), "-ops", str(ops), "-faultp", str(faultp), "-bigp", str(bigp),
                         "-timeout504=%s" % ("true" if with_timeout else "false"), "-late=%s" % ("true" if with_late else "false")], cwd=ctx.work, timeout=3000)
    rows = C.read_jsonl(p)
    if rc != 0 or not rows or rows[-1].get("kind") != "done":
        raise RuntimeError("App Engine harness did not run to completion: rc=%s\n%s" % (rc, out[-2000:]))
    hists = collections.defaultdict(list)
    timeout = None
    late = None
    conc = []
    for r in rows:
        if r["kind"] == "late-response":
            late = r
        if r["kind"] == "op":
            hists[r["h"]].append(r)
        elif r["kind"] == "timeout504":
            timeout = r
        elif r["kind"] == "conc":
            conc.append(r)
    return {"histories": [hists[k] for k in sorted(hists)], "timeout": timeout, "conc": conc, "wall_s": dt, "late": late}


def oracle_conc(rows):
    res = []
    for r in rows or []:
        rp = {"driver": "harness/cmd/appengine concurrentRelay: %d requests in flight, all agent posts issued at once" % r["clients"], "observed": r}
        if r["wrong_response"]:
            res.append(("concurrent:client-got-foreign-response", "%d of %d clients received a response other than the one posted under their request ID (%s)" % (r["wrong_response"], r["clients"], "; ".join(r.get("examples") or [])[:300]), rp))
        if r["no_response"]:
            res.append(("concurrent:client-not-answered", "%d of %d clients got no answer although every request was answered by the agent" % (r["no_response"], r["clients"]), rp))
        if r["bytes_differ"]:
            res.append(("concurrent:client-response-bytes-differ", "%d of %d clients received bytes that differ from the posted response" % (r["bytes_differ"], r["clients"]), rp))
    return res


# ---------------------------------------------------------------- translation to the model's vocabulary

def unquote_path(p):
    """the decoded path the app routes on (r.URL.Path)"""
    import urllib.parse
    return urllib.parse.unquote(p)


def rid_num(rid):
    m = re.match(r"rid0*(\d+)$", rid or "")
    return int(m.group(1)) if m else 0


def payload(tag, ln, status=0, cc=False):
    return "{| p_tag := %s; p_len := %s; p_status := %s; p_cc := %s |}" % (C.zlit(tag), C.zlit(ln), C.zlit(status), C.blit(cc))


def who_admin(name):
    h, o = IDENTS[name]
    return "{| hdr_admin := %s; oauth_admin := %s |}" % (C.blit(h), C.blit(o))


def who_agent(mail):
    return "(Some %s)" % C.slit(mail) if mail else "None"


def flist(fs):
    return C.llit(FAULT[f] for f in fs)


def keys_of(changed):
    out = []
    for k in changed or []:
        if k.startswith("backend/"):
            out.append("KBackend %s" % C.slit(k[len("backend/"):]))
        elif k.startswith("req:"):
            m = re.match(r'req:"(.*)"/(rid\d+)$', k)
            if m:
                out.append("KReq %s %s" % (C.slit(m.group(1)), C.zlit(rid_num(m.group(2)))))
        elif k.startswith("response/"):
            out.append("KResp %s" % C.zlit(rid_num(k[len("response/"):])))
    return C.llit(out)


class Tables:
    """What the translation needs to remember along one history."""

    def __init__(self):
        self.calls = {}    # k -> dict(rid, user, len)
        self.posts = {}    # tag -> payload text
        self.sticky = []

    def req_payload(self, k):
        c = self.calls[k]
        return payload(k, c["len"])


def translate(hist):
    """[(op_text, expected_out_text, keys_text, row)] for one history; rows that are not model steps are dropped."""
    T = Tables()
    out = []
    for row in hist:
        op, obs = row["op"], row["obs"]
        kind = op["op"]
        fs = sorted(set((op.get("faults") or []) + T.sticky))
        keys = keys_of(obs.get("changed"))
        st = obs.get("status")
        if kind == "sticky":
            T.sticky = list(op["faults"] or [])
            continue
        if kind == "wait":
            continue   # real time passes; the model's clock stands still (tracker ages are chosen so that this makes no difference on a correct tree)
        if kind == "add":
            b = "{| bid := %s; buser := %s; euser := %s; prefixes := %s |}" % (C.slit(op["id"]), C.slit(op["buser"]), C.slit(op["euser"]), C.llit(C.slit(p) for p in op["prefixes"]))
            valid = True
            o, x = "OAdd %s %s %s %s" % (who_admin(op["ident"]), b, C.blit(valid), flist(fs)), "Status %d" % st
        elif kind == "list":
            o = "OList %s %s" % (who_admin(op["ident"]), flist(fs))
            x = "Backends %s" % C.llit(C.slit(i) for i in obs["ids"]) if st == 200 else "Status %d" % st
        elif kind == "delete":
            o, x = "ODelete %s %s %s" % (who_admin(op["ident"]), C.slit(op["id"]), flist(fs)), "Status %d" % st
        elif kind == "api_other":
            o, x = "OApiOther %s %s %s %s" % (who_admin(op["ident"]), C.slit(op["method"]), C.slit(op["path"]), flist(fs)), "Status %d" % st
            if st == 200 and op["method"] == "GET" and op["path"] == "/api/backends":
                continue  # a plain list issued through api_other: ids are not recorded there
        elif kind == "cron":
            o, x = "OCron %s" % who_admin(op["ident"]), "Status %d" % st
        elif kind == "seen":
            o, x = "OSeen %s %s" % (C.slit(op["id"]), C.zlit(op["age_s"] * 1000000000)), "Status 0"
        elif kind == "ustart":
            k = op["k"]
            ln = obs["stored_len"] if obs.get("outcome") == "stored" else op["body_len"] + 500
            T.calls[k] = {"rid": rid_num(op["rid"]), "user": op["user"], "len": ln}
            path = unquote_path(op["url"].split("?")[0])
            user = "(Some %s)" % C.slit(op["user"]) if (op["user"] or op.get("federated")) else "None"   # federated: signed in, empty e-mail address
            o = "OUStart %s %s %s %s %s %s %s %s" % (user, C.blit(op["raw"]), C.blit(op["method"] == "GET"), C.slit(op["url"]), C.slit(path), C.zlit(rid_num(op["rid"])), payload(k, ln), flist(fs))
            if obs.get("outcome") == "stored":
                x = "Stored %s" % C.slit(obs["backend"])
            elif obs.get("outcome") == "returned":
                tag = obs.get("resp_tag") or ""
                if tag.startswith("t") and int(tag[1:]) in T.posts:
                    x = "Delivered %s" % T.posts[int(tag[1:])]
                else:
                    x = "Status %d" % st
            else:
                x = "Hang"
        elif kind in ("ufinish", "upeek"):
            k = op["k"]
            o = "OUFinish %s" % C.zlit(T.calls[k]["rid"])
            if kind == "upeek":
                x = "NotReady"
            else:
                tag = obs.get("resp_tag") or ""
                if tag.startswith("t") and int(tag[1:]) in T.posts:
                    x = "Delivered %s" % T.posts[int(tag[1:])]
                else:
                    x = "Status %d" % st
            keys = "[]"
        elif kind == "alist":
            o = "OAList %s %s %s" % (who_agent(op["ident"]), C.slit(op["backend"]), flist(fs))
            if st == 200:
                ids = [T.calls[k]["rid"] if isinstance(k, int) and k in T.calls else 0 for k in obs["ks"]]
                x = "Listed %s" % C.llit(C.zlit(i) for i in ids)
            elif st == -1:
                x = "LongPoll"
            else:
                x = "Status %d" % st
        elif kind in ("afetch", "arespond"):
            ref = op["req"]
            if ref == "none":
                r = "RNone"
            elif ref.startswith("k") and int(ref[1:]) in T.calls:
                r = "(RId %s)" % C.zlit(T.calls[int(ref[1:])]["rid"])
            else:
                r = "(RId 0)"
            if kind == "afetch":
                o = "OAFetch %s %s %s %s" % (who_agent(op["ident"]), C.slit(op["backend"]), r, flist(fs))
                if st == 200:
                    m = obs.get("matches", -1)
                    x = "Fetched %s %s" % (C.slit(obs.get("user_hdr", "")), T.req_payload(m) if m in T.calls else payload(-1, 0))
                else:
                    x = "Status %d" % st
            else:
                pay = payload(1000 + op["tag"], op["len"], op["status"], op["cc"])
                T.posts[op["tag"]] = pay
                o = "OARespond %s %s %s %s %s" % (who_agent(op["ident"]), C.slit(op["backend"]), r, pay, flist(fs))
                x = "Hang" if st == -1 else "Status %d" % st
        else:
            continue
        out.append(("(%s)" % o, "(%s)" % x, keys, row))
    return out


CODES = {1: "the model's answer differs from the app's", 2: "the app changed a different set of datastore entities than the model"}


def model_check(ctx, hists, name="cases_app"):
    trans = [translate(h) for h in hists]
    items = []
    for t in trans:
        items.append("check_history %s" % C.llit("(%s, %s, %s)" % (o, x, k) for o, x, k, _ in t))
    body = "\n".join(["From Coq Require Import ZArith String List Bool.", "From IP Require Import Lib.Util App.Route App.AppModel App.AppCheck.", "Import ListNotations.",
                      "Open Scope string_scope.", "Open Scope list_scope.", "Open Scope Z_scope.",
                      "Definition codes : list Z := " + C.llit(items) + ".",
                      "Definition verif_result : list Z := Eval vm_compute in (concat (map (fun p => [fst p; snd p]) (nonzero_indices 0 codes)))."])
    txt, out, dt = C.eval_cases(ctx.work, name, body)
    if txt is None:
        return [("AppCheck.check_history (model evaluation)", "coqc failed: " + out[-800:], {})], 0, {"coqc_s": dt}
    vals = C.parse_z_list(txt)
    mism = []
    for j in range(0, len(vals), 2):
        hi, code = vals[j], vals[j + 1]
        pos, c = code // 10 - 1, code % 10
        t = trans[hi]
        row = t[pos][3] if pos < len(t) else {}
        mism.append(("AppCheck.check_history", "history %d, operation %d (%s): %s" % (hi, row.get("i", -1), (row.get("op") or {}).get("op"), CODES.get(c, str(c))),
                     {"history_index": hi, "operation": row.get("op"), "observed": row.get("obs"), "model_term": t[pos][0] if pos < len(t) else None,
                      "expected_by_observation": t[pos][1] if pos < len(t) else None,
                      "history_prefix": [{"op": r["op"], "status": r["obs"].get("status", r["obs"].get("outcome"))} for r in hists[hi][:row.get("i", 0) + 1]][-25:],
                      "replay": "bin/appengine -app <app binary> -seed %s (history %d; scripted histories come first)" % (ctx.seed, hi)}))
    nops = sum(len(t) for t in trans)
    return mism, len(hists), {"coqc_s": round(dt, 2), "histories": len(hists), "operations": nops}


# ---------------------------------------------------------------- oracles (the property evaluated on the app's answers)

AUTH_FAULTS = {"oauth", "get_backend"}


def _base(h, row):
    return {"driver": "harness/cmd/appengine (real app binary x3 + fake App Engine API)", "history_index": row["h"], "operation_index": row["i"], "operation": row["op"], "observed": row["obs"],
            "history_prefix": [{"op": r["op"], "status": r["obs"].get("status", r["obs"].get("outcome"))} for r in h[:row["i"] + 1]][-25:]}


def own_keys(changed, backend, rid):
    """entities an authorised agent call on `backend` naming request `rid` may touch"""
    bad = []
    for k in changed or []:
        if k in ("backendTracker/" + backend, "activityTracker/" + backend):
            continue
        if rid and (k == 'req:"%s"/%s' % (backend, rid) or k == "response/" + rid or k.startswith("blobParts/" + rid + ".")):
            continue
        bad.append(k)
    return bad


def oracle_denials(hists):
    """A refused agent call must not tell its caller whether the backend ID exists: the 401 texts given to callers that have
    an identity (calls without injected faults) must not depend on the backend named."""
    res = []
    texts = collections.defaultdict(dict)   # kind -> text -> example
    for h in hists:
        for row in h:
            op, obs = row["op"], row["obs"]
            if op["op"] in ("alist", "afetch", "arespond") and op.get("ident") and op.get("backend") and obs.get("denial"):
                texts[op["op"]].setdefault(obs["denial"], {"backend": op["backend"], "backend_registered_for": obs.get("owner") or None, "caller": op["ident"], "history": _base(h, row)})
    for kind, ts in texts.items():
        if len(ts) > 1:
            res.append(("unauthorised-agent-call-leaks:denial-text-depends-on-backend", "refused %s calls were answered with %d different texts (%s): the refusal tells whether the backend ID exists" % (
                kind, len(ts), "; ".join("%r for backend %r (registered: %s)" % (t, e["backend"], bool(e["backend_registered_for"])) for t, e in ts.items())[:400]),
                {"driver": "harness/cmd/appengine: agent calls by a caller with a valid identity that is not the backend's", "kind": kind, "texts": {t: {k: v for k, v in e.items() if k != "history"} for t, e in ts.items()},
                 "example": list(ts.values())[-1]["history"]}))
    return res


def oracle_c17(h):
    res = []
    calls = {}
    got = collections.defaultdict(set)    # user -> response tags delivered to that user
    kuser = {}
    for row in h:
        op, obs = row["op"], row["obs"]
        kind = op["op"]
        if kind == "ufinish" and obs.get("resp_tag"):
            got[kuser.get(op["k"])].add(obs["resp_tag"])
        if kind == "ustart":
            kuser[op["k"]] = op["user"]
            if obs.get("outcome") == "returned" and obs.get("resp_tag") and "gt_backends" in obs and not op.get("faults"):
                path = unquote_path(op["url"].split("?")[0])
                mine = [b for b in obs["gt_backends"] if b.get("euser") in (op["user"], "allUsers") and any(path.startswith(pf) for pf in (b.get("prefixes") or []))]
                if not mine:
                    res.append(("user-served-without-a-backend", "user %r was answered 200 (a stored response) for %s although no backend registered for that user or for allUsers matches the path any more" % (op["user"], op["url"]), _base(h, row)))
            if obs.get("outcome") == "returned" and obs.get("resp_tag"):
                if obs["resp_tag"] not in got[op["user"]]:
                    res.append(("user-served-another-users-response", "user %r was answered with response %s, which had only been delivered to %s" % (
                        op["user"], obs["resp_tag"], sorted(u for u, ts in got.items() if obs["resp_tag"] in ts)), _base(h, row)))
                got[op["user"]].add(obs["resp_tag"])
            calls["k%d" % op["k"]] = op["rid"]
            if obs.get("outcome") == "stored":
                eu = obs.get("backend_enduser")
                if eu not in (op["user"], "allUsers") or (not op["user"] and not op.get("federated")) or (op.get("federated") and eu != "allUsers"):
                    res.append(("user-routed-to-foreign-backend", "user %r was routed to backend %r registered for %r" % (op["user"], obs["backend"], eu), _base(h, row)))
                if obs.get("stored_user") != op["user"]:
                    res.append(("request-stored-under-wrong-user", "request of %r stored with user %r" % (op["user"], obs.get("stored_user")), _base(h, row)))
            elif not op["user"] and not op.get("federated") and obs.get("status") not in (302, 401):
                res.append(("anonymous-user-served", "a request without user identity was answered %s" % obs.get("status"), _base(h, row)))
        elif kind in ("alist", "afetch", "arespond"):
            st = obs["status"]
            owner = obs.get("owner")
            authorised = bool(op["ident"]) and op["ident"] == owner and not (set(op.get("faults") or []) & AUTH_FAULTS)
            if kind != "alist" and "+k" in str(op.get("req")) and st == 200:
                res.append(("made-up-request-id-accepted:" + kind, "%s by the agent of backend %r under a request ID it made up (%s) was answered 200: it reaches a request stored for another backend" % (kind, op["backend"], op["req"]), _base(h, row)))
            rid = calls.get(op.get("req"), "") if kind != "alist" else ""
            if not authorised:
                if st != 401:
                    res.append(("unauthorised-agent-call-accepted:" + kind, "%s by %r for backend %r (registered backend user %r) answered %s, not 401" % (kind, op["ident"], op["backend"], owner, st), _base(h, row)))
                if [k for k in obs.get("changed") or [] if not k.startswith("activityTracker/")]:
                    res.append(("unauthorised-agent-call-wrote:" + kind, "rejected %s changed %s" % (kind, obs["changed"]), _base(h, row)))
                if obs.get("leak") or (kind == "afetch" and obs.get("user_hdr")) or (kind == "alist" and obs.get("ks")):
                    res.append(("unauthorised-agent-call-leaks:" + kind, "the reply to a rejected %s reveals stored data" % kind, _base(h, row)))
            else:
                bad = own_keys(obs.get("changed"), op["backend"], rid)
                if bad:
                    res.append(("agent-call-touched-foreign-data:" + kind, "%s for backend %r changed %s" % (kind, op["backend"], bad), _base(h, row)))
                if kind == "alist":
                    pass
        elif kind in ("add", "list", "delete", "api_other", "cron"):
            h_adm, o_adm = IDENTS[op["ident"]]
            is_admin = h_adm or (o_adm and "oauth" not in (op.get("faults") or []))
            if kind == "cron":
                is_admin = h_adm   # restricted by the front end (login: admin)
            if not is_admin:
                if obs["status"] != 403:
                    res.append(("admin-api-answers-non-admin:" + kind, "%s by %r answered %s" % (kind, op["ident"], obs["status"]), _base(h, row)))
                if obs.get("changed"):
                    res.append(("admin-api-non-admin-wrote:" + kind, "%s by %r changed %s" % (kind, op["ident"], obs["changed"]), _base(h, row)))
                if obs.get("ids") or obs.get("mentions_backend_user"):
                    res.append(("admin-api-leaks-to-non-admin", "the backend list was shown to %r" % op["ident"], _base(h, row)))
    return res


def split_sizes(n):
    if n < LIMIT:
        return n, []
    rest = n - LIMIT
    cnt = rest // LIMIT + 1
    parts = [min(LIMIT, rest - i * LIMIT) for i in range(cnt)]
    return LIMIT, parts


def oracle_c19(h):
    res = []
    calls = {}           # k -> row of ustart
    posted = collections.defaultdict(list)   # k -> [tag]
    completed = {}       # k -> row index of the respond answered 200
    delivered = {}       # (user, url) -> set of tags delivered to GETs
    finished = set()
    tagmeta = {}         # tag -> what the posted response says about caching
    for row in h:
        op, obs = row["op"], row["obs"]
        kind = op["op"]
        if kind == "arespond":
            tagmeta[op["tag"]] = {"cc": bool(op.get("cc")), "status": op.get("status")}
        if kind == "ustart":
            k = op["k"]
            calls[k] = row
            if obs.get("outcome") == "stored":
                inl, parts = split_sizes(obs["stored_len"])
                if obs["inlined"] != inl or list(obs["part_lens"]) != parts:
                    res.append(("request-blob-split", "request of %d bytes stored as inline %d + parts %s" % (obs["stored_len"], obs["inlined"], obs["part_lens"]), _base(h, row)))
            elif obs.get("outcome") == "stuck":
                res.append(("client-call-hangs", "an end-user call neither returned nor stored its request", _base(h, row)))
            elif obs.get("outcome") == "returned" and obs.get("resp_tag"):
                t = int(obs["resp_tag"][1:])
                if obs.get("hdr_ok") is False:
                    res.append(("client-response-headers-differ", "call %d was answered from the cache with response t%d without all values of its repeated header fields" % (k, t), _base(h, row)))
                if t in tagmeta and (tagmeta[t]["cc"] or tagmeta[t]["status"] != 200):
                    res.append(("client-got-foreign-response:answered-from-cache-with-uncacheable-response", "call %d (%s %s) never reached a backend: it was answered at once with response t%d, which was posted for an earlier request and %s" % (
                        k, op["method"], op["url"], t, "carries Cache-Control" if tagmeta[t]["cc"] else "has status %s" % tagmeta[t]["status"]), _base(h, row)))
                if op["method"] != "GET" or t not in delivered.get((op["user"], op["url"]), set()) or not obs.get("body_ok"):
                    res.append(("client-got-foreign-response", "call %d of %r for %s %s was answered with response t%d which was never delivered for that user and URL" % (k, op["user"], op["method"], op["url"], t), _base(h, row)))
        elif kind == "afetch" and obs["status"] == 200:
            want = int(op["req"][1:]) if op["req"].startswith("k") else None
            if want in calls and calls[want]["obs"].get("backend") not in (None, op["backend"]):
                res.append(("fetched-foreign-request", "backend %r's agent fetched the request routed to %r" % (op["backend"], calls[want]["obs"].get("backend")), _base(h, row)))
            elif obs.get("matches") != want:
                res.append(("fetched-bytes-differ", "fetch of %s returned %s" % (op["req"], obs.get("mismatch") or ("the request of call %s" % obs.get("matches"))), _base(h, row)))
            elif want in calls and obs.get("user_hdr") != calls[want]["op"]["user"]:
                res.append(("fetched-user-differs", "fetch of %s reports user %r" % (op["req"], obs.get("user_hdr")), _base(h, row)))
        elif kind == "arespond":
            st = obs["status"]
            k = int(op["req"][1:]) if op["req"].startswith("k") else None
            if st == -1:
                res.append(("hang:agent-response:" + "+".join(sorted(op.get("faults") or [])), "POST /agent/response did not return within 10 s with failing store calls %s" % (op.get("faults"),), _base(h, row)))
            stored_b = (calls[k]["obs"].get("backend") if k in calls else None)
            if k is not None and st != 401 and op["backend"] == stored_b:
                posted[k].append(op["tag"])   # a post by the agent of the backend the request was routed to
            elif k is not None and st not in (401, 404, 400) and stored_b is not None:
                res.append(("foreign-agent-post-accepted", "backend %r's agent posted a response under the ID of a request routed to %r and was answered %s" % (op["backend"], stored_b, st), _base(h, row)))
            if st == 200 and k is not None:
                completed[k] = row["i"]
                if "resp_inlined" in obs:
                    inl, parts = split_sizes(op["len"])
                    if obs["resp_inlined"] != inl or list(obs["resp_part_lens"]) != parts:
                        res.append(("response-blob-split", "response of %d bytes stored as inline %d + parts %s" % (op["len"], obs["resp_inlined"], obs["resp_part_lens"]), _base(h, row)))
        elif kind == "alist" and obs["status"] == 200:
            for k in obs["ks"]:
                if not isinstance(k, int):
                    res.append(("listed-unknown-request", "the pending list names %r which no client issued" % (k,), _base(h, row)))
                elif k in completed:
                    res.append(("completed-request-still-pending", "request of call %d was answered (operation %d) but is still listed as pending" % (k, completed[k]), _base(h, row)))
        elif kind == "ufinish":
            k = op["k"]
            finished.add(k)
            tag = obs.get("resp_tag") or ""
            if obs["status"] == -1:
                res.append(("client-not-answered", "a response for call %d is stored but the client was not answered within 10 s" % k, _base(h, row)))
            elif not tag or int(tag[1:]) not in posted[k]:
                res.append(("client-got-foreign-response", "call %d received response %r; posted under its ID: %s" % (k, tag, posted[k]), _base(h, row)))
            elif not obs.get("body_ok"):
                res.append(("client-response-bytes-differ", "call %d received a body that differs from the posted response %s" % (k, tag), _base(h, row)))
            elif obs.get("hdr_ok") is False:
                res.append(("client-response-headers-differ", "call %d received response %s without all values of its repeated header fields (X-Multi x3, Set-Cookie x2)" % (k, tag), _base(h, row)))
            else:
                c = calls[k]["op"]
                if c["method"] == "GET":
                    delivered.setdefault((c["user"], c["url"]), set()).add(int(tag[1:]))
        elif kind == "upeek":
            k = op["k"]
            if k in completed:
                res.append(("response-lost-before-delivery", "the agent's response for call %d was accepted (200, operation %d) but is gone before the waiting client could read it" % (k, completed[k]), _base(h, row)))
    return res


def oracle_late(l):
    if l is None:
        return []
    if l.get("err") or l.get("agent_status") != 200 or l.get("client_status") != 200 or not l.get("client_got_the_response"):
        return [("late-response-not-delivered", "a response posted by the authorised agent %.1f s after the request (the client waits 30 s) was answered %s to the agent; the client got %s after %s s (%s)" % (
            l.get("posted_after_s", -1), l.get("agent_status"), l.get("client_status"), l.get("client_seconds"), l.get("err") or ("the posted response" if l.get("client_got_the_response") else "not the posted response")),
            {"scenario": "late-response", "observed": l})]
    return []


def oracle_timeout(t):
    if t is None:
        return []
    if t["status"] != 504 or not (29.0 <= t["seconds"] <= 36.0):
        return [("no-504-after-timeout", "an unanswered request was answered %s after %.1f s (expected 504 after 30 s)" % (t["status"], t.get("seconds", -1)), {"scenario": "timeout504", "observed": t})]
    return []


def coverage(obs):
    hist = collections.Counter()
    nontrivial = set()
    nops = 0
    for h in obs["histories"]:
        sig = []
        for row in h:
            op, o = row["op"], row["obs"]
            nops += 1
            hist["%s:%s%s" % (op["op"], o.get("status", o.get("outcome", "")), ":faults" if op.get("faults") else "")] += 1
            for f in op.get("faults") or []:
                hist["fault:" + f] += 1
            if op["op"] == "arespond" and op["len"] >= LIMIT:
                hist["response>=limit"] += 1
            if op["op"] == "ustart" and o.get("stored_len", 0) >= LIMIT:
                hist["request>=limit"] += 1
            sig.append((op["op"], o.get("status", o.get("outcome"))))
        if any(s[0] == "ufinish" for s in sig):
            nontrivial.add(C.case_hash(sig))
    return {"evaluations": nops, "histories": len(obs["histories"]), "distinct_nontrivial": len(nontrivial),
            "rule": "case = one operation history against the three app services (scripted histories first, then seeded random ones: admin API, tracker ages, end-user requests, agent list/fetch/respond by right/wrong/absent identities, scripted API-call failures, payloads around the 1,000,000-byte limits); distinct by hash of the (operation, answer) sequence; non-trivial when at least one request was relayed end to end",
            "samples": [{"op": r["op"], "obs": r["obs"]} for r in (obs["histories"][0][:3] if obs["histories"] else [])],
            "input_distribution": dict(hist), "timeout_scenario": obs.get("timeout")}


def oracle_c18(h):
    """Longest-prefix routing with own-before-shared and the 5-minute window, evaluated on each end-user request
    against the ground truth read from the fake datastore just before the call."""
    res = []
    registered = {}      # backend ID -> the prefixes the administrator registered (the store must hold exactly these)
    reg_user = {}        # backend ID -> the end user it was registered for ("allUsers" = shared)
    for row in h:
        op, obs = row["op"], row["obs"]
        if op["op"] == "add" and obs.get("status") == 200 and not op.get("faults"):
            registered[op["id"]] = list(op.get("prefixes") or [])
            reg_user[op["id"]] = op.get("euser")
        if op["op"] == "delete" and obs.get("status") == 200:
            registered.pop(op.get("id"), None)
            reg_user.pop(op.get("id"), None)
        if op["op"] == "ustart" and "gt_backends" in obs:
            for b in obs["gt_backends"]:
                if b["id"] in registered and list(b["prefixes"]) != registered[b["id"]]:
                    res.append(("registered-prefixes-altered", "backend %r was registered with path prefixes %s, the store holds %s" % (b["id"], registered[b["id"]], b["prefixes"]),
                                dict(_base(h, row), backend=b["id"], registered=registered[b["id"]], stored=b["prefixes"])))
                    registered.pop(b["id"])   # once per registration
                if b["id"] in reg_user and reg_user[b["id"]] is not None and b.get("euser") != reg_user[b["id"]]:
                    res.append(("registered-end-user-altered", "backend %r was registered for end user %r, the store holds %r (the shared tier is the backends whose end user is exactly \"allUsers\")" % (
                        b["id"], reg_user[b["id"]], b.get("euser")), dict(_base(h, row), backend=b["id"], registered_for=reg_user[b["id"]], stored=b.get("euser"))))
                    reg_user.pop(b["id"])
        if op["op"] == "alist" and obs.get("status") in (200, -1) and "put_tracker" not in (op.get("faults") or []):
            # the liveness window is counted from the agent's last poll
            age = obs.get("tracker_age_after_s", 0)
            if age is not None and (age < 0 or age > 5):
                res.append(("poll-did-not-refresh-liveness", "after a pending-list call by its agent, backend %r was last seen %.0f s ago" % (op["backend"], age), _base(h, row)))
        if op["op"] != "ustart" or not op["user"] or op.get("faults") or "gt_backends" not in obs:
            continue
        cached = obs.get("outcome") == "returned" and obs.get("resp_tag")   # served from the GET cache: only after a successful lookup
        path = unquote_path(op["url"].split("?")[0])
        gt = obs["gt_backends"]

        def best(cands):
            m, owners = -1, []
            for b in cands:
                for p in b["prefixes"]:
                    if path.startswith(p):
                        if len(p) > m:
                            m, owners = len(p), [b]
                        elif len(p) == m:
                            owners.append(b)
            return owners
        own = best([b for b in gt if b["euser"] == op["user"]])
        cands = own if own else best([b for b in gt if b["euser"] == "allUsers"])
        # ages within 3 s of the window are left to the model comparison (clock skew between driver and app)
        if any(0 <= b["age_s"] and abs(b["age_s"] - 300) < 3 for b in cands):
            continue
        live = [b["id"] for b in cands if 0 <= b["age_s"] < 300]
        got = obs.get("backend") if obs.get("outcome") == "stored" else None
        rp = dict(_base(h, row), path=path, expected_one_of=live, candidates=[b["id"] for b in cands])
        if cached:
            if not live:
                res.append(("served-from-cache-without-live-backend", "user %r path %r was answered 200 from the response cache although %s" % (
                    op["user"], path, "no backend matches" if not cands else "the most specific matching backend(s) %s were last seen %s s ago" % ([b["id"] for b in cands], [round(b["age_s"]) for b in cands])), rp))
            continue
        if got is None:
            if obs.get("status") != 404 and obs.get("outcome") == "returned":
                res.append(("lookup-failure-not-404", "no backend for %r %r but the answer was %s" % (op["user"], path, obs.get("status")), rp))
            # a dead most-specific backend is answered 404 even if a less specific one is live: only complain when every candidate is live
            if cands and len(live) == len(cands):
                res.append(("live-backend-not-routed", "user %r path %r: backend(s) %s match and are live, the request was answered %s" % (op["user"], path, live, obs.get("status")), rp))
        else:
            if got not in [b["id"] for b in cands]:
                res.append(("not-most-specific", "user %r path %r was routed to %r; the most specific matching backend(s): %s" % (op["user"], path, got, [b["id"] for b in cands]), rp))
            elif got not in live:
                res.append(("routed-to-dead-backend", "user %r path %r was routed to %r whose agent was last seen %.0f s ago" % (op["user"], path, got, [b["age_s"] for b in cands if b["id"] == got][0]), rp))
    return res
