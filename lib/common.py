"""Common machinery of the /verif check driver.

Pipeline of one check (see DESIGN.md section 3):
  srcfacts -> Coq build of the property's theorems -> Print Assumptions ->
  harness run against /repo's working tree -> model evaluation (cases.v, vm_compute)
  -> verdict (known findings) -> evidence file.
"""
import fcntl
import hashlib
import json
import os
import re
import shutil
import subprocess
import sys
import threading
import time

VERIF = os.path.dirname(os.path.dirname(os.path.abspath(__file__)))
REPO = os.environ.get("VERIF_REPO", "/repo")
COQ = os.path.join(VERIF, "coq")
HARNESS = os.path.join(VERIF, "harness")
BIN = os.path.join(VERIF, "bin")
WORK = os.path.join(VERIF, "work")
GOENV = dict(os.environ, GOFLAGS="-mod=mod", GOPROXY="off", GOSUMDB="off", GOTOOLCHAIN="local",
             CGO_ENABLED=os.environ.get("CGO_ENABLED", "1"))

HYGIENE_RE = re.compile(r"\b(Admitted|admit|Axiom|Parameter|Conjecture|bypass_check|Unset Guard|type-in-type|impredicative-set|Admit Obligations)\b")


def log(*a):
    print(*a, file=sys.stderr, flush=True)


class Lock:
    """flock around a shared directory (coq build, go build of a target)."""

    def __init__(self, name):
        os.makedirs(WORK, exist_ok=True)
        self.path = os.path.join(WORK, name + ".lock")

    def __enter__(self):
        self.f = open(self.path, "w")
        fcntl.flock(self.f, fcntl.LOCK_EX)
        return self

    def __exit__(self, *a):
        fcntl.flock(self.f, fcntl.LOCK_UN)
        self.f.close()


def default_signals():
    """preexec_fn: give the child the default disposition for SIGINT/SIGTERM/SIGQUIT.  A check started
    from a background job of a non-interactive shell inherits SIGINT and SIGQUIT as ignored, and an
    ignored signal stays ignored across exec (a Go program then ignores it until it calls signal.Notify)."""
    import signal
    for sg in (signal.SIGINT, signal.SIGTERM, signal.SIGQUIT):
        signal.signal(sg, signal.SIG_DFL)


def run(cmd, cwd=None, env=None, timeout=1800, check=False, stdin=None, preexec_fn=None):
    t0 = time.time()
    try:
        p = subprocess.run(cmd, cwd=cwd, env=env, timeout=timeout, stdout=subprocess.PIPE, stderr=subprocess.STDOUT,
                           input=stdin, text=True, errors="replace", preexec_fn=preexec_fn)
        out, rc = p.stdout, p.returncode
    except subprocess.TimeoutExpired as e:
        out = (e.stdout or b"")
        if isinstance(out, bytes):
            out = out.decode("utf-8", "replace")
        out += "\n[verif] TIMEOUT after %ss" % timeout
        rc = 124
    if check and rc != 0:
        raise RuntimeError("command failed (%s): %s\n%s" % (rc, cmd, out[-4000:]))
    return rc, out, time.time() - t0


# ---------------------------------------------------------------- srcfacts

def ensure_tool(name, pkg):
    """(Re)build one of our own Go tools into /verif/bin (cheap when cached)."""
    os.makedirs(BIN, exist_ok=True)
    with Lock("gobuild-" + name):
        rc, out, _ = run(["go", "build", "-o", os.path.join(BIN, name), pkg], cwd=HARNESS, env=GOENV, timeout=900)
    if rc != 0:
        raise RuntimeError("cannot build %s: %s" % (name, out[-3000:]))
    return os.path.join(BIN, name)


def run_srcfacts(workdir):
    tool = ensure_tool("srcfacts", "./cmd/srcfacts")
    js = os.path.join(workdir, "srcfacts.json")
    with Lock("coq"):
        rc, out, _ = run([tool, "-repo", REPO, "-out", os.path.join(COQ, "theories", "Gen"), "-json", js])
    if rc != 0:
        raise RuntimeError("srcfacts failed: " + out)
    return json.load(open(js))


# ---------------------------------------------------------------- Coq

def coq_make(targets, timeout=1500):
    """Full .vo build (never -vos) of the given targets; returns (ok, output)."""
    with Lock("coq"):
        if not os.path.exists(os.path.join(COQ, "Makefile")) or \
                os.path.getmtime(os.path.join(COQ, "Makefile")) < os.path.getmtime(os.path.join(COQ, "_CoqProject")):
            run(["coq_makefile", "-f", "_CoqProject", "-o", "Makefile"], cwd=COQ, check=True)
        rc, out, dt = run(["timeout", str(timeout), "make", "-j16"] + targets, cwd=COQ, timeout=timeout + 30)
    return rc == 0, out, dt


def coqchk(module, timeout=2400):
    """Re-check the compiled module and everything it depends on with the independent checker;
    returns dict(ok, axioms, seconds, summary)."""
    with Lock("coq"):
        rc, out, dt = run(["timeout", str(timeout), "coqchk", "-silent", "-o", "-Q", "theories", "IP", "IP." + module], cwd=COQ, timeout=timeout + 30)
    summ = out[out.find("CONTEXT SUMMARY"):] if "CONTEXT SUMMARY" in out else out[-1500:]
    axioms = None
    m = re.search(r"\* Axioms:(.*?)\n\s*\n\* Constants/Inductives relying on type-in-type", summ, re.S)
    if m:
        txt = m.group(1).strip()
        axioms = [] if txt == "<none>" else [l.strip() for l in txt.splitlines() if l.strip()]
    clean = rc == 0 and all(("relying on %s: <none>" % k) in re.sub(r"\s+", " ", summ) for k in ("type-in-type", "unsafe (co)fixpoints")) and "positivity is assumed: <none>" in re.sub(r"\s+", " ", summ)
    return {"ok": bool(clean), "rc": rc, "axioms": axioms, "seconds": round(dt, 1), "summary": re.sub(r"\n\s*\n", "\n", summ)[:1500]}


def theorems_of(props_file):
    src = open(os.path.join(COQ, "theories", props_file)).read()
    return re.findall(r"^\s*Theorem\s+([A-Za-z0-9_']+)", src, re.M)


def print_assumptions(module, names, workdir):
    """Ask the kernel for the axioms each theorem depends on. Returns {name: text} or None on failure."""
    v = os.path.join(workdir, "Assume.v")
    with open(v, "w") as f:
        f.write("From IP Require Import %s.\n" % module)
        for n in names:
            f.write('Goal True. idtac "@@BEGIN %s". Abort.\nPrint Assumptions %s.\n' % (n, n))
        f.write('Goal True. idtac "@@END". Abort.\n')
    with Lock("coq"):
        rc, out, _ = run(["timeout", "300", "coqc", "-Q", os.path.join(COQ, "theories"), "IP", "Assume.v"], cwd=workdir)
    if rc != 0:
        return None, out
    res = {}
    cur = None
    for line in out.splitlines():
        m = re.match(r"@@BEGIN (\S+)", line)
        if m:
            cur = m.group(1)
            res[cur] = ""
            continue
        if line.startswith("@@END"):
            cur = None
            continue
        if cur:
            res[cur] += line.strip() + " "
    return {k: v.strip() for k, v in res.items()}, out


def hygiene():
    bad = []
    for root, _, files in os.walk(os.path.join(COQ, "theories")):
        for fn in files:
            if not fn.endswith(".v"):
                continue
            p = os.path.join(root, fn)
            for i, line in enumerate(open(p, errors="replace"), 1):
                code = re.sub(r"\(\*.*?\*\)", "", line)
                if HYGIENE_RE.search(code):
                    bad.append("%s:%d: %s" % (os.path.relpath(p, VERIF), i, line.strip()))
    return bad


def first_coq_error(out):
    m = re.search(r'File "([^"]+)", line (\d+), characters [^\n]*\n(Error:.*?)(?:\n\n|\nmake|\Z)', out, re.S)
    if not m:
        return None
    return {"file": m.group(1), "line": int(m.group(2)), "error": " ".join(m.group(3).split())[:600]}


def theorem_at(file, line):
    """Name of the Theorem/Lemma enclosing a line of a .v file."""
    try:
        src = open(os.path.join(COQ, file) if not os.path.isabs(file) else file).read().splitlines()
    except OSError:
        return None
    for i in range(min(line, len(src)) - 1, -1, -1):
        m = re.match(r"\s*(Theorem|Lemma|Example|Corollary|Definition|Fixpoint)\s+([A-Za-z0-9_']+)", src[i])
        if m:
            return m.group(2)
    return None


# ---- Coq literals

def zlit(n):
    n = int(n)
    return "(%d)" % n if n < 0 else "%d" % n


def blit(b):
    return "true" if b else "false"


def slit(s):
    """Coq string literal for an ASCII/byte string (non-printables via ascii codes are avoided: callers hex-encode)."""
    return '"' + s.replace('"', '""') + '"%string'


def llit(items):
    return "[" + "; ".join(items) + "]"


def optlit(x, f):
    return "None" if x is None else "(Some %s)" % f(x)


def eval_cases(workdir, name, body, result_ident="verif_result", timeout=900):
    """Write a cases file, compile it (vm_compute inside) and return the printed result text.

    `body` must define `result_ident`; it is printed between markers."""
    v = os.path.join(workdir, name + ".v")
    with open(v, "w") as f:
        f.write(body)
        f.write('\nGoal True. idtac "@@RESULT-BEGIN". Abort.\nPrint %s.\nGoal True. idtac "@@RESULT-END". Abort.\n' % result_ident)
    with Lock("coq"):
        rc, out, dt = run(["timeout", str(timeout), "coqc", "-Q", os.path.join(COQ, "theories"), "IP", name + ".v"],
                          cwd=workdir, timeout=timeout + 30)
    if rc != 0:
        return None, out, dt
    m = re.search(r"@@RESULT-BEGIN\s*(.*?)@@RESULT-END", out, re.S)
    if not m:
        return None, out, dt
    txt = " ".join(m.group(1).split())
    return txt, out, dt


def eval_bool_items(workdir, name, header, items, shard=1500, timeout=900):
    """items: Coq terms of type bool.  Evaluates them in shards (one huge list literal overflows coqc's stack or memory) and
    returns (indices of the items that are false, total coqc seconds), or (None, coqc output) if a shard does not compile."""
    bad, total = [], 0.0
    for s0 in range(0, max(len(items), 1), shard):
        body = "\n".join(list(header) + ["Definition oks : list bool := " + llit(items[s0:s0 + shard]) + ".",
                                         "Definition verif_result : list Z := Eval vm_compute in (bad_indices (fun b : bool => b) 0%Z oks)."])
        txt, out, dt = eval_cases(workdir, "%s_%d" % (name, s0), body, timeout=timeout)
        total += dt
        if txt is None:
            return None, out
        bad += [s0 + v for v in parse_z_list(txt)]
    return bad, total


def eval_code_items(workdir, name, header, items, shard=500, timeout=1500):
    """items: Coq terms of type Z (0 = agrees).  Evaluated in shards; returns ([(index, code)] for the non-zero ones, coqc seconds) or (None, output)."""
    bad, total = [], 0.0
    for s0 in range(0, max(len(items), 1), shard):
        body = "\n".join(list(header) + ["Definition codes : list Z := " + llit(items[s0:s0 + shard]) + ".",
                                         "Definition verif_result : list Z := Eval vm_compute in (map (fun p => fst p * 1000 + snd p)%Z (nonzero_indices 0%Z codes))."])
        txt, out, dt = eval_cases(workdir, "%s_%d" % (name, s0), body, timeout=timeout)
        total += dt
        if txt is None:
            return None, out
        bad += [(s0 + v // 1000, v % 1000) for v in parse_z_list(txt)]
    return bad, total


def parse_z_list(txt):
    """Parse `name = [a; b; c] : list Z` (also with %Z suffixes / parentheses)."""
    m = re.search(r"=\s*\[(.*?)\]\s*:", txt, re.S)
    if not m:
        m = re.search(r"=\s*(nil|\[\s*\])", txt)
        if m:
            return []
        raise ValueError("cannot parse Coq list: " + txt[:300])
    inner = m.group(1).strip()
    if not inner:
        return []
    out = []
    for part in inner.split(";"):
        part = part.replace("%Z", "").replace("%N", "").replace("%nat", "").replace("(", "").replace(")", "").strip()
        out.append(int(part))
    return out


# ---------------------------------------------------------------- Go harness

def overlay_json(workdir, mapping):
    """mapping: {repo-relative target file: /verif/harness/overlay/... source}"""
    rep = {os.path.join(REPO, k): os.path.join(HARNESS, "overlay", v) for k, v in mapping.items()}
    p = os.path.join(workdir, "overlay.json")
    tmp = "%s.%d.%d" % (p, os.getpid(), threading.get_ident())
    with open(tmp, "w") as f:
        json.dump({"Replace": rep}, f, indent=1)
    os.replace(tmp, p)   # atomic: two harness runs of one check may start side by side
    return p


def go_test_overlay(workdir, pkg, run_re, mapping, out_name, seed, tier, race=False, timeout=1500, extra_env=None):
    """Run injected in-package tests of ours inside a /repo package (no change to /repo)."""
    ov = overlay_json(workdir, mapping)
    outp = os.path.join(workdir, out_name)
    if os.path.exists(outp):
        os.remove(outp)
    env = dict(GOENV, VERIF_OUT=outp, VERIF_SEED=str(seed), VERIF_TIER=tier, VERIF_WORK=workdir)
    if extra_env:
        env.update(extra_env)
    cmd = ["go", "test", "-tags", "verif", "-overlay", ov, "-count=1", "-vet=off", "-timeout", "%ds" % timeout, "-run", run_re]
    if race:
        cmd.append("-race")
    cmd.append(pkg)
    rc, out, dt = run(cmd, cwd=REPO, env=env, timeout=timeout + 60)
    return rc, out, outp, dt


def panic_excerpt(out):
    """The part of a go test output that shows a panic or fatal runtime error of the code under test (None if there is none)."""
    m = re.search(r"^(panic: |fatal error: )", out, re.M)
    if not m:
        return None
    return out[max(0, m.start() - 300):m.start() + 2500]


def read_jsonl(path):
    rows = []
    if not os.path.exists(path):
        return rows
    for line in open(path, errors="replace"):
        line = line.strip()
        if line:
            try:
                rows.append(json.loads(line))
            except ValueError:
                pass
    return rows


def build_repo_binary(pkgdir, outpath, race=False, tags=None, timeout=900):
    cmd = ["go", "build", "-o", outpath]
    if race:
        cmd.append("-race")
    if tags:
        cmd += ["-tags", tags]
    cmd.append("./" + pkgdir)
    with Lock("gobuild-repo-" + pkgdir.replace("/", "_") + ("-race" if race else "")):
        rc, out, dt = run(cmd, cwd=REPO, env=GOENV, timeout=timeout)
    return rc == 0, out, dt


# ---------------------------------------------------------------- findings / verdict / evidence

def load_known_findings():
    p = os.path.join(VERIF, "known_findings.json")
    if not os.path.exists(p):
        return []
    return json.load(open(p)).get("findings", [])


def case_hash(obj):
    return hashlib.sha256(json.dumps(obj, sort_keys=True).encode()).hexdigest()[:16]


class Verdict:
    """Collects violations; prints VIOLATION / KNOWN-FINDING lines; decides the exit status."""

    def __init__(self, pid):
        self.pid = pid
        self.violations = []      # dicts: signature, what, replay(dict), found_input(bool)
        self.known_printed = []
        self.notes = []

    def violation(self, signature, what, replay, found_input=True):
        self.violations.append({"signature": signature, "what": what, "replay": replay, "found_input": found_input})

    def finish(self):
        """Returns (exit_code, n_unlisted). Writes replay files, prints lines."""
        known = {f["signature"]: f for f in load_known_findings() if f.get("property") == self.pid and f.get("status") == "known"}
        rdir = os.path.join(VERIF, "replays", self.pid)
        os.makedirs(rdir, exist_ok=True)
        seen_known = set()
        unlisted = 0
        by_sig = {}
        for v in self.violations:
            by_sig.setdefault(v["signature"], []).append(v)
        for sig, vs in by_sig.items():
            v = vs[0]
            if sig in known:
                if sig not in seen_known:
                    seen_known.add(sig)
                    print("KNOWN-FINDING: property=%s %s [%s] (%d occurrence(s) this run)" % (self.pid, known[sig].get("what", v["what"]), sig, len(vs)), flush=True)
                continue
            unlisted += 1
            fn = os.path.join(rdir, "%s-%s.json" % (re.sub(r"[^A-Za-z0-9_.-]", "_", sig)[:60], case_hash(v["replay"])))
            rp = dict(v["replay"])
            rp.update({"property": self.pid, "signature": sig, "what": v["what"], "occurrences": len(vs)})
            json.dump(rp, open(fn, "w"), indent=1, sort_keys=True, default=str)
            tail = "" if v["found_input"] else " no-failing-input-found"
            print("VIOLATION property=%s replay=%s%s" % (self.pid, fn, tail), flush=True)
            log("  -> %s: %s" % (sig, v["what"]))
        for sig, f in known.items():
            if sig not in seen_known and f.get("expect_every_run", True):
                print("STALE-FINDING: property=%s %s did not reproduce in this run" % (self.pid, sig), flush=True)
        self.known_printed = sorted(seen_known)
        return (1 if unlisted else 0), unlisted


def write_evidence(pid, tier, seed, coverage, assumptions, wall_s, violations, level="proof"):
    os.makedirs(os.path.join(VERIF, "evidence"), exist_ok=True)
    ev = {"property_id": pid, "tier": tier, "seed": int(seed), "level": level, "coverage": coverage,
          "assumptions": assumptions, "wall_s": round(wall_s, 2), "violations": int(violations)}
    p = os.path.join(VERIF, "evidence", pid + ".json")
    tmp = p + ".tmp"
    json.dump(ev, open(tmp, "w"), indent=1, sort_keys=True, default=str)
    os.replace(tmp, p)
    return p


KERNEL_TB = [
    "Coq 8.16.1 kernel (coqc, full .vo build; coqchk in the thorough tier); vm_compute used, native_compute not used",
    "our translator harness/cmd/srcfacts (go/parser constant evaluation and table extraction) producing Gen/SrcFacts_*.v",
    "our correspondence harness (Go test files injected with go test -overlay / black-box binaries), its generators, canonicalisation and comparison",
    "Go toolchain 1.23 and its race detector; OS scheduler, sockets and clock",
]
