"""Generic per-property check flow (DESIGN.md section 3)."""
import json
import os
import shutil
import sys
import time
import traceback

from . import common as C


class Ctx:
    def __init__(self, pid, tier, seed, replay=None):
        self.pid, self.tier, self.seed, self.replay = pid, tier, seed, replay
        self.work = os.path.join(C.WORK, pid)
        shutil.rmtree(self.work, ignore_errors=True)
        os.makedirs(self.work, exist_ok=True)
        self.facts = {}
        self.notes = []

    @property
    def thorough(self):
        return self.tier == "thorough"


class Prop:
    pid = None
    props_file = None          # e.g. "Props/C08.v"
    model_targets = []         # .vo files of the executable model (no proofs inside)
    assumptions = []           # what the check assumes / models rather than verifies
    partial_note = None

    # -- to be provided by subclasses
    def harness(self, ctx):
        """Drive the implementation built from /repo's working tree. Returns an observation dict."""
        raise NotImplementedError

    def oracle(self, ctx, obs):
        """Property evaluated directly on implementation observations: list of (signature, what, replay)."""
        return []

    def model_check(self, ctx, obs):
        """Evaluate the Coq model on the recorded cases. Returns (mismatches, n_cases, info)
        where mismatches is a list of (name_of_correspondence, what, replay)."""
        return [], 0, {}

    def coverage(self, ctx, obs):
        return {}

    def search(self, ctx, obs, broken):
        """Extra search for a concrete failing input after a proof/correspondence break. Same result type as oracle."""
        return []

    @property
    def module(self):
        return self.props_file[:-2].replace("/", ".")

    @property
    def coq_targets(self):
        return ["theories/" + self.props_file[:-2] + ".vo"]


def run_check(prop, tier, seed, replay=None):
    t0 = time.time()
    pid = prop.pid
    ctx = Ctx(pid, tier, seed, replay)
    V = C.Verdict(pid)
    broken = []   # names of theorems / correspondences that no longer check
    cov = {}
    theorems = C.theorems_of(prop.props_file)
    discharged = 0
    axioms = {}
    try:
        ctx.facts = C.run_srcfacts(ctx.work)
        missing = []
        for comp, d in ctx.facts.items():
            if isinstance(d, dict):
                missing += ["%s.%s" % (comp, m) for m in (d.get("missing") or [])]
        ok, out, dt_build = C.coq_make(prop.coq_targets + list(prop.model_targets))
        model_ok = ok
        if not ok:
            err = C.first_coq_error(out) or {"file": "?", "line": 0, "error": out[-800:]}
            thm = C.theorem_at(err["file"], err["line"]) if err.get("file") != "?" else None
            broken.append({"kind": "proof-obligation", "name": thm or err["file"], "detail": err})
            C.log("[%s] Coq build failed at %s:%s (%s): %s" % (pid, err["file"], err["line"], thm, err["error"]))
            if prop.model_targets:
                model_ok, out2, _ = C.coq_make(prop.model_targets)
                if not model_ok:
                    C.log("[%s] model itself does not build: %s" % (pid, out2[-500:]))
        else:
            axioms, aout = C.print_assumptions(prop.module, theorems, ctx.work)
            if axioms is None:
                broken.append({"kind": "proof-obligation", "name": "Print Assumptions", "detail": aout[-500:]})
                axioms = {}
            discharged = len([t for t in theorems if t in axioms])
            if tier == "thorough":
                chk = C.coqchk(prop.module)
                cov["coqchk"] = chk
                C.log("[%s] coqchk: ok=%s axioms=%s (%.0fs)" % (pid, chk["ok"], chk["axioms"], chk["seconds"]))
                if not chk["ok"] or chk["axioms"]:
                    broken.append({"kind": "proof-obligation", "name": "coqchk " + prop.module, "detail": chk["summary"][-800:]})
        bad = C.hygiene()
        if bad:
            broken.append({"kind": "hygiene", "name": "forbidden construct in the development", "detail": bad[:10]})
        obs = prop.harness(ctx)
        concrete = list(prop.oracle(ctx, obs))
        mism, n_model_cases, minfo = ([], 0, {})
        if model_ok:
            mism, n_model_cases, minfo = prop.model_check(ctx, obs)
            for name, what, rp in mism:
                broken.append({"kind": "correspondence", "name": name, "detail": what, "case": rp})
        else:
            ctx.notes.append("model did not build; correspondence not evaluated")
        known_sigs = {f["signature"] for f in C.load_known_findings() if f.get("property") == pid and f.get("status") == "known"}
        # a violation that is only a listed known finding does not explain a broken proof or correspondence
        fresh = [c for c in concrete if c[0] not in known_sigs]
        if broken and not fresh:
            concrete += list(prop.search(ctx, obs, broken))
            fresh = [c for c in concrete if c[0] not in known_sigs]
        for sig, what, rp in concrete:
            V.violation(sig, what, rp, found_input=True)
        if broken and not fresh:
            b = broken[0]
            V.violation("unproved:" + str(b["name"]),
                        "%s %s no longer checks and no failing input was found" % (b["kind"], b["name"]),
                        {"broken": broken[:5], "seed": seed, "tier": tier}, found_input=False)
        keep = {k: v for k, v in cov.items() if k == "coqchk"}
        cov = prop.coverage(ctx, obs) or {}
        cov.update(keep)
        cov.update({
            "obligations": len(theorems),
            "discharged": discharged,
            "theorems": theorems,
            "axioms_per_theorem": axioms,
            "checker_cmd": "make -C coq %s (coqc 8.16.1, full .vo) ; coqc Assume.v (Print Assumptions) ; coqc cases.v (vm_compute of the model on the harness's cases)%s" % (" ".join(prop.coq_targets), " ; coqchk -silent -o IP.%s" % prop.module if tier == "thorough" else ""),
            "trusted_base": C.KERNEL_TB + list(prop.assumptions),
            "traces_validated_against_impl": n_model_cases,
            "model_eval": minfo,
            "srcfacts_missing": missing,
            "broken": [{"kind": b["kind"], "name": b["name"]} for b in broken],
            "notes": ctx.notes,
        })
        if prop.partial_note:
            cov["partial"] = prop.partial_note
    except Exception as e:  # machinery failure: never silently pass
        traceback.print_exc()
        V.violation("machinery-error", "the check itself failed: %r" % (e,), {"error": repr(e), "traceback": traceback.format_exc()[-3000:]}, found_input=False)
        cov.setdefault("obligations", len(theorems))
        cov.setdefault("discharged", discharged)
        cov.setdefault("checker_cmd", "make -C coq")
        cov.setdefault("trusted_base", C.KERNEL_TB)
    rc, unlisted = V.finish()
    cov["known_findings_reproduced"] = V.known_printed
    C.write_evidence(pid, tier, seed, cov, list(prop.assumptions), time.time() - t0, unlisted)
    C.log("[%s] %s tier done in %.1fs: %d theorem(s) %d discharged, %d violation(s) (%d unlisted)" % (
        pid, tier, time.time() - t0, len(theorems), discharged, len(V.violations), unlisted))
    return rc
