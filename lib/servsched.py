"""Server schedule harness (real newProxy() + scripted agent + N clients): shared by C01 and C04."""
import collections
import re

from . import common as C

OVERLAY = {"server/zz_verif_common_test.go": "server/verif_common_test.go",
           "server/zz_verif_sched_test.go": "server/verif_sched_test.go"}


def run(ctx, race, name="sched.jsonl"):
    rc, out, p, dt = C.go_test_overlay(ctx.work, "./server/", "TestVerifServer(Schedules|IDs)$", OVERLAY, name, ctx.seed, ctx.tier,
                                       race=race, timeout=3000 if ctx.thorough else 900)
    allrows = C.read_jsonl(p)
    rows = [r for r in allrows if r.get("kind") == "schedule"]
    ids = [r for r in allrows if r.get("kind") == "ids"]
    for r in rows:
        r["events"] = r.get("events") or []
        r["results"] = r.get("results") or []
    races = race_reports(out)
    crash = C.panic_excerpt(out) if rc != 0 else None
    if (not rows and not crash) or (rc != 0 and not races and not crash):
        raise RuntimeError("server schedule harness did not run: rc=%s\n%s" % (rc, out[-2500:]))
    return {"schedules": rows, "races": races, "race": race, "wall_s": dt, "ids": ids, "crash": crash}


def oracle_crash(obs):
    """The proxy (newProxy() run in-process by the schedule harness) ended the process with a panic / fatal error: every request in flight is lost."""
    if not obs.get("crash"):
        return []
    m = re.search(r"(panic: [^\n]*|fatal error: [^\n]*)", obs["crash"])
    frames = re.findall(r"github.com/google/inverting-proxy/[^\n(]*\([^\n]*\n\t([^\n ]*)", obs["crash"])
    return [("proxy-crashed", "the proxy ended the process while serving a schedule of concurrent clients (some of which hang up in the middle of a response): %s%s"
             % (m.group(1) if m else "see excerpt", (" at " + frames[0]) if frames else ""),
             {"driver": "go test TestVerifServerSchedules (real newProxy(), scripted agent, N concurrent clients)", "schedules_completed_before_the_crash": len(obs.get("schedules") or []),
              "output_excerpt": obs["crash"]})]


def oracle_ids(obs):
    res = []
    for r in obs.get("ids") or []:
        rp = {"driver": "TestVerifServerIDs: %d proxy instances created one after the other, %d IDs drawn from each" % (r["instances"], r["per_instance"]), "observed": r}
        if r["repeated_within_an_instance"]:
            res.append(("request-id-repeated:within-one-proxy", "%d request IDs were drawn twice by one proxy instance" % r["repeated_within_an_instance"], rp))
        if r["repeated_across_instances"]:
            res.append(("request-id-repeated:across-proxy-instances", "%d request IDs drawn by one proxy instance had been drawn by an earlier instance (a restarted proxy hands an agent IDs it has already seen, or receives uploads meant for its predecessor's requests)" % r["repeated_across_instances"], rp))
    return res


def race_reports(out):
    """[(signature, text)] for each DATA RACE block; signature = the top-most repository
    function of each of the two conflicting accesses."""
    reps = []
    fn_re = re.compile(r"github\.com/google/inverting-proxy/[\w/.\-]*?\.(?:\(\*?(\w+)\)\.)?(\w+)(?:\.func\d+|\.gowrap\d+)*\(\)")
    for blk in re.findall(r"WARNING: DATA RACE.*?={18}", out, re.S):
        tops = []
        # sections: "Read at" / "Write at" / "Previous read at" / "Previous write at" ... up to the first "Goroutine"
        body = blk.split("\nGoroutine ")[0]
        for sec in re.split(r"\n(?=(?:Previous )?(?:[Rr]ead|[Ww]rite|Atomic) (?:at|of))", body):
            for recv, fn in fn_re.findall(sec):
                if fn.startswith("verif") or fn.startswith("TestVerif") or (recv or "").startswith("verif"):
                    continue
                tops.append((recv + "." if recv else "") + fn)
                break
        names = sorted(set(tops))
        reps.append(("data-race:" + "+".join(names), blk[:3500]))
    return reps


def parse_resp(tok):
    m = re.match(r"R\|(.*)\|(\d+)$", tok or "")
    return (m.group(1), int(m.group(2))) if m else (None, None)


def oracle_correlation(sched):
    """C01 evaluated directly on what clients received. Yields (signature, what, replay)."""
    res = []
    base = {"driver": "TestVerifServerSchedules (newProxy() + scripted agent)", "schedule_index": sched["index"],
            "clients": sched["clients"], "pollers": sched["pollers"]}
    seen_resp = {}
    # an upload the scripted agent itself gave up on (its own time limit, status -1) excuses the client it was for
    gave_up = {parse_resp(e.get("resp"))[0] for e in sched["events"] if e["kind"] == "post" and e.get("status") == -1}
    for r in sched["results"]:
        if r["tok"] in gave_up:
            continue
        rp = dict(base, client=r, events=[e for e in sched["events"] if e.get("tok") == r["tok"] or (e.get("resp") or "").startswith("R|" + r["tok"] + "|")][:12])
        if r.get("err"):
            if not r.get("canceled"):
                res.append(("client-no-response", "client %d got no response: %s" % (r["c"], r["err"]), rp))
            continue
        tok, nonce = parse_resp(r["resp_hdr"])
        if r["status"] != 200 or tok is None:
            res.append(("client-bad-response", "client %d got status %s header %r" % (r["c"], r["status"], r["resp_hdr"]), rp))
            continue
        if tok != r["tok"]:
            res.append(("crossed-response", "client %d (token %s) received the response produced for token %s" % (r["c"], r["tok"], tok), rp))
        if not r["body_ok"] or r["body_tok"] != r["resp_hdr"] or r["trailer"] != r["resp_hdr"]:
            res.append(("mixed-response-parts", "client %d: header/body/trailer do not belong to one response (hdr %r body %r ok=%s trailer %r)" % (
                r["c"], r["resp_hdr"], r["body_tok"], r["body_ok"], r["trailer"]), rp))
        if r.get("want_len", -1) >= 0 and abs(r["body_len"] - r["want_len"]) > 12:
            # (the nonce in the token line has one to a few digits; the planned length is computed with one)
            res.append(("response-body-cut", "client %d received %d body bytes of its own response, which has %d" % (r["c"], r["body_len"], r["want_len"]), rp))
        want_multi = ["first-" + r["resp_hdr"], "second-" + r["resp_hdr"], "a=" + r["resp_hdr"], "b=" + r["resp_hdr"]]
        if "multi" in r and (r.get("multi") or []) != want_multi:
            res.append(("response-header-lines-lost", "client %d: the response carried X-Verif-Multi and Set-Cookie on two lines each, the client received %s" % (r["c"], r.get("multi")), rp))
        if r["resp_hdr"] in seen_resp:
            res.append(("response-delivered-twice", "response %s delivered to clients %d and %d" % (r["resp_hdr"], seen_resp[r["resp_hdr"]], r["c"]), rp))
        seen_resp[r["resp_hdr"]] = r["c"]
    id_toks = collections.defaultdict(set)
    for e in sched["events"]:
        if e["kind"] == "fetch" and e.get("status") == 200:
            if e["tok"].startswith("!"):
                res.append(("fetch-mixed-request", "fetch of %s returned a request mixing several clients: %s" % (e["id"][:12], e["tok"]), dict(base, event=e)))
            id_toks[e["id"]].add(e["tok"])
    for i, toks in id_toks.items():
        if len(toks) > 1:
            res.append(("duplicate-request-id", "ID %s was given to %d different client requests" % (i[:12], len(toks)), dict(base, id=i, tokens=sorted(toks))))
    return res


def oracle_handoff(sched):
    """C04 (proxy part): each ID in exactly one pending-list reply."""
    res = []
    cnt = collections.Counter(e["id"] for e in sched["events"] if e["kind"] == "hand")
    for i, n in cnt.items():
        if n > 1:
            res.append(("id-handed-twice", "ID %s appeared in %d pending-list replies" % (i[:12], n),
                        {"driver": "TestVerifServerSchedules", "schedule_index": sched["index"], "pollers": sched["pollers"], "id": i,
                         "hand_events": [e for e in sched["events"] if e["kind"] == "hand" and e["id"] == i]}))
    handed = set(cnt)
    fetched_tok = {}
    for e in sched["events"]:
        if e["kind"] == "fetch" and e.get("status") == 200:
            fetched_tok[e["tok"]] = e["id"]
    for r in sched["results"]:
        if not r.get("canceled") and r["tok"] not in fetched_tok:
            res.append(("id-never-handed", "the request of client %d (of %d released together) was never fetched: its ID did not appear in any pending-list reply (%s)" % (
                r["c"], sched["clients"], "client got no response" if r.get("err") else "client completed"),
                {"driver": "TestVerifServerSchedules", "schedule_index": sched["index"], "clients": sched["clients"], "pollers": sched["pollers"], "client": r,
                 "reply_sizes": sorted(collections.Counter(e.get("batch", 0) for e in sched["events"] if e["kind"] == "hand").values(), reverse=True)[:5]}))
    return res


def to_model(sched):
    """Translate one schedule into (gen_list, trace labels (Coq text), recvs, info)."""
    tok_client = {r["tok"]: r["c"] for r in sched["results"]}
    idnum, gen, arrived = {}, [], {}
    first_tok = {}
    for e in sched["events"]:
        if e["kind"] == "fetch" and e.get("status") == 200 and e["id"] not in first_tok:
            first_tok[e["id"]] = e["tok"]

    def idz(i):
        if i not in idnum:
            idnum[i] = 100 + len(idnum)
        return idnum[i]

    labels = []
    unknown_c = [5000]
    for e in sched["events"]:
        i = idz(e["id"])
        if e["kind"] == "hand":
            if e["id"] not in arrived:
                tok = first_tok.get(e["id"])
                c = tok_client.get(tok)
                if c is None:
                    unknown_c[0] += 1
                    c = unknown_c[0]
                arrived[e["id"]] = c
                gen.append(i)
                labels.append("Arrive %d %d" % (c, c))
            labels.append("Hand %d %d %d" % (e["poller"], i, arrived[e["id"]]))
        elif e["kind"] == "fetch":
            if e.get("status") == 200:
                c = tok_client.get(e["tok"], -1)
                labels.append("Fetch %d (Some %s)" % (i, C.zlit(c)))
            else:
                labels.append("Fetch %d None" % i)
        elif e["kind"] == "post":
            tok, nonce = parse_resp(e["resp"])
            rz = tok_client.get(tok, 0) * 100000 + (nonce or 0)
            labels.append("Post %d %d %s" % (i, rz, C.blit(e.get("delivered", False))))
    recvs = []
    for r in sched["results"]:
        if not r.get("err") and r["status"] == 200:
            tok, nonce = parse_resp(r["resp_hdr"])
            recvs.append((r["c"], tok_client.get(tok, 0) * 100000 + (nonce or 0)))
    return gen, labels, recvs


CODES = {1: "the model cannot take the implementation's trace (an action was observed that the model's proxy cannot perform)",
         2: "monitor false: a delivered response and the fetches under its ID do not belong to the same client, or an ID/client was served twice",
         3: "request IDs are not pairwise distinct",
         4: "a client received a response the model did not deliver to it"}


def model_check(ctx, scheds, name):
    items = []
    for s in scheds:
        gen, labels, recvs = to_model(s)
        items.append("check_schedule %s %s %s" % (C.llit(C.zlit(g) for g in gen), C.llit(labels), C.llit("(%d, %d)" % cr for cr in recvs)))
    body = "\n".join(["From Coq Require Import ZArith List Bool.", "From IP Require Import Server.ProxyCore Server.ProxyCheck.", "Import ListNotations.", "Open Scope Z_scope.",
                      "Definition codes : list Z := " + C.llit(items) + ".",
                      "Definition verif_result : list Z := Eval vm_compute in (map (fun p => fst p * 10 + snd p) (nonzero_indices 0 codes))."])
    txt, out, dt = C.eval_cases(ctx.work, name, body)
    if txt is None:
        return [("cases (model evaluation)", "coqc failed: " + out[-600:], {})], 0, {"coqc_s": dt}
    mism = []
    for v in C.parse_z_list(txt):
        idx, code = v // 10, v % 10
        s = scheds[idx]
        mism.append(("ProxyCheck.check_schedule", "schedule %d: %s" % (s["index"], CODES.get(code, str(code))),
                     {"schedule_index": s["index"], "code": code, "events": s["events"][:60], "results": s["results"][:8]}))
    return mism, len(scheds), {"coqc_s": round(dt, 2), "traces": len(scheds), "labels": sum(len(s["events"]) for s in scheds)}


def relay_check(ctx, scheds, name):
    """Each exchange of a schedule whose client either was served to the end or hung up in the middle of its response, as a trace
    of Server/Relay.v; the model must accept it and end with what was observed (trailers delivered or not, the answer to the upload)."""
    items, rows = [], []
    for s in scheds:
        posts = collections.defaultdict(list)
        for e in s["events"]:
            if e["kind"] == "post" and (e.get("resp") or "").startswith("R|"):
                posts[parse_resp(e["resp"])[0]].append(e)
        for r in s["results"]:
            ps = posts.get(r["tok"]) or []
            if len(ps) != 1 or ps[0].get("status") not in (200, 500):
                continue    # duplicate posts, posts that timed out: the business of ProxyCore
            acked = ps[0]["status"] == 200
            if not r.get("err") and r.get("status") == 200:
                got = bool(r.get("trailer"))
                tr = "[Hand; Chunk; LastRead; Stored; WriterClose; ClientEOF; TrailersRead]" if acked else "[Hand; Chunk; UploadFail; WriterClose; ClientEOF; TrailersRead]"
                items.append("relay_obs %s (OComplete %s) (Some %s)" % (tr, C.blit(got), C.blit(acked)))
            elif (r.get("err") or "").startswith("aborted by the client"):
                tr = "[Hand; Chunk; ClientFail; LastRead; Stored; WriterClose]" if acked else "[Hand; Chunk; ClientFail; PipeWriteFail; WriterClose]"
                items.append("relay_obs %s OClientGone (Some %s)" % (tr, C.blit(acked)))
            else:
                continue
            rows.append((s, r, ps[0]))
    bad, dt = C.eval_code_items(ctx.work, name, ["From Coq Require Import ZArith List Bool.", "From IP Require Import Server.Relay Server.RelayCheck.", "Import ListNotations."], items, shard=2000)
    if bad is None:
        return [("cases (relay model evaluation)", "coqc failed: " + dt[-600:], {})], 0, {}
    what = {1: "the model has no such run", 2: "the model ends with another outcome for the client (trailers delivered / client gone)", 3: "the model gives another answer to the agent's upload", 4: "the run passes through a state in which both goroutines are at the trailer map"}
    mism = []
    for idx, code in bad:
        s, r, p = rows[idx]
        mism.append(("RelayCheck.relay_obs", "schedule %d, client %d: %s" % (s["index"], r["c"], what.get(code, str(code))), {"schedule_index": s["index"], "client": r, "post_event": p, "trace": items[idx]}))
    return mism, len(items), {"relay_exchanges": len(items), "relay_client_gone": sum(1 for i in items if "OClientGone" in i), "relay_coqc_s": round(dt, 2)}


def coverage(obs):
    scheds = obs["schedules"]
    hist = collections.Counter()
    nontrivial = set()
    for s in scheds:
        hist["clients:%s" % ("2-8" if s["clients"] <= 8 else "9-32" if s["clients"] <= 32 else "33-64")] += 1
        hist["pollers:%d" % s["pollers"]] += 1
        for e in s["events"]:
            hist["event:" + e["kind"] + (":delivered" if e.get("delivered") else "") + (":404" if e.get("status") == 404 else "")] += 1
        hist["cancelled_clients"] += sum(1 for r in s["results"] if r.get("canceled"))
        if s["clients"] >= 2:
            nontrivial.add(C.case_hash([s["clients"], s["pollers"], [(e["kind"], e.get("poller")) for e in s["events"]]]))
    return {"evaluations": sum(s["clients"] for s in scheds), "schedules": len(scheds), "distinct_nontrivial": len(nontrivial),
            "rule": "case = one schedule (N barrier-released clients, P concurrent pollers, scripted agent with permuted/delayed fetch+post, duplicate posts, posts for unknown IDs, client cancellations); distinct by hash of the observed event-kind sequence; non-trivial when at least 2 requests are in flight",
            "samples": [{"index": s["index"], "clients": s["clients"], "pollers": s["pollers"], "first_events": s["events"][:6], "first_result": s["results"][0]} for s in scheds[:2]],
            "input_distribution": dict(hist), "race_detector": obs["race"], "race_reports": len(obs["races"])}


def idle_poll_run(server_bin, idle_s=16.5):
    """Black box, the proxy binary itself (its main(), not newProxy()): a pending-list poll that has already waited `idle_s`
    seconds (its limit is 30 s) when a client request arrives must still be answered with that request's ID."""
    import http.client, json, socket, subprocess, threading, time
    s = socket.socket(); s.bind(("127.0.0.1", 0)); port = s.getsockname()[1]; s.close()
    proc = subprocess.Popen([server_bin, "-port", str(port)], stdout=subprocess.DEVNULL, stderr=subprocess.DEVNULL)
    res = {"kind": "idle-poll", "idle_s": idle_s}
    try:
        for _ in range(100):
            try:
                socket.create_connection(("127.0.0.1", port), timeout=0.2).close()
                break
            except OSError:
                time.sleep(0.05)
        out = {}

        def client():
            time.sleep(idle_s)
            out["client_sent_at"] = time.time()
            try:
                c = http.client.HTTPConnection("127.0.0.1", port, timeout=20)
                c.request("GET", "/late?x=1")
                r = c.getresponse()
                out["client_status"], out["client_body"] = r.status, r.read().decode(errors="replace")[:100]
            except Exception as e:     # noqa
                out["client_err"] = repr(e)
        th = threading.Thread(target=client)
        t0 = time.time()
        th.start()
        ids = []
        polls = 0
        # poll like the agent: one list call after the other; the first one is the long one
        while time.time() - t0 < idle_s + 8 and not ids:
            polls += 1
            try:
                c = http.client.HTTPConnection("127.0.0.1", port, timeout=40)
                c.request("GET", "/agent/pending", headers={"X-Inverting-Proxy-Backend-ID": "verif"})
                r = c.getresponse()
                body = r.read()
                res.setdefault("poll_statuses", []).append(r.status)
                if r.status == 200:
                    ids = json.loads(body or b"[]")
            except Exception as e:     # noqa
                res.setdefault("poll_errors", []).append(repr(e)[:120])
                time.sleep(0.2)
        res["polls"], res["ids_listed"], res["listed_after_s"] = polls, len(ids), round(time.time() - t0, 2)
        if ids:
            try:
                c = http.client.HTTPConnection("127.0.0.1", port, timeout=10)
                c.request("GET", "/agent/request", headers={"X-Inverting-Proxy-Backend-ID": "verif", "X-Inverting-Proxy-Request-ID": ids[0]})
                c.getresponse().read()
                c = http.client.HTTPConnection("127.0.0.1", port, timeout=10)
                c.request("POST", "/agent/response", body=b"HTTP/1.1 200 OK\r\nContent-Length: 4\r\n\r\nlate", headers={"X-Inverting-Proxy-Backend-ID": "verif", "X-Inverting-Proxy-Request-ID": ids[0]})
                c.getresponse().read()
            except Exception as e:     # noqa
                res["agent_err"] = repr(e)[:120]
        th.join(25)
        res.update(out)
        res.pop("client_sent_at", None)
    finally:
        proc.kill()
        proc.wait()
    return res
