(* Executable comparison for C15; no proofs. *)
From Coq Require Import List Arith Bool ZArith.
From IP Require Import Codec.Hex TcpBridge.Conn.
Import ListNotations.

Fixpoint nats_eqb (a b : list nat) : bool :=
  match a, b with [] , [] => true | x :: a', y :: b' => (x =? y) && nats_eqb a' b' | _, _ => false end.

(* observed Read results: 0 data (bytes), 1 decode error, 2 connection closed *)
Definition rres_eqb (m : rres) (o : nat * list nat) : bool :=
  match m, o with
  | RData bs, (0, d) => nats_eqb bs d
  | RErrDecode, (1, _) => true
  | RNoMore, (2, _) => true
  | _, _ => false
  end.

Fixpoint rres_list_eqb (m : list rres) (o : list (nat * list nat)) : bool :=
  match m, o with [], [] => true | x :: m', y :: o' => rres_eqb x y && rres_list_eqb m' o' | _, _ => false end.

Definition read_case_ok (frames : list frame) (sizes : list nat) (obs : list (nat * list nat)) : bool :=
  rres_list_eqb (conn_reads ([], frames) sizes) obs.

Definition write_case_ok (bs : list nat) (frame_chars : list nat) : bool :=
  match conn_write bs with FText p => nats_eqb p frame_chars | FOther => false end.
