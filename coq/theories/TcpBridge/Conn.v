(* Model of utils/tcpbridge/connection/connection.go: WebsocketNetConn.Read /
   Write, the routing decision of Handler, and the life-cycle of one bridged
   connection (two copy loops + WaitGroup).  No proofs here. *)
From Coq Require Import List Arith Bool String.
From IP Require Import Codec.Hex.
Import ListNotations.

(* a websocket message: text (with its payload characters) or anything else *)
Inductive frame := FText (payload : list nat) | FOther.

Inductive rres :=
| RData (bs : list nat)     (* Read returned these bytes (count > 0) *)
| RErrDecode                (* "failure decoding a websocket message" *)
| RNoMore.                  (* ReadMessage has nothing more (blocks / connection error) *)

(* refill: `for len(c.bufferedMsg) == 0 { ReadMessage ... }` *)
Fixpoint refill (frames : list frame) : option (list nat) * list frame * bool :=
  match frames with
  | [] => (None, [], false)
  | FOther :: r => refill r
  | FText p :: r =>
      match hex_decode p with
      | None => (None, r, true)                       (* decode error *)
      | Some [] => refill r                            (* empty message: loop again *)
      | Some bs => (Some bs, r, false)
      end
  end.

(* Read(bs) with len(bs) = n (n >= 1): state = (bufferedMsg, frames still to come) *)
Definition conn_read (st : list nat * list frame) (n : nat) : rres * (list nat * list frame) :=
  let '(buf, frames) := st in
  match buf with
  | _ :: _ => (RData (firstn n buf), (skipn n buf, frames))
  | [] =>
      match refill frames with
      | (Some bs, r, _) => (RData (firstn n bs), (skipn n bs, r))
      | (None, r, true) => (RErrDecode, ([], r))
      | (None, r, false) => (RNoMore, ([], r))
      end
  end.

Fixpoint conn_reads (st : list nat * list frame) (sizes : list nat) : list rres :=
  match sizes with
  | [] => []
  | n :: r => let '(res, st') := conn_read st n in
              match res with
              | RData _ => res :: conn_reads st' r
              | _ => [res]
              end
  end.

(* Write(bs): one text message carrying the hex encoding *)
Definition conn_write (bs : list nat) : frame := FText (hex_encode bs).

Fixpoint data_of (l : list rres) : list nat :=
  match l with RData bs :: r => bs ++ data_of r | _ => [] end.

(* Handler: bridge iff websocket upgrade on the streaming path *)
Definition routes_to_bridge (streaming_path : string) (is_upgrade : bool) (path : string) : bool :=
  is_upgrade && String.eqb path streaming_path.

(* ---- life-cycle of one bridged connection (C16) ----
   a: the connection towards the TCP peer, b: the websocket towards the other bridge half.
   copyAB reads a and writes b; copyBA reads b and writes a. *)
Record life := {
  a_open : bool; b_open : bool;            (* the bridge's own two connections *)
  a_peer_closed : bool; b_peer_closed : bool;   (* the remote ends have closed *)
  copy_ab : bool; copy_ba : bool;          (* the copy loops are still running *)
  handler_done : bool
}.
Definition life_init : life :=
  {| a_open := true; b_open := true; a_peer_closed := false; b_peer_closed := false; copy_ab := true; copy_ba := true; handler_done := false |}.

Inductive levent :=
| PeerACloses | PeerBCloses          (* environment *)
| CopyABEnds | CopyBAEnds            (* a copy loop observes EOF/error on its source and returns *)
| HandlerReturns.                    (* wg.Wait() returned; deferred Close of both connections *)

Section Life.
  Variable close_dest : bool.   (* the copy loop closes its destination when it ends (the repaired code) *)

  Definition lstep (s : life) (e : levent) : option life :=
    match e with
    | PeerACloses => Some {| a_open := a_open s; b_open := b_open s; a_peer_closed := true; b_peer_closed := b_peer_closed s; copy_ab := copy_ab s; copy_ba := copy_ba s; handler_done := handler_done s |}
    | PeerBCloses => Some {| a_open := a_open s; b_open := b_open s; a_peer_closed := a_peer_closed s; b_peer_closed := true; copy_ab := copy_ab s; copy_ba := copy_ba s; handler_done := handler_done s |}
    | CopyABEnds =>
        (* reading from a fails once the peer closed or we closed a ourselves *)
        if copy_ab s && (a_peer_closed s || negb (a_open s)) then
          Some {| a_open := a_open s; b_open := if close_dest then false else b_open s; a_peer_closed := a_peer_closed s; b_peer_closed := b_peer_closed s;
                  copy_ab := false; copy_ba := copy_ba s; handler_done := handler_done s |}
        else None
    | CopyBAEnds =>
        if copy_ba s && (b_peer_closed s || negb (b_open s)) then
          Some {| a_open := if close_dest then false else a_open s; b_open := b_open s; a_peer_closed := a_peer_closed s; b_peer_closed := b_peer_closed s;
                  copy_ab := copy_ab s; copy_ba := false; handler_done := handler_done s |}
        else None
    | HandlerReturns =>
        if negb (copy_ab s) && negb (copy_ba s) && negb (handler_done s) then
          Some {| a_open := false; b_open := false; a_peer_closed := a_peer_closed s; b_peer_closed := b_peer_closed s; copy_ab := false; copy_ba := false; handler_done := true |}
        else None
    end.

  Fixpoint lrun (s : life) (es : list levent) : option life :=
    match es with [] => Some s | e :: r => match lstep s e with Some s' => lrun s' r | None => None end end.

  (* no internal step (copy end / handler return) is enabled *)
  Definition quiescent (s : life) : bool :=
    match lstep s CopyABEnds, lstep s CopyBAEnds, lstep s HandlerReturns with
    | None, None, None => true
    | _, _, _ => false
    end.
End Life.

(* ---- several byte streams at once: one per (bridged connection, direction), numbered ---- *)
Definition mst := nat -> (list nat * list frame).
Definition m_init : mst := fun _ => ([], []).
Definition upd (m : mst) (k : nat) (v : list nat * list frame) : mst := fun j => if j =? k then v else m j.
Inductive mev :=
| MWrite (k : nat) (bs : list nat)   (* Write on the sending end of stream k *)
| MRead (k : nat) (n : nat).         (* Read with a buffer of n bytes on the receiving end of stream k *)

(* one event; a Read that finds nothing yet blocks and is represented by no output and no change *)
Definition mstep (m : mst) (e : mev) : mst * list (nat * list nat) :=
  match e with
  | MWrite k bs => (upd m k (fst (m k), snd (m k) ++ [conn_write bs]), [])
  | MRead k n => match conn_read (m k) n with
                 | (RData bs, st') => (upd m k st', [(k, bs)])
                 | _ => (m, [])
                 end
  end.
Fixpoint mtrace (m : mst) (es : list mev) : list (nat * list nat) :=
  match es with [] => [] | e :: r => let '(m', out) := mstep m e in out ++ mtrace m' r end.
(* bytes returned by the reads of stream k / bytes written to stream k *)
Fixpoint got (k : nat) (t : list (nat * list nat)) : list nat :=
  match t with [] => [] | (j, bs) :: r => if j =? k then bs ++ got k r else got k r end.
Fixpoint written (k : nat) (es : list mev) : list nat :=
  match es with [] => [] | MWrite j bs :: r => if j =? k then bs ++ written k r else written k r | _ :: r => written k r end.
Definition ev_ok (e : mev) : Prop :=
  match e with MWrite _ bs => Forall (fun b => b < 256) bs | MRead _ n => 1 <= n end.

