(* One bridged TCP connection end to end (C16): TCP client <-> tcp-bridge-frontend <=websocket=> tcp-bridge-backend
   <-> TCP server.  Each half is the life-cycle of TcpBridge/Conn.v (two copy loops that close their destination when
   their source ends, a handler that closes both connections when both loops are done), preceded by a dial phase:
     frontend half: `a` = the accepted client connection, `b` = its end of the websocket, dialled after the accept
                    (tcp-bridge-frontend main);  a failed dial closes the client connection (deferred conn.Close);
     backend half : exists once the frontend's dial succeeded (the upgrade), `b` = its end of the websocket, `a` = the
                    connection to the TCP server, dialled after the upgrade (connection.Handler); a failed dial closes
                    the websocket (deferred wsConn.Close).
   The two websocket ends are linked: a half can observe that the other half has closed its end (ELinkF / ELinkB).
   Environment events: the client / the server closes its connection.  No event models a deadline, a read limit or a
   socket option: that the code has none is a fact regenerated from the source (bridgeLimitCalls).  No proofs here. *)
From Coq Require Import List Bool Arith.
From IP Require Import TcpBridge.Conn.
Import ListNotations.

Inductive phase := HDial | HRun | HFailed.
Record half := { ph : phase; lf : life }.

Definition f_init : half :=
  {| ph := HDial; lf := {| a_open := true; b_open := false; a_peer_closed := false; b_peer_closed := false; copy_ab := false; copy_ba := false; handler_done := false |} |}.
Definition b_fresh : half :=
  {| ph := HDial; lf := {| a_open := false; b_open := true; a_peer_closed := false; b_peer_closed := false; copy_ab := false; copy_ba := false; handler_done := false |} |}.

Record sys := { fh : half; bh : option half }.
Definition sys_init : sys := {| fh := f_init; bh := None |}.

Inductive sevent :=
| EClientCloses | EServerCloses
| EFDialOk | EFDialFail | EBDialOk | EBDialFail
| EF (e : levent) | EB (e : levent)      (* internal steps of a running half *)
| ELinkF | ELinkB.                         (* a half notices that the other end of the websocket is closed *)

Definition is_internal (e : levent) : bool := match e with CopyABEnds | CopyBAEnds | HandlerReturns => true | _ => false end.
Definition is_env (e : sevent) : bool := match e with EClientCloses | EServerCloses => true | _ => false end.

Definition set_a_peer (l : life) : life :=
  {| a_open := a_open l; b_open := b_open l; a_peer_closed := true; b_peer_closed := b_peer_closed l; copy_ab := copy_ab l; copy_ba := copy_ba l; handler_done := handler_done l |}.
Definition set_b_peer (l : life) : life :=
  {| a_open := a_open l; b_open := b_open l; a_peer_closed := a_peer_closed l; b_peer_closed := true; copy_ab := copy_ab l; copy_ba := copy_ba l; handler_done := handler_done l |}.
(* the dial succeeded: the missing connection is open and both copy loops start *)
Definition started (l : life) : life :=
  {| a_open := true; b_open := true; a_peer_closed := a_peer_closed l; b_peer_closed := b_peer_closed l; copy_ab := true; copy_ba := true; handler_done := false |}.
(* the dial failed: the handler returns, its deferred Close runs on the one connection it has *)
Definition failed (l : life) : life :=
  {| a_open := false; b_open := false; a_peer_closed := a_peer_closed l; b_peer_closed := b_peer_closed l; copy_ab := false; copy_ba := false; handler_done := true |}.

Definition phase_eqb (p q : phase) : bool := match p, q with HDial, HDial | HRun, HRun | HFailed, HFailed => true | _, _ => false end.

Definition sstep (s : sys) (e : sevent) : option sys :=
  let f := fh s in
  match e with
  | EClientCloses => Some {| fh := {| ph := ph f; lf := set_a_peer (lf f) |}; bh := bh s |}
  | EServerCloses =>
      match bh s with
      | Some b => if phase_eqb (ph b) HRun then Some {| fh := f; bh := Some {| ph := HRun; lf := set_a_peer (lf b) |} |} else None
      | None => None
      end
  | EFDialOk => if phase_eqb (ph f) HDial then Some {| fh := {| ph := HRun; lf := started (lf f) |}; bh := Some b_fresh |} else None
  | EFDialFail => if phase_eqb (ph f) HDial then Some {| fh := {| ph := HFailed; lf := failed (lf f) |}; bh := None |} else None
  | EBDialOk =>
      match bh s with
      | Some b => if phase_eqb (ph b) HDial then Some {| fh := f; bh := Some {| ph := HRun; lf := started (lf b) |} |} else None
      | None => None
      end
  | EBDialFail =>
      match bh s with
      | Some b => if phase_eqb (ph b) HDial then Some {| fh := f; bh := Some {| ph := HFailed; lf := failed (lf b) |} |} else None
      | None => None
      end
  | EF ev =>
      if phase_eqb (ph f) HRun && is_internal ev then
        match lstep true (lf f) ev with Some l => Some {| fh := {| ph := HRun; lf := l |}; bh := bh s |} | None => None end
      else None
  | EB ev =>
      match bh s with
      | Some b =>
          if phase_eqb (ph b) HRun && is_internal ev then
            match lstep true (lf b) ev with Some l => Some {| fh := f; bh := Some {| ph := HRun; lf := l |} |} | None => None end
          else None
      | None => None
      end
  | ELinkF =>
      match bh s with
      | Some b => if phase_eqb (ph f) HRun && negb (b_open (lf b)) && negb (b_peer_closed (lf f))
                  then Some {| fh := {| ph := HRun; lf := set_b_peer (lf f) |}; bh := bh s |} else None
      | None => None
      end
  | ELinkB =>
      match bh s with
      | Some b => if phase_eqb (ph b) HRun && negb (b_open (lf f)) && negb (b_peer_closed (lf b))
                  then Some {| fh := f; bh := Some {| ph := HRun; lf := set_b_peer (lf b) |} |} else None
      | None => None
      end
  end.

Fixpoint srun (s : sys) (es : list sevent) : option sys :=
  match es with [] => Some s | e :: r => match sstep s e with Some s' => srun s' r | None => None end end.

(* every step the bridge can take on its own (everything except the peers' closes) *)
Definition own_events : list sevent :=
  [EFDialOk; EFDialFail; EBDialOk; EBDialFail; EF CopyABEnds; EF CopyBAEnds; EF HandlerReturns; EB CopyABEnds; EB CopyBAEnds; EB HandlerReturns; ELinkF; ELinkB].
Definition squiescent (s : sys) : bool := forallb (fun e => match sstep s e with None => true | Some _ => false end) own_events.

Definition half_closed (h : half) : bool := negb (a_open (lf h)) && negb (b_open (lf h)) && handler_done (lf h).
Definition all_closed (s : sys) : bool := half_closed (fh s) && match bh s with Some b => half_closed b | None => true end.

(* something has happened that must end the bridged connection *)
Definition triggered (s : sys) : bool :=
  a_peer_closed (lf (fh s)) || phase_eqb (ph (fh s)) HFailed ||
  match bh s with Some b => a_peer_closed (lf b) || phase_eqb (ph b) HFailed | None => false end.

(* work left, in own steps: decreases with every own step, never increases *)
Definition half_work (h : half) : nat :=
  match ph h with
  | HDial => 4
  | HRun => (if copy_ab (lf h) then 1 else 0) + (if copy_ba (lf h) then 1 else 0) + (if handler_done (lf h) then 0 else 1)
  | HFailed => 0
  end.
Definition link_work (h : half) : nat := match ph h with HFailed => 0 | _ => if b_peer_closed (lf h) then 0 else 1 end.
Definition work (s : sys) : nat :=
  half_work (fh s) + link_work (fh s) +
  match bh s with
  | Some b => half_work b + link_work b
  | None => match ph (fh s) with HDial => 5 | _ => 0 end
  end.

Fixpoint own_count (es : list sevent) : nat := match es with [] => 0 | e :: r => (if is_env e then 0 else 1) + own_count r end.
