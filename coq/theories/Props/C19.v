(* C19 — the App Engine proxy relays each request and its response intact.
   Statements only; proofs in Proofs/AppProofs.v and Proofs/BlobProofs.v. *)
From Coq Require Import ZArith String List Bool Lia.
From IP Require Import Gen.SrcFacts_App App.Route App.AppModel App.AppCheck Codec.BlobSplit Proofs.AppProofs Proofs.BlobProofs.
Import ListNotations.
Open Scope string_scope.
Open Scope list_scope.
Open Scope Z_scope.

Definition trace_now := trace fieldByteLimit cacheEntrySizeLimit backendTimeout shared_now cap_now sets_start_now
                              cron_front_admin_now login_required_now list_limit_now multi_limit_now.
Definition Inv_now := Inv backendTimeout shared_now.
Definition issued_now := issued backendTimeout shared_now.
Definition posted_now := posted backendTimeout shared_now.

(* after every history, everything stored has a provenance: each stored or cached request was issued by
   an end user under that ID and routed to that backend; each stored or cached response was posted by the
   authorised agent of a backend under the ID of a request routed to it *)
Theorem C19_provenance : forall ops, Inv_now (fst (trace_now init ops)) (snd (trace_now init ops)).
Proof. exact (inv_reachable _ _ _ _ _ _ _ _ _ _). Qed.
Print Assumptions C19_provenance.

(* the bytes an agent fetches under an ID are exactly the request issued under that ID *)
Theorem C19_fetch_exact : forall h s who b id fs u p s', Inv_now h s ->
  step_now s (OAFetch who b (RId id) fs) = (Fetched u p, s') -> exists get url, issued_now h b u id p get url.
Proof. exact (fetch_exact _ _ _ _ _ _ _ _ _ _). Qed.
Print Assumptions C19_fetch_exact.

(* the response a client receives is one posted under its own request's ID by an authorised agent *)
Theorem C19_deliver_exact : forall h s id p s', Inv_now h s -> step_now s (OUFinish id) = (Delivered p, s') ->
  exists w b', find_waiter id (waiting s) = Some w /\ posted_now h b' id p /\
               exists p0, issued_now h (w_backend w) (w_user w) id p0 (w_get w) (w_url w).
Proof. exact (deliver_exact _ _ _ _ _ _ _ _ _ _). Qed.
Print Assumptions C19_deliver_exact.

(* ... and, request IDs being unique, by the agent of the backend the request was routed to *)
Theorem C19_deliver_from_own_backend : forall h s id p s', NoDup (ids h) -> Inv_now h s ->
  step_now s (OUFinish id) = (Delivered p, s') ->
  exists w, find_waiter id (waiting s) = Some w /\ posted_now h (w_backend w) id p.
Proof. exact (deliver_from_own_backend _ _ _ _ _ _ _ _ _ _). Qed.
Print Assumptions C19_deliver_from_own_backend.

(* the one case in which a client is answered without its request being relayed: a GET served from the
   response cache gets a 200 response without Cache-Control that was delivered earlier to the same user for the same URL *)
Theorem C19_cached_exact : forall h s u raw get url path id pay fs p s', Inv_now h s ->
  step_now s (OUStart (Some u) raw get url path id pay fs) = (Delivered p, s') ->
  get = true /\ p_status p = 200 /\ p_cc p = false /\
  exists s0 id0 b p0, In (s0, OUFinish id0, Delivered p) h /\ issued_now h b u id0 p0 true url.
Proof. exact (cached_exact _ _ _ _ _ _ _ _ _ _). Qed.
Print Assumptions C19_cached_exact.

(* a completed request is never again listed as pending *)
Theorem C19_completed_never_listed : forall s who b id pay fs s1,
  step_now s (OARespond who b (RId id) pay fs) = (Status 200, s1) ->
  forall ops, Forall (fun o => ustart_id o <> Some id) ops ->
  forall s0 who' fs' l, In (s0, OAList who' b fs', Listed l) (fst (trace_now s1 ops)) -> ~ In id l.
Proof. exact (completed_never_listed _ _ _ _ _ _ _ _ _ _). Qed.
Print Assumptions C19_completed_never_listed.

(* storage errors never leave a call hanging: the error channel has room for both concurrent writers *)
Theorem C19_senders_fit : Forall2 Z.le postResponseConcurrentSenders responseHandlerChanCaps.
Proof. repeat constructor; vm_compute; discriminate. Qed.
Print Assumptions C19_senders_fit.

Theorem C19_no_hang : forall s o, fst (step_now s o) <> Hang.
Proof. intros s o. apply no_hang. vm_compute. discriminate. Qed.
Print Assumptions C19_no_hang.

(* sharpness: with a one-slot channel the call hangs when both store writes fail *)
Example C19_hang_with_one_slot :
  let b0 := {| bid := "b0"; buser := "a0"; euser := "u0"; prefixes := ["/"] |} in
  let adm := {| hdr_admin := true; oauth_admin := false |} in
  let p := {| p_tag := 7; p_len := 100; p_status := 0; p_cc := false |} in
  let r := {| p_tag := 8; p_len := 100; p_status := 200; p_cc := false |} in
  fst (run fieldByteLimit cacheEntrySizeLimit backendTimeout shared_now 1 sets_start_now cron_front_admin_now login_required_now list_limit_now multi_limit_now init
         [OAdd adm b0 true []; OSeen "b0" 1; OUStart (Some "u0") false false "/x" "/x" 5 p [];
          OARespond (Some "a0") "b0" (RId 5) r [F_put_req; F_put_resp]])
  = [Status 200; Status 0; Stored "b0"; Hang].
Proof. vm_compute. reflexivity. Qed.

(* an accepted response reaches the waiting client whatever happens in between (stored responses carry their start time) *)
Theorem C19_accepted_response_reaches_client : forall s who b id pay fs s1 w,
  resp_nonempty s -> p_len pay <> 0 -> find_waiter id (waiting s) = Some w ->
  step_now s (OARespond who b (RId id) pay fs) = (Status 200, s1) ->
  forall ops, Forall (fun o => ustart_id o <> Some id /\ o <> OUFinish id /\ nonempty_op o) ops ->
  exists p, fst (step_now (snd (trace_now s1 ops)) (OUFinish id)) = Delivered p.
Proof. intros s who b id pay fs s1 w. exact (accepted_response_reaches_client _ _ _ _ _ _ _ _ _ _ s who b id pay fs s1 w eq_refl). Qed.
Print Assumptions C19_accepted_response_reaches_client.

(* sharpness: without the start time the cron job deletes a response that was just posted *)
Example C19_cron_deletes_fresh_response_without_start_time :
  let b0 := {| bid := "b0"; buser := "a0"; euser := "u0"; prefixes := ["/"] |} in
  let adm := {| hdr_admin := true; oauth_admin := false |} in
  let p := {| p_tag := 7; p_len := 100; p_status := 0; p_cc := false |} in
  let r := {| p_tag := 8; p_len := 2000000; p_status := 200; p_cc := false |} in
  fst (run fieldByteLimit cacheEntrySizeLimit backendTimeout shared_now cap_now false cron_front_admin_now login_required_now list_limit_now multi_limit_now init
         [OAdd adm b0 true []; OSeen "b0" 1; OUStart (Some "u0") false false "/x" "/x" 5 p [];
          OARespond (Some "a0") "b0" (RId 5) r []; OCron adm; OUFinish 5])
  = [Status 200; Status 0; Stored "b0"; Status 200; Status 200; NotReady].
Proof. vm_compute. reflexivity. Qed.

(* stored payloads of any size read back byte-identical; no stored field exceeds the limit; inline below the limit *)
Definition limit_nat : nat := Z.to_nat fieldByteLimit.
Lemma limit_nat_pos : (0 < limit_nat)%nat.
Proof. unfold limit_nat. assert (0 < fieldByteLimit) by reflexivity. lia. Qed.

Theorem C19_blob_roundtrip : forall (l : list Z), join (split limit_nat l) = l.
Proof. intros l. apply join_split. exact limit_nat_pos. Qed.
Print Assumptions C19_blob_roundtrip.

Theorem C19_blob_bounded : forall (l : list Z),
  (length (fst (split limit_nat l)) <= limit_nat)%nat /\ forall p, In p (snd (split limit_nat l)) -> (length p <= limit_nat)%nat.
Proof. intros l. apply split_bounded. exact limit_nat_pos. Qed.
Print Assumptions C19_blob_bounded.

Theorem C19_blob_inline_iff : forall (l : list Z), snd (split limit_nat l) = [] <-> (length l < limit_nat)%nat.
Proof. intros l. apply split_inline_iff. exact limit_nat_pos. Qed.
Print Assumptions C19_blob_inline_iff.

(* the lengths the harness observes in the datastore are the lengths of this split *)
Theorem C19_blob_sizes : forall (l : list Z),
  split_sizes fieldByteLimit (Z.of_nat (length l)) =
  (Z.of_nat (length (fst (split limit_nat l))), map (fun p => Z.of_nat (length p)) (snd (split limit_nat l))).
Proof. intros l. rewrite <- (split_sizes_spec limit_nat l limit_nat_pos). unfold limit_nat. rewrite Z2Nat.id; [reflexivity|discriminate]. Qed.
Print Assumptions C19_blob_sizes.

Theorem C19_constants : responseWaitTimeout = 30 * 1000000000 /\ fieldByteLimit = 1000000 /\ cacheEntrySizeLimit = 1000000.
Proof. repeat split; reflexivity. Qed.
Print Assumptions C19_constants.

(* non-vacuity: a relay end to end with a payload above the limits, a duplicate post, a GET served from the cache *)
Example C19_example :
  let b0 := {| bid := "b0"; buser := "a0"; euser := "allUsers"; prefixes := ["/"] |} in
  let adm := {| hdr_admin := true; oauth_admin := false |} in
  let p := {| p_tag := 7; p_len := 1000001; p_status := 0; p_cc := false |} in
  let g := {| p_tag := 9; p_len := 300; p_status := 0; p_cc := false |} in
  let r := {| p_tag := 8; p_len := 2500000; p_status := 200; p_cc := true |} in
  let c := {| p_tag := 10; p_len := 500; p_status := 200; p_cc := false |} in
  fst (run_now init [OAdd adm b0 true []; OSeen "b0" 1;
                     OUStart (Some "u0") false false "/x" "/x" 5 p [];
                     OAList (Some "a0") "b0" []; OAFetch (Some "a0") "b0" (RId 5) [F_mc_get];
                     OARespond (Some "a0") "b0" (RId 5) r []; OUFinish 5; OAList (Some "a0") "b0" [];
                     OUStart (Some "u1") false true "/g?q" "/g" 6 g []; OARespond (Some "a0") "b0" (RId 6) c []; OUFinish 6;
                     OUStart (Some "u1") false true "/g?q" "/g" 7 g []; OUStart (Some "u0") false true "/g?q" "/g" 8 g []])
  = [Status 200; Status 0; Stored "b0"; Listed [5]; Fetched "u0" p; Status 200; Delivered r; LongPoll;
     Stored "b0"; Status 200; Delivered c; Delivered c; Stored "b0"].
Proof. vm_compute. reflexivity. Qed.
