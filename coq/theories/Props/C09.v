(* C09 — identity and credential headers reaching the backend are trustworthy.
   Statements only. *)
From Coq Require Import String List Bool.
From IP Require Import Gen.SrcFacts_Agent Gen.SrcFacts_Websockets Lib.Header Agent.Forward Proofs.HeaderProofs.
Import ListNotations.
Open Scope string_scope.
Open Scope list_scope.

Definition to_handlers_now := to_handlers userIDHeaderMethods authorizationHeaderMethods.

(* what the source does today with the two headers *)
Theorem C09_methods : userIDHeaderMethods = ["Set"] /\ authorizationHeaderMethods = ["Del"] /\
  existsb (String.eqb uid_key) stripHeaderNames = false /\ existsb (String.eqb auth_key) stripHeaderNames = false.
Proof. repeat split; reflexivity. Qed.
Print Assumptions C09_methods.

(* the identity asserted is the first value of the proxy's user-ID field (C09_asserted_identity_source);
   ... and when: the identity header is set under the flag --forward-user-id alone, the credentials are removed under the
   flag --strip-credentials alone - forwardRequest has no other condition (on the method, the path, other headers) in
   front of either; the theorems below are about every request for that reason *)
Theorem C09_asserted_identity_source : assertedIdentitySource = ["proxyResp.Header.Get(HeaderUserID)"%string].
Proof. reflexivity. Qed.
Print Assumptions C09_asserted_identity_source.

Theorem C09_unconditional :
  forwardRequestConds = ["*debug"; "*forwardUserID"; "*stripCredentials"; "err != nil"; "*debug"; "responseForwarder.Close(); err != nil"]%string.
Proof. reflexivity. Qed.
Print Assumptions C09_unconditional.

(* With user-ID forwarding on, for every header set the client supplied (forged,
   repeated, any casing - the wire parser canonicalises names) and every asserted
   identity, the handler chain sees exactly one identity value: the asserted one. *)
Theorem C09_user_id : forall strip user (fields : list (string * string)),
  hvalues uid_key (to_handlers_now true strip user (of_wire fields)) = [user].
Proof.
  intros strip user fields. unfold to_handlers_now, to_handlers.
  destruct C09_methods as (Eu & Ea & _). rewrite Eu, Ea.
  destruct strip; cbn [apply_methods fold_left].
  - rewrite apply_method_other by discriminate. unfold apply_method. cbn [String.eqb]. apply hvalues_hset_same.
  - unfold apply_method. cbn [String.eqb]. apply hvalues_hset_same.
Qed.
Print Assumptions C09_user_id.

(* With credential stripping on, no Authorization value reaches the handler chain. *)
Theorem C09_credentials : forall fwd user (fields : list (string * string)),
  hvalues auth_key (to_handlers_now fwd true user (of_wire fields)) = [].
Proof.
  intros fwd user fields. unfold to_handlers_now, to_handlers.
  destruct C09_methods as (Eu & Ea & _). rewrite Ea. cbn [apply_methods fold_left].
  unfold apply_method at 1. cbn [String.eqb]. apply hvalues_hdel_same.
Qed.
Print Assumptions C09_credentials.

(* The websocket shim dials with the same (already edited) headers minus the
   websocket handshake fields: both guarantees carry over to shim connections. *)
Theorem C09_websocket_dial : forall fwd strip user (fields : list (string * string)),
  let h := to_handlers_now fwd strip user (of_wire fields) in
  hvalues uid_key (strip_ws stripHeaderNames h) = hvalues uid_key h /\
  hvalues auth_key (strip_ws stripHeaderNames h) = hvalues auth_key h.
Proof.
  intros fwd strip user fields h. destruct C09_methods as (_ & _ & Hu & Ha).
  split; apply strip_ws_values; assumption.
Qed.
Print Assumptions C09_websocket_dial.

(* nothing else is touched *)
Theorem C09_other_headers_untouched : forall fwd strip user (fields : list (string * string)) k,
  k <> uid_key -> k <> auth_key ->
  hvalues k (to_handlers_now fwd strip user (of_wire fields)) = hvalues k (of_wire fields).
Proof.
  intros fwd strip user fields k Hu Ha. unfold to_handlers_now, to_handlers.
  destruct strip, fwd; rewrite ?apply_methods_other by assumption; reflexivity.
Qed.
Print Assumptions C09_other_headers_untouched.

(* non-vacuity: a forged, differently-cased identity header and two Authorization headers *)
Example C09_example :
  let fields := [("x-inverting-proxy-user-id", "mallory@evil"); ("AUTHORIZATION", "Bearer a"); ("Accept", "*/*"); ("authorization", "Basic b")] in
  hvalues uid_key (to_handlers_now true true "alice@example.com" (of_wire fields)) = ["alice@example.com"] /\
  hvalues auth_key (to_handlers_now true true "alice@example.com" (of_wire fields)) = [] /\
  hvalues auth_key (of_wire fields) = ["Bearer a"; "Basic b"] /\
  hvalues "Accept" (to_handlers_now true true "alice@example.com" (of_wire fields)) = ["*/*"].
Proof. vm_compute. repeat split; reflexivity. Qed.

(* sharpness: with Header.Add the forged value stays first *)
Example C09_sharp_add :
  hvalues uid_key (to_handlers ["Add"] ["Del"] true false "alice" (of_wire [("x-inverting-proxy-user-id", "mallory")])) = ["mallory"; "alice"].
Proof. vm_compute. reflexivity. Qed.
