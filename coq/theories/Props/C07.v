(* C07 — one failing request never takes down the agent or other requests.  Statements only.
   PARTIAL: panics inside libraries and fatal runtime errors are outside the model; they are
   decided by the run (the workers are goroutines of the test process: any of them ends it). *)
From Coq Require Import List Arith Bool String.
From IP Require Import Gen.SrcFacts_Agent Agent.Isolation Proofs.IsolationProofs.
Import ListNotations.

(* no log.Fatal / os.Exit / panic call is reachable from the per-request code of the agent *)
Theorem C07_no_fatal_sites : fatalSitesAgentRequestPath = [] /\ fatalSitesUtilsRequestPath = [].
Proof. split; reflexivity. Qed.
Print Assumptions C07_no_fatal_sites.

Definition astep_now := astep (fatalSitesAgentRequestPath ++ fatalSitesUtilsRequestPath).
Definition arun_now := arun (fatalSitesAgentRequestPath ++ fatalSitesUtilsRequestPath).

(* whatever happens to one request leaves every other request's worker untouched *)
Theorem C07_frame : forall a e j, (match e with Spawn i | Complete i _ | Fault i _ => j <> i | _ => True end) ->
  wget j (workers (astep_now a e)) = wget j (workers a).
Proof. intros a e j. apply frame. Qed.
Print Assumptions C07_frame.

(* for every sequence of faults (any kind, any stage, any number) the agent stays alive *)
Theorem C07_no_exit : forall es, alive (arun_now a_init es) = true.
Proof. intros es. apply (no_exit es a_init). reflexivity. Qed.
Print Assumptions C07_no_exit.

(* a request issued after any such history is served normally *)
Theorem C07_served_after : forall es i st, wget i (workers (arun_now a_init es)) = None ->
  wget i (workers (arun_now a_init (es ++ [Spawn i; Complete i st]))) = Some (WAnswered st).
Proof. exact served_after. Qed.
Print Assumptions C07_served_after.

(* when the backend cannot be reached the client gets a 502 *)
Theorem C07_unreachable_is_502 : forall a i, alive a = true -> wget i (workers a) = Some WRunning ->
  wget i (workers (astep_now a (Fault i SConnect))) = Some (WAnswered 502).
Proof. intros a i. apply unreachable_502. Qed.
Print Assumptions C07_unreachable_is_502.

(* sharpness: one fatal call on the request path and a single fault ends the agent and every other request *)
Example C07_sharp_fatal_site :
  alive (arun ["forwardRequest:log.Fatal"%string] a_init [Spawn 1; Spawn 2; Fault 1 SUpload; Complete 2 200]) = false /\
  wget 2 (workers (arun ["forwardRequest:log.Fatal"%string] a_init [Spawn 1; Spawn 2; Fault 1 SUpload; Complete 2 200])) = Some WRunning.
Proof. split; reflexivity. Qed.

Example C07_example :
  workers (arun_now a_init [Spawn 1; Spawn 2; Spawn 3; Fault 2 SConnect; ListFault; Fault 3 SFetch; Complete 1 200; ListOk; Spawn 4; Complete 4 201]) =
  [(4, WAnswered 201); (3, WDropped); (2, WAnswered 502); (1, WAnswered 200)].
Proof. reflexivity. Qed.
