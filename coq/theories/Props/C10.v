(* C10 — session tracking hides backend cookies and never mixes sessions.  Statements only. *)
From Coq Require Import List Arith Bool ZArith Lia String.
From IP Require Import Lib.Header Gen.SrcFacts_Sessions Sessions.Sessions Sessions.SessionsCheck Sessions.Writer Proofs.SessionsProofs Proofs.SessionWindowProofs Proofs.SessionWriterProofs.
Import ListNotations.

(* the source does not keep a cache entry for "no session" (it would take one of the configured slots) *)
Theorem C10_empty_id_not_cached : emptySessionIDNotCached = [1%Z] /\ cache_empty_id_now = false.
Proof. split; reflexivity. Qed.
Print Assumptions C10_empty_id_not_cached.

(* Isolation, for every history of requests over any number of sessions, any cache limit, and
   independently of what a cookie jar does with the operations: whatever is restored into a
   request was stored by requests of the very session whose cookie it presents; a request
   without session cookie gets nothing restored.  (The session cookie itself and the
   backend's Set-Cookie fields are removed by construction of ServeHTTP / WriteHeader.) *)
Theorem C10_isolation : forall K ce (h : list (nat * bool)),
  Forall2 (fun (uo : (nat * bool)) (o : sout) =>
             (fst uo = 0 -> o_consulted o = []) /\
             (forall k, In k (o_consulted o) -> eff_of k (s_eff (run_state K ce s0 0 h)) = Some (fst uo)))
          h (run K ce s0 0 h).
Proof. intros K ce h. apply isolation. apply sinv0. Qed.
Print Assumptions C10_isolation.

(* the session cookie is issued exactly to clients that presented none, with a fresh session *)
Theorem C10_session_cookie : forall K ce st i use sets,
  (o_issued (snd (serve K ce st i use sets)) <> None <-> use = 0) /\
  (use = 0 -> o_issued (snd (serve K ce st i use sets)) = Some (s_next st)).
Proof. exact issued_iff. Qed.
Print Assumptions C10_session_cookie.

(* Completeness inside the window (for the code as it is today: no cache entry for "no session",
   C10_empty_id_not_cached): for every cache limit K (0 = unbounded), every session u and every
   history in which clients present only session cookies that were issued - as long as u has always
   been among the K most recently used sessions since it first appeared, every request presenting u
   is given exactly the Set-Cookie operations of all earlier requests of session u, in order (what a
   cookie jar makes of those operations is evaluated by the independent jar of the harness). *)
Theorem C10_window_complete : forall K u h, u <> 0 -> issued_only 1 h -> in_window K u [] false 1 h ->
  Forall2 agrees (expect u 1 0 [] h) (run K false s0 0 h).
Proof. intros K u h Hu. exact (window_complete K u Hu h). Qed.
Print Assumptions C10_window_complete.

(* the hypotheses are satisfiable: three sessions, limit 2, session 1 never leaves the window *)
Example C10_window_hypotheses :
  let h := [(0, true); (0, true); (1, true); (2, false); (1, false); (0, true); (1, false)] in
  issued_only 1 h /\ in_window 2 1 [] false 1 h /\
  (expect 1 1 0 [] h = [None; None; Some [0]; None; Some [0; 2]; None; Some [0; 2]]) /\
  (map o_consulted (run 2 false s0 0 h) = [[]; []; [0]; [1]; [0; 2]; []; [0; 2]]).
Proof. vm_compute. repeat split; try lia; auto. Qed.

(* sharpness: once a session has fallen out of the window its cookies are gone (limit 1, two sessions) *)
Example C10_outside_window_cookies_lost :
  map o_consulted (run 1 false s0 0 [(0, true); (0, true); (1, false)]) = [[]; []; []] /\
  ~ in_window 1 1 [] false 1 [(0, true); (0, true); (1, false)].
Proof. split; [vm_compute; reflexivity|]. intros H. vm_compute in H. destruct H as (_ & H & _). destruct (H eq_refl) as [E|E]; [discriminate|destruct E]. Qed.

(* non-vacuity: two sessions interleaved; session 1 sees only its own operations *)
Example C10_example :
  eval_history 1000 [(0, true); (0, true); (1, true); (2, false); (1, false)] = [[1]; [2]; [0; 0]; [0; 1]; [0; 0; 2]].
Proof. vm_compute. reflexivity. Qed.

(* the window: with limit 2, two live sessions and a new client; the first session is still
   among the two most recently used real sessions ... *)
Example C10_window_now :
  eval_history 2 [(0, true); (0, true); (1, false)] = [[1]; [2]; [0; 0]].
Proof. vm_compute. reflexivity. Qed.
(* ... sharpness = the defect repaired in the source: a cache entry for the empty ID evicts it *)
Example C10_sharp_empty_id_slot :
  map (fun o => o_consulted o) (run 2 true s0 0 [(0, true); (0, true); (1, false)]) = [[]; []; []].
Proof. vm_compute. reflexivity. Qed.

(* what the backend sets is stored in the session's jar before the header is released to the writer behind (to the client):
   the model's serve step is atomic for this reason - a request of the session that arrives right after the response has
   started already finds the cookies *)
Theorem C10_jar_before_release :
  sessionWriterOrder = ["w.wrapped.WriteHeader"; "w.wrapped.WriteHeader"; "cookieJar.SetCookies"; "w.wrapped.WriteHeader"]%string.
Proof. reflexivity. Qed.
Print Assumptions C10_jar_before_release.

(* everything sessions share is the Cache (under its mutex): the package has no package-level variable *)
Theorem C10_no_package_state : sessionsPackageVars = [].
Proof. reflexivity. Qed.
Print Assumptions C10_no_package_state.

(* the response writer, at the level of header fields, on the calls httputil.ReverseProxy makes for one response (any
   number of informational responses, each with the header map of that moment, then the final header; later
   WriteHeader calls are ignored): no Set-Cookie field of the backend's is ever visible to the client, neither on an
   informational response nor on the final one; the final response carries exactly one Set-Cookie - the session cookie -
   when the request came without a session and none otherwise; the final status and every other field are the
   backend's; and the session's jar receives exactly the backend's Set-Cookie values, in order *)
Theorem C10_writer_hides_cookies : forall has_session sc (interims : list (Z * header)) final h (later : list (Z * header)),
  Forall (fun c => Writer.informational (fst c) = true) interims -> Writer.informational final = false ->
  let s := sw_run has_session sc (interims ++ [(final, h)] ++ later) in
  (forall c hh, In (c, hh) (sw_out s) -> Writer.informational c = true -> hvalues set_cookie hh = []) /\
  (exists hh, last (sw_out s) (0%Z, []) = (final, hh) /\
              hvalues set_cookie hh = (if has_session then [] else [sc]) /\
              (forall k, k <> set_cookie -> hvalues k hh = hvalues k h)) /\
  sw_jar s = hvalues set_cookie h.
Proof. exact session_writer_client_view. Qed.
Print Assumptions C10_writer_hides_cookies.

Example C10_writer_example :
  let s := sw_run false "S=1"%string [(103%Z, [("Link"%string, ["x"%string]); ("Set-Cookie"%string, ["early=1"%string])]);
                                      (404%Z, [("Set-Cookie"%string, ["a=1"%string; "b=2"%string]); ("X"%string, ["y"%string])])] in
  sw_out s = [(103%Z, [("Link"%string, ["x"%string])]); (404%Z, [("X"%string, ["y"%string]); ("Set-Cookie"%string, ["S=1"%string])])] /\
  sw_jar s = ["a=1"%string; "b=2"%string].
Proof. split; reflexivity. Qed.
