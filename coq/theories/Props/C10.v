(* C10 — session tracking hides backend cookies and never mixes sessions.  Statements only. *)
From Coq Require Import List Arith Bool ZArith.
From IP Require Import Gen.SrcFacts_Sessions Sessions.Sessions Sessions.SessionsCheck Proofs.SessionsProofs.
Import ListNotations.

(* the source does not keep a cache entry for "no session" (it would take one of the configured slots) *)
Theorem C10_empty_id_not_cached : emptySessionIDNotCached = [1%Z] /\ cache_empty_id_now = false.
Proof. split; reflexivity. Qed.
Print Assumptions C10_empty_id_not_cached.

(* Isolation, for every history of requests over any number of sessions, any cache limit, and
   independently of what a cookie jar does with the operations: whatever is restored into a
   request was stored by requests of the very session whose cookie it presents; a request
   without session cookie gets nothing restored.  (The session cookie itself and the
   backend's Set-Cookie fields are removed by construction of ServeHTTP / WriteHeader.) *)
Theorem C10_isolation : forall K ce (h : list (nat * bool)),
  Forall2 (fun (uo : (nat * bool)) (o : sout) =>
             (fst uo = 0 -> o_consulted o = []) /\
             (forall k, In k (o_consulted o) -> eff_of k (s_eff (run_state K ce s0 0 h)) = Some (fst uo)))
          h (run K ce s0 0 h).
Proof. intros K ce h. apply isolation. apply sinv0. Qed.
Print Assumptions C10_isolation.

(* the session cookie is issued exactly to clients that presented none, with a fresh session *)
Theorem C10_session_cookie : forall K ce st i use sets,
  (o_issued (snd (serve K ce st i use sets)) <> None <-> use = 0) /\
  (use = 0 -> o_issued (snd (serve K ce st i use sets)) = Some (s_next st)).
Proof. exact issued_iff. Qed.
Print Assumptions C10_session_cookie.

(* non-vacuity: two sessions interleaved; session 1 sees only its own operations *)
Example C10_example :
  eval_history 1000 [(0, true); (0, true); (1, true); (2, false); (1, false)] = [[1]; [2]; [0; 0]; [0; 1]; [0; 0; 2]].
Proof. vm_compute. reflexivity. Qed.

(* the window: with limit 2, two live sessions and a new client; the first session is still
   among the two most recently used real sessions ... *)
Example C10_window_now :
  eval_history 2 [(0, true); (0, true); (1, false)] = [[1]; [2]; [0; 0]].
Proof. vm_compute. reflexivity. Qed.
(* ... sharpness = the defect repaired in the source: a cache entry for the empty ID evicts it *)
Example C10_sharp_empty_id_slot :
  map (fun o => o_consulted o) (run 2 true s0 0 [(0, true); (0, true); (1, false)]) = [[]; []; []].
Proof. vm_compute. reflexivity. Qed.
