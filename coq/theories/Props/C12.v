(* C12 — the websocket shim answers every call and survives any call order.  Statements only. *)
From Coq Require Import List Arith Bool.
From IP Require Import Gen.SrcFacts_Websockets Websockets.Shim Proofs.ShimProofs.
Import ListNotations.

(* Any number of close and data calls racing on one session, the writer goroutine and the
   backend doing what they want, any queue capacity, any interleaving of their atomic
   actions: the repaired handlers never send on or close a closed channel (no panic). *)
Theorem C12_no_panic : forall cap ths ls s, Forall (fun tp => snd tp = CloseStart \/ snd tp = DataStart) ths ->
  srun Guarded cap (s_init ths) ls = Some s -> panicked s = false.
Proof. exact guarded_no_panic. Qed.
Print Assumptions C12_no_panic.

(* every answer of these handlers is 200 or 400 *)
Theorem C12_replies : forall cap s l s', replies_ok s -> sstep Guarded cap s l = Some s' -> replies_ok s'.
Proof. exact replies_step. Qed.
Print Assumptions C12_replies.

(* No call is left hanging by the handlers themselves: every action of a close or data call uses up
   part of a finite budget (so, in any interleaving, the calls together take at most `work` actions),
   and a call that has not been answered can always take its next action - except when it has to put
   a message into a full queue whose writer is still running, and then the writer can take a message
   (or, once the backend is gone, the call proceeds and is answered).  What is NOT covered: the
   writer goroutine itself blocked on a backend that neither reads nor closes. *)
Theorem C12_bounded_work : forall cap ls s s', GInv s -> srun Guarded cap s ls = Some s' ->
  length (filter is_step ls) + work s' <= work s.
Proof. exact guarded_steps_bounded. Qed.
Print Assumptions C12_bounded_work.

Theorem C12_progress : forall cap s t p, GInv s -> 1 <= cap -> tget t (threads s) = Some p -> (forall st, p <> Replied st) ->
  sstep Guarded cap s (Step t) <> None \/
  (done s = false /\ cap <= qlen s /\ sstep Guarded cap s WriterPop <> None).
Proof. exact guarded_progress. Qed.
Print Assumptions C12_progress.

Theorem C12_progress_when_backend_gone : forall cap s t p, GInv s -> done s = true -> tget t (threads s) = Some p ->
  (forall st, p <> Replied st) -> sstep Guarded cap s (Step t) <> None.
Proof. exact guarded_progress_when_done. Qed.
Print Assumptions C12_progress_when_backend_gone.

(* sharpness = the defects repaired in the source (unguarded Close / Send): *)
(* two close calls for the same session: the second one sends on the closed channel *)
Theorem C12_sharp_double_close :
  exists s, srun Original 10 (s_init [(1, CloseStart); (2, CloseStart)])
    [Step 1; Step 2; Step 1; Step 2; Step 1; Step 1; Step 2] = Some s /\ panicked s = true.
Proof. eexists. split; reflexivity. Qed.
Print Assumptions C12_sharp_double_close.

(* a data call that has passed the context check while a close call closes the channel *)
Theorem C12_sharp_data_vs_close :
  exists s, srun Original 10 (s_init [(1, DataStart); (2, CloseStart)])
    [Step 1; Step 1; Step 2; Step 2; Step 2; Step 2; Step 1] = Some s /\ panicked s = true.
Proof. eexists. split; reflexivity. Qed.
Print Assumptions C12_sharp_data_vs_close.

(* the same schedules are harmless for the repaired code *)
Example C12_example :
  (exists s, srun Guarded 10 (s_init [(1, CloseStart); (2, CloseStart)]) [Step 1; Step 2; Step 1; Step 2; Step 1; Step 2] = Some s /\
             panicked s = false /\ threads s = [(1, Replied 200); (2, Replied 200)]) /\
  seq_run seq_init [CData; CBackendSend; CPoll; CClose; CData; CPoll; CClose] = [200; 0; 200; 200; 400; 400; 400] /\
  seq_run seq_init [CBackendSend; CBackendClose; CPoll; CPoll; CData] = [0; 0; 200; 400; 400].
Proof. split; [eexists; split; [reflexivity|split; reflexivity]|split; reflexivity]. Qed.
