(* C12 — the websocket shim answers every call and survives any call order.  Statements only. *)
From Coq Require Import List Arith Bool.
From IP Require Import Gen.SrcFacts_Websockets Websockets.Shim Proofs.ShimProofs.
Import ListNotations.

(* Any number of close and data calls racing on one session, the writer goroutine and the
   backend doing what they want, any queue capacity, any interleaving of their atomic
   actions: the repaired handlers never send on or close a closed channel (no panic). *)
Theorem C12_no_panic : forall cap ths ls s, Forall (fun tp => snd tp = CloseStart \/ snd tp = DataStart) ths ->
  srun Guarded cap (s_init ths) ls = Some s -> panicked s = false.
Proof. exact guarded_no_panic. Qed.
Print Assumptions C12_no_panic.

(* every answer of these handlers is 200 or 400 *)
Theorem C12_replies : forall cap s l s', replies_ok s -> sstep Guarded cap s l = Some s' -> replies_ok s'.
Proof. exact replies_step. Qed.
Print Assumptions C12_replies.

(* sharpness = the defects repaired in the source (unguarded Close / Send): *)
(* two close calls for the same session: the second one sends on the closed channel *)
Theorem C12_sharp_double_close :
  exists s, srun Original 10 (s_init [(1, CloseStart); (2, CloseStart)])
    [Step 1; Step 2; Step 1; Step 2; Step 1; Step 1; Step 2] = Some s /\ panicked s = true.
Proof. eexists. split; reflexivity. Qed.
Print Assumptions C12_sharp_double_close.

(* a data call that has passed the context check while a close call closes the channel *)
Theorem C12_sharp_data_vs_close :
  exists s, srun Original 10 (s_init [(1, DataStart); (2, CloseStart)])
    [Step 1; Step 1; Step 2; Step 2; Step 2; Step 2; Step 1] = Some s /\ panicked s = true.
Proof. eexists. split; reflexivity. Qed.
Print Assumptions C12_sharp_data_vs_close.

(* the same schedules are harmless for the repaired code *)
Example C12_example :
  (exists s, srun Guarded 10 (s_init [(1, CloseStart); (2, CloseStart)]) [Step 1; Step 2; Step 1; Step 2; Step 1; Step 2] = Some s /\
             panicked s = false /\ threads s = [(1, Replied 200); (2, Replied 200)]) /\
  seq_run seq_init [CData; CBackendSend; CPoll; CClose; CData; CPoll; CClose] = [200; 0; 200; 200; 400; 400; 400] /\
  seq_run seq_init [CBackendSend; CBackendClose; CPoll; CPoll; CData] = [0; 0; 200; 400; 400].
Proof. split; [eexists; split; [reflexivity|split; reflexivity]|split; reflexivity]. Qed.
