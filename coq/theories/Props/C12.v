(* C12 — the websocket shim answers every call and survives any call order.  Statements only. *)
From Coq Require Import String List Arith Bool.
From IP Require Import Gen.SrcFacts_Websockets Websockets.Shim Proofs.ShimProofs Websockets.ShimTable Proofs.ShimTableProofs.
Import ListNotations.

(* sessions share the connection table of their shim (Websockets/ShimTable.v) and nothing else: the package-level
   variables are a template, a table of header names and a path, all read-only after start-up *)
Theorem C12_sessions_share_nothing_else : shimPackageVars = ["shimTmpl"; "stripHeaderNames"; "websocketShimInjectedHeadersPath"]%string.
Proof. reflexivity. Qed.
Print Assumptions C12_sessions_share_nothing_else.

(* Any number of close and data calls racing on one session, the writer goroutine and the
   backend doing what they want, any queue capacity, any interleaving of their atomic
   actions: the repaired handlers never send on or close a closed channel (no panic). *)
Theorem C12_no_panic : forall cap ths ls s, Forall (fun tp => snd tp = CloseStart \/ snd tp = DataStart) ths ->
  srun Guarded cap (s_init ths) ls = Some s -> panicked s = false.
Proof. exact guarded_no_panic. Qed.
Print Assumptions C12_no_panic.

(* every answer of these handlers is 200 or 400 *)
Theorem C12_replies : forall cap s l s', replies_ok s -> sstep Guarded cap s l = Some s' -> replies_ok s'.
Proof. exact replies_step. Qed.
Print Assumptions C12_replies.

(* No call is left hanging by the handlers themselves: every action of a close or data call uses up
   part of a finite budget (so, in any interleaving, the calls together take at most `work` actions),
   and a call that has not been answered can always take its next action - except when it has to put
   a message into a full queue whose writer is still running, and then the writer can take a message
   (or, once the backend is gone, the call proceeds and is answered).  What is NOT covered: the
   writer goroutine itself blocked on a backend that neither reads nor closes. *)
Theorem C12_bounded_work : forall cap ls s s', GInv s -> srun Guarded cap s ls = Some s' ->
  length (filter is_step ls) + work s' <= work s.
Proof. exact guarded_steps_bounded. Qed.
Print Assumptions C12_bounded_work.

Theorem C12_progress : forall cap s t p, GInv s -> 1 <= cap -> tget t (threads s) = Some p -> (forall st, p <> Replied st) ->
  sstep Guarded cap s (Step t) <> None \/
  (done s = false /\ cap <= qlen s /\ sstep Guarded cap s WriterPop <> None).
Proof. exact guarded_progress. Qed.
Print Assumptions C12_progress.

Theorem C12_progress_when_backend_gone : forall cap s t p, GInv s -> done s = true -> tget t (threads s) = Some p ->
  (forall st, p <> Replied st) -> sstep Guarded cap s (Step t) <> None.
Proof. exact guarded_progress_when_done. Qed.
Print Assumptions C12_progress_when_backend_gone.

(* sharpness = the defects repaired in the source (unguarded Close / Send): *)
(* ------------------------------------------------------------------------------------------
   Several sessions (Websockets/ShimTable.v): which session a call reaches.  For every history of opens (also failed
   ones), data posts with any mix of session IDs, polls, closes, and backends sending and hanging up.
   ------------------------------------------------------------------------------------------ *)

(* session IDs are never reused: the IDs handed out in a history are pairwise different, and a new session never gets the
   ID of a session that is, or ever was, in the table *)
Theorem C12_session_ids_unique :
  (forall cs os t', trun t_init cs = (os, t') -> NoDup (opened os)) /\
  (forall t id t', Bounded t -> tstep t (TOpen true) = (OOpened id, t') ->
     lookup id (tbl t) = None /\ gone_recv id (gone t) = None /\ lookup id (tbl t') = Some {| s_open := true; s_queue := []; s_recv := [] |}).
Proof. split; [exact session_ids_unique|exact open_is_fresh]. Qed.
Print Assumptions C12_session_ids_unique.

(* a call changes the session(s) it names and no other: state and delivered messages of every other session stay as they are *)
Theorem C12_call_reaches_only_its_session : forall t c o t' j, Bounded t -> tstep t c = (o, t') -> ~ names c j -> j <= next_id t ->
  lookup j (tbl t') = lookup j (tbl t) /\ received t' j = received t j.
Proof. exact call_frame. Qed.
Print Assumptions C12_call_reaches_only_its_session.

(* a data post: answered 200, every element has been delivered to the session it names, in order, and to nobody else;
   answered 400, exactly the elements before the first one naming a session that is not in the table (unknown or closed) or
   whose backend is gone have been delivered, each to its own session, and the rest to nobody *)
Theorem C12_data_post :
  (forall t elems t', tstep t (TData elems) = (OStatus 200, t') -> forall i, received t' i = received t i ++ for_session i elems) /\
  (forall t elems t', tstep t (TData elems) = (OStatus 400, t') ->
     exists pre e post, elems = pre ++ e :: post /\ (forall i, received t' i = received t i ++ for_session i pre) /\
       match lookup (fst e) (tbl t') with None => True | Some s => s_open s = false end).
Proof. split; [exact data_accepted|exact data_rejected]. Qed.
Print Assumptions C12_data_post.

(* calls naming a session that is not in the table are answered 400 and change nothing; and a session that has left the
   table (closed by the client, or reported closed by a poll) never comes back under that ID *)
Theorem C12_closed_sessions_stay_closed :
  (forall t i, lookup i (tbl t) = None ->
     tstep t (TPoll i) = (OStatus 400, t) /\ tstep t (TClose i) = (OStatus 400, t) /\ forall m r, tstep t (TData ((i, m) :: r)) = (OStatus 400, t)) /\
  (forall cs t os t' i, Bounded t -> trun t cs = (os, t') -> i <= next_id t -> lookup i (tbl t) = None -> lookup i (tbl t') = None).
Proof. split; [exact unknown_session_rejected|exact no_resurrection]. Qed.
Print Assumptions C12_closed_sessions_stay_closed.

(* non-vacuity: three sessions, a failed open in between, a mixed post, a post cut short by a closed session *)
Example C12_table_example :
  let '(os, t) := trun t_init [TOpen true; TOpen false; TOpen true; TData [(1, 10); (3, 11); (1, 12)]; TClose 3; TData [(1, 13); (3, 14); (1, 15)];
                                TBackendSend 1 7; TBackendClose 1; TPoll 1; TPoll 1; TPoll 1; TOpen true] in
  os = [OOpened 1; OStatus 500; OOpened 3; OStatus 200; OStatus 200; OStatus 400; ONone; ONone; OPolled [7]; OStatus 400; OStatus 400; OOpened 4] /\
  received t 1 = [10; 12; 13] /\ received t 3 = [11] /\ received t 2 = [].
Proof. vm_compute. repeat split; reflexivity. Qed.

(* two close calls for the same session: the second one sends on the closed channel *)
Theorem C12_sharp_double_close :
  exists s, srun Original 10 (s_init [(1, CloseStart); (2, CloseStart)])
    [Step 1; Step 2; Step 1; Step 2; Step 1; Step 1; Step 2] = Some s /\ panicked s = true.
Proof. eexists. split; reflexivity. Qed.
Print Assumptions C12_sharp_double_close.

(* a data call that has passed the context check while a close call closes the channel *)
Theorem C12_sharp_data_vs_close :
  exists s, srun Original 10 (s_init [(1, DataStart); (2, CloseStart)])
    [Step 1; Step 1; Step 2; Step 2; Step 2; Step 2; Step 1] = Some s /\ panicked s = true.
Proof. eexists. split; reflexivity. Qed.
Print Assumptions C12_sharp_data_vs_close.

(* the same schedules are harmless for the repaired code *)
Example C12_example :
  (exists s, srun Guarded 10 (s_init [(1, CloseStart); (2, CloseStart)]) [Step 1; Step 2; Step 1; Step 2; Step 1; Step 2] = Some s /\
             panicked s = false /\ threads s = [(1, Replied 200); (2, Replied 200)]) /\
  seq_run seq_init [CData; CBackendSend; CPoll; CClose; CData; CPoll; CClose] = [200; 0; 200; 200; 400; 400; 400] /\
  seq_run seq_init [CBackendSend; CBackendClose; CPoll; CPoll; CData] = [0; 0; 200; 400; 400].
Proof. split; [eexists; split; [reflexivity|split; reflexivity]|split; reflexivity]. Qed.
