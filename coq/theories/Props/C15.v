(* C15 — the TCP bridge carries byte streams intact.  Statements only. *)
From Coq Require Import List Arith Bool String.
From IP Require Import Gen.SrcFacts_TcpBridge Codec.Hex TcpBridge.Conn Proofs.BridgeProofs.
Import ListNotations.

Theorem C15_streaming_path : streamingPath = ["/tcp-over-websocket-bridge/35218cb7-1201-4940-89e8-48d8f03fed96"%string].
Proof. reflexivity. Qed.
Print Assumptions C15_streaming_path.

(* the bridge sets no deadline, read limit or socket option on a bridged connection (the models of Read, Write and of the
   copy loops have no step that drops or truncates data by itself): regenerated from the source of the package and of both binaries *)
Theorem C15_no_limits : bridgeLimitCalls = [].
Proof. reflexivity. Qed.
Print Assumptions C15_no_limits.

(* every byte string (all 256 values, any length) survives the hex framing *)
Theorem C15_hex_roundtrip : forall bs, Forall (fun b => b < 256) bs -> hex_decode (hex_encode bs) = Some bs.
Proof. exact hex_roundtrip. Qed.
Print Assumptions C15_hex_roundtrip.

(* For every sequence of writes at one end (any sizes, empty writes included),
   every interleaving with non-text messages, and every sequence of read buffer
   sizes >= 1 at the other end: the reads return, in order, a prefix of the
   concatenation of the writes - complete once enough reads were made. *)
Theorem C15_reassembly : forall (writes : list (list nat)) (sizes : list nat),
  Forall (fun w => Forall (fun b => b < 256) w) writes -> Forall (fun n => 1 <= n) sizes ->
  let frames := map conn_write writes in
  (exists rest, data_of (conn_reads ([], frames) sizes) ++ rest = List.concat writes) /\
  (List.length (List.concat writes) <= List.length sizes -> data_of (conn_reads ([], frames) sizes) = List.concat writes).
Proof.
  intros writes sizes HW HS frames.
  assert (HV : forallb valid frames = true).
  { unfold frames. clear HS. induction HW as [|w ws Hw _ IH]; [reflexivity|]. cbn [map forallb]. rewrite (proj2 (write_then_payload w Hw)). exact IH. }
  assert (HB : all_bytes ([], frames) = List.concat writes).
  { unfold all_bytes, frames. cbn [fst snd app]. clear HS HV. induction HW as [|w ws Hw _ IH]; [reflexivity|]. cbn [map List.concat]. rewrite (proj1 (write_then_payload w Hw)), IH. reflexivity. }
  split.
  - destruct (reads_prefix sizes ([], frames) HS HV) as (rest & Hr). exists rest. rewrite Hr. exact HB.
  - intros HL. rewrite <- HB. apply reads_complete; [exact HS|exact HV|rewrite HB; exact HL].
Qed.
Print Assumptions C15_reassembly.

(* the two directions are two independent instances of the model (no shared state);
   non-bridge requests go to the passthrough handler *)
(* "in both directions at once ... and across concurrently bridged connections": any number of streams (one per bridged
   connection and direction), writes and reads of all of them interleaved in any order - also reads that come before the
   data, and writes between the reads - : what the reads of stream k have returned is, in order, a prefix of what was
   written to stream k, and of nothing else.  (C15_reassembly is the case of one stream with all writes first.) *)
Theorem C15_streams_independent : forall es k, Forall ev_ok es ->
  exists rest, got k (mtrace m_init es) ++ rest = written k es.
Proof. exact streams_independent. Qed.
Print Assumptions C15_streams_independent.

Example C15_streams_example :
  let t := mtrace m_init [MRead 1 4; MWrite 0 [1; 2; 3]; MWrite 1 [9]; MRead 0 2; MWrite 1 [8; 7]; MRead 1 5; MRead 0 2; MRead 1 1; MRead 1 1] in
  got 0 t = [1; 2; 3] /\ got 1 t = [9; 8; 7].
Proof. vm_compute. split; reflexivity. Qed.

Theorem C15_passthrough : forall sp up path, routes_to_bridge sp up path = true <-> (up = true /\ path = sp).
Proof.
  intros sp up path. unfold routes_to_bridge. rewrite andb_true_iff, String.eqb_eq. tauto.
Qed.
Print Assumptions C15_passthrough.

Example C15_example :
  data_of (conn_reads ([], [conn_write [0; 255; 16]; FOther; conn_write []; conn_write [7]]) [2; 1; 5; 5]) = [0; 255; 16; 7].
Proof. vm_compute. reflexivity. Qed.

(* sharpness: an upper-case-only decoder or a dropped nibble loses data; here: odd length is an error *)
Example C15_sharp_odd_length : hex_decode [48; 49; 50] = None.
Proof. reflexivity. Qed.
