(* C20 — agent lifecycle: health gating, unhealthy exit, graceful shutdown.  Statements only.
   PARTIAL: wall-clock margins and process exit are runtime behaviour, decided by the black-box run. *)
From Coq Require Import List Arith Bool Lia String ZArith.
From IP Require Import Gen.SrcFacts_Agent Agent.Lifecycle Proofs.LifecycleProofs Agent.LifecycleLTS Proofs.LifecycleLTSProofs.
Import ListNotations.
Local Open Scope nat_scope.

(* the agent asks the proxy for work right after the first passing health check, never before *)
Theorem C20_gate : forall checks n, wait_healthy checks = Some n ->
  1 <= n /\ nth_error checks (n - 1) = Some true /\ forall j, j < n - 1 -> nth_error checks j = Some false.
Proof. exact gate. Qed.
Print Assumptions C20_gate.

Theorem C20_gate_never : forall checks, wait_healthy checks = None -> forall j, j < List.length checks -> nth_error checks j = Some false.
Proof. exact gate_never. Qed.
Print Assumptions C20_gate_never.

(* For every history of passing/failing checks and every threshold t (minimum 1): the agent
   terminates itself exactly at the first check at which the number of consecutive failures
   just seen reaches the threshold (a single success resets the count), and otherwise never. *)
Theorem C20_unhealthy : forall t checks,
  match health_exit t checks with
  | Some n => 0 < n <= List.length checks /\ Nat.max 1 t <= tf (firstn n checks) /\ forall m, 0 < m -> m < n -> tf (firstn m checks) < Nat.max 1 t
  | None => forall m, 0 < m -> m <= List.length checks -> tf (firstn m checks) < Nat.max 1 t
  end.
Proof.
  intros t checks. unfold health_exit.
  assert (H0 : tf [] < Nat.max 1 t) by (unfold tf; cbn [rev lead_false]; lia).
  pose proof (health_exit_char (Nat.max 1 t) checks ltac:(lia) [] H0) as H. unfold tf at 1 in H. cbn [rev lead_false length app] in H. exact H.
Qed.
Print Assumptions C20_unhealthy.

(* graceful shutdown, decision level: without the option the process exits at the signal; with a
   grace period G it exits at t_sig + G, a request whose backend answer and upload complete before
   that is answered in full, and no pending-list poll starts after the signal *)
Theorem C20_graceful : forall G t_sig,
  exit_time {| Lifecycle.grace := G |} t_sig = t_sig + G /\
  (forall t_done up, answered {| Lifecycle.grace := G |} t_sig t_done up = true <-> t_done + up < t_sig + G) /\
  (forall t, may_start_list {| Lifecycle.grace := G |} t_sig t = true -> t < t_sig).
Proof.
  intros G t_sig. split; [reflexivity|]. split.
  - intros t_done up. unfold answered, exit_time. cbn [Lifecycle.grace]. apply Nat.ltb_lt.
  - intros t H. unfold may_start_list in H. cbn [Lifecycle.grace] in H. destruct G; apply Nat.ltb_lt in H; exact H.
Qed.
Print Assumptions C20_graceful.

(* ------------------------------------------------------------------------------------------
   The life-cycle as a labelled transition system (Agent/LifecycleLTS.v): main, the signal
   plumbing, the health goroutine, the poll loop and the workers as interleaved steps, with time.
   Every theorem below is about EVERY trace of that system (any interleaving, any number of
   health checks, signals, list calls and requests, any timing).
   ------------------------------------------------------------------------------------------ *)

(* what the LTS takes from the source, regenerated on every run: the handler is registered once, for
   SIGINT and SIGTERM, through a channel of capacity 1, is never unregistered, and main calls
   waitForHealthy before anything else, registers the handler after the adapter is started and
   cancels polling before it sleeps for the grace period *)
Theorem C20_source_lifecycle :
  shutdownSignalPkgCalls = ["signal.Notify"%string] /\
  shutdownSignals = ["syscall.SIGINT"%string; "syscall.SIGTERM"%string] /\
  shutdownChanCaps = [1%Z; 0%Z] /\
  signalPkgCallsElsewhere = [] /\
  mainLifecycleOrder = ["log.Fatal"; "log.Fatal"; "waitForHealthy"; "runHealthChecks"; "runAdapter"; "log.Fatal"; "utils.ShutdownSignalChan";
                        "requestPollingCancel"; "time.Sleep"; "log.Fatal"]%string.
Proof. repeat split; reflexivity. Qed.
Print Assumptions C20_source_lifecycle.

(* health gate: with health checks enabled no pending-list call starts, no request is taken on and the poll
   loop does not exist before some check has passed *)
Theorem C20_gate_lts : forall c tr s, hc_enabled c = true -> run c (init c) tr = Some s ->
  (list_starts s <> [] \/ workers s <> [] \/ poll s <> PNotStarted) -> In (Check true) tr.
Proof. exact gate_lts. Qed.
Print Assumptions C20_gate_lts.

(* unhealthy exit: in every live state reached the counter of consecutive failures is below the threshold; a check
   resets it (pass) or increments it (fail) and ends the process with status 1 exactly when it reaches the
   threshold; nothing else touches the counter *)
Theorem C20_unhealthy_lts :
  (forall c tr s, run c (init c) tr = Some s -> exited s = false -> bad s < Nat.max 1 (thr c)) /\
  (forall c s (ok : bool), hc_enabled c = true -> running s = true ->
     let bad' := if ok then 0 else S (bad s) in
     exists s', step c s (Check ok) = Some s' /\
       (if Nat.max 1 (thr c) <=? bad' then main s' = MExited 1 (now s) else main s' = main s /\ bad s' = bad') /\
       workers s' = workers s /\ list_starts s' = list_starts s) /\
  (forall c s l s', step c s l = Some s' -> (forall ok, l <> Check ok) -> bad s' = bad s).
Proof. split; [exact counter_below_threshold|]. split; [exact check_step|exact bad_frame]. Qed.
Print Assumptions C20_unhealthy_lts.

(* the only ways the process ends: status 1 by the health threshold or by the end of the grace period,
   status 0 by main returning on a signal when no grace period is configured, killed (2) by a signal that
   arrives before the handler is registered; always at the instant of that step *)
Theorem C20_exit_causes : forall c s l s' code t, step c s l = Some s' -> exited s = false -> main s' = MExited code t ->
  t = now s /\
  ((code = 1 /\ exists ok, l = Check ok /\ Nat.max 1 (thr c) <= (if ok then 0 else S (bad s))) \/
   (code = 1 /\ l = Deadline /\ exists d, main s = MDraining d /\ d <= now s) \/
   (code = 0 /\ l = MainWake /\ grace c = 0 /\ main s = MRunning /\ chclosed s = true) \/
   (code = 2 /\ l = Sig /\ registered s = false)).
Proof. exact exit_causes. Qed.
Print Assumptions C20_exit_causes.

(* a signal reaches main at once; without a grace period the process exits at that instant, with one main
   cancels polling and fixes the deadline now + grace, leaving the workers alone *)
Theorem C20_signal_reaches_main : forall c s, main s = MRunning -> registered s = true -> chclosed s = false -> sigbuf s = 0 -> 0 < sig_cap c ->
  exists s', run c s [Sig; SigTake; MainWake] = Some s' /\
    match grace c with 0 => main s' = MExited 0 (now s) | g => main s' = MDraining (now s + g) /\ cancelled s' = true /\ workers s' = workers s end.
Proof. exact signal_reaches_main. Qed.
Print Assumptions C20_signal_reaches_main.

(* no new pending-list call starts once polling is cancelled, and every list call of a run started no later
   than the instant at which main began the shutdown *)
Theorem C20_no_list_after_cancel :
  (forall c tr s s', run c s tr = Some s' -> cancelled s = true -> list_starts s' = list_starts s /\ cancelled s' = true) /\
  (forall c tr s t, run c (init c) tr = Some s -> cancelled_at s = Some t -> forall x, In x (list_starts s) -> x <= t).
Proof. split; [exact no_list_after_cancel|exact lists_before_shutdown]. Qed.
Print Assumptions C20_no_list_after_cancel.

(* the process exits when the period ends: from a draining state reached in a run, along any continuation
   without a failing health check, it is still draining with the same deadline or has exited with status 1
   at a time not before the deadline; and the exit step is enabled as soon as the deadline has come *)
Theorem C20_exit_at_deadline :
  (forall c tr1 tr2 s s' d, run c (init c) tr1 = Some s -> main s = MDraining d -> run c s tr2 = Some s' -> no_failed_check tr2 = true ->
     main s' = MDraining d \/ exists t, main s' = MExited 1 t /\ d <= t) /\
  (forall c s d, main s = MDraining d -> d <= now s -> exists s', step c s Deadline = Some s' /\ main s' = MExited 1 (now s)).
Proof. split; [exact drain_exit_reach|exact deadline_enabled]. Qed.
Print Assumptions C20_exit_at_deadline.

(* further signals are inert: once the handler is registered (it stays registered along every run) a signal is
   queued or dropped and changes nothing else - not main, not the deadline, not the workers, not the poll loop *)
Theorem C20_later_signals_inert :
  (forall c s, exited s = false -> registered s = true ->
     exists s', step c s Sig = Some s' /\ main s' = main s /\ workers s' = workers s /\ cancelled s' = cancelled s /\ poll s' = poll s /\
                list_starts s' = list_starts s /\ bad s' = bad s /\ registered s' = true /\ now s' = now s) /\
  (forall c tr s s', run c s tr = Some s' -> registered s = true -> registered s' = true).
Proof. split; [exact later_signal_inert|exact registered_run]. Qed.
Print Assumptions C20_later_signals_inert.

(* while the agent waits for the first passing health check the handler is not registered yet: a signal ends the
   process at that instant (default disposition) *)
Theorem C20_signal_while_waiting : forall c s, exited s = false -> registered s = false ->
  exists s', step c s Sig = Some s' /\ main s' = MExited 2 (now s).
Proof. exact signal_while_waiting. Qed.
Print Assumptions C20_signal_while_waiting.

(* a request already forwarded is independent of the shutdown: its next step is enabled in every live state, no
   other step changes its phase, and from a draining state a request at the backend completes (answer, upload)
   without touching the deadline *)
Theorem C20_workers_independent :
  (forall c s id p, exited s = false -> phase_of id s = Some p -> p <> WDone ->
     exists s', step c s (Work id) = Some s' /\ phase_of id s' = Some (next_phase p) /\ main s' = main s /\ now s' = now s /\
                (forall j, j <> id -> phase_of j s' = phase_of j s)) /\
  (forall c s l s' id p, step c s l = Some s' -> phase_of id s = Some p -> l <> Work id -> phase_of id s' = Some p) /\
  (forall c s d id, main s = MDraining d -> phase_of id s = Some WAtBackend ->
     exists s', run c s [Work id; Work id] = Some s' /\ phase_of id s' = Some WDone /\ main s' = MDraining d /\ now s' = now s).
Proof. split; [exact work_enabled|]. split; [exact worker_frame|exact drain_completes]. Qed.
Print Assumptions C20_workers_independent.

(* non-vacuity: a late-healthy agent takes a request, is signalled twice, answers the request during the grace
   period and exits at the deadline; and the same run without a grace period exits at the signal *)
Example C20_lts_example :
  let c := {| hc_enabled := true; thr := 2; grace := 5; sig_cap := 1 |} in
  match run c (init c) [Check false; Tick 1; Check true; ListStart; Tick 1; ListReturn [7]; Work 7; ListStart; Sig; SigTake; MainWake; Sig; Sig; Tick 2;
                        ListReturn []; LoopStop; Work 7; Work 7; Tick 3; Deadline] with
  | Some s => main s = MExited 1 7 /\ phase_of 7 s = Some WDone /\ list_starts s = [2; 1] /\ cancelled_at s = Some 2
  | None => False
  end /\
  let c0 := {| hc_enabled := false; thr := 1; grace := 0; sig_cap := 1 |} in
  match run c0 (init c0) [ListStart; Tick 4; Sig; SigTake; MainWake] with Some s => main s = MExited 0 4 | None => False end.
Proof. vm_compute. repeat split; reflexivity. Qed.

(* sharpness: a list call after the shutdown began, a worker step after exit, and a deadline before its time are not traces *)
Example C20_lts_sharp :
  let c := {| hc_enabled := false; thr := 1; grace := 5; sig_cap := 1 |} in
  run c (init c) [Sig; SigTake; MainWake; ListStart] = None /\
  run c (init c) [Sig; SigTake; MainWake; Tick 4; Deadline] = None /\
  run c (init c) [ListStart; ListReturn [1]; Sig; SigTake; MainWake; Tick 5; Deadline; Work 1] = None.
Proof. vm_compute. repeat split; reflexivity. Qed.

Example C20_example :
  wait_healthy [false; false; true; false] = Some 3 /\
  health_exit 2 [false; true; false; false; true] = Some 4 /\ health_exit 0 [true; true; false] = Some 3 /\
  health_exit 3 [false; false; true; false; false] = None.
Proof. repeat split; reflexivity. Qed.

(* sharpness: a counter that is not reset by a success exits although no two failures are consecutive *)
Example C20_sharp_reset : health_exit 2 [false; true; false; true; true] = None.
Proof. reflexivity. Qed.
