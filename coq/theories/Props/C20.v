(* C20 — agent lifecycle: health gating, unhealthy exit, graceful shutdown.  Statements only.
   PARTIAL: wall-clock margins and process exit are runtime behaviour, decided by the black-box run. *)
From Coq Require Import List Arith Bool Lia.
From IP Require Import Agent.Lifecycle Proofs.LifecycleProofs.
Import ListNotations.

(* the agent asks the proxy for work right after the first passing health check, never before *)
Theorem C20_gate : forall checks n, wait_healthy checks = Some n ->
  1 <= n /\ nth_error checks (n - 1) = Some true /\ forall j, j < n - 1 -> nth_error checks j = Some false.
Proof. exact gate. Qed.
Print Assumptions C20_gate.

Theorem C20_gate_never : forall checks, wait_healthy checks = None -> forall j, j < length checks -> nth_error checks j = Some false.
Proof. exact gate_never. Qed.
Print Assumptions C20_gate_never.

(* For every history of passing/failing checks and every threshold t (minimum 1): the agent
   terminates itself exactly at the first check at which the number of consecutive failures
   just seen reaches the threshold (a single success resets the count), and otherwise never. *)
Theorem C20_unhealthy : forall t checks,
  match health_exit t checks with
  | Some n => 0 < n <= length checks /\ Nat.max 1 t <= tf (firstn n checks) /\ forall m, 0 < m -> m < n -> tf (firstn m checks) < Nat.max 1 t
  | None => forall m, 0 < m -> m <= length checks -> tf (firstn m checks) < Nat.max 1 t
  end.
Proof.
  intros t checks. unfold health_exit.
  assert (H0 : tf [] < Nat.max 1 t) by (unfold tf; cbn [rev lead_false]; lia).
  pose proof (health_exit_char (Nat.max 1 t) checks ltac:(lia) [] H0) as H. unfold tf at 1 in H. cbn [rev lead_false length app] in H. exact H.
Qed.
Print Assumptions C20_unhealthy.

(* graceful shutdown, decision level: without the option the process exits at the signal; with a
   grace period G it exits at t_sig + G, a request whose backend answer and upload complete before
   that is answered in full, and no pending-list poll starts after the signal *)
Theorem C20_graceful : forall G t_sig,
  exit_time {| grace := G |} t_sig = t_sig + G /\
  (forall t_done up, answered {| grace := G |} t_sig t_done up = true <-> t_done + up < t_sig + G) /\
  (forall t, may_start_list {| grace := G |} t_sig t = true -> t < t_sig).
Proof.
  intros G t_sig. split; [reflexivity|]. split.
  - intros t_done up. unfold answered, exit_time. cbn [grace]. apply Nat.ltb_lt.
  - intros t H. unfold may_start_list in H. cbn [grace] in H. destruct G; apply Nat.ltb_lt in H; exact H.
Qed.
Print Assumptions C20_graceful.

Example C20_example :
  wait_healthy [false; false; true; false] = Some 3 /\
  health_exit 2 [false; true; false; false; true] = Some 4 /\ health_exit 0 [true; true; false] = Some 3 /\
  health_exit 3 [false; false; true; false; false] = None.
Proof. repeat split; reflexivity. Qed.

(* sharpness: a counter that is not reset by a success exits although no two failures are consecutive *)
Example C20_sharp_reset : health_exit 2 [false; true; false; true; true] = None.
Proof. reflexivity. Qed.
