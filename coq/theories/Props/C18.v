(* C18 — the App Engine proxy routes to the most specific live backend.
   Statements only. *)
From Coq Require Import ZArith String List Bool Lia.
From IP Require Import Gen.SrcFacts_App App.Route Proofs.RouteProofs.
Import ListNotations.
Open Scope string_scope.
Open Scope list_scope.

Definition shared_now : string := hd "" sharedBackendUser.
Definition lookup_now := lookup backendTimeout shared_now.
Definition live_now := live backendTimeout.

(* the liveness window and the shared user the source has today *)
Theorem C18_constants : backendTimeout = (5 * 60 * 1000000000)%Z /\ sharedBackendUser = ["allUsers"].
Proof. split; reflexivity. Qed.
Print Assumptions C18_constants.

(* longest matching prefix, for every set of backends (overlapping, nested,
   duplicate, empty prefixes), every path; error iff nothing matches; ties are
   resolved by iteration order only (first among the longest) *)
Theorem C18_longest : forall path bs, Forall (fun b => bid b <> "") bs ->
  match most_specific path bs with
  | None => forall ip, In ip (flat bs) -> prefix (snd ip) path = false
  | Some id => exists pre p post, flat bs = pre ++ (id, p) :: post /\ prefix p path = true /\
      (forall ip, In ip pre -> prefix (snd ip) path = true -> (String.length (snd ip) < String.length p)%nat) /\
      (forall ip, In ip post -> prefix (snd ip) path = true -> (String.length (snd ip) <= String.length p)%nat)
  end.
Proof. exact most_specific_spec. Qed.
Print Assumptions C18_longest.

Theorem C18_longest_backend : forall path bs id, Forall (fun b => bid b <> "") bs ->
  most_specific path bs = Some id ->
  exists b p, In b bs /\ bid b = id /\ In p (prefixes b) /\ prefix p path = true /\
    forall b' p', In b' bs -> In p' (prefixes b') -> prefix p' path = true -> (String.length p' <= String.length p)%nat.
Proof. exact most_specific_longest. Qed.
Print Assumptions C18_longest_backend.

Theorem C18_no_match : forall path bs, Forall (fun b => bid b <> "") bs ->
  (most_specific path bs = None <-> forall b p, In b bs -> In p (prefixes b) -> prefix p path = false).
Proof. exact most_specific_none_iff. Qed.
Print Assumptions C18_no_match.

(* per-user lookup: own backends first, shared ones only when the user has no
   match at all, and only a live backend is ever returned; a dead own match is
   answered 404 (None) without falling back *)
Theorem C18_lookup : forall trk now user path bs id,
  lookup_now trk now user path bs = Some id ->
  (exists t, last_seen id trk = Some t /\ (now - t < backendTimeout)%Z) /\
  (most_specific path (for_user user bs) = Some id \/
   (most_specific path (for_user user bs) = None /\ most_specific path (for_user shared_now bs) = Some id)).
Proof.
  intros trk now user path bs id H. apply lookup_sound in H. destruct H as [L R]. split; [|exact R].
  apply live_spec. exact L.
Qed.
Print Assumptions C18_lookup.

Theorem C18_lookup_complete : forall trk now user path bs,
  (forall id, most_specific path (for_user user bs) = Some id ->
     lookup_now trk now user path bs = if live_now trk now id then Some id else None) /\
  (most_specific path (for_user user bs) = None ->
     lookup_now trk now user path bs =
     match most_specific path (for_user shared_now bs) with
     | Some id => if live_now trk now id then Some id else None
     | None => None
     end).
Proof.
  intros. split.
  - intros id E. apply lookup_own. exact E.
  - intros E. apply lookup_shared. exact E.
Qed.
Print Assumptions C18_lookup_complete.

(* "the choice depends only on the registered backends, the user and the path": two configurations that agree on the
   user's own backends, on the shared backends and on which backends are live give the same answer - whatever else is
   registered, whatever the clock and the other trackers say; in particular a backend of another end user, registered
   anywhere in the listing, never changes where a request goes *)
Theorem C18_depends_only : forall trk trk' now now' user path bs bs',
  for_user user bs = for_user user bs' -> for_user shared_now bs = for_user shared_now bs' ->
  (forall id, live_now trk now id = live_now trk' now' id) ->
  lookup_now trk now user path bs = lookup_now trk' now' user path bs'.
Proof.
  intros trk trk' now now' user path bs bs' Hu Hs Hl.
  unfold lookup_now, lookup. rewrite Hu, Hs.
  destruct (most_specific path (for_user user bs')) as [id|].
  - fold (live_now trk now id). fold (live_now trk' now' id). rewrite Hl. reflexivity.
  - destruct (most_specific path (for_user shared_now bs')) as [id|]; [|reflexivity].
    fold (live_now trk now id). fold (live_now trk' now' id). rewrite Hl. reflexivity.
Qed.
Print Assumptions C18_depends_only.

Theorem C18_other_users_irrelevant : forall trk now user path pre b post,
  euser b <> user -> euser b <> shared_now ->
  lookup_now trk now user path (pre ++ b :: post) = lookup_now trk now user path (pre ++ post).
Proof.
  intros trk now user path pre b post H1 H2.
  apply C18_depends_only; [apply for_user_other|apply for_user_other|reflexivity]; apply String.eqb_neq; assumption.
Qed.
Print Assumptions C18_other_users_irrelevant.

(* non-vacuity: nested, duplicate and empty prefixes *)
Example C18_example :
  let bs := [ {| bid := "b1"; buser := "a1"; euser := "u"; prefixes := ["/"; "/a/"] |};
              {| bid := "b2"; buser := "a2"; euser := "u"; prefixes := ["/a/b"; ""] |};
              {| bid := "b3"; buser := "a3"; euser := "allUsers"; prefixes := ["/a/b"] |} ] in
  most_specific "/a/b/c" bs = Some "b2" /\ most_specific "/a/x" bs = Some "b1" /\
  most_specific "x" bs = Some "b2" /\ most_specific "x" (for_user "allUsers" bs) = None /\
  lookup_now [("b2", 100%Z); ("b3", 0%Z)] (100 + backendTimeout - 1)%Z "u" "/a/b" bs = Some "b2" /\
  lookup_now [("b2", 100%Z); ("b3", 0%Z)] (100 + backendTimeout)%Z "u" "/a/b" bs = None /\
  lookup_now [("b3", 50%Z)] 60%Z "v" "/a/b" bs = Some "b3".
Proof. vm_compute. repeat split; reflexivity. Qed.

(* sharpness: a non-strict comparison picks a later, equally long prefix *)
Example C18_sharp_first_among_longest :
  most_specific "/a" [ {| bid := "x"; buser := ""; euser := ""; prefixes := ["/a"] |};
                       {| bid := "y"; buser := ""; euser := ""; prefixes := ["/a"] |} ] = Some "x".
Proof. reflexivity. Qed.
