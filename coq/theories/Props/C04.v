(* C04 — each client request is forwarded to the backend at most once.
   Statements only. *)
From Coq Require Import String ZArith List Bool Lia.
From IP Require Import Gen.SrcFacts_Agent Gen.SrcFacts_Server Lib.Lru Proofs.LruProofs Server.ProxyCore Proofs.ProxyCoreProofs Agent.System Proofs.SystemProofs.
Import ListNotations.

Definition K_now : nat := Z.to_nat requestCacheLimit.

(* the dedup window the property speaks about is covered by the cache in the source *)
Theorem C04_cache_limit : (1000 <= requestCacheLimit)%Z.
Proof. vm_compute; congruence. Qed.
Print Assumptions C04_cache_limit.

(* the set of previously seen IDs is the recency-ordered cache the model describes (Lib/Lru.v): created by lru.New with
   the limit above, looked up with Get (which moves a re-listed ID to the front) and filled with Add, in this order *)
Theorem C04_dedup_is_lru : dedupConstructor = ["lru.New(requestCacheLimit)"%string] /\ dedupMethods = ["Get"%string; "Add"%string].
Proof. split; reflexivity. Qed.
Print Assumptions C04_dedup_is_lru.

(* the IDs the agent's record is keyed by never repeat, also not across restarts of the proxy while the agent keeps
   running (the generator is seeded from the clock; a counter would re-issue the IDs the agent has already seen, and
   the agent would take the new requests for re-listings and never forward them) *)
Theorem C04_ids_fresh_across_restarts :
  idGeneratorSeed = ["rand.New(rand.NewSource(time.Now().UnixNano()))"%string] /\
  newIDCallees = ["p.Lock"; "p.randGenerator.Int63"; "p.Unlock"; "sha256.Sum256"; "[]byte"; "fmt.Sprintf"; "fmt.Sprintf"]%string.
Proof. split; reflexivity. Qed.
Print Assumptions C04_ids_fresh_across_restarts.

(* the hand-off of the model (an ID taken from the channel is in the reply the poller receives) needs the proxy to be
   able to write that reply however long the poll has been waiting: it is served by http.Serve, without read, write or
   idle deadlines *)
Theorem C04_no_server_deadlines :
  serverMainHTTPCalls = ["http.Serve"%string] /\ serverHTTPServerFields = [] /\ serverLimitCalls = [].
Proof. repeat split; reflexivity. Qed.
Print Assumptions C04_no_server_deadlines.

(* the bounded LRU is exactly the K most recently listed distinct IDs *)
Theorem C04_lru_is_recency_prefix : forall K s R, NoDup R ->
  fst (lru_run Z.eqb (S K) (firstn (S K) R) s) = firstn (S K) (recency Z.eqb R s).
Proof. intros K s R. apply (lru_is_recency_prefix Z.eqb Z.eqb_eq). Qed.
Print Assumptions C04_lru_is_recency_prefix.

(* For every history of pending-list replies (repeats, permutations, overlapping
   subsets, any grouping) that stays within the window, a worker is spawned for
   an ID exactly at its first listing: each listed ID exactly once. *)
Theorem C04_at_most_once : forall h : list (list Z),
  window_ok Z.eqb 1000 (concat h) ->
  spawned Z.eqb K_now h = firsts Z.eqb [] (concat h) /\
  NoDup (spawned Z.eqb K_now h) /\
  (forall x, In x (spawned Z.eqb K_now h) <-> In x (concat h)).
Proof.
  intros h W.
  assert (HK : (1000 <= K_now)%nat).
  { unfold K_now. pose proof C04_cache_limit. lia. }
  assert (W' : window_ok Z.eqb K_now (concat h)).
  { intros pre x post E Hin. specialize (W pre x post E Hin). lia. }
  assert (E : spawned Z.eqb K_now h = firsts Z.eqb [] (concat h)).
  { unfold spawned. revert HK W'. generalize K_now. intros [|K] HK W'; [lia|].
    apply (spawned_is_firsts Z.eqb Z.eqb_eq). exact W'. }
  split; [exact E|]. rewrite E. split; [apply (firsts_NoDup Z.eqb Z.eqb_eq)|].
  intros x. pose proof (firsts_In Z.eqb Z.eqb_eq x (concat h) []) as F. cbn [In] in F. tauto.
Qed.
Print Assumptions C04_at_most_once.

(* ... which is why the IDs must be fresh (C04_ids_fresh_across_restarts): however often an ID is listed within the window,
   by whichever proxy life and for whichever request, exactly one worker is spawned for it - a second request that comes
   under an ID already listed is never forwarded *)
Theorem C04_reused_id_suppressed : forall (h : list (list Z)) x,
  window_ok Z.eqb 1000 (concat h) -> In x (concat h) ->
  count_occ Z.eq_dec (spawned Z.eqb K_now h) x = 1%nat.
Proof.
  intros h x W Hin. destruct (C04_at_most_once h W) as (_ & ND & Hiff).
  apply NoDup_count_occ'; [exact ND|]. apply Hiff. exact Hin.
Qed.
Print Assumptions C04_reused_id_suppressed.

(* "at most 1000 distinct IDs outstanding": such a history is within the window *)
Theorem C04_few_distinct_ids : forall (s univ : list Z),
  (forall x, In x s -> In x univ) -> (length univ <= 1000)%nat -> window_ok Z.eqb 1000 s.
Proof. intros s univ. apply (few_distinct_window Z.eqb Z.eqb_eq). Qed.
Print Assumptions C04_few_distinct_ids.

(* a worker forwards at most once, only after a successful fetch, and makes at
   most 1 + maxReadRequestRetryCount fetch attempts *)
Theorem C04_worker_once : forall gen backend tr s,
  srun gen backend (S (Z.to_nat maxReadRequestRetryCount)) sinit tr = Some s ->
  NoDup (inv_ids s) /\ length (inv_ids s) = length (invoked s) /\
  (forall i w r, wget i (ws s) = Some w -> wr w = Some r -> exists q, wq w = Some q) /\
  (forall i w, wget i (ws s) = Some w -> (wfa w <= 3)%nat).
Proof.
  intros gen backend tr s H. destruct (once_each gen backend _ tr s H) as (_ & _ & _ & A & B & C & D).
  split; [exact B|]. split; [exact C|]. split; [exact D|]. intros i w Hw. specialize (A i w Hw). exact A.
Qed.
Print Assumptions C04_worker_once.

(* the stand-alone proxy hands each ID to exactly one pending-list reply, for
   any number of concurrent pollers: never twice, and every client that got
   past the hand-off point was handed *)
Theorem C04_handoff : forall gen tr s, run gen init tr = Some s ->
  NoDup (map (fun h => snd h) (handed s)) /\
  (inj_upto gen (drawn s) -> NoDup (map (fun h => snd (fst h)) (handed s))) /\
  (forall c v, cget c (clients s) = Some v -> (cph v = PWait \/ exists r, cph v = PDone r) ->
     exists k, In (k, cid v, c) (handed s)).
Proof. exact handoff_once. Qed.
Print Assumptions C04_handoff.

(* non-vacuity and sharpness *)
Example C04_example :
  spawned Z.eqb K_now [[1; 2]%Z; [2; 1; 3]%Z; []; [3; 3; 1]%Z] = [1; 2; 3]%Z.
Proof. vm_compute. reflexivity. Qed.

(* a cache of 2 entries forgets ID 1 after two other IDs: re-listing it spawns a second worker *)
Example C04_sharp_small_cache :
  spawned Z.eqb 2 [[1; 2; 3; 1]%Z] = [1; 2; 3; 1]%Z.
Proof. reflexivity. Qed.
