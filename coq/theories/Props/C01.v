(* C01 — every client gets the response to its own request, never another's.
   Statements only.  Model: Server/ProxyCore.v (proxy) composed with
   Agent/System.v (agent workers + arbitrary backend). *)
From Coq Require Import ZArith List Bool Lia String.
From IP Require Import Gen.SrcFacts_Server Gen.SrcFacts_Agent Server.Relay Server.RelayCheck Proofs.RelayProofs Server.ProxyCore Proofs.ProxyCoreProofs Agent.System Proofs.SystemProofs.
Import ListNotations.
Open Scope Z_scope.

(* the hand-off channel and the rendezvous channel are unbuffered in the source:
   the model's Hand and Post labels are rendezvous steps *)
Theorem C01_channels_unbuffered : proxyRequestIDsChanCap = [0] /\ pendingRespChanCap = [0].
Proof. split; reflexivity. Qed.
Print Assumptions C01_channels_unbuffered.

(* the ID under which a frontend request is entered into the pending table and handed to the agent is
   the proxy's own draw (newID), never a value taken from the request: the hypothesis inj_upto of the
   theorems below is about the proxy's generator alone *)
Theorem C01_id_is_proxy_drawn :
  frontendIDSources = ["p.newID()"%string] /\ frontendTableKeys = ["id"%string] /\ frontendEnqueued = ["id"%string].
Proof. repeat split; reflexivity. Qed.
Print Assumptions C01_id_is_proxy_drawn.

(* ... and the header of the response it relays: every field that is not hop-by-hop with all of its values *)
Theorem C01_header_relay : frontendHeaderRelay = ["if isHopByHopHeader(name) { continue }"; "w.Header()[name] = vals"]%string.
Proof. reflexivity. Qed.
Print Assumptions C01_header_relay.

(* the proxy starts no goroutine of its own: the body of a response is relayed to the client by that client's own
   handler, and nothing is written to a client's connection after its handler has returned (net/http hands the
   write buffer of a finished response to the next one) - the model's Post label is one step *)
Theorem C01_relay_in_handler : serverGoroutines = [].
Proof. reflexivity. Qed.
Print Assumptions C01_relay_in_handler.

(* ... and it reads the trailers of a response only when its relay of the body reached the end: when the client goes
   away in the middle of a response the agent's upload handler may still be reading the rest of it, and net/http
   stores the trailers into resp.Trailer from that other goroutine (concurrent map iteration and map write ends
   the whole proxy, with every request in flight) *)
Theorem C01_trailers_after_complete_relay :
  frontendBeforeTrailers = ["_, err := io.Copy(w, resp.Body)"; "resp.Body.Close()"; "if err != nil { ...; return }"]%string.
Proof. reflexivity. Qed.
Print Assumptions C01_trailers_after_complete_relay.

(* the relay of one response, as two goroutines joined by a pipe (Server/Relay.v), with the guard the source has
   (Server/RelayCheck.relay_guarded: the statement right before the loop over resp.Trailer): in no reachable state of any schedule - the client going
   away at any moment, the upload breaking off or completing, in any order - is the client's handler at the trailer map
   while the upload handler's last Read is still to come or is storing into it *)
Theorem C01_relay_race_free : forall ls s, rrun relay_guarded r_init ls = Some s -> racing s = false.
Proof. exact relay_race_free. Qed.
Print Assumptions C01_relay_race_free.

(* ... and a client that was served to the end found the trailers in the map exactly when the upload had been read to
   its end, which is exactly when the agent's upload was answered 200 *)
Theorem C01_relay_trailers_iff_acknowledged : forall ls s t,
  rrun relay_guarded r_init ls = Some s -> client_outcome s = OComplete t ->
  po s = PClosed /\ t = complete s /\ post_ok s = Some t.
Proof. exact relay_trailers_iff_acknowledged. Qed.
Print Assumptions C01_relay_trailers_iff_acknowledged.

(* sharpness: without the guard (the source before fix 0e606d2) the racing state is reached when the client goes away
   and the end of the upload arrives afterwards *)
Theorem C01_relay_unguarded_races : exists s, rrun false r_init [Relay.Hand; Chunk; ClientFail; LastRead] = Some s /\ racing s = true.
Proof. exact relay_unguarded_races. Qed.
Print Assumptions C01_relay_unguarded_races.

(* the premises are met: a complete exchange, and one in which the client goes away and the upload completes *)
Example C01_relay_complete_run :
  (exists s, rrun relay_guarded r_init [Relay.Hand; Chunk; Chunk; LastRead; Stored; WriterClose; ClientEOF; TrailersRead] = Some s /\ client_outcome s = OComplete true /\ post_ok s = Some true) /\
  (exists s, rrun relay_guarded r_init [Relay.Hand; Chunk; ClientFail; LastRead; Stored; WriterClose] = Some s /\ client_outcome s = OClientGone /\ post_ok s = Some true).
Proof. split; eexists; (split; [vm_compute; reflexivity|split; reflexivity]). Qed.

(* ... and that draw comes from a random generator seeded from the clock when the proxy is created, taken under the lock
   and hashed: distinct within one proxy life and, with overwhelming probability, across the lives of a restarted proxy.
   (inj_upto below is this uniqueness; a counter would satisfy it within one life but not across restarts, which the
   models, having a single proxy life, cannot see - hence the obligation on the source and the run of several instances.) *)
Theorem C01_id_generator :
  newIDCallees = ["p.Lock"; "p.randGenerator.Int63"; "p.Unlock"; "sha256.Sum256"; "[]byte"; "fmt.Sprintf"; "fmt.Sprintf"]%string /\
  idGeneratorSeed = ["rand.New(rand.NewSource(time.Now().UnixNano()))"%string].
Proof. split; reflexivity. Qed.
Print Assumptions C01_id_generator.

(* Proxy: for every schedule of arrivals, hand-offs, fetches, posts (also
   duplicate posts, posts for unknown IDs) and cancellations, with pairwise
   distinct IDs: a response posted under ID i reaches the client owning i and
   nobody else, and every fetch under i returned that client's own request. *)
Theorem C01_proxy_correlation : forall gen tr s,
  run gen init tr = Some s -> inj_upto gen (drawn s) ->
  forall i r c, In (i, r, c) (delivered s) ->
    exists v, cget c (clients s) = Some v /\ cid v = i /\ cph v = PDone r /\
              (forall q', In (i, q') (fetched s) -> q' = ctok v).
Proof. exact proxy_correlation. Qed.
Print Assumptions C01_proxy_correlation.

(* a client that completed holds exactly a response delivered to it under its ID;
   every client receives at most one response *)
Theorem C01_one_response : forall gen tr s, run gen init tr = Some s ->
  NoDup (map (fun d => snd d) (delivered s)) /\
  (forall c v r, cget c (clients s) = Some v -> cph v = PDone r -> In (cid v, r, c) (delivered s)).
Proof.
  intros gen tr s H. split; [exact (one_response_per_client gen tr s H)|exact (done_is_delivered gen tr s H)].
Qed.
Print Assumptions C01_one_response.

(* End to end, for every backend function, every interleaving of the proxy's
   and the workers' steps, every number of clients: what client c receives is
   backend(request of c, n) for one invocation n. *)
Theorem C01_end_to_end : forall gen backend max_fetch tr s,
  srun gen backend max_fetch sinit tr = Some s -> inj_upto gen (drawn (px s)) ->
  forall i r c, In (i, r, c) (delivered (px s)) ->
    exists v n, cget c (clients (px s)) = Some v /\ cid v = i /\ cph v = PDone r /\
                r = backend (ctok v) n /\ In (ctok v, n, r) (invoked s).
Proof. exact end_to_end. Qed.
Print Assumptions C01_end_to_end.

(* each backend invocation (nonce) is distinct, each worker uploads once, each client gets one response *)
Theorem C01_at_most_one_client : forall gen backend max_fetch tr s,
  srun gen backend max_fetch sinit tr = Some s ->
  NoDup (map (fun e => snd (fst e)) (invoked s)) /\ NoDup (map (fun u => fst (fst u)) (uploads s)) /\
  NoDup (map (fun d => snd d) (delivered (px s))).
Proof.
  intros gen backend mf tr s H. destruct (once_each gen backend mf tr s H) as (A & B & C & _). repeat split; assumption.
Qed.
Print Assumptions C01_at_most_one_client.

(* the executable monitor used on implementation traces is implied by the invariant *)
Theorem C01_monitor_sound : forall gen tr s, run gen init tr = Some s -> inj_upto gen (drawn s) ->
  forall i r c, In (i, r, c) (delivered s) -> forall q', In (i, q') (fetched s) ->
  exists v, cget c (clients s) = Some v /\ cid v = i /\ q' = ctok v.
Proof.
  intros gen tr s H Hi i r c Hd q' Hf. destruct (proxy_correlation gen tr s H Hi i r c Hd) as (v & A & B & _ & D).
  exists v. repeat split; try assumption. apply D. exact Hf.
Qed.
Print Assumptions C01_monitor_sound.

(* non-vacuity: two clients in flight, responses posted in the opposite order *)
Example C01_example :
  match run (fun n => Z.of_nat n + 100) init
    [Arrive 1 11; Arrive 2 22; Hand 7 101 2; Hand 7 100 1; Fetch 101 (Some 22); Fetch 100 (Some 11);
     Post 101 2200 true; Post 100 1100 true; Post 100 1100 false] with
  | Some s => delivered s = [(100, 1100, 1); (101, 2200, 2)] /\ monitor s = true /\ ids_distinct s = true
  | None => False
  end.
Proof. vm_compute. repeat split; reflexivity. Qed.

(* sharpness: if the draw is not atomic and two clients obtain the same ID, a
   response produced for client 1's request is delivered to client 2 *)
Example C01_sharp_duplicate_id :
  match run (fun _ => 5) init
    [Arrive 1 11; Hand 7 5 1; Fetch 5 (Some 11); Arrive 2 22; Hand 7 5 2; Post 5 1100 true] with
  | Some s => delivered s = [(5, 1100, 2)] /\ monitor s = false /\ ids_distinct s = false
  | None => False
  end.
Proof. vm_compute. repeat split; reflexivity. Qed.
