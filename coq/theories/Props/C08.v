(* C08 — polling backs off with bounded, strictly positive delays.
   Statements only; proofs are `exact`/instantiation of Proofs/BackoffProofs.v.
   The constants come from Gen/SrcFacts_Agent.v, regenerated from the source. *)
From Coq Require Import String ZArith List Bool Lia.
From IP Require Import Gen.SrcFacts_Agent Agent.Backoff Proofs.BackoffProofs.
Import ListNotations.
Open Scope Z_scope.

Definition base_now := base maxBackoffDuration firstRetryWaitDuration true.
Definition delay_now := delay maxBackoffDuration firstRetryWaitDuration jitter_num jitter_den true.

(* side conditions of the general lemmas, for the regenerated constants *)
Lemma side1 : 0 < firstRetryWaitDuration. Proof. reflexivity. Qed.
Lemma side2 : firstRetryWaitDuration <= maxBackoffDuration. Proof. vm_compute; congruence. Qed.
Lemma side3 : maxBackoffDuration < 2^62. Proof. reflexivity. Qed.
Lemma side4 : 0 <= jitter_num. Proof. vm_compute; congruence. Qed.
Lemma side5 : jitter_num < jitter_den. Proof. reflexivity. Qed.
Lemma side6 : jitter_den <= firstRetryWaitDuration * (jitter_den - jitter_num). Proof. vm_compute; congruence. Qed.
Lemma threshold_now : threshold maxBackoffDuration firstRetryWaitDuration = 11. Proof. reflexivity. Qed.

(* "about 1 ms", "about 3 s", "+-10%": the values the source has today *)
Theorem C08_constants :
  firstRetryWaitDuration = 1000000 /\ maxBackoffDuration = 3000000000 /\
  jitter_num * 10 = jitter_den.
Proof. repeat split; reflexivity. Qed.
Print Assumptions C08_constants.

(* the schedule before jitter, for every retry count of the Go uint range:
   min(2^n ms, 3 s); in particular no overflow at 62, 63, 64, 2^32, 2^64-1 *)
(* what counts as a failed poll, i.e. what makes the loop back off: every answer of the pending-list call other than
   status 200 with an empty body or a JSON list (the outcomes list of C08_loop is this classification) *)
Theorem C08_failed_poll :
  parseRequestIDsConds = ["err != nil"; "response.StatusCode != http.StatusOK"; "len(responseBytes) <= 0"; "json.Unmarshal(responseBytes, &requests); err != nil"]%string.
Proof. reflexivity. Qed.
Print Assumptions C08_failed_poll.

Theorem C08_schedule : forall n, 0 <= n < 2^64 ->
  base_now n = Z.min (2^n * firstRetryWaitDuration) maxBackoffDuration /\
  firstRetryWaitDuration <= base_now n <= maxBackoffDuration.
Proof.
  intros n Hn. split.
  - exact (base_is_min _ _ side1 side2 side3 n (proj1 Hn)).
  - exact (base_range _ _ side1 side2 side3 n (proj1 Hn)).
Qed.
Print Assumptions C08_schedule.

Theorem C08_doubles_then_caps :
  base_now 0 = firstRetryWaitDuration /\
  (forall n, 0 <= n < 11 -> base_now (n + 1) = 2 * base_now n) /\
  (forall n, 11 < n -> base_now n = maxBackoffDuration).
Proof.
  split; [reflexivity|]. split.
  - intros n Hn. apply (base_doubles _ _ side1 side2 side3). rewrite threshold_now. exact Hn.
  - intros n Hn. apply base_high. rewrite threshold_now. exact Hn.
Qed.
Print Assumptions C08_doubles_then_caps.

(* every delay, for every retry count and every PRNG draw k/2^53, is strictly
   positive and within the jitter band of the schedule (1 ns truncation) *)
Theorem C08_positive_bounded : forall n k, 0 <= n < 2^64 -> 0 <= k < 2^53 ->
  0 < delay_now n k /\
  (jitter_den - jitter_num) * base_now n <= jitter_den * delay_now n k + jitter_den /\
  jitter_den * delay_now n k <= (jitter_den + jitter_num) * base_now n.
Proof.
  intros n k Hn Hk.
  exact (delay_bounds _ _ _ _ side1 side2 side3 side4 side5 side6 n k (proj1 Hn) Hk).
Qed.
Print Assumptions C08_positive_bounded.

(* the counter of the loop below is the one in the source: one more per failed poll, zero after a successful one, nothing else *)
Theorem C08_counter_updates : retryCountUpdates = ["retryCount++"; "retryCount = 0"]%string.
Proof. reflexivity. Qed.
Print Assumptions C08_counter_updates.

(* the poll loop: the i-th failing list call sleeps with the number of
   consecutive failures since the last success; a success resets to 0 *)
Theorem C08_loop : forall outcomes, Z.of_nat (length outcomes) < 2^64 ->
  sleeps outcomes = spec_sleeps outcomes /\
  Forall (fun n => 0 < delay_now n 0 /\ 0 <= n < 2^64) (sleeps outcomes).
Proof.
  intros outs H. split; [apply sleeps_spec; exact H|].
  pose proof (sleeps_from_range outs 0 ltac:(lia)) as R.
  unfold sleeps. eapply Forall_impl; [|exact R].
  intros n Hn. split; [|exact Hn].
  apply (C08_positive_bounded n 0 Hn). split; [apply Z.le_refl | reflexivity].
Qed.
Print Assumptions C08_loop.

(* "it therefore never busy-loops": over any run of the poll loop - any outcome
   pattern, any PRNG draws - there is exactly one sleep per failed list call,
   and the time slept in total is at least 0.9 x 1 ms (less 1 ns truncation)
   per failed call, hence at least one nanosecond per failed call *)
Theorem C08_no_busy_loop : forall outcomes ks,
  Z.of_nat (length outcomes) < 2^64 ->
  length ks = length (sleeps outcomes) ->
  Forall (fun k => 0 <= k < 2^53) ks ->
  Z.of_nat (length (sleeps outcomes)) = failures outcomes /\
  failures outcomes <= total_wait delay_now (sleeps outcomes) ks /\
  (jitter_den - jitter_num) * firstRetryWaitDuration * failures outcomes
    <= jitter_den * total_wait delay_now (sleeps outcomes) ks + jitter_den * failures outcomes.
Proof.
  intros outs ks _ Hl Hk.
  pose proof (sleeps_from_count outs 0) as Hc. fold (sleeps outs) in Hc.
  pose proof (sleeps_from_range outs 0 ltac:(lia)) as R. fold (sleeps outs) in R.
  split; [exact Hc|]. rewrite <- Hc. split.
  - pose proof (total_wait_lower delay_now 1 1 0) as L. cbv beta in L.
    assert (H1 : forall n k, 0 <= n < 2^64 -> 0 <= k < 2^53 -> 1 <= 1 * delay_now n k + 0)
      by (intros n k Hn Hk'; pose proof (proj1 (C08_positive_bounded n k Hn Hk')); lia).
    pose proof (L H1 (sleeps outs) ks R Hk Hl). lia.
  - apply (total_wait_lower delay_now ((jitter_den - jitter_num) * firstRetryWaitDuration) jitter_den jitter_den); try assumption.
    intros n k Hn Hk'.
    destruct (C08_positive_bounded n k Hn Hk') as [_ [Hlo _]].
    destruct (C08_schedule n Hn) as [_ [Hb _]].
    assert (Hj : 0 <= jitter_den - jitter_num) by (pose proof side5; lia).
    nia.
Qed.
Print Assumptions C08_no_busy_loop.

(* non-vacuity and sharpness *)
Example C08_example_values :
  map base_now [0; 1; 11; 12; 62; 63; 64; 2^32; 2^64 - 1] =
  [1000000; 2000000; 2048000000; 3000000000; 3000000000; 3000000000; 3000000000; 3000000000; 3000000000]
  /\ spec_sleeps [false; false; true; false] = [0; 1; 0]
  /\ failures [false; false; true; false] = 3
  /\ total_wait delay_now (sleeps [false; false; true; false]) [0; 2^52; 2^53 - 1] = 900000 + 2000000 + 1099999.
Proof. repeat split; vm_compute; reflexivity. Qed.

(* without the overflow guard the delay is not positive at 63, 64 and wraps at 54 *)
Example C08_sharp_no_guard :
  base maxBackoffDuration firstRetryWaitDuration false 63 <= 0 /\
  base maxBackoffDuration firstRetryWaitDuration false 64 = 0 /\
  base maxBackoffDuration firstRetryWaitDuration false 54 < 0.
Proof. vm_compute. repeat split; congruence. Qed.
