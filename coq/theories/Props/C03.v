(* C03 — the client receives the backend's response unaltered.  Statements only. *)
From Coq Require Import String List Bool ZArith Lia.
From IP Require Import Gen.SrcFacts_Agent Gen.SrcFacts_Server Lib.Header Server.HopFilter Agent.RespPath Proofs.RespPathProofs Proofs.TrailerProofs Codec.Chunked Proofs.ChunkedProofs.
Import ListNotations.
Open Scope string_scope.
Open Scope list_scope.

Definition client_view_now := client_view hopHeaders true true serverHopByHop.

(* the tables the source has today: "Trailer" is among the agent's hop-by-hop
   names (so the announcement itself is not forwarded as a header), and the
   agent's and the proxy's tables agree on the standard hop-by-hop fields *)
Theorem C03_tables : key_in hopHeaders "Trailer" = true /\
  forallb (fun k => key_in hopHeaders k) ["Connection"; "Keep-Alive"; "Proxy-Authenticate"; "Proxy-Authorization"; "Te"; "Trailer"; "Transfer-Encoding"; "Upgrade"] = true /\
  forallb (key_in serverHopByHop) required_hop = true.
Proof. repeat split; reflexivity. Qed.
Print Assumptions C03_tables.

(* the stand-alone proxy serves with http.Serve and builds no http.Server of its own: there is no read, write or idle
   deadline on the connections that carry a response (the agent's upload is the body of a POST), however long the
   backend takes to produce it.  (The model has no time-outs on the response path; this is where that is checked.) *)
Theorem C03_no_server_deadlines : serverMainHTTPCalls = ["http.Serve"] /\ serverHTTPServerFields = [] /\ serverLimitCalls = [].
Proof. repeat split; reflexivity. Qed.
Print Assumptions C03_no_server_deadlines.

(* the proxy's relay step of the model (every field that is not hop-by-hop, with all of its values, in order) is the loop
   in the source: the slice of values is handed over as it is *)
Theorem C03_proxy_relays_all_values :
  frontendHeaderRelay = ["if isHopByHopHeader(name) { continue }"; "w.Header()[name] = vals"]%string.
Proof. reflexivity. Qed.
Print Assumptions C03_proxy_relays_all_values.

(* For every backend response - any final status outside 1xx, any header fields,
   any number of interim 1xx responses before it, any trailers - the client
   receives the final status and, for every end-to-end field name, exactly the
   backend's values in order; hop-by-hop fields are never forwarded. *)
Theorem C03_status_and_headers : forall b, Forall in_1xx (br_interim b) -> ~ in_1xx (br_status b) ->
  exists H T, client_view_now b = Some (br_status b, H, T) /\
    (forall k, key_in hopHeaders k = false -> key_in lib_hop k = false -> key_in serverHopByHop (lower k) = false -> k <> "Trailer" ->
       hvalues k H = hvalues k (of_wire (br_fields b))) /\
    (forall k, key_in hopHeaders k = true \/ key_in lib_hop k = true \/ key_in serverHopByHop (lower k) = true -> hvalues k H = []).
Proof. intros b. apply client_status_headers. exact (proj1 C03_tables). Qed.
Print Assumptions C03_status_and_headers.

(* The trailer announcement: for ANY number of announced names, the names the
   response writer pre-declares are exactly the announced ones (ReverseProxy
   joins them into one comma-separated value). *)
Theorem C03_trailer_announcement : forall names, Forall (fun n => plain_name n = true) names -> names <> [] ->
  map trim (split_commas (join_names names)) = names.
Proof. exact split_join. Qed.
Print Assumptions C03_trailer_announcement.

(* Trailers: for every backend response, every trailer field - announced in the Trailer
   header or not, any number of names, any number of values per name, in either of the two
   forms ReverseProxy uses to hand them over (plain when all were announced, with the
   "Trailer:" prefix otherwise) - reaches the client as a trailer with exactly its values in
   order, and nothing else appears among the trailers.  Well-formedness: trailer names are
   plain tokens that are not hop-by-hop, do not also occur as header fields and do not start
   with "Trailer:"; header field names contain no colon (so none starts with "Trailer:"). *)
Theorem C03_trailers : forall b H T,
  Forall in_1xx (br_interim b) -> ~ in_1xx (br_status b) ->
  Forall (wf_trailer hopHeaders serverHopByHop b) (all_tr b) -> Forall wf_field (br_fields b) ->
  client_view_now b = Some (br_status b, H, T) ->
  forall k, hvalues k T = map snd (filter (fun t => canon (fst t) =? k) (br_declared b ++ br_undeclared b)).
Proof. intros b H T. exact (client_trailers hopHeaders serverHopByHop (proj1 C03_tables) b H T). Qed.
Print Assumptions C03_trailers.

(* The body on the way from the agent to the proxy is carried in the chunked transfer coding (forced by
   NewResponseForwarder, see C05_incremental_upload): for every sequence of writes of the backend's body - any number,
   any sizes, any bytes, empty writes included - and every trailer section, the reader gets exactly the concatenation
   of the writes and finds the trailer section untouched; so the body does not depend on how it was segmented. *)
Theorem C03_chunked_body_roundtrip : forall (writes : list (list nat)) (trailer_section : list nat),
  decode (encode writes trailer_section) = Some (concat writes, trailer_section ++ [CR; LF]).
Proof. exact decode_encode. Qed.
Print Assumptions C03_chunked_body_roundtrip.

Theorem C03_resegmentation : forall (w1 w2 : list (list nat)) t, concat w1 = concat w2 ->
  option_map fst (decode (encode w1 t)) = option_map fst (decode (encode w2 t)).
Proof. exact resegmentation. Qed.
Print Assumptions C03_resegmentation.

(* non-vacuity: 103 + 103, repeated Set-Cookie, three announced trailers (one name twice), a hop-by-hop field *)
Example C03_example :
  client_view_now {| br_interim := [103%Z; 103%Z]; br_status := 418%Z;
      br_fields := [("Set-Cookie", "a=1"); ("set-cookie", "b=2"); ("Keep-Alive", "x"); ("X-Custom", "")]; br_body := (3, "h");
      br_declared := [("X-Trailer-A", "1"); ("X-Trailer-B", "2"); ("x-trailer-a", "3")]; br_undeclared := [] |}
  = Some (418%Z, [("Set-Cookie", ["a=1"; "b=2"]); ("X-Custom", [""])], [("X-Trailer-A", ["1"; "3"]); ("X-Trailer-B", ["2"])]) /\
  client_view_now {| br_interim := []; br_status := 200%Z; br_fields := []; br_body := (0, "");
      br_declared := [("X-Trailer-A", "1")]; br_undeclared := [("X-U", "u"); ("X-V", "v")] |}
  = Some (200%Z, [], [("X-Trailer-A", ["1"]); ("X-U", ["u"]); ("X-V", ["v"])]).
Proof. split; vm_compute; reflexivity. Qed.

(* sharpness (the two defects repaired in the source): without the 1xx guard the
   interim code becomes the response; without the comma split two announced
   trailers lose their values *)
Example C03_sharp_no_1xx_guard :
  option_map (fun v => fst (fst v)) (client_view hopHeaders false true serverHopByHop
    {| br_interim := [103%Z]; br_status := 500%Z; br_fields := []; br_body := (0, ""); br_declared := []; br_undeclared := [] |}) = Some 103%Z.
Proof. vm_compute. reflexivity. Qed.

Example C03_sharp_no_comma_split :
  option_map (fun v => snd v) (client_view hopHeaders true false serverHopByHop
    {| br_interim := []; br_status := 200%Z; br_fields := []; br_body := (0, "");
       br_declared := [("X-Trailer-A", "1"); ("X-Trailer-B", "2")]; br_undeclared := [] |}) = Some [("X-Trailer-A, X-Trailer-B", [])].
Proof. vm_compute. reflexivity. Qed.
