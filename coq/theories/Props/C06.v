(* C06 — retried response uploads are never corrupted.  Statements only. *)
From Coq Require Import ZArith List Bool Arith Lia.
From IP Require Import Gen.SrcFacts_Agent Agent.ReplayBuffer Proofs.ReplayProofs Codec.Chunked Proofs.ChunkedProofs.
Import ListNotations.

Definition cap_now : nat := Z.to_nat readResponseBufSize.
Definition retries_now : nat := Z.to_nat maxWriteResponseRetryCount.

Theorem C06_constants :
  readResponseBufSize = 4096%Z /\ maxWriteResponseRetryCount = 2%Z /\ responseForwarderChanCaps = [0; 1; 1]%Z.
Proof. repeat split; reflexivity. Qed.
Print Assumptions C06_constants.

(* An upload attempt that carries only part of the response cannot be taken for a complete one by the proxy: the upload is
   chunk-coded (C05_incremental_upload), and every strict prefix of the chunks and the terminating  0 CRLF  line - cut inside a
   size line, inside the data, or between data and its CRLF - is rejected by the reader, for every segmentation and every bytes. *)
Theorem C06_truncated_upload_rejected : forall (writes : list (list nat)) p q fuel acc,
  p ++ q = concat (map enc_chunk writes) ++ [48; CR; LF] -> q <> [] -> decode_fuel fuel p acc = None.
Proof. exact truncated_rejected. Qed.
Print Assumptions C06_truncated_upload_rejected.

Lemma cap_now_pos : 0 < cap_now.
Proof. unfold cap_now. assert (0 < readResponseBufSize)%Z by reflexivity. lia. Qed.

(* For every serialised response S, every segmentation into source reads, every
   transport read size at least as large as the replay buffer, and every fault
   script (which attempts fail, after how many bytes): each attempt carried a
   prefix of S from its first byte, the whole of S when it read to the end;
   there are at most three attempts. *)
Theorem C06_sequential : forall S ops s,
  Forall (read_size_ok cap_now) ops -> urun cap_now retries_now S uinit ops = Some s ->
  Forall (fun a => let '(bytes, eof, _) := a in (exists n, bytes = firstn n S) /\ (eof = true -> bytes = S)) (done_attempts s) /\
  length (done_attempts s) <= 3 /\
  (finished s = false -> exists n, cur s = firstn n S).
Proof.
  intros S ops s HF H. destruct (upload_sequential cap_now retries_now S cap_now_pos ops s HF H) as (A & B & C).
  split; [exact A|]. split; [|exact C]. assert (retries_now = 2) by reflexivity. lia.
Qed.
Print Assumptions C06_sequential.

(* a retry happens only while everything consumed so far can be replayed in full *)
Theorem C06_retry_only_if_replayable : forall S ops s s',
  Forall (read_size_ok cap_now) ops -> urun cap_now retries_now S uinit ops = Some s ->
  ustep cap_now retries_now S s OFail = Some s' -> finished s' = false ->
  taken s < cap_now /\ buf (rd s') = firstn (taken s) S /\ rh (rd s') = 0.
Proof.
  intros S ops s s' HF H Hs Hf.
  apply (retry_only_if_replayable cap_now retries_now S cap_now_pos s s'); try assumption.
  exact (uinv_run cap_now retries_now S cap_now_pos ops uinit s (uinv_init cap_now retries_now S cap_now_pos) HF H).
Qed.
Print Assumptions C06_retry_only_if_replayable.

(* The full statement also quantifies over the timing of the previous attempt's
   body reader (net/http may still be reading the request body after an early
   response): an acknowledged attempt made when the whole stream has been
   consumed must have carried the whole stream.  On the current code it is FALSE. *)
Definition C06_statement : Prop := forall S ops s a,
  urun2 cap_now S uinit2 ops = Some s -> acked s = Some a -> taken2 s = length S ->
  out_of a (outs s) = S.

Definition lingering_witness : list op2 :=
  [O2Buf 1 cap_now; O2Src 1 1; O2Buf 1 cap_now; O2Fail; O2Buf 2 cap_now; O2Src 1 3; O2Src 2 0; O2Ack].

(* attempt 1 reads [1] and starts its next Read (nothing buffered, waits for the
   source); early 5xx; Seek(0); attempt 2 starts a Read and replays [1]; the
   stale reader of attempt 1 receives [2;3;4]; attempt 2 sees the end of the
   stream and is acknowledged having carried [1] only *)
Lemma lingering_witness_run :
  exists s, urun2 cap_now [1; 2; 3; 4]%Z uinit2 lingering_witness = Some s /\
            acked s = Some 2 /\ taken2 s = 4 /\ out_of 2 (outs s) = [1]%Z /\ out_of 1 (outs s) = [1; 2; 3; 4]%Z.
Proof. eexists. split; [vm_compute; reflexivity|]. repeat split; reflexivity. Qed.

Theorem C06_refuted_lingering_reader : ~ C06_statement.
Proof.
  intros H. destruct lingering_witness_run as (s & Hr & Ha & Ht & Ho & _).
  specialize (H [1; 2; 3; 4]%Z lingering_witness s 2 Hr Ha Ht). rewrite Ho in H. discriminate.
Qed.
Print Assumptions C06_refuted_lingering_reader.

(* what holds on the current code: the statement for schedules in which only the
   current attempt's transport reads the body (C06_sequential); and the latent
   early EOF for reads smaller than the buffered prefix, excluded by read_size_ok *)
Theorem C06_small_read_refuted :
  exists s, urun 4 2 [1; 2; 3]%Z uinit [ORead 8 3; OFail; ORead 2 0; OAck] = Some s /\
            done_attempts s = [([1; 2; 3]%Z, false, false); ([1; 2]%Z, true, true)].
Proof. eexists. split; vm_compute; reflexivity. Qed.
Print Assumptions C06_small_read_refuted.

(* non-vacuity: a 5xx after 3000 bytes, replay, then success *)
Example C06_example :
  let S := map Z.of_nat (seq 0 4500) in
  match urun cap_now retries_now S uinit [ORead cap_now 3000; OFail; ORead cap_now 0; ORead cap_now 1500; ORead cap_now 0; OAck] with
  | Some s => map (fun a => (length (fst (fst a)), snd (fst a), snd a)) (done_attempts s) = [(3000, false, false); (4500, true, true)]
  | None => False
  end.
Proof. vm_compute. reflexivity. Qed.

(* sharpness: `>` instead of `>=` in Seek lets a retry start with a truncated buffer *)
Example C06_sharp_seek_off_by_one :
  (* with cap 4 and 4 bytes consumed, the real Seek refuses *)
  brs_seek0 4 {| buf := [1; 2; 3; 4]%Z; rh := 4 |} = None.
Proof. reflexivity. Qed.
