(* C17 — the App Engine proxy enforces who may act as agent, user and admin.
   Statements only; the proofs are in Proofs/AppProofs.v.  The model (App/AppModel.v) is
   instantiated with the constants regenerated from app/** (Gen/SrcFacts_App.v). *)
From Coq Require Import ZArith String List Bool Lia.
From IP Require Import Gen.SrcFacts_App App.Route App.AppModel App.AppCheck Proofs.AppProofs.
Import ListNotations.
Open Scope string_scope.
Open Scope list_scope.
Open Scope Z_scope.

Definition authorised_now := authorised.

(* source facts the access-control argument rests on: every agent handler starts with the identity
   check and answers 401; the only API path served before the administrator check is restricted to
   administrators by api.yaml; app.yaml requires a login for end users *)
Theorem C17_source_guards :
  agentHandlersGuardedFirst = ["pendingHandler"; "requestHandler"; "responseHandler"] /\
  apiUncheckedPaths = ["/cron/delete"] /\ cron_front_admin_now = true /\ login_required_now = true.
Proof. repeat split; reflexivity. Qed.
Print Assumptions C17_source_guards.

(* an agent call (list, fetch, respond) by anyone but the backend user registered for the backend ID it
   names - no identity, another identity, unknown or empty backend ID, failing identity or backend lookup -
   is answered 401 and changes nothing, in every state *)
Theorem C17_agent_rejected : forall s o who b fs, agent_op o = Some (who, b, fs) ->
  authorised s fs who b = false -> step_now s o = (Status 401, s).
Proof. exact (agent_rejected _ _ _ _ _ _ _ _ _ _). Qed.
Print Assumptions C17_agent_rejected.

(* conversely a call that is not answered 401 comes from the registered backend user of that backend *)
Theorem C17_agent_gate : forall s o who b fs, agent_op o = Some (who, b, fs) ->
  fst (step_now s o) <> Status 401 ->
  exists u rec, who = Some u /\ find_backend b (backends s) = Some rec /\ bid rec = b /\ buser rec = u.
Proof. exact (agent_gate _ _ _ _ _ _ _ _ _ _). Qed.
Print Assumptions C17_agent_gate.

(* an agent call naming backend b touches only b's requests (and responses under their IDs), b's tracker *)
Theorem C17_agent_frame : forall s o who b fs, agent_op o = Some (who, b, fs) ->
  let s' := snd (step_now s o) in
  backends s' = backends s /\ other_req b (dreq s') = other_req b (dreq s) /\ other_req b (creq s') = other_req b (creq s) /\
  other_resp b (cresp s') = other_resp b (cresp s) /\ rcache s' = rcache s /\ waiting s' = waiting s /\
  remove_tracker b (trackers s') = remove_tracker b (trackers s) /\
  (dresp s' = dresp s \/
   exists id pay q, o = OARespond who b (RId id) pay fs /\ authorised s fs who b = true /\
                    read_request fieldByteLimit s fs b id = Some q /\
                    dresp s' = put_dresp {| s_backend := b; s_id := id; s_pay := pay |} (dresp s)).
Proof. exact (agent_frame _ _ _ _ _ _ _ _ _ _). Qed.
Print Assumptions C17_agent_frame.

(* ... and its answer is a function of b's record and b's own requests only: two states that agree on
   those give the same answer, whatever other backends, users and agents have stored *)
Theorem C17_agent_learns_nothing_else : forall s1 s2 o who b fs, agent_op o = Some (who, b, fs) ->
  agent_view b s1 = agent_view b s2 -> fst (step_now s1 o) = fst (step_now s2 o).
Proof. exact (agent_answer_depends_on_own_view _ _ _ _ _ _ _ _ _ _). Qed.
Print Assumptions C17_agent_learns_nothing_else.

(* end users are routed only to a backend registered for them or for allUsers; without identity nothing is routed *)
Theorem C17_user_routing : forall s u raw get url path id pay fs b s',
  step_now s (OUStart (Some u) raw get url path id pay fs) = (Stored b, s') ->
  exists rec, In rec (backends s) /\ bid rec = b /\ (euser rec = u \/ euser rec = shared_now).
Proof. exact (user_routing _ _ _ _ _ _ _ _ _ _). Qed.
Print Assumptions C17_user_routing.

Theorem C17_user_anonymous : forall s raw get url path id pay fs,
  step_now s (OUStart None raw get url path id pay fs) = (Status (if negb raw then 302 else 401), s).
Proof. exact (user_anonymous _ _ _ _ _ _ _ _ _ _). Qed.
Print Assumptions C17_user_anonymous.

(* the administration API answers 403 to everyone who is neither a signed-in administrator nor an
   OAuth administrator, and changes nothing; the cron path is closed by the front end *)
Theorem C17_admin_gate : forall s o who fs, admin_op o = Some (who, fs) -> is_admin who fs = false ->
  step_now s o = (Status 403, s).
Proof. exact (admin_gate _ _ _ _ _ _ _ _ _ _). Qed.
Print Assumptions C17_admin_gate.

Theorem C17_cron_gate : forall s who, hdr_admin who = false -> step_now s (OCron who) = (Status 403, s).
Proof. intros s who. exact (cron_gate _ _ _ _ _ _ _ _ _ _ s who eq_refl). Qed.
Print Assumptions C17_cron_gate.

Theorem C17_backends_only_by_admin : forall s o, backends (snd (step_now s o)) <> backends s ->
  (exists who fs, admin_op o = Some (who, fs) /\ is_admin who fs = true) \/
  (exists who, o = OCron who /\ (cron_front_admin_now = false \/ hdr_admin who = true)).
Proof. exact (backends_only_by_admin _ _ _ _ _ _ _ _ _ _). Qed.
Print Assumptions C17_backends_only_by_admin.

(* non-vacuity: two backends, a stored request of each; the other backend's agent, a stranger and an
   anonymous caller get 401 on every endpoint, the owner is served *)
Example C17_example :
  let b0 := {| bid := "b0"; buser := "a0"; euser := "u0"; prefixes := ["/"] |} in
  let b1 := {| bid := "b1"; buser := "a1"; euser := "u1"; prefixes := ["/"] |} in
  let adm := {| hdr_admin := true; oauth_admin := false |} in
  let nob := {| hdr_admin := false; oauth_admin := false |} in
  let p := {| p_tag := 7; p_len := 100; p_status := 0; p_cc := false |} in
  let r := {| p_tag := 8; p_len := 100; p_status := 200; p_cc := false |} in
  fst (run_now init [OAdd adm b0 true []; OAdd adm b1 true []; OSeen "b0" 1; OSeen "b1" 1;
                     OUStart (Some "u0") false false "/x" "/x" 5 p []; OUStart (Some "u1") false false "/y" "/y" 6 p [];
                     OAFetch (Some "a1") "b0" (RId 5) []; OAFetch None "b0" (RId 5) []; OAFetch (Some "a1") "b1" (RId 5) [];
                     OARespond (Some "a1") "b0" (RId 5) r []; OAList (Some "zz") "b1" [];
                     OAFetch (Some "a0") "b0" (RId 5) []; OAList (Some "a0") "b0" [];
                     OAdd nob b1 true []; OList nob []; OCron nob; OUStart (Some "u1") false false "/x" "/x" 9 p []])
  = [Status 200; Status 200; Status 0; Status 0; Stored "b0"; Stored "b1";
     Status 401; Status 401; Status 404; Status 401; Status 401;
     Fetched "u0" p; Listed [5]; Status 403; Status 403; Status 403; Stored "b1"].
Proof. vm_compute. reflexivity. Qed.
