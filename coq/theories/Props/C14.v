(* C14 — banner and shim-script injection touch HTML documents only.  Statements only. *)
From Coq Require Import List Arith Bool String ZArith.
From IP Require Import Codec.ReplaceFirst Lib.Header Banner.Banner Banner.Writer Proofs.HeaderProofs Proofs.BannerProofs Proofs.WriterProofs.
Import ListNotations.

(* "<head>" *)
Definition head_tag : list nat := [60; 104; 101; 97; 100; 62].

(* For every body, every List.length of the first read and every script: the spliced body
   is the original, or the original with the script inserted exactly once, immediately
   after the first <head> of the whole body; nothing else is added, removed or reordered. *)
Theorem C14_shim_splice : forall script body k,
  shim_body head_tag script body k = body \/
  (exists i, body = firstn i body ++ head_tag ++ skipn (i + 6) body /\
             shim_body head_tag script body k = firstn i body ++ head_tag ++ script ++ skipn (i + 6) body /\
             (forall j, j < i -> prefixb head_tag (skipn j body) = false)).
Proof. intros script body k. apply (shim_body_spec head_tag script body k). discriminate. Qed.
Print Assumptions C14_shim_splice.

Theorem C14_replace_first : forall pat ins s, pat <> [] ->
  (replace_first pat ins s = s /\ forall j, prefixb pat (skipn j s) = false) \/
  (exists i, s = firstn i s ++ pat ++ skipn (i + List.length pat) s /\
             replace_first pat ins s = firstn i s ++ pat ++ ins ++ skipn (i + List.length pat) s /\
             forall j, j < i -> prefixb pat (skipn j s) = false).
Proof. exact replace_first_spec. Qed.
Print Assumptions C14_replace_first.

(* The banner alters a response only for a GET whose Accept includes text/html answered
   200 with an HTML type and no attachment disposition; every other response is passed
   through with its headers and body unchanged. *)
Theorem C14_banner_only_html : forall q st cds cts h,
  (is_html_request q && is_frameable st cds cts = false -> banner_outcome q st cds cts = Passthrough /\ banner_headers (banner_outcome q st cds cts) h = h) /\
  (banner_outcome q st cds cts <> Passthrough -> is_html_request q = true /\ is_frameable st cds cts = true).
Proof.
  intros q st cds cts h. split; [|apply banner_passthrough].
  intros H. unfold banner_outcome. destruct (is_html_request q); cbn [negb andb] in *; [|split; reflexivity].
  rewrite H. cbn [negb]. split; reflexivity.
Qed.
Print Assumptions C14_banner_only_html.

(* an already framed request gets the original body; the frame page and the framed original
   are marked uncacheable and same-origin-frameable; other fields keep their values *)
Theorem C14_banner_marks : forall o h, o <> Passthrough ->
  hvalues "X-Frame-Options" (banner_headers o h) = ["sameorigin"%string] /\
  hvalues "Cache-Control" (banner_headers o h) = ["no-cache, no-store, max-age=0, must-revalidate"%string] /\
  hvalues "Pragma" (banner_headers o h) = ["no-cache"%string] /\
  (forall k, k <> "X-Frame-Options"%string -> k <> "Cache-Control"%string -> k <> "Pragma"%string -> k <> "Expires"%string -> k <> "Content-Encoding"%string ->
     hvalues k (banner_headers o h) = hvalues k h).
Proof.
  intros o h Ho. destruct o; [contradiction| |]; cbn [banner_headers].
  - repeat split; try (repeat (first [rewrite hvalues_hset_same; reflexivity | rewrite hvalues_hset_other by discriminate])).
    intros k H1 H2 H3 H4 H5. rewrite !hvalues_hset_other by congruence. reflexivity.
  - repeat split; try (rewrite hvalues_hdel_other by discriminate; repeat (first [rewrite hvalues_hset_same; reflexivity | rewrite hvalues_hset_other by discriminate])).
    intros k H1 H2 H3 H4 H5. rewrite hvalues_hdel_other by congruence. rewrite !hvalues_hset_other by congruence. reflexivity.
Qed.
Print Assumptions C14_banner_marks.

(* ... and the original body served to an already framed request keeps the field that says how it is encoded (only the
   frame page, whose body is ours, loses it) *)
Theorem C14_framed_original_keeps_encoding : forall h,
  hvalues "Content-Encoding" (banner_headers FramedOriginal h) = hvalues "Content-Encoding" h /\
  hvalues "Content-Type" (banner_headers FramedOriginal h) = hvalues "Content-Type" h.
Proof. intros h. cbn [banner_headers]. split; rewrite !hvalues_hset_other by discriminate; reflexivity. Qed.
Print Assumptions C14_framed_original_keeps_encoding.

(* the response writer that carries the decision out, on the calls httputil.ReverseProxy makes for one response - any
   number of informational responses (100..199), the final header, the body in any pieces: the wrapped writer (and so
   the client) sees the informational responses, the backend's final status, and then the backend's pieces unchanged,
   or - when the decision for that status is the frame page - the frame page once and none of the backend's bytes *)
Theorem C14_writer : forall dec page (interims : list Z) final (pieces : list (list nat)),
  Forall (fun c => informational c = true) interims -> informational final = false ->
  wout (w_run dec page (map WHeader interims ++ [WHeader final] ++ map WBody pieces)) =
    map WHeader interims ++ [WHeader final] ++ match dec final with FramePage => [WBody page] | _ => map WBody pieces end /\
  (let o := wout (w_run dec page (map WHeader interims ++ [WHeader final] ++ map WBody pieces)) in
   final_status o = Some final /\ interims_of o = interims /\
   body_of o = match dec final with FramePage => page | _ => List.concat pieces end).
Proof.
  intros dec page interims final pieces Hi Hf. split; [apply writer_exact; assumption|].
  exact (writer_client_view dec page interims final pieces Hi Hf).
Qed.
Print Assumptions C14_writer.

(* ... and a body written without a header gets the implicit 200, decided like any other 200 *)
Theorem C14_writer_implicit_200 : forall dec page b (pieces : list (list nat)),
  wout (w_run dec page (map WBody (b :: pieces))) =
  [WHeader 200%Z] ++ match dec 200%Z with FramePage => [WBody page] | _ => map WBody (b :: pieces) end.
Proof. exact writer_implicit_200. Qed.
Print Assumptions C14_writer_implicit_200.

Example C14_writer_example :
  wout (w_run (fun c => if (c =? 200)%Z then FramePage else Passthrough) [9] [WHeader 103%Z; WHeader 404%Z; WBody [1; 2]; WBody [3]]) = [WHeader 103%Z; WHeader 404%Z; WBody [1; 2]; WBody [3]] /\
  wout (w_run (fun c => if (c =? 200)%Z then FramePage else Passthrough) [9] [WHeader 103%Z; WHeader 200%Z; WBody [1; 2]; WBody [3]]) = [WHeader 103%Z; WHeader 200%Z; WBody [9]].
Proof. split; reflexivity. Qed.

Example C14_example :
  (* "<html><head><title>" with a first read of 12 bytes: inserted after <head>; a first read of 8 bytes: unchanged *)
  let body := [60;104;116;109;108;62] ++ head_tag ++ [60;116;105;116;108;101;62] in
  shim_body head_tag [1; 2] body 12 = [60;104;116;109;108;62] ++ head_tag ++ [1; 2] ++ [60;116;105;116;108;101;62] /\
  shim_body head_tag [1; 2] body 8 = body /\
  banner_outcome {| q_method := "GET"; q_accept := "text/html,*/*"; q_sec_fetch_mode := ""; q_sec_fetch_dest := ""; q_referer_host := ""; q_referer_path := ""; q_referer_ok := false; q_host := "h"; q_path := "/" |}
                 200 [] ["text/html; charset=utf-8"%string] = FramePage.
Proof. vm_compute. repeat split; reflexivity. Qed.
