(* C13 — the websocket shim only ever connects to the configured backend.  Statements only. *)
From Coq Require Import String List Bool.
From IP Require Import Gen.SrcFacts_Websockets Websockets.Target.
Import ListNotations.
Open Scope string_scope.
Open Scope list_scope.

Definition target_now := target targetURLAssignedFields.

(* nothing in the package wraps a request in a deadline, a timeout handler or a size limit: what is outside the shim prefix
   goes to the wrapped handler as it came, for as long as it takes *)
Theorem C13_normal_path_unlimited : websocketsLimitCalls = [].
Proof. reflexivity. Qed.
Print Assumptions C13_normal_path_unlimited.

Theorem C13_overwritten_fields :
  mentions targetURLAssignedFields "Scheme" = true /\ mentions targetURLAssignedFields "Host" = true /\ mentions targetURLAssignedFields "Opaque" = true.
Proof. repeat split; reflexivity. Qed.
Print Assumptions C13_overwritten_fields.

(* Whatever URL record the parser produces for the body of an open request (absolute,
   scheme-relative, path-only, opaque, with credentials, foreign host, IPv6, odd ports):
   the agent dials the configured backend or nothing; the supplied URL contributes
   only its path and query. *)
Theorem C13_only_backend : forall backend u,
  (dial_of (target_now backend u) = DialRefused \/ dial_of (target_now backend u) = DialAddr backend) /\
  request_uri (target_now backend u) = request_uri u /\
  u_scheme (target_now backend u) = "ws".
Proof.
  intros backend u. destruct C13_overwritten_fields as (Hs & Hh & Ho).
  unfold target_now, target, dial_of, request_uri. cbn [u_has_user u_opaque u_host u_path u_force_query u_raw_query u_scheme].
  rewrite Hs, Hh, Ho. cbn [String.eqb negb]. repeat split; try reflexivity. destruct (u_has_user u); [left|right]; reflexivity.
Qed.
Print Assumptions C13_only_backend.

(* non-interference form of the same: nothing of the supplied URL but the presence of credentials (which refuses the
   dial) enters the choice of the peer, and nothing but path and query enters the request target sent to it *)
Theorem C13_noninterference : forall backend u u',
  (u_has_user u = u_has_user u' -> dial_of (target_now backend u) = dial_of (target_now backend u')) /\
  (u_path u = u_path u' -> u_force_query u = u_force_query u' -> u_raw_query u = u_raw_query u' ->
   request_uri (target_now backend u) = request_uri (target_now backend u')).
Proof.
  intros backend u u'. destruct (C13_only_backend backend u) as (_ & R & _). destruct (C13_only_backend backend u') as (_ & R' & _).
  split.
  - intros Hu. destruct C13_overwritten_fields as (Hs & Hh & Ho).
    unfold target_now, target, dial_of. cbn [u_has_user u_opaque u_host u_scheme]. rewrite ?Hs, ?Hh, ?Ho, ?Hu. reflexivity.
  - intros Hp Hf Hq. rewrite R, R'. unfold request_uri. rewrite Hp, Hf, Hq. reflexivity.
Qed.
Print Assumptions C13_noninterference.

(* paths outside the shim prefix reach the wrapped handler untouched - when they are clean *)
Theorem C13_mount_clean_paths : forall prefix_ path, prefix prefix_ path = false -> (path ++ "/")%string <> prefix_ ->
  mux_route prefix_ path true = ToWrapped.
Proof.
  intros p path H1 H2. unfold mux_route. cbn [negb]. rewrite H1. destruct ((path ++ "/")%string =? p) eqn:E; [apply String.eqb_eq in E; contradiction|reflexivity].
Qed.
Print Assumptions C13_mount_clean_paths.

(* The statement for ALL paths outside the prefix is false on the current code: the mux
   answers unclean paths (//, /./, /../) with a redirect itself (known finding). *)
Definition C13_mount_statement : Prop := forall prefix_ path clean, prefix prefix_ path = false -> (path ++ "/")%string <> prefix_ -> mux_route prefix_ path clean = ToWrapped.
Theorem C13_refuted_mux_redirect : ~ C13_mount_statement.
Proof. intros H. specialize (H "/shim/" "/a//b" false eq_refl ltac:(discriminate)). discriminate. Qed.
Print Assumptions C13_refuted_mux_redirect.

Example C13_example :
  dial_of (target_now "backend:1" {| u_scheme := "x"; u_opaque := "y"; u_has_user := false; u_host := ""; u_path := ""; u_force_query := false; u_raw_query := ""; u_fragment := "" |}) = DialAddr "backend:1" /\
  dial_of (target_now "backend:1" {| u_scheme := "ws"; u_opaque := ""; u_has_user := true; u_host := "evil"; u_path := "/x"; u_force_query := false; u_raw_query := ""; u_fragment := "" |}) = DialRefused /\
  request_uri (target_now "backend:1" {| u_scheme := "wss"; u_opaque := ""; u_has_user := false; u_host := "evil:443"; u_path := "/a%2Fb"; u_force_query := false; u_raw_query := "z=%26"; u_fragment := "f" |}) = "/a%2Fb?z=%26".
Proof. repeat split; reflexivity. Qed.

(* sharpness = the defect repaired in the source: without clearing Opaque an opaque URL dials the empty host *)
Example C13_sharp_opaque :
  dial_of (target ["Scheme"; "Host"] "backend:1" {| u_scheme := "x"; u_opaque := "y"; u_has_user := false; u_host := ""; u_path := ""; u_force_query := false; u_raw_query := ""; u_fragment := "" |}) = DialAddr "".
Proof. reflexivity. Qed.
