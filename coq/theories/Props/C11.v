(* C11 — shimmed websockets deliver every message once, in order, unchanged.  Statements only. *)
From Coq Require Import List Arith Bool String ZArith.
From IP Require Import Gen.SrcFacts_Websockets Codec.Base64 Websockets.Msg Proofs.MsgProofs.
Import ListNotations.

Theorem C11_queue_capacities : connectionChanCaps = [10; 10]%Z.
Proof. reflexivity. Qed.
Print Assumptions C11_queue_capacities.

(* the shim sets no deadline and no size limit on a shimmed connection or on a shim request (the queue model below has no
   step that ends a session or refuses a message by itself): regenerated from the source of agent/websockets *)
Theorem C11_no_limits : websocketsLimitCalls = [].
Proof. reflexivity. Qed.
Print Assumptions C11_no_limits.

Theorem C11_base64_roundtrip : forall bs, Forall (fun b => b < 256) bs -> b64_decode (b64_encode bs) = Some bs.
Proof. exact b64_roundtrip. Qed.
Print Assumptions C11_base64_roundtrip.

(* type and payload survive the serialisation used between the browser shim and the agent:
   text and binary (any bytes) under protocol version 1, text under version 0 *)
Theorem C11_payload : forall m, Forall (fun b => b < 256) (m_data m) ->
  parse_client 1 (serialize 1 m) = Some m /\ parse_client 0 (serialize 0 m) = Some m.
Proof. intros m H. split; [apply payload_roundtrip_v1; exact H|apply payload_roundtrip_v0]. Qed.
Print Assumptions C11_payload.

(* For every sequence of data posts (any batching, also more than the queue holds), every
   sequence of server messages, every capacity of the two queues and every interleaving of
   handler, writer, reader and polls: what the backend has received followed by what is
   still queued is exactly what was posted, in order; what the polls have returned followed
   by what is still queued is exactly what the backend sent, in order.  Hence both received
   sequences are prefixes of the sent ones: nothing lost, duplicated or reordered. *)
Theorem C11_fifo : forall cap_c cap_s server_msgs ls s,
  qrun cap_c cap_s (q_init server_msgs) ls = Some s ->
  to_backend s ++ cq s ++ post s = posted ls /\ polled s ++ sq s ++ from_backend s = server_msgs.
Proof.
  intros cc cs sm ls s H. apply (fifo cc cs sm ls (q_init sm) [] s); [|exact H]. split; reflexivity.
Qed.
Print Assumptions C11_fifo.

(* "exactly the messages the other side sent, once each": with queues of capacity >= 1 the shim cannot get stuck while a
   message is under way (some step of handler, writer, reader or poll is enabled), every such step lowers the weighted
   count `pending` of messages under way, and once it is zero both sides have received exactly what the other side
   sent.  So from every reachable state at most `pending` internal steps deliver everything, whatever the batching. *)
Theorem C11_delivery : forall cap_c cap_s server_msgs ls s,
  1 <= cap_c -> 1 <= cap_s ->
  qrun cap_c cap_s (q_init server_msgs) ls = Some s ->
  (0 < pending s -> exists l s', internal l = true /\ qstep cap_c cap_s s l = Some s') /\
  (forall l s', internal l = true -> qstep cap_c cap_s s l = Some s' -> pending s' < pending s) /\
  (pending s = 0 -> to_backend s = posted ls /\ polled s = server_msgs).
Proof.
  intros cc cs sm ls s Hc Hs H. split; [|split].
  - exact (pending_enabled cc cs s Hc Hs).
  - intros l s'. exact (internal_step_decreases cc cs s l s').
  - intros Hz. destruct (pending_zero s Hz) as (E1 & E2 & E3 & E4).
    destruct (C11_fifo cc cs sm ls s H) as [F1 F2].
    rewrite E1, E2 in F1. rewrite E3, E4 in F2. rewrite !app_nil_r in F1, F2. split; assumption.
Qed.
Print Assumptions C11_delivery.

(* header injection: only objects with an object at resource.headers change, and only by
   gaining entries for header names that are not there yet *)
Theorem C11_inject : forall hdrs m m', inject hdrs m = Some m' ->
  exists top res hs, m = JO top /\ jget "resource"%string top = Some (JO res) /\ jget "headers"%string res = Some (JO hs) /\
    m' = JO (jset "resource"%string (JO (jset "headers"%string (JO (add_missing hdrs hs)) res)) top) /\
    (forall k v, jget k hs = Some v -> jget k (add_missing hdrs hs) = Some v) /\
    (forall k, k <> "resource"%string -> jget k (jset "resource"%string (JO (jset "headers"%string (JO (add_missing hdrs hs)) res)) top) = jget k top) /\
    (forall k, k <> "headers"%string -> jget k (jset "headers"%string (JO (add_missing hdrs hs)) res) = jget k res).
Proof. exact inject_spec. Qed.
Print Assumptions C11_inject.

Example C11_example :
  let m1 := {| m_type := MText; m_data := [104; 105] |} in let m2 := {| m_type := MBinary; m_data := [0; 255; 16] |} in
  match qrun 1 1 (q_init [m2; m1]) [QPost [m1; m2]; QEnq; QReader; QWriter; QEnq; QPoll 1; QReader; QWriter; QPoll 1] with
  | Some s => to_backend s = [m1; m2] /\ polled s = [m2; m1]
  | None => False
  end /\ parse_client 1 (serialize 1 m2) = Some m2.
Proof. vm_compute. repeat split; reflexivity. Qed.

(* non-vacuity of C11_delivery: seven units of work under way, seven internal steps deliver everything *)
Example C11_delivery_example :
  let m1 := {| m_type := MText; m_data := [104; 105] |} in let m2 := {| m_type := MBinary; m_data := [0; 255; 16] |} in
  match qrun 1 1 (q_init [m2; m1]) [QPost [m1; m2]; QEnq] with
  | Some s => pending s = 7 /\
      match qrun 1 1 s [QWriter; QEnq; QWriter; QReader; QPoll 1; QReader; QPoll 1] with
      | Some s' => pending s' = 0 /\ to_backend s' = [m1; m2] /\ polled s' = [m2; m1]
      | None => False
      end
  | None => False
  end.
Proof. vm_compute. repeat split; reflexivity. Qed.
