(* C02 — the backend receives the client's request unaltered.  Statements only. *)
From Coq Require Import String List Bool.
From IP Require Import Gen.SrcFacts_Server Lib.Header Server.HopFilter Proofs.HopFilterProofs Codec.Chunked Proofs.ChunkedProofs.
Import ListNotations.
Open Scope string_scope.
Open Scope list_scope.

Definition forward_now := forward serverHopByHop.

(* the proxy's table (regenerated from the case list of isHopByHopHeader) covers
   every hop-by-hop field the property names, and nothing else *)
Theorem C02_table : forallb (key_in serverHopByHop) required_hop = true /\ forallb (key_in required_hop) serverHopByHop = true.
Proof. split; reflexivity. Qed.
Print Assumptions C02_table.

(* the stand-alone proxy is served by http.Serve: no read, write or idle deadline and no size limit sits between a client
   that uploads slowly (or a lot) and the agent that fetches its request *)
Theorem C02_no_server_deadlines :
  serverMainHTTPCalls = ["http.Serve"] /\ serverHTTPServerFields = [] /\ serverLimitCalls = [].
Proof. repeat split; reflexivity. Qed.
Print Assumptions C02_no_server_deadlines.

(* the proxy's filter removes exactly the fields of its table, whatever their
   casing, and leaves every other field with its values in order *)
Theorem C02_filter_exact : forall (fields : list (string * string)) k,
  hvalues k (server_filter serverHopByHop (of_wire fields)) =
  if key_in serverHopByHop (lower k) then [] else hvalues k (of_wire fields).
Proof. intros fields k. apply server_filter_exact. apply NoDup_of_wire. Qed.
Print Assumptions C02_filter_exact.

(* For every request: method, target, Host and body are forwarded as they are;
   every end-to-end field arrives with the same values in the same order; no
   hop-by-hop field arrives. *)
Theorem C02_unaltered : forall r : request,
  let b := forward_now r in
  b_method b = r_method r /\ b_target b = r_target r /\ b_host b = r_host r /\ b_body b = r_body r /\
  (forall k, key_in serverHopByHop (lower k) = false -> key_in lib_hop k = false ->
     hvalues k (b_header b) = hvalues k (of_wire (r_fields r))) /\
  (forall k, key_in serverHopByHop (lower k) = true \/ key_in lib_hop k = true -> hvalues k (b_header b) = []).
Proof.
  intros r b. repeat split; try reflexivity.
  - intros k H1 H2. unfold b, forward_now, forward. cbn [b_header]. rewrite to_backend_values, H1, H2. reflexivity.
  - intros k H. unfold b, forward_now, forward. cbn [b_header]. rewrite to_backend_values.
    destruct H as [H|H]; rewrite H; [reflexivity|]. destruct (key_in serverHopByHop (lower k)); reflexivity.
Qed.
Print Assumptions C02_unaltered.

(* The body of a request whose length the proxy does not know in advance (a chunked upload, or any body read from a
   stream) is stored and handed to the agent in the chunked transfer coding (net/http's Request.Write) and parsed back by
   the agent (http.ReadRequest): however the proxy's reads happened to segment it - any number of pieces, any sizes, any
   bytes - the agent recovers exactly the concatenation, and a transfer cut short anywhere before the terminating chunk is
   not taken for a complete body. *)
Theorem C02_unknown_length_body : forall (reads : list (list nat)),
  decode (encode reads []) = Some (concat reads, [CR; LF]) /\
  (forall p q fuel acc, p ++ q = concat (map enc_chunk reads) ++ [48; CR; LF] -> q <> [] -> decode_fuel fuel p acc = None).
Proof. intros reads. split; [exact (decode_encode reads [])|exact (truncated_rejected reads)]. Qed.
Print Assumptions C02_unknown_length_body.

(* non-vacuity *)
Example C02_example :
  let fields := [("X-Multi", "1"); ("te", "trailers"); ("x-multi", "2"); ("Connection", "keep-alive"); ("KEEP-ALIVE", "timeout=5"); ("Accept", "")] in
  hvalues "X-Multi" (to_backend serverHopByHop fields) = ["1"; "2"] /\
  hvalues "Accept" (to_backend serverHopByHop fields) = [""] /\
  hkeys (to_backend serverHopByHop fields) = ["X-Multi"; "Accept"].
Proof. vm_compute. repeat split; reflexivity. Qed.

(* sharpness: a table without "te" forwards TE *)
Example C02_sharp_missing_te :
  hvalues "Te" (server_filter ["connection"; "keep-alive"] (of_wire [("TE", "trailers")])) = ["trailers"].
Proof. vm_compute. reflexivity. Qed.
