(* C16 — closing one end of a bridged TCP connection closes the other.
   Statements only.  Safety form: time bounds are outside the model (PARTIAL). *)
From Coq Require Import String List Bool Arith.
From IP Require Import Gen.SrcFacts_TcpBridge TcpBridge.Conn Proofs.BridgeProofs TcpBridge.BridgeSys Proofs.BridgeSysProofs.
Import ListNotations.
Local Open Scope nat_scope.

(* For every order of peer closes and copy-loop/handler steps: once either peer has
   closed, every state in which the bridge can do nothing more has both of its
   connections closed and its handler returned (nothing outlives its endpoints). *)
Theorem C16_close_propagates : forall es s, lrun true life_init es = Some s ->
  a_peer_closed s = true \/ b_peer_closed s = true -> quiescent true s = true ->
  a_open s = false /\ b_open s = false /\ handler_done s = true.
Proof. exact close_propagates. Qed.
Print Assumptions C16_close_propagates.

(* sharpness = the defect repaired in the source: without closing the destination of a
   finished copy loop the bridge is stuck for ever with both connections open *)
Theorem C16_sharp_without_close : exists s, lrun false life_init [PeerACloses; CopyABEnds] = Some s /\
  quiescent false s = true /\ b_open s = true /\ handler_done s = false.
Proof. eexists. split; [reflexivity|]. repeat split; reflexivity. Qed.
Print Assumptions C16_sharp_without_close.

(* ------------------------------------------------------------------------------------------
   The two bridge halves composed (TcpBridge/BridgeSys.v): TCP client <-> frontend <=websocket=> backend <-> TCP
   server, each half with its dial phase.  Theorems over every run of the composed system.
   ------------------------------------------------------------------------------------------ *)

(* what the models take from the source, regenerated on every run: in both halves each copy goroutine closes its
   destination when its source ends; the backend handler closes the websocket on every return after the upgrade (also
   when its dial fails) and the TCP connection after a successful dial; and nowhere in the bridge is a deadline, a read
   limit or a socket option set on a bridged connection - the models have no step that ends a connection by itself - and
   the only goroutines are the copy loops and the frontend's per-connection goroutine (no third writer or reader); the
   package has no package-level variable (the composed model is per connection: connections share nothing); the
   frontend's dial (the set-up step of the model: it succeeds or fails, it does not stay pending for ever) goes through
   gorilla's DefaultDialer, which gives the handshake up after 45 s *)
Theorem C16_source_bridge :
  bridgeBackendCopyLoops = ["defer wg.Done(); io.Copy(backendConn, frontendConn); backendConn.Close()"; "defer wg.Done(); io.Copy(frontendConn, backendConn); frontendConn.Close()"]%string /\
  bridgeFrontendCopyLoops = ["defer wg.Done(); io.Copy(backendConn, conn); backendConn.Close()"; "defer wg.Done(); io.Copy(conn, backendConn); conn.Close()"]%string /\
  bridgeBackendDefers = ["cancel()"; "wsConn.Close()"; "backendConn.Close()"]%string /\
  bridgeLimitCalls = [] /\
  bridgePackageVars = [] /\
  bridgeDialCallees = ["websocket.DefaultDialer.DialContext"; "backendURL.String"; "fmt.Errorf"]%string /\
  bridgeGoroutines = ["Handler: go func"; "Handler: go func"; "tcp-bridge-frontend main: go func"; "tcp-bridge-frontend main: go func"; "tcp-bridge-frontend main: go func"]%string.
Proof. repeat split; reflexivity. Qed.
Print Assumptions C16_source_bridge.

(* closing one end closes the other, end to end: once the client or the server has closed, or either dial has failed,
   every state of the composed system in which the bridge can take no further step of its own has all four
   connection ends closed and both handlers returned - for every interleaving of the two halves *)
Theorem C16_system_close_propagates : forall es s, srun sys_init es = Some s -> triggered s = true -> squiescent s = true -> all_closed s = true.
Proof. exact sys_close_propagates. Qed.
Print Assumptions C16_system_close_propagates.

(* ... such a state is reached: the bridge's own steps are bounded (at most ten for one bridged connection, whatever
   the peers do), and until everything is closed one of them is enabled *)
Theorem C16_bounded_progress :
  (forall es s, srun sys_init es = Some s -> own_count es + work s <= 10) /\
  (forall es s, srun sys_init es = Some s -> triggered s = true -> all_closed s = false -> squiescent s = false).
Proof. split; [exact own_steps_bounded|exact progress_after_trigger]. Qed.
Print Assumptions C16_bounded_progress.

(* and never before: while neither peer has closed and no dial has failed, both running halves have both connections
   open and both copy loops running - the bridge itself never ends a connection *)
Theorem C16_no_spurious_close : forall es s b, srun sys_init es = Some s -> triggered s = false -> ph (fh s) = HRun -> bh s = Some b -> ph b = HRun ->
  running_open (lf (fh s)) /\ running_open (lf b).
Proof. exact no_spurious_close. Qed.
Print Assumptions C16_no_spurious_close.

(* non-vacuity: the client closes after both dials; the server is unreachable; the frontend cannot reach the backend *)
Example C16_system_examples :
  match srun sys_init [EFDialOk; EBDialOk; EClientCloses; EF CopyABEnds; ELinkB; EB CopyBAEnds; EB CopyABEnds; EF CopyBAEnds; ELinkF; EB HandlerReturns; EF HandlerReturns] with
  | Some s => squiescent s = true /\ all_closed s = true /\ triggered s = true | None => False end /\
  match srun sys_init [EFDialOk; EBDialFail; ELinkF; EF CopyBAEnds; EF CopyABEnds; EF HandlerReturns] with
  | Some s => squiescent s = true /\ all_closed s = true | None => False end /\
  match srun sys_init [EFDialFail] with Some s => squiescent s = true /\ all_closed s = true | None => False end /\
  match srun sys_init [EFDialOk; EBDialOk] with Some s => squiescent s = true /\ all_closed s = false /\ triggered s = false | None => False end.
Proof. vm_compute. repeat split; reflexivity. Qed.

(* sharpness: a backend handler that forgets the websocket when its dial fails leaves the client connected for ever
   (the model of that handler: EBDialFail without the close is no step at all, the system is stuck with the frontend open) *)
Example C16_sharp_dial_failure_needs_close :
  match srun sys_init [EFDialOk] with Some s => squiescent s = false /\ all_closed s = false | None => False end.
Proof. vm_compute. split; reflexivity. Qed.

Example C16_example : exists s, lrun true life_init [PeerBCloses; CopyBAEnds; CopyABEnds; HandlerReturns] = Some s /\ quiescent true s = true /\ a_open s = false.
Proof. eexists. split; [reflexivity|]. split; reflexivity. Qed.
