(* C16 — closing one end of a bridged TCP connection closes the other.
   Statements only.  Safety form: time bounds are outside the model (PARTIAL). *)
From Coq Require Import List Bool.
From IP Require Import TcpBridge.Conn Proofs.BridgeProofs.
Import ListNotations.

(* For every order of peer closes and copy-loop/handler steps: once either peer has
   closed, every state in which the bridge can do nothing more has both of its
   connections closed and its handler returned (nothing outlives its endpoints). *)
Theorem C16_close_propagates : forall es s, lrun true life_init es = Some s ->
  a_peer_closed s = true \/ b_peer_closed s = true -> quiescent true s = true ->
  a_open s = false /\ b_open s = false /\ handler_done s = true.
Proof. exact close_propagates. Qed.
Print Assumptions C16_close_propagates.

(* sharpness = the defect repaired in the source: without closing the destination of a
   finished copy loop the bridge is stuck for ever with both connections open *)
Theorem C16_sharp_without_close : exists s, lrun false life_init [PeerACloses; CopyABEnds] = Some s /\
  quiescent false s = true /\ b_open s = true /\ handler_done s = false.
Proof. eexists. split; [reflexivity|]. repeat split; reflexivity. Qed.
Print Assumptions C16_sharp_without_close.

Example C16_example : exists s, lrun true life_init [PeerBCloses; CopyBAEnds; CopyABEnds; HandlerReturns] = Some s /\ quiescent true s = true /\ a_open s = false.
Proof. eexists. split; [reflexivity|]. split; reflexivity. Qed.
