(* C05 — responses stream through the agent chunk by chunk.  Statements only.
   PARTIAL: "within bounded time" and net/http's flush-after-chunk writer are runtime
   behaviour, decided by the lock-step run with a stated bound. *)
From Coq Require Import List Arith Bool ZArith String.
From IP Require Import Gen.SrcFacts_Agent Agent.StreamPipe Proofs.StreamProofs.
Import ListNotations.

(* the upload is chunked (incremental) and the reverse proxy flushes at least every 100 ms *)
Theorem C05_incremental_upload : forcedTransferEncoding = ["chunked"%string] /\ (0 < flushInterval <= 100000000)%Z.
Proof. split; [reflexivity|split; reflexivity]. Qed.
Print Assumptions C05_incremental_upload.

(* the reverse proxy in front of the backend is set up with a transport (--force-http2 only), the flush interval and, when
   the shim script is injected, the splice of the first read as its only response hook: no hook that reads a response
   before it is relayed *)
Theorem C05_reverse_proxy_setup :
  reverseProxySetup = ["Transport = &http2.Transport{...}"; "FlushInterval = 100 * time.Millisecond"; "ModifyResponse = shimFunc"]%string.
Proof. reflexivity. Qed.
Print Assumptions C05_reverse_proxy_setup.

(* nothing in the agent puts a deadline, a size limit or a socket option on the way of a response (or a request): the only
   time limits set are the proxy-facing client's -proxy-timeout and the lifetime of session cookies.  The pipeline model below
   has no stage that aborts or withholds by itself; this is where that is checked against the source. *)
Theorem C05_no_agent_deadlines :
  agentLimitCalls = [] /\
  agentTimeoutFields = ["agent runAdapter: client.Timeout = *proxyTimeout"; "agent/sessions NewCache: Cache{sessionCookieTimeout}"]%string.
Proof. split; reflexivity. Qed.
Print Assumptions C05_no_agent_deadlines.

(* For every number of stages, every chunk sequence and every interleaving: whenever nothing
   can move any more, no stage retains anything and the proxy has observed, in order, every
   chunk the backend has written so far.  A backend that continues only after the proxy has
   observed the previous chunk therefore always gets to continue. *)
Theorem C05_no_retention : forall n ls s, prun no_hoarding (p_init n) ls = Some s -> quiescent no_hoarding s = true ->
  Forall (fun h => h = []) (stages s) /\ sink s = produced s.
Proof.
  intros n ls s Hr Hq. pose proof (quiescent_holds_nothing s Hq) as HE. split; [exact HE|].
  pose proof (conservation n ls s Hr) as HC. unfold in_flight in HC.
  assert (E : List.concat (rev (stages s)) = []).
  { clear - HE. induction (stages s) as [|h l IH]; [reflexivity|]. inversion HE; subst. cbn [rev]. rewrite List.concat_app, IH by assumption. reflexivity. }
  rewrite E, app_nil_r in HC. exact HC.
Qed.
Print Assumptions C05_no_retention.

(* nothing is lost, duplicated or reordered on the way *)
Theorem C05_order : forall n ls s, prun no_hoarding (p_init n) ls = Some s -> sink s ++ in_flight s = produced s.
Proof. exact conservation. Qed.
Print Assumptions C05_order.

(* "within bounded time", as far as the pipeline's own steps go: from any state whatever, every run of internal steps
   (no new output of the backend) has exactly as many steps as the distance `work` it covers - each step brings one chunk
   one stage nearer to the proxy - so it is at most (chunks held) x (number of stages) long; with C05_no_retention: after at
   most that many hand-overs every chunk flushed so far is with the proxy.  How long a hand-over takes is not modelled. *)
Theorem C05_bounded_moves : forall s ls s', all_moves ls = true -> prun no_hoarding s ls = Some s' ->
  List.length ls + work (stages s') = work (stages s) /\
  work (stages s) <= List.length (List.concat (stages s)) * List.length (stages s).
Proof. intros s ls s' Ha Hr. split; [exact (moves_work ls s s' Ha Hr) | exact (work_le (stages s))]. Qed.
Print Assumptions C05_bounded_moves.

(* non-vacuity: two chunks under way in three stages, five hand-overs deliver both *)
Example C05_bounded_moves_example :
  match prun no_hoarding (p_init 3) [Produce 7; Move 0; Produce 8] with
  | Some s => work (stages s) = 5 /\
      match prun no_hoarding s [Move 1; Move 2; Move 0; Move 1; Move 2] with
      | Some s' => work (stages s') = 0 /\ sink s' = [7; 8] /\ quiescent no_hoarding s' = true
      | None => False
      end
  | None => False
  end.
Proof. vm_compute. repeat split; reflexivity. Qed.

(* sharpness: a stage that keeps the body until the response ends (a buffered upload) wedges a
   lock-step backend at the first chunk: quiescent, the chunk written, nothing observed *)
Example C05_sharp_hoarding_stage :
  match prun (fun k => k =? 1) (p_init 3) [Produce 7; Move 0] with
  | Some s => quiescent (fun k => k =? 1) s = true /\ produced s = [7] /\ sink s = []
  | None => False
  end.
Proof. vm_compute. repeat split; reflexivity. Qed.

Example C05_example :
  match prun no_hoarding (p_init 4) [Produce 1; Move 0; Move 1; Produce 2; Move 2; Move 0; Move 3; Move 1; Move 2; Move 3] with
  | Some s => quiescent no_hoarding s = true /\ sink s = [1; 2]
  | None => False
  end.
Proof. vm_compute. split; reflexivity. Qed.
