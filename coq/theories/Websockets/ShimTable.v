(* The websocket shim's session table (agent/websockets/shim.go createShimChannel: connections sync.Map, sessionCount)
   with several sessions: which session a call reaches, which status it gets, which messages go where.  Calls are made
   one at a time here (the interleaving of handler steps on ONE session is the subject of Websockets/Shim.v).
     - open: the session ID is the next value of a counter that only grows, drawn before the backend is dialled (a failed
       dial uses an ID up); the session enters the table only when the dial succeeded;
     - data: the elements of the posted array are processed in order; each names its own session; the first element that
       names a session not in the table, or one whose backend connection has ended, ends the call with 400 (the elements
       before it have been delivered already, the ones after it are dropped);
     - poll: 400 for an ID not in the table; the queued server messages (200); nothing queued and the backend gone: 400 and
       the session leaves the table; nothing queued and the backend there: 408 after the long-poll period;
     - close: 400 for an ID not in the table; otherwise the session leaves the table and its backend connection is closed.
   Messages are nat (the payloads are the business of Websockets/Msg.v).  No proofs here. *)
From Coq Require Import List Arith Bool.
Import ListNotations.

Record sess := {
  s_open : bool;            (* the backend connection is still there *)
  s_queue : list nat;       (* server messages not yet polled *)
  s_recv : list nat         (* client messages delivered to the backend, oldest first *)
}.

Record tstate := {
  next_id : nat;                       (* sessionCount *)
  tbl : list (nat * sess);             (* the sessions in the table *)
  gone : list (nat * list nat)         (* sessions that have left the table: what their backends had received (history variable) *)
}.
Definition t_init : tstate := {| next_id := 0; tbl := []; gone := [] |}.

Fixpoint lookup (i : nat) (l : list (nat * sess)) : option sess :=
  match l with [] => None | (j, s) :: r => if Nat.eqb i j then Some s else lookup i r end.
Fixpoint update (i : nat) (s : sess) (l : list (nat * sess)) : list (nat * sess) :=
  match l with [] => [] | (j, x) :: r => if Nat.eqb i j then (j, s) :: r else (j, x) :: update i s r end.
Fixpoint remove (i : nat) (l : list (nat * sess)) : list (nat * sess) :=
  match l with [] => [] | (j, x) :: r => if Nat.eqb i j then r else (j, x) :: remove i r end.

Inductive tcall :=
| TOpen (dial_ok : bool)
| TData (elems : list (nat * nat))      (* (session ID, message) in the order of the posted array *)
| TPoll (id : nat)
| TClose (id : nat)
| TBackendSend (id m : nat)             (* environment: the backend of session id sends m *)
| TBackendClose (id : nat).             (* environment: the backend of session id ends the connection *)

Inductive tout :=
| OStatus (code : nat)
| OOpened (id : nat)                    (* 200 with the new session ID *)
| OPolled (msgs : list nat)             (* 200 with the queued messages *)
| ONone.                                (* not an HTTP call *)

Definition with_tbl (t : tstate) (l : list (nat * sess)) : tstate := {| next_id := next_id t; tbl := l; gone := gone t |}.
Definition leave (t : tstate) (i : nat) (s : sess) : tstate :=
  {| next_id := next_id t; tbl := remove i (tbl t); gone := (i, s_recv s) :: gone t |}.

(* the elements of a data post, one after the other: Some t' = all delivered, None' carries the state at the failing element *)
Fixpoint deliver (t : tstate) (elems : list (nat * nat)) : bool * tstate :=
  match elems with
  | [] => (true, t)
  | (i, m) :: r =>
      match lookup i (tbl t) with
      | None => (false, t)
      | Some s =>
          if s_open s then deliver (with_tbl t (update i {| s_open := true; s_queue := s_queue s; s_recv := s_recv s ++ [m] |} (tbl t))) r
          else (false, t)
      end
  end.

Definition tstep (t : tstate) (c : tcall) : tout * tstate :=
  match c with
  | TOpen ok =>
      let id := S (next_id t) in
      if ok then (OOpened id, {| next_id := id; tbl := tbl t ++ [(id, {| s_open := true; s_queue := []; s_recv := [] |})]; gone := gone t |})
      else (OStatus 500, {| next_id := id; tbl := tbl t; gone := gone t |})
  | TData elems => let '(ok, t') := deliver t elems in (OStatus (if ok then 200 else 400), t')
  | TPoll i =>
      match lookup i (tbl t) with
      | None => (OStatus 400, t)
      | Some s =>
          match s_queue s with
          | _ :: _ => (OPolled (s_queue s), with_tbl t (update i {| s_open := s_open s; s_queue := []; s_recv := s_recv s |} (tbl t)))
          | [] => if s_open s then (OStatus 408, t) else (OStatus 400, leave t i s)
          end
      end
  | TClose i =>
      match lookup i (tbl t) with
      | None => (OStatus 400, t)
      | Some s => (OStatus 200, leave t i s)
      end
  | TBackendSend i m =>
      match lookup i (tbl t) with
      | Some s => if s_open s then (ONone, with_tbl t (update i {| s_open := true; s_queue := s_queue s ++ [m]; s_recv := s_recv s |} (tbl t))) else (ONone, t)
      | None => (ONone, t)
      end
  | TBackendClose i =>
      match lookup i (tbl t) with
      | Some s => (ONone, with_tbl t (update i {| s_open := false; s_queue := s_queue s; s_recv := s_recv s |} (tbl t)))
      | None => (ONone, t)
      end
  end.

Fixpoint trun (t : tstate) (cs : list tcall) : list tout * tstate :=
  match cs with
  | [] => ([], t)
  | c :: r => let '(o, t1) := tstep t c in let '(os, t2) := trun t1 r in (o :: os, t2)
  end.

(* what the backend of session i has received so far, whether the session is still in the table or not *)
Fixpoint gone_recv (i : nat) (g : list (nat * list nat)) : option (list nat) :=
  match g with [] => None | (j, l) :: r => if Nat.eqb i j then Some l else gone_recv i r end.
Definition received (t : tstate) (i : nat) : list nat :=
  match lookup i (tbl t) with
  | Some s => s_recv s
  | None => match gone_recv i (gone t) with Some l => l | None => [] end
  end.

(* the IDs handed out by a run, in order *)
Fixpoint opened (os : list tout) : list nat :=
  match os with [] => [] | OOpened i :: r => i :: opened r | _ :: r => opened r end.
