(* Executable comparison of observed multi-session shim histories with Websockets/ShimTable.v; no proofs. *)
From Coq Require Import List Arith Bool ZArith.
From IP Require Import Websockets.ShimTable.
Import ListNotations.

Fixpoint nats_eqb (a b : list nat) : bool :=
  match a, b with [], [] => true | x :: a', y :: b' => Nat.eqb x y && nats_eqb a' b' | _, _ => false end.

Definition tout_eqb (a b : tout) : bool :=
  match a, b with
  | OStatus x, OStatus y => Nat.eqb x y
  | OOpened x, OOpened y => Nat.eqb x y
  | OPolled x, OPolled y => nats_eqb x y
  | ONone, ONone => true
  | _, _ => false
  end.

Fixpoint first_diff (i : nat) (a b : list tout) : option nat :=
  match a, b with
  | [], [] => None
  | x :: a', y :: b' => if tout_eqb x y then first_diff (S i) a' b' else Some i
  | _, _ => Some i
  end.

(* 0 = agrees; 10 + i = output i differs (histories have fewer than 900 calls); 2 = what some backend received differs *)
Definition table_case (calls : list tcall) (outs : list tout) (finals : list (nat * list nat)) : Z :=
  let '(os, t) := trun t_init calls in
  match first_diff 0 os outs with
  | Some i => (10 + Z.of_nat i)%Z
  | None => if forallb (fun f => nats_eqb (received t (fst f)) (snd f)) finals then 0%Z else 2%Z
  end.
