(* Model of agent/websockets/shim.go: the target of a shim open request, and of
   the routing done by websockets.Proxy.  The URL is the record produced by
   url.Parse (library, an input of the model); url.URL.String() and the address
   derivation of the gorilla dialer are modelled on the record.  No proofs here. *)
From Coq Require Import String List Bool.
Import ListNotations.
Open Scope string_scope.
Open Scope list_scope.

Record url := {
  u_scheme : string; u_opaque : string; u_has_user : bool; u_host : string;
  u_path : string;            (* EscapedPath() *)
  u_force_query : bool; u_raw_query : string; u_fragment : string
}.

Definition mentions (fields : list string) (f : string) : bool := existsb (String.eqb f) fields.

(* the fields createShimChannel overwrites (regenerated from the source) *)
Definition target (assigned : list string) (backend : string) (u : url) : url :=
  {| u_scheme := if mentions assigned "Scheme" then "ws" else u_scheme u;
     u_opaque := if mentions assigned "Opaque" then "" else u_opaque u;
     u_has_user := u_has_user u;
     u_host := if mentions assigned "Host" then backend else u_host u;
     u_path := u_path u; u_force_query := u_force_query u; u_raw_query := u_raw_query u; u_fragment := u_fragment u |}.

(* gorilla's Dial on u.String(): refused for user info; an opaque URL prints no
   authority, so the host is empty and the default port of the scheme is dialled *)
Inductive dial := DialRefused | DialAddr (host : string).
Definition dial_of (u : url) : dial :=
  if u_has_user u then DialRefused
  else if negb (u_opaque u =? "") then DialAddr ""
  else DialAddr (u_host u).

(* what reaches the request line of the websocket handshake *)
Definition request_uri (u : url) : string :=
  ((if u_path u =? "" then "/" else u_path u) ++ (if u_force_query u || negb (u_raw_query u =? "") then "?" ++ u_raw_query u else ""))%string.

(* ---- websockets.Proxy: an http.ServeMux with the shim prefix and "/" ---- *)
Inductive route := ToShim | ToWrapped | MuxRedirect.
(* `clean` = the path equals its cleaned form (path.Clean, computed by net/http) *)
Definition mux_route (shim_prefix path : string) (clean : bool) : route :=
  if negb clean then MuxRedirect
  else if prefix shim_prefix path then ToShim
  else if (path ++ "/")%string =? shim_prefix then MuxRedirect      (* "/shim" -> "/shim/" *)
  else ToWrapped.
