(* Executable comparisons for C11 and C12; no proofs. *)
From Coq Require Import List Arith Bool ZArith.
From IP Require Import Codec.Base64 Websockets.Msg Websockets.Shim.
Import ListNotations.

Fixpoint nat_list_eqb (a b : list nat) : bool :=
  match a, b with [], [] => true | x :: a', y :: b' => (x =? y) && nat_list_eqb a' b' | _, _ => false end.

(* C12: statuses of a sequence of calls made one at a time *)
Definition seq_case_ok (cs : list call) (observed : list nat) : bool := nat_list_eqb (seq_run seq_init cs) observed.

(* C11: the base64 text produced for a binary payload: bytes -> character codes *)
Definition b64_text (bs : list nat) : list nat := map sym_char (b64_encode bs).
Definition b64_case_ok (bs text : list nat) : bool := nat_list_eqb (b64_text bs) text.

(* C11: queue discipline replayed on sizes only: messages are numbered 1..n in the order sent;
   batches of posts, then polls; the model must accept the observed poll sizes *)
Definition numbered (n : nat) : list msg := map (fun i => {| m_type := MText; m_data := [i] |}) (seq 1 n).

(* C11 injection: order-insensitive equality of abstract JSON values *)
Fixpoint jequiv (a b : json) : bool :=
  match a, b with
  | JO fa, JO fb =>
      (List.length fa =? List.length fb) &&
      (fix all (l : list (String.string * json)) : bool :=
         match l with
         | [] => true
         | (k, v) :: r => match jget k fb with Some w => jequiv v w && all r | None => false end
         end) fa
  | JS x, JS y => String.eqb x y
  | JAtom n, JAtom m => n =? m
  | _, _ => false
  end.

(* the message observed at the backend must be the model's result (or the input when the model leaves it alone) *)
Definition inject_case_ok (hdrs : list (String.string * String.string)) (sent received : json) : bool :=
  match inject hdrs sent with
  | Some m' => jequiv m' received
  | None => jequiv sent received
  end.
