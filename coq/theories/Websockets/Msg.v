(* Model of agent/websockets/connection.go: message (de)serialisation, the two
   10-slot queues with their goroutines, and header injection.  JSON is an
   abstract value type; encoding/json is specified as: strings carry (valid
   UTF-8) text unchanged.  No proofs here. *)
From Coq Require Import List Arith Bool String.
From IP Require Import Codec.Base64.
Import ListNotations.

Inductive mtype := MText | MBinary.
Record msg := { m_type : mtype; m_data : list nat }.

(* JSON values as far as the shim looks at them *)
Inductive jv :=
| JStr (bytes : list nat)              (* a JSON string holding these bytes (valid UTF-8 text) *)
| JB64 (syms : list b64sym)            (* a JSON string holding base64 text *)
| JArr (elems : list jv)
| JOther.

(* message.Serialize(version) *)
Definition serialize (version : nat) (m : msg) : jv :=
  match m_type m with
  | MText => JStr (m_data m)
  | MBinary => match version with 0 => JArr [JStr (m_data m)] | _ => JArr [JB64 (b64_encode (m_data m))] end
  end.

(* SendClientMessage: what the client's JSON value turns into (None = 400) *)
Definition parse_client (version : nat) (j : jv) : option msg :=
  match j with
  | JStr bs => Some {| m_type := MText; m_data := bs |}
  | JB64 ss => Some {| m_type := MText; m_data := map sym_char ss |}       (* a plain string is always a text message *)
  | JArr [JStr bs] => match version with 0 => Some {| m_type := MBinary; m_data := bs |} | _ => None end
  | JArr [JB64 ss] => match version with
                      | 0 => Some {| m_type := MBinary; m_data := map sym_char ss |}
                      | _ => match b64_decode ss with Some bs => Some {| m_type := MBinary; m_data := bs |} | None => None end
                      end
  | _ => None
  end.

(* ---- the two queues: labelled steps of handler, writer, reader and poll ---- *)
Record qst := {
  cq : list msg;            (* clientMessages channel buffer *)
  sq : list msg;            (* serverMessages channel buffer *)
  post : list msg;          (* rest of the data post being processed *)
  to_backend : list msg;    (* what the backend has received *)
  from_backend : list msg;  (* what the backend has sent and the reader has not yet taken *)
  polled : list msg         (* what polls have returned *)
}.
Definition q_init (server_msgs : list msg) : qst :=
  {| cq := []; sq := []; post := []; to_backend := []; from_backend := server_msgs; polled := [] |}.

Inductive qlbl :=
| QPost (batch : list msg)   (* a data post arrives (only when the previous one is finished) *)
| QEnq                       (* the data handler sends the next message of the post on clientMessages *)
| QWriter                    (* the writer goroutine takes one message and writes it to the backend *)
| QReader                    (* the reader goroutine reads one message from the backend and sends it on serverMessages *)
| QPoll (n : nat).           (* a poll takes n >= 1 messages that are queued (first blocking receive, then the drain) *)

Definition qstep (cap_c cap_s : nat) (s : qst) (l : qlbl) : option qst :=
  match l with
  | QPost b => match post s with
               | [] => Some {| cq := cq s; sq := sq s; post := b; to_backend := to_backend s; from_backend := from_backend s; polled := polled s |}
               | _ => None
               end
  | QEnq => match post s with
            | m :: r => if List.length (cq s) <? cap_c
                        then Some {| cq := cq s ++ [m]; sq := sq s; post := r; to_backend := to_backend s; from_backend := from_backend s; polled := polled s |}
                        else None
            | [] => None
            end
  | QWriter => match cq s with
               | m :: r => Some {| cq := r; sq := sq s; post := post s; to_backend := to_backend s ++ [m]; from_backend := from_backend s; polled := polled s |}
               | [] => None
               end
  | QReader => match from_backend s with
               | m :: r => if List.length (sq s) <? cap_s
                           then Some {| cq := cq s; sq := sq s ++ [m]; post := post s; to_backend := to_backend s; from_backend := r; polled := polled s |}
                           else None
               | [] => None
               end
  | QPoll n => if (1 <=? n) && (n <=? List.length (sq s))
               then Some {| cq := cq s; sq := skipn n (sq s); post := post s; to_backend := to_backend s; from_backend := from_backend s; polled := polled s ++ firstn n (sq s) |}
               else None
  end.

Fixpoint qrun (cap_c cap_s : nat) (s : qst) (ls : list qlbl) : option qst :=
  match ls with [] => Some s | l :: r => match qstep cap_c cap_s s l with Some s' => qrun cap_c cap_s s' r | None => None end end.

Fixpoint posted (ls : list qlbl) : list msg :=
  match ls with [] => [] | QPost b :: r => b ++ posted r | _ :: r => posted r end.

(* messages still under way, weighted by the number of steps each still needs *)
Definition pending (s : qst) : nat :=
  2 * List.length (post s) + List.length (cq s) + 2 * List.length (from_backend s) + List.length (sq s).
Definition internal (l : qlbl) : bool := match l with QPost _ => false | _ => true end.


(* ---- header injection on an abstract JSON object ---- *)
Inductive json :=
| JO (fields : list (string * json))
| JS (s : string)
| JAtom (n : nat).     (* numbers, booleans, null, arrays: opaque *)

Fixpoint jget (k : string) (fs : list (string * json)) : option json :=
  match fs with [] => None | (n, v) :: r => if String.eqb n k then Some v else jget k r end.
Fixpoint jset (k : string) (v : json) (fs : list (string * json)) : list (string * json) :=
  match fs with [] => [(k, v)] | (n, w) :: r => if String.eqb n k then (n, v) :: r else (n, w) :: jset k v r end.

Definition add_missing (hdrs : list (string * string)) (fs : list (string * json)) : list (string * json) :=
  fold_left (fun acc kv => match jget (fst kv) acc with Some _ => acc | None => acc ++ [(fst kv, JS (snd kv))] end) hdrs fs.

(* injectWebsocketMessage with path ["resource"; "headers"]: None = left unchanged *)
Definition inject (hdrs : list (string * string)) (m : json) : option json :=
  match hdrs with
  | [] => None
  | _ =>
    match m with
    | JO top =>
        match jget "resource" top with
        | Some (JO res) =>
            match jget "headers" res with
            | Some (JO hs) => Some (JO (jset "resource" (JO (jset "headers" (JO (add_missing hdrs hs)) res)) top))
            | _ => None
            end
        | _ => None
        end
    | _ => None
    end
  end.
