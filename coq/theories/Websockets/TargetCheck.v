(* Executable comparison for C13; no proofs. *)
From Coq Require Import String List Bool ZArith.
From IP Require Import Gen.SrcFacts_Websockets Websockets.Target.
Import ListNotations.
Open Scope string_scope.

(* observed: 0 nothing dialled, 1 exactly the backend dialled, 2 something else dialled.
   A refused dial and a dial the library gives up before connecting both show as 0. *)
Definition open_case_ok (backend : string) (u : url) (observed : Z) : bool :=
  match dial_of (target targetURLAssignedFields backend u), observed with
  | DialRefused, 0%Z => true
  | DialAddr h, 1%Z => h =? backend
  | DialAddr h, 0%Z => h =? backend      (* the dialer may still refuse (e.g. a fragment) before connecting *)
  | _, _ => false
  end.

Definition route_case_ok (shim_prefix path : string) (clean : bool) (observed : Z) : bool :=
  match mux_route shim_prefix path clean, observed with
  | ToShim, 0%Z | ToWrapped, 1%Z | MuxRedirect, 2%Z => true
  | _, _ => false
  end.
