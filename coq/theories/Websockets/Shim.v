(* Model of the shim session handlers (agent/websockets/shim.go) and of
   Connection.Close / SendClientMessage (agent/websockets/connection.go) as
   interleavable programs on ONE session.  Every handler call is a thread with a
   program counter; one label = one atomic action (sync.Map Load / Delete, a
   channel send / close, the check of the connection context).

   mode Original: Close = [send close message ; close(channel)], Send = [check done ; send],
                  nothing protects the channel (the code before the repair);
   mode Guarded : Close and Send run under one mutex with a `closed` flag
                  (the repaired code): their channel operations are one atomic step.
   A send on / close of a closed channel panics (and takes the agent down).
   No proofs here. *)
From Coq Require Import List Arith Bool.
Import ListNotations.

Inductive mode := Original | Guarded.

Inductive pc :=
| CloseStart | CloseLoaded | CloseDeleted | CloseSent      (* close handler *)
| DataStart | DataLoaded | DataChecked                      (* data handler, one message *)
| Replied (status : nat).

Record sst := {
  in_table : bool;        (* connections.Load(id) succeeds *)
  flag_closed : bool;     (* Connection.closed (Guarded mode) *)
  ch_closed : bool;       (* clientMessages has been closed *)
  qlen : nat;             (* messages buffered in clientMessages *)
  done : bool;            (* the connection context is done *)
  threads : list (nat * pc);
  panicked : bool
}.

Definition s_init (ths : list (nat * pc)) : sst :=
  {| in_table := true; flag_closed := false; ch_closed := false; qlen := 0; done := false; threads := ths; panicked := false |}.

Inductive slbl :=
| Step (t : nat)        (* thread t performs its next action *)
| WriterPop             (* the writer goroutine takes a message; when the channel is closed and empty it ends and cancels the context *)
| CtxDone.              (* the backend went away: context cancelled *)

Fixpoint tget (t : nat) (l : list (nat * pc)) : option pc :=
  match l with [] => None | (u, p) :: r => if t =? u then Some p else tget t r end.
Fixpoint tset (t : nat) (p : pc) (l : list (nat * pc)) : list (nat * pc) :=
  match l with [] => [] | (u, q) :: r => if t =? u then (u, p) :: r else (u, q) :: tset t p r end.

Section M.
  Variable md : mode.
  Variable cap : nat.    (* capacity of clientMessages *)

  Definition upd (s : sst) (t : nat) (p : pc) (tbl fl chc : bool) (q : nat) (pan : bool) : sst :=
    {| in_table := tbl; flag_closed := fl; ch_closed := chc; qlen := q; done := done s; threads := tset t p (threads s); panicked := pan |}.

  Definition keep (s : sst) (t : nat) (p : pc) : sst := upd s t p (in_table s) (flag_closed s) (ch_closed s) (qlen s) (panicked s).

  (* None: the label is not enabled (unknown thread, finished thread, or a blocked send) *)
  Definition sstep (s : sst) (l : slbl) : option sst :=
    if panicked s then None else
    match l with
    | CtxDone => Some {| in_table := in_table s; flag_closed := flag_closed s; ch_closed := ch_closed s; qlen := qlen s; done := true; threads := threads s; panicked := false |}
    | WriterPop =>
        if done s then None
        else match qlen s with
             | S q => Some {| in_table := in_table s; flag_closed := flag_closed s; ch_closed := ch_closed s; qlen := q; done := false; threads := threads s; panicked := false |}
             | O => if ch_closed s
                    then Some {| in_table := in_table s; flag_closed := flag_closed s; ch_closed := true; qlen := 0; done := true; threads := threads s; panicked := false |}
                    else None
             end
    | Step t =>
        match tget t (threads s) with
        | None | Some (Replied _) => None
        (* ---- close handler ---- *)
        | Some CloseStart => Some (keep s t (if in_table s then CloseLoaded else Replied 400))
        | Some CloseLoaded => Some (upd s t CloseDeleted false (flag_closed s) (ch_closed s) (qlen s) false)
        | Some CloseDeleted =>
            match md with
            | Original =>
                (* conn.clientMessages <- closeMessage *)
                if ch_closed s then Some (upd s t CloseDeleted (in_table s) (flag_closed s) true (qlen s) true)
                else if qlen s <? cap then Some (upd s t CloseSent (in_table s) (flag_closed s) false (S (qlen s)) false)
                else None
            | Guarded =>
                (* under the mutex: if closed return; closed = true; send-or-done; close(channel) *)
                if flag_closed s then Some (keep s t (Replied 200))
                else if (qlen s <? cap) then Some (upd s t (Replied 200) (in_table s) true true (S (qlen s)) false)
                else if done s then Some (upd s t (Replied 200) (in_table s) true true (qlen s) false)
                else None
            end
        | Some CloseSent =>
            (* close(conn.clientMessages) *)
            if ch_closed s then Some (upd s t CloseSent (in_table s) (flag_closed s) true (qlen s) true)
            else Some (upd s t (Replied 200) (in_table s) (flag_closed s) true (qlen s) false)
        (* ---- data handler (one message) ---- *)
        | Some DataStart => Some (keep s t (if in_table s then DataLoaded else Replied 400))
        | Some DataLoaded =>
            match md with
            | Original => Some (keep s t (if done s then Replied 400 else DataChecked))
            | Guarded =>
                if flag_closed s || done s then Some (keep s t (Replied 400))
                else if qlen s <? cap then Some (upd s t (Replied 200) (in_table s) (flag_closed s) (ch_closed s) (S (qlen s)) false)
                else None
            end
        | Some DataChecked =>
            (* conn.clientMessages <- clientMessage *)
            if ch_closed s then Some (upd s t DataChecked (in_table s) (flag_closed s) true (qlen s) true)
            else if qlen s <? cap then Some (upd s t (Replied 200) (in_table s) (flag_closed s) false (S (qlen s)) false)
            else None
        end
    end.

  Fixpoint srun (s : sst) (ls : list slbl) : option sst :=
    match ls with [] => Some s | l :: r => match sstep s l with Some s' => srun s' r | None => None end end.
End M.

(* ---- the status of calls made one at a time (sequential semantics), for the correspondence run ---- *)
Inductive call :=
| COpen | COpenMalformed
| CData | CDataUnknown | CDataMalformed | CDataBadMsg
| CPoll | CPollUnknown | CPollMalformed
| CClose | CCloseUnknown | CCloseMalformed
| CBackendSend | CBackendClose.

Record seqst := { live : bool (* session in the table *); backend_open : bool; queued : nat (* server messages not yet polled *) }.
Definition seq_init : seqst := {| live := true; backend_open := true; queued := 0 |}.

(* status 0 = not an HTTP call *)
Definition seq_step (s : seqst) (c : call) : nat * seqst :=
  match c with
  | COpen => (200, s)
  | COpenMalformed => (400, s)
  | CDataMalformed | CPollMalformed | CCloseMalformed => (400, s)
  | CDataUnknown | CPollUnknown | CCloseUnknown => (400, s)
  | CData => if live s && backend_open s then (200, s) else (400, s)
  | CDataBadMsg => if live s then (400, s) else (400, s)
  | CClose => if live s then (200, {| live := false; backend_open := false; queued := queued s |}) else (400, s)
  | CBackendSend => (0, if live s && backend_open s then {| live := live s; backend_open := true; queued := S (queued s) |} else s)
  | CBackendClose => (0, {| live := live s; backend_open := false; queued := queued s |})
  | CPoll =>
      if negb (live s) then (400, s)
      else match queued s with
           | S _ => (200, {| live := live s; backend_open := backend_open s; queued := 0 |})
           | O => if backend_open s then (408, s)
                  else (400, {| live := false; backend_open := false; queued := 0 |})   (* closed session: reported and forgotten *)
           end
  end.

Fixpoint seq_run (s : seqst) (cs : list call) : list nat :=
  match cs with [] => [] | c :: r => let '(st, s') := seq_step s c in st :: seq_run s' r end.
