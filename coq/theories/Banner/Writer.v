(* Model of bannerResponseWriter (agent/banner/banner.go): the calls httputil.ReverseProxy makes on it (WriteHeader for each
   informational response and for the final one, Write for each piece of the body) and the calls it makes on the wrapped
   writer.  [dec] is the decision for a final status (Banner.banner_outcome with the request and the response header
   fixed), [page] the frame page.  Not modelled: a failing template (the frame page is built from fixed templates).
   No proofs here. *)
From Coq Require Import List Bool ZArith.
From IP Require Import Banner.Banner.
Import ListNotations.
Local Open Scope Z_scope.

Inductive wcall := WHeader (code : Z) | WBody (bs : list nat).

Record wstate := { wrote_header : bool; write_bytes : bool; wout : list wcall }.
Definition w_init : wstate := {| wrote_header := false; write_bytes := false; wout := [] |}.

Definition informational (c : Z) : bool := (100 <=? c) && (c <=? 199).

Definition w_header (dec : Z -> outcome) (page : list nat) (s : wstate) (c : Z) : wstate :=
  if wrote_header s then s
  else if informational c then {| wrote_header := false; write_bytes := write_bytes s; wout := wout s ++ [WHeader c] |}
  else match dec c with
       | FramePage => {| wrote_header := true; write_bytes := false; wout := wout s ++ [WHeader c; WBody page] |}
       | _ => {| wrote_header := true; write_bytes := true; wout := wout s ++ [WHeader c] |}
       end.

Definition w_step (dec : Z -> outcome) (page : list nat) (s : wstate) (c : wcall) : wstate :=
  match c with
  | WHeader code => w_header dec page s code
  | WBody bs =>
      let s1 := if wrote_header s then s else w_header dec page s 200 in
      if write_bytes s1 then {| wrote_header := wrote_header s1; write_bytes := true; wout := wout s1 ++ [WBody bs] |} else s1
  end.

Definition w_run (dec : Z -> outcome) (page : list nat) (cs : list wcall) : wstate := fold_left (w_step dec page) cs w_init.

(* what reaches the client: the last non-informational status written, and the body pieces concatenated *)
Fixpoint final_status (o : list wcall) : option Z :=
  match o with
  | [] => None
  | WHeader c :: r => if informational c then final_status r else Some c
  | WBody _ :: r => final_status r
  end.
Fixpoint body_of (o : list wcall) : list nat :=
  match o with [] => [] | WBody b :: r => b ++ body_of r | WHeader _ :: r => body_of r end.
Fixpoint interims_of (o : list wcall) : list Z :=
  match o with [] => [] | WHeader c :: r => if informational c then c :: interims_of r else interims_of r | WBody _ :: r => interims_of r end.

(* correspondence: the observed final status and whether the client got the backend's body or the frame page
   (kind 0 = the backend's own bytes, 1 = the frame page); 0 = agrees, 1 = status differs, 2 = body differs *)
Definition writer_case (dec_code : Z) (interims : list Z) (final : Z) (body_len : nat) (obs_status : Z) (obs_kind : Z) : Z :=
  let dec := fun _ : Z => match dec_code with 2 => FramePage | 1 => FramedOriginal | _ => Passthrough end in
  let body := repeat 7%nat body_len in
  let page := [1%nat; 2%nat; 3%nat] in
  let s := w_run dec page (map WHeader interims ++ [WHeader final] ++ (match body_len with O => [] | _ => [WBody body] end)) in
  match final_status (wout s) with
  | Some c => if negb (c =? obs_status) then 1
              else let framed := match dec_code with 2 => true | _ => false end in
                   if Bool.eqb framed (obs_kind =? 1) then 0 else 2
  | None => 1
  end.
