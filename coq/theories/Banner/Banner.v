(* Model of agent/banner/banner.go (predicates and the bannerResponseWriter
   decision) and of the content-type test of ShimBody.  No proofs here. *)
From Coq Require Import String List Bool ZArith Ascii.
From IP Require Import Lib.Header.
Import ListNotations.
Open Scope string_scope.
Open Scope list_scope.

(* strings.Contains *)
Fixpoint contains (s sub : string) : bool :=
  prefix sub s || match s with EmptyString => false | String _ r => contains r sub end.

Record breq := {
  q_method : string; q_accept : string;            (* Header.Get: first value, "" if absent *)
  q_sec_fetch_mode : string; q_sec_fetch_dest : string;
  q_referer_host : string; q_referer_path : string; q_referer_ok : bool;   (* Referer present and parsable *)
  q_host : string; q_path : string
}.

Definition is_html_request (q : breq) : bool :=
  (q_method q =? "GET") && contains (q_accept q) "text/html".

Definition is_frameable (status : Z) (content_dispositions content_types : list string) : bool :=
  (status =? 200)%Z &&
  negb (existsb (fun v => contains v "attachment") content_dispositions) &&
  existsb (fun v => contains v "text/html" || contains v "application/xhtml+xml") content_types.

Definition is_already_framed (q : breq) : bool :=
  (q_sec_fetch_mode q =? "nested-navigate") || (q_sec_fetch_dest q =? "iframe") ||
  (q_referer_ok q && (q_referer_host q =? q_host q) && (q_referer_path q =? q_path q)).

Inductive outcome :=
| Passthrough          (* status, headers and body exactly as the wrapped handler produced them *)
| FramedOriginal       (* body unchanged; cache headers and X-Frame-Options set *)
| FramePage.           (* body replaced by the frame page; cache headers and X-Frame-Options set; Content-Encoding removed *)

Definition banner_outcome (q : breq) (status : Z) (content_dispositions content_types : list string) : outcome :=
  if negb (is_html_request q) then Passthrough
  else if negb (is_frameable status content_dispositions content_types) then Passthrough
  else if is_already_framed q then FramedOriginal
  else FramePage.

(* header edits of the two non-passthrough outcomes (Date is "now": not modelled) *)
Definition banner_headers (o : outcome) (h : header) : header :=
  match o with
  | Passthrough => h
  | FramedOriginal | FramePage =>
      let h1 := hset "Cache-Control" "no-cache, no-store, max-age=0, must-revalidate" h in
      let h2 := hset "Expires" "Mon, 01 Jan 0001 00:00:00 GMT" h1 in
      let h3 := hset "Pragma" "no-cache" h2 in
      let h4 := hset "X-Frame-Options" "sameorigin" h3 in
      match o with FramePage => hdel "Content-Encoding" h4 | _ => h4 end
  end.

(* ShimBody touches a response only if its first Content-Type value, lower-cased, contains "html" *)
Definition shim_applies (first_content_type : string) : bool := contains (lower first_content_type) "html".
