(* Executable comparison for C14; no proofs. *)
From Coq Require Import String List Bool ZArith Arith.
From IP Require Import Codec.ReplaceFirst Lib.Header Banner.Banner.
Import ListNotations.

(* observed outcome codes: 0 passthrough, 1 framed original, 2 frame page *)
Definition outcome_code (o : outcome) : Z := match o with Passthrough => 0%Z | FramedOriginal => 1%Z | FramePage => 2%Z end.

Definition banner_case_ok (q : breq) (status : Z) (cds cts : list string) (observed : Z) : bool :=
  (outcome_code (banner_outcome q status cds cts) =? observed)%Z.

(* shim: (content type, body, first read length, observed insertion index or -1) with pattern "<head>" *)
Definition head_tag : list nat := [60; 104; 101; 97; 100; 62].
Definition shim_case_ok (ct : string) (body : list nat) (k : nat) (insert_at : Z) : bool :=
  let expected :=
    if shim_applies ct then
      match find head_tag (firstn k body) with Some i => Z.of_nat (i + 6) | None => (-1)%Z end
    else (-1)%Z in
  (expected =? insert_at)%Z.
