(* Proofs for Codec/BlobSplit.v (C19: stored payloads of any size read back identical). *)
From Coq Require Import ZArith List Arith Lia.
From IP Require Import Codec.BlobSplit.
Import ListNotations.

Section Blob.
  Context {A : Type}.
  Variable limit : nat.
  Hypothesis limit_pos : 0 < limit.

  Lemma concat_chunks : forall n (l : list A), length l < n * limit -> concat (chunks limit n l) = l.
  Proof.
    induction n as [|n IH]; intros l H; [simpl in H; lia|].
    cbn [chunks concat].
    destruct (le_lt_dec (length l) limit) as [Hle|Hgt].
    - rewrite firstn_all2 by lia. rewrite skipn_all2 by lia.
      assert (E : forall m, concat (chunks limit m (@nil A)) = []).
      { induction m as [|m IHm]; [reflexivity|]. cbn [chunks concat]. rewrite firstn_nil, skipn_nil. exact IHm. }
      rewrite E, app_nil_r. reflexivity.
    - rewrite IH; [apply firstn_skipn|]. rewrite skipn_length. simpl in H. lia.
  Qed.

  Lemma count_enough (l : list A) : length l < part_count limit l * limit.
  Proof.
    unfold part_count. pose proof (Nat.div_mod (length l) limit ltac:(lia)) as D.
    pose proof (Nat.mod_upper_bound (length l) limit ltac:(lia)) as U. nia.
  Qed.

  (* read (newBlob bytes) = bytes, for every byte string *)
  Theorem join_split (l : list A) : join (split limit l) = l.
  Proof.
    unfold join, split. destruct (length l <? limit) eqn:E; cbn [fst snd].
    - apply app_nil_r.
    - rewrite concat_chunks by apply count_enough. apply firstn_skipn.
  Qed.

  Lemma chunks_bounded : forall n (l : list A) p, In p (chunks limit n l) -> length p <= limit.
  Proof.
    induction n as [|n IH]; intros l p H; [destruct H|]. cbn [chunks] in H. destruct H as [<-|H].
    - rewrite firstn_length. lia.
    - exact (IH _ _ H).
  Qed.

  (* no stored field exceeds the limit: inline part and every numbered part *)
  Theorem split_bounded (l : list A) :
    length (fst (split limit l)) <= limit /\ forall p, In p (snd (split limit l)) -> length p <= limit.
  Proof.
    unfold split. destruct (length l <? limit) eqn:E; cbn [fst snd].
    - apply Nat.ltb_lt in E. split; [lia|intros p []].
    - split; [rewrite firstn_length; lia|]. intros p H. exact (chunks_bounded _ _ _ H).
  Qed.

  Theorem split_inline_iff (l : list A) : snd (split limit l) = [] <-> length l < limit.
  Proof.
    unfold split. destruct (length l <? limit) eqn:E; cbn [snd].
    - apply Nat.ltb_lt in E. tauto.
    - apply Nat.ltb_ge in E. split; [|lia]. unfold part_count. rewrite Nat.add_1_r. cbn [chunks]. discriminate.
  Qed.

  Theorem split_part_count (l : list A) : limit <= length l ->
    length (snd (split limit l)) = (length l - limit) / limit + 1.
  Proof.
    intros H. unfold split. destruct (length l <? limit) eqn:E; [apply Nat.ltb_lt in E; lia|]. cbn [snd].
    assert (L : forall n (k : list A), length (chunks limit n k) = n).
    { induction n as [|n IH]; intros k; [reflexivity|]. cbn [chunks length]. rewrite IH. reflexivity. }
    rewrite L. unfold part_count. rewrite skipn_length. reflexivity.
  Qed.
End Blob.

(* the length-only model agrees with the list model *)
Lemma chunk_sizes_spec {A} (limit : nat) : forall n (l : list A),
  chunk_sizes (Z.of_nat limit) n (Z.of_nat (length l)) = map (fun p => Z.of_nat (length p)) (chunks limit n l).
Proof.
  induction n as [|n IH]; intros l; [reflexivity|]. cbn [chunk_sizes chunks map].
  rewrite firstn_length. f_equal; [lia|].
  rewrite <- IH. f_equal. rewrite skipn_length. lia.
Qed.

Theorem split_sizes_spec {A} (limit : nat) (l : list A) : 0 < limit ->
  split_sizes (Z.of_nat limit) (Z.of_nat (length l)) =
  (Z.of_nat (length (fst (split limit l))), map (fun p => Z.of_nat (length p)) (snd (split limit l))).
Proof.
  intros Hl. unfold split_sizes, split.
  destruct (length l <? limit) eqn:E.
  - apply Nat.ltb_lt in E. destruct (Z.ltb_spec (Z.of_nat (length l)) (Z.of_nat limit)); [reflexivity|lia].
  - apply Nat.ltb_ge in E. destruct (Z.ltb_spec (Z.of_nat (length l)) (Z.of_nat limit)); [lia|].
    cbn [fst snd]. rewrite firstn_length. f_equal; [lia|].
    replace (Z.of_nat (length l) - Z.of_nat limit)%Z with (Z.of_nat (length (skipn limit l))) by (rewrite skipn_length; lia).
    rewrite <- chunk_sizes_spec. f_equal. unfold part_count.
    rewrite <- (Nat2Z.id (length (skipn limit l) / limit + 1)). f_equal.
    rewrite Nat2Z.inj_add, Nat2Z.inj_div. reflexivity.
Qed.
