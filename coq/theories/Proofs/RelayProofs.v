(* Proofs about Server/Relay.v: with the guard, the client handler reads the trailer map only after the upload handler has
   finished with it (no data race), and what it finds there is exactly what the agent was told about its upload; without
   the guard a racing state is reachable (witness). *)
From Coq Require Import List Bool.
From IP Require Import Server.Relay.
Import ListNotations.

Definition RInv (s : rstate) : Prop :=
  (cl s = CTrailers -> wclosed s = true) /\
  (wclosed s = true -> po s = PClosed) /\
  (stored s = complete s) /\
  (po s = PAfter \/ po s = PClosed -> post_ok s = Some (complete s)) /\
  (po s = PHand \/ po s = PRead \/ po s = PStoring -> stored s = false /\ complete s = false) /\
  (forall t, got_trailers s = Some t -> client_gone s = false -> po s = PClosed /\ t = complete s) /\
  (cl s = CWait \/ cl s = CCopy \/ cl s = CTrailers -> client_gone s = false).

Lemma rinv_init : RInv r_init.
Proof. unfold RInv, r_init; cbn; repeat split; try discriminate; try tauto; intros; try discriminate;
       repeat match goal with H : _ \/ _ |- _ => destruct H end; try discriminate; auto. Qed.

Ltac rinv_crush :=
  unfold RInv in *; cbn in *;
  repeat match goal with H : _ /\ _ |- _ => destruct H end;
  repeat split; intros;
  repeat match goal with
         | H : _ \/ _ |- _ => destruct H
         | H : Some _ = Some _ |- _ => injection H as H
         end;
  subst; try discriminate; try congruence; auto.

Lemma rinv_step : forall s l s', RInv s -> rstep true s l = Some s' -> RInv s'.
Proof.
  intros s l s' HI Hs. destruct s as [c p rc wc st co cg gt pk].
  destruct l, c, p; cbn in Hs; try discriminate;
    try (destruct rc; try discriminate); try (destruct wc; try discriminate);
    injection Hs as <-;
    unfold RInv in *; cbn in *;
    destruct HI as (H1 & H2 & H3 & H4 & H5 & H6 & H7);
    (repeat split; intros;
     repeat match goal with H : _ \/ _ |- _ => destruct H end;
     try discriminate; try congruence; auto;
     try solve [intuition (try discriminate; try congruence)];
     try solve [match goal with H : forall t, ?g = Some t -> _, H' : ?g = Some _ |- _ => destruct (H _ H'); intuition congruence end]).
Qed.

Lemma rinv_run : forall ls s s', RInv s -> rrun true s ls = Some s' -> RInv s'.
Proof.
  induction ls as [|l r IH]; cbn; intros s s' HI H; [injection H as <-; exact HI|].
  destruct (rstep true s l) as [s1|] eqn:E; [|discriminate]. eapply IH; [eapply rinv_step; eauto|exact H].
Qed.

Lemma rinv_not_racing : forall s, RInv s -> racing s = false.
Proof.
  intros s (H1 & H2 & _). unfold racing. destruct (cl s) eqn:Ec; auto.
  rewrite (H2 (H1 eq_refl)). reflexivity.
Qed.

(* no data race on the trailer map, in every reachable state of every schedule *)
Theorem relay_race_free : forall ls s, rrun true r_init ls = Some s -> racing s = false.
Proof. intros ls s H. apply rinv_not_racing. eapply rinv_run; [apply rinv_init|exact H]. Qed.

(* ... also along the way *)
Theorem relay_never_races : forall ls, races_on true r_init ls = false.
Proof.
  intros ls. assert (G : forall ls s, RInv s -> races_on true s ls = false); [|apply G, rinv_init].
  clear ls. induction ls as [|l r IH]; intros s HI; cbn [races_on]; rewrite (rinv_not_racing s HI); cbn; [reflexivity|].
  destruct (rstep true s l) as [s1|] eqn:E; [|reflexivity]. apply IH. eapply rinv_step; eauto.
Qed.

(* what the client handler finds in the map is what the agent was told: a client that was served to the end got the
   trailers exactly when the upload was read to its end, and then (only then) the agent's upload was answered 200 *)
Theorem relay_trailers_iff_acknowledged : forall ls s t,
  rrun true r_init ls = Some s -> client_outcome s = OComplete t ->
  po s = PClosed /\ t = complete s /\ post_ok s = Some t.
Proof.
  intros ls s t H Ho. pose proof (rinv_run _ _ _ rinv_init H) as (H1 & H2 & H3 & H4 & H5 & H6 & H7).
  unfold client_outcome in Ho. destruct (cl s) eqn:Ec; try discriminate. destruct (client_gone s) eqn:Eg; try discriminate.
  destruct (got_trailers s) as [t'|] eqn:Et; try discriminate. injection Ho as ->.
  destruct (H6 t eq_refl eq_refl) as [Hp ->]. split; [exact Hp|]. split; [reflexivity|]. apply H4. right; exact Hp.
Qed.

(* without the guard the race is there: the client goes away, the client handler turns to the map, the upload's last
   Read starts storing into it *)
Theorem relay_unguarded_races : exists s, rrun false r_init [Hand; Chunk; ClientFail; LastRead] = Some s /\ racing s = true.
Proof. eexists; split; [vm_compute; reflexivity|reflexivity]. Qed.
