(* Proofs for Codec/Base64.v and Websockets/Msg.v (C11). *)
From Coq Require Import List Arith Bool Lia ZArith ZifyNat String.
From IP Require Import Codec.Base64 Websockets.Msg.
Import ListNotations.
Ltac Zify.zify_post_hook ::= Z.div_mod_to_equations.

(* strong induction in steps of three *)
Lemma b64_roundtrip_aux n : forall bs, List.length bs <= n -> Forall (fun b => b < 256) bs -> b64_decode (b64_encode bs) = Some bs.
Proof.
  induction n as [|n IH]; intros bs Hl HF.
  - destruct bs; [reflexivity|cbn in Hl; lia].
  - destruct bs as [|a [|b [|c r]]].
    + reflexivity.
    + inversion HF as [|? ? Ha _]; subst. cbn [b64_encode b64_decode]. f_equal. f_equal. lia.
    + inversion HF as [|? ? Ha HF1]; subst. inversion HF1 as [|? ? Hb _]; subst. cbn [b64_encode b64_decode]. f_equal. f_equal; [lia|f_equal; lia].
    + inversion HF as [|? ? Ha HF1]; subst. inversion HF1 as [|? ? Hb HF2]; subst. inversion HF2 as [|? ? Hc HF3]; subst.
      cbn [b64_encode]. cbn [b64_decode]. rewrite (IH r) by (cbn [List.length] in Hl; try lia; assumption).
      f_equal. f_equal; [lia|]. f_equal; [lia|]. f_equal. lia.
Qed.

Theorem b64_roundtrip bs : Forall (fun b => b < 256) bs -> b64_decode (b64_encode bs) = Some bs.
Proof. apply (b64_roundtrip_aux (List.length bs)). lia. Qed.

(* payloads survive serialisation towards the client and back *)
Theorem payload_roundtrip_v1 m : Forall (fun b => b < 256) (m_data m) -> parse_client 1 (serialize 1 m) = Some m.
Proof.
  intros H. destruct m as [[|] d]; unfold serialize, parse_client; cbn [m_type m_data]; [reflexivity|].
  rewrite (b64_roundtrip d H). reflexivity.
Qed.

Theorem payload_roundtrip_v0 m : parse_client 0 (serialize 0 m) = Some m.
Proof. destruct m as [[|] d]; reflexivity. Qed.

(* ---- FIFO: conservation invariants of the two queue chains ---- *)
Definition QInv (all_posted server_msgs : list msg) (s : qst) : Prop :=
  to_backend s ++ cq s ++ post s = all_posted /\ polled s ++ sq s ++ from_backend s = server_msgs.

Lemma qstep_inv cc cs ap sm s l s' : QInv ap sm s -> qstep cc cs s l = Some s' ->
  QInv (ap ++ match l with QPost b => b | _ => [] end) sm s'.
Proof.
  intros [H1 H2] Hs. destruct l as [b| | | |n]; cbn [qstep] in Hs.
  - destruct (post s) eqn:E; [|discriminate]. injection Hs as <-; unfold QInv; cbn [to_backend cq post polled sq from_backend]. split; [|exact H2].
    rewrite <- H1. rewrite <- ?app_assoc. cbn [app]. reflexivity.
  - destruct (post s) as [|m r] eqn:E; [discriminate|]. destruct (List.length (cq s) <? cc); [|discriminate]. injection Hs as <-; unfold QInv; cbn [to_backend cq post polled sq from_backend].
    rewrite app_nil_r. split; [|exact H2]. rewrite <- H1, <- ?app_assoc. cbn [app]. reflexivity.
  - destruct (cq s) as [|m r] eqn:E; [discriminate|]. injection Hs as <-; unfold QInv; cbn [to_backend cq post polled sq from_backend]. rewrite app_nil_r. split; [|exact H2]. rewrite <- H1, <- ?app_assoc. cbn [app]. reflexivity.
  - destruct (from_backend s) as [|m r] eqn:E; [discriminate|]. destruct (List.length (sq s) <? cs); [|discriminate]. injection Hs as <-; unfold QInv; cbn [to_backend cq post polled sq from_backend].
    rewrite app_nil_r. split; [exact H1|]. rewrite <- H2, <- ?app_assoc. cbn [app]. reflexivity.
  - destruct ((1 <=? n) && (n <=? List.length (sq s))); [|discriminate]. injection Hs as <-; unfold QInv; cbn [to_backend cq post polled sq from_backend]. rewrite app_nil_r. split; [exact H1|].
    rewrite <- H2, <- ?app_assoc. f_equal. rewrite app_assoc, firstn_skipn. reflexivity.
Qed.

Theorem fifo cc cs sm ls : forall s ap s', QInv ap sm s -> qrun cc cs s ls = Some s' -> QInv (ap ++ posted ls) sm s'.
Proof.
  induction ls as [|l ls IH]; intros s ap s' I H; cbn [qrun posted] in *.
  - inversion H; subst. rewrite app_nil_r. exact I.
  - destruct (qstep cc cs s l) as [s1|] eqn:E; [|discriminate]. pose proof (qstep_inv cc cs ap sm s l s1 I E) as I1.
    specialize (IH s1 _ s' I1 H). destruct l; cbn [posted]; try (rewrite app_nil_r in IH; exact IH). rewrite <- app_assoc in IH. exact IH.
Qed.

(* ---- injection ---- *)
Lemma jget_jset_same k v fs : jget k (jset k v fs) = Some v.
Proof. induction fs as [|[n w] fs IH]; cbn [jset jget]; [rewrite String.eqb_refl; reflexivity|]. destruct (String.eqb n k) eqn:E; cbn [jget]; rewrite E; [reflexivity|exact IH]. Qed.

Lemma jget_jset_other k k' v fs : k' <> k -> jget k' (jset k v fs) = jget k' fs.
Proof.
  intros Hne. induction fs as [|[n w] fs IH]; cbn [jset jget].
  - destruct (String.eqb k k') eqn:E; [apply String.eqb_eq in E; congruence|reflexivity].
  - destruct (String.eqb n k) eqn:E; cbn [jget].
    + apply String.eqb_eq in E. subst n. destruct (String.eqb k k') eqn:E2; [apply String.eqb_eq in E2; congruence|reflexivity].
    + destruct (String.eqb n k'); [reflexivity|exact IH].
Qed.

(* adding the missing headers never changes an entry that is already there *)
Lemma add_missing_keeps hdrs : forall fs k v, jget k fs = Some v -> jget k (add_missing hdrs fs) = Some v.
Proof.
  unfold add_missing. induction hdrs as [|[hk hv] hdrs IH]; intros fs k v H; cbn [fold_left fst snd]; [exact H|].
  apply IH. destruct (jget hk fs) eqn:E; [exact H|].
  clear IH. induction fs as [|[n w] fs IHf]; cbn [jget app] in *; [discriminate|].
  destruct (String.eqb n k); [exact H|]. apply IHf; [exact H|]. destruct (String.eqb n hk); [discriminate|exact E].
Qed.

Theorem inject_spec hdrs m m' : inject hdrs m = Some m' ->
  exists top res hs, m = JO top /\ jget "resource"%string top = Some (JO res) /\ jget "headers"%string res = Some (JO hs) /\
    m' = JO (jset "resource"%string (JO (jset "headers"%string (JO (add_missing hdrs hs)) res)) top) /\
    (forall k v, jget k hs = Some v -> jget k (add_missing hdrs hs) = Some v) /\
    (forall k, k <> "resource"%string -> jget k (jset "resource"%string (JO (jset "headers"%string (JO (add_missing hdrs hs)) res)) top) = jget k top) /\
    (forall k, k <> "headers"%string -> jget k (jset "headers"%string (JO (add_missing hdrs hs)) res) = jget k res).
Proof.
  unfold inject. destruct hdrs as [|h hdrs]; [discriminate|]. destruct m as [top| |]; try discriminate.
  destruct (jget "resource" top) as [[res| |]|] eqn:E1; try discriminate.
  destruct (jget "headers" res) as [[hs| |]|] eqn:E2; try discriminate.
  intros H. inversion H; subst. exists top, res, hs. repeat split; try assumption.
  - apply add_missing_keeps.
  - intros k Hk. apply jget_jset_other. exact Hk.
  - intros k Hk. apply jget_jset_other. exact Hk.
Qed.

(* delivery: no deadlock while anything is under way, every internal step is progress *)
Lemma internal_step_decreases cc cs s l s' : internal l = true -> qstep cc cs s l = Some s' -> pending s' < pending s.
Proof.
  unfold pending. intros Hi H. destruct l as [b| | | |n]; [discriminate| | | |]; cbn [qstep] in H.
  - destruct (post s) as [|m r] eqn:E; [discriminate|]. destruct (List.length (cq s) <? cc); [|discriminate].
    injection H as <-. cbn [post cq from_backend sq]. rewrite app_length. cbn [List.length]. lia.
  - destruct (cq s) as [|m r] eqn:E; [discriminate|]. injection H as <-. cbn [post cq from_backend sq List.length]. lia.
  - destruct (from_backend s) as [|m r] eqn:E; [discriminate|]. destruct (List.length (sq s) <? cs); [|discriminate].
    injection H as <-. cbn [post cq from_backend sq]. rewrite app_length. cbn [List.length]. lia.
  - destruct ((1 <=? n) && (n <=? List.length (sq s))) eqn:E; [|discriminate]. apply andb_true_iff in E. destruct E as [E1 E2].
    apply Nat.leb_le in E1. apply Nat.leb_le in E2.
    injection H as <-. cbn [post cq from_backend sq]. rewrite skipn_length. lia.
Qed.

Lemma pending_enabled cc cs s : 1 <= cc -> 1 <= cs -> 0 < pending s ->
  exists l s', internal l = true /\ qstep cc cs s l = Some s'.
Proof.
  unfold pending. intros Hc Hs Hp.
  destruct (cq s) as [|m r] eqn:Ecq.
  - destruct (post s) as [|m r] eqn:Ep.
    + destruct (sq s) as [|m r] eqn:Esq.
      * destruct (from_backend s) as [|m r] eqn:Ef; [cbn in Hp; lia|].
        eexists QReader, _. split; [reflexivity|]. cbn [qstep]. rewrite Ef, Esq. cbn [List.length].
        destruct (0 <? cs) eqn:E; [reflexivity|]. apply Nat.ltb_ge in E. lia.
      * eexists (QPoll 1), _. split; [reflexivity|]. cbn [qstep]. rewrite Esq. reflexivity.
    + eexists QEnq, _. split; [reflexivity|]. cbn [qstep]. rewrite Ep, Ecq. cbn [List.length].
      destruct (0 <? cc) eqn:E; [reflexivity|]. apply Nat.ltb_ge in E. lia.
  - eexists QWriter, _. split; [reflexivity|]. cbn [qstep]. rewrite Ecq. reflexivity.
Qed.

Lemma pending_zero s : pending s = 0 -> post s = [] /\ cq s = [] /\ from_backend s = [] /\ sq s = [].
Proof.
  unfold pending. intros H.
  destruct (post s); [|cbn in H; lia]. destruct (cq s); [|cbn in H; lia].
  destruct (from_backend s); [|cbn in H; lia]. destruct (sq s); [|cbn in H; lia]. repeat split.
Qed.
