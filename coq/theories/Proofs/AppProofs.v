(* Proofs about App/AppModel.v (C17 access control, C19 relay). *)
From Coq Require Import ZArith String List Bool Lia.
From IP Require Import App.Route App.AppModel Proofs.RouteProofs.
Import ListNotations.
Open Scope string_scope.
Open Scope list_scope.
Open Scope Z_scope.

(* tactics must not unfold the clock constants (injection/inversion would normalise them) *)
Opaque AppModel.now AppModel.hour.

Section Proofs.
  Variable limit climit timeout : Z.
  Variable shared : string.
  Variable chan_cap : Z.
  Variable sets_start cron_front_admin login_required : bool.
  Variable list_limit multi_limit : nat.

  Local Notation step := (step limit climit timeout shared chan_cap sets_start cron_front_admin login_required list_limit multi_limit).
  Local Notation run := (run limit climit timeout shared chan_cap sets_start cron_front_admin login_required list_limit multi_limit).
  Local Notation write_request := (write_request limit climit).
  Local Notation write_response := (write_response limit climit).
  Local Notation read_request := (read_request limit).
  Local Notation read_response := (read_response limit).
  Local Notation api_step := (api_step timeout).
  Local Notation cron := (cron sets_start multi_limit).
  Local Notation lookup_f := (lookup_f timeout shared).

  (* ------------------------------------------------------------------ C17: agents *)

  Definition agent_op (o : op) : option (option string * string * list fault) :=
    match o with
    | OAList who b fs => Some (who, b, fs)
    | OAFetch who b _ fs => Some (who, b, fs)
    | OARespond who b _ _ fs => Some (who, b, fs)
    | _ => None
    end.

  Lemma authorised_spec s fs who b : authorised s fs who b = true ->
    exists u rec, who = Some u /\ b <> "" /\ has fs F_oauth = false /\ has fs F_get_backend = false /\
                  find_backend b (backends s) = Some rec /\ bid rec = b /\ buser rec = u.
  Proof.
    unfold authorised. destruct who as [u|]; [|discriminate].
    destruct (has fs F_oauth); [discriminate|]. destruct (String.eqb_spec b ""); [discriminate|].
    destruct (has fs F_get_backend); [discriminate|].
    destruct (find_backend b (backends s)) as [rec|] eqn:E; [|discriminate].
    intros H. apply String.eqb_eq in H. exists u, rec. repeat split; try assumption.
    unfold find_backend in E. apply find_some in E. destruct E as [_ E]. apply String.eqb_eq in E. exact E.
  Qed.

  (* a caller that is not the registered backend user gets 401 and nothing else happens *)
  Theorem agent_rejected s o who b fs : agent_op o = Some (who, b, fs) ->
    authorised s fs who b = false -> step s o = (Status 401, s).
  Proof.
    intros Ho Ha. destruct o; try discriminate; cbn in Ho; inversion Ho; subst; cbn [AppModel.step]; rewrite Ha; reflexivity.
  Qed.

  (* ... and a call that is accepted never answers 401 *)
  Theorem agent_accepted_not_401 s o who b fs : agent_op o = Some (who, b, fs) ->
    authorised s fs who b = true -> fst (step s o) <> Status 401.
  Proof.
    intros Ho Ha. destruct o; try discriminate; cbn in Ho; inversion Ho; subst; cbn [AppModel.step]; rewrite Ha; cbn [negb].
    - destruct (pending list_limit s b); cbn; discriminate.
    - destruct r; [cbn; discriminate|]. destruct (read_request s fs b id); cbn; discriminate.
    - destruct r; [cbn; discriminate|]. destruct (read_request s fs b id); [|cbn; discriminate].
      destruct (write_response s fs _) as [s1 e1]. destruct (write_request s1 fs _) as [s2 e2]. cbn [fst].
      destruct (chan_cap <? _); [discriminate|]. destruct (0 <? _); discriminate.
  Qed.

  Theorem agent_gate s o who b fs : agent_op o = Some (who, b, fs) ->
    fst (step s o) <> Status 401 ->
    exists u rec, who = Some u /\ find_backend b (backends s) = Some rec /\ bid rec = b /\ buser rec = u.
  Proof.
    intros Ho Hn. destruct (authorised s fs who b) eqn:Ha.
    - destruct (authorised_spec _ _ _ _ Ha) as (u & rec & H1 & _ & _ & _ & H2 & H3 & H4). exists u, rec. auto.
    - rewrite (agent_rejected _ _ _ _ _ Ho Ha) in Hn. cbn in Hn. congruence.
  Qed.

  (* ------------------------------------------------------------------ frame: what an agent call can touch *)

  Definition other_req (b : string) (l : list sreq) : list sreq := filter (fun q => negb (q_backend q =? b)%string) l.
  Definition own_req (b : string) (l : list sreq) : list sreq := filter (fun q => (q_backend q =? b)%string) l.
  Definition other_resp (b : string) (l : list sresp) : list sresp := filter (fun r => negb (s_backend r =? b)%string) l.

  Lemma other_req_ins q l : other_req (q_backend q) (ins_req q l) = other_req (q_backend q) l.
  Proof.
    unfold other_req. induction l as [|x r IH]; cbn [ins_req filter].
    - rewrite String.eqb_refl. reflexivity.
    - destruct ((q_backend x =? q_backend q)%string && (q_id q <? q_id x)).
      + cbn [filter]. rewrite String.eqb_refl. reflexivity.
      + cbn [filter]. rewrite IH. reflexivity.
  Qed.

  Lemma other_req_put q l : other_req (q_backend q) (put_req q l) = other_req (q_backend q) l.
  Proof.
    unfold put_req. rewrite other_req_ins. unfold other_req. induction l as [|x r IH]; [reflexivity|]. cbn [filter]. unfold req_key at 1.
    destruct (String.eqb_spec (q_backend x) (q_backend q)) as [E|E]; cbn [andb negb].
    - destruct (q_id x =? q_id q); cbn [negb filter]; [exact IH|]. rewrite E, String.eqb_refl. cbn [negb]. exact IH.
    - cbn [filter]. destruct (String.eqb_spec (q_backend x) (q_backend q)); [contradiction|]. cbn [negb]. rewrite IH. reflexivity.
  Qed.

  Lemma find_req_key b id l q : find_req b id l = Some q -> q_backend q = b /\ q_id q = id.
  Proof.
    unfold find_req. intros H. apply find_some in H. destruct H as [_ H]. unfold req_key in H.
    apply andb_true_iff in H. destruct H as [H1 H2]. apply String.eqb_eq in H1. apply Z.eqb_eq in H2. auto.
  Qed.

  Lemma read_request_key s fs b id q : read_request s fs b id = Some q -> q_backend q = b /\ q_id q = id.
  Proof.
    unfold AppModel.read_request. destruct (if has fs F_mc_get then None else find_req b id (creq s)) as [q'|] eqn:E.
    - intros H; inversion H; subst. destruct (has fs F_mc_get); [discriminate|]. exact (find_req_key _ _ _ _ E).
    - destruct (has fs F_get_req); [discriminate|]. destruct (find_req b id (dreq s)) as [q'|] eqn:E2; [|discriminate].
      destruct (_ && _); [discriminate|]. intros H; inversion H; subst. exact (find_req_key _ _ _ _ E2).
  Qed.

  Lemma read_request_in s fs b id q : read_request s fs b id = Some q -> In q (creq s) \/ In q (dreq s).
  Proof.
    unfold AppModel.read_request. destruct (if has fs F_mc_get then None else find_req b id (creq s)) as [q'|] eqn:E.
    - intros H; inversion H; subst. destruct (has fs F_mc_get); [discriminate|]. left. apply find_some in E. tauto.
    - destruct (has fs F_get_req); [discriminate|]. destruct (find_req b id (dreq s)) as [q'|] eqn:E2; [|discriminate].
      destruct (_ && _); [discriminate|]. intros H; inversion H; subst. right. apply find_some in E2. tauto.
  Qed.

  Lemma write_request_frame s fs q s' e : write_request s fs q = (s', e) ->
    backends s' = backends s /\ trackers s' = trackers s /\ dresp s' = dresp s /\ cresp s' = cresp s /\
    rcache s' = rcache s /\ waiting s' = waiting s /\
    (creq s' = creq s \/ creq s' = put_req q (creq s)) /\ ((e = true /\ dreq s' = dreq s) \/ (e = false /\ dreq s' = put_req q (dreq s))).
  Proof.
    unfold AppModel.write_request. intros H.
    destruct (cacheable climit (q_pay q) && negb (has fs F_mc_set));
      destruct ((has_parts limit (q_pay q) && has fs F_put_parts) || has fs F_put_req); inversion H; subst; cbn; tauto.
  Qed.

  Lemma write_response_frame s fs r s' e : write_response s fs r = (s', e) ->
    backends s' = backends s /\ trackers s' = trackers s /\ dreq s' = dreq s /\ creq s' = creq s /\
    rcache s' = rcache s /\ waiting s' = waiting s /\
    (cresp s' = cresp s \/ cresp s' = put_cresp r (cresp s)) /\ ((e = true /\ dresp s' = dresp s) \/ (e = false /\ dresp s' = put_dresp r (dresp s))).
  Proof.
    unfold AppModel.write_response. intros H.
    destruct (cacheable climit (s_pay r) && negb (has fs F_mc_set));
      destruct ((has_parts limit (s_pay r) && has fs F_put_parts) || has fs F_put_resp); inversion H; subst; cbn; tauto.
  Qed.

  Lemma other_resp_put r l : other_resp (s_backend r) (put_cresp r l) = other_resp (s_backend r) l.
  Proof.
    unfold other_resp, put_cresp. cbn [filter]. rewrite String.eqb_refl. cbn [negb].
    induction l as [|x t IH]; [reflexivity|]. cbn [filter].
    destruct (String.eqb_spec (s_backend x) (s_backend r)) as [E|E]; cbn [andb negb].
    - destruct (s_id x =? s_id r); cbn [negb filter]; [exact IH|]. rewrite E, String.eqb_refl. cbn [negb]. exact IH.
    - cbn [filter]. destruct (String.eqb_spec (s_backend x) (s_backend r)); [contradiction|]. cbn [negb]. rewrite IH. reflexivity.
  Qed.

  Lemma remove_set_tracker b t l : remove_tracker b (set_tracker b t l) = remove_tracker b l.
  Proof.
    unfold remove_tracker. induction l as [|[k v] r IH]; cbn [set_tracker filter fst].
    - rewrite String.eqb_refl. reflexivity.
    - destruct (String.eqb_spec k b) as [E|E]; cbn [filter fst].
      + subst. rewrite String.eqb_refl. reflexivity.
      + destruct (String.eqb_spec k b); [contradiction|]. cbn [negb]. rewrite IH. reflexivity.
  Qed.

  (* whatever an agent call naming backend b does, it leaves alone: the backend records, every other
     backend's stored and cached requests, every other backend's cached responses, every other tracker,
     the GET cache and the waiting clients; and it writes a stored response only under the ID of a
     request that exists under b *)
  Theorem agent_frame s o who b fs : agent_op o = Some (who, b, fs) ->
    let s' := snd (step s o) in
    backends s' = backends s /\ other_req b (dreq s') = other_req b (dreq s) /\ other_req b (creq s') = other_req b (creq s) /\
    other_resp b (cresp s') = other_resp b (cresp s) /\ rcache s' = rcache s /\ waiting s' = waiting s /\
    remove_tracker b (trackers s') = remove_tracker b (trackers s) /\
    (dresp s' = dresp s \/
     exists id pay q, o = OARespond who b (RId id) pay fs /\ authorised s fs who b = true /\ read_request s fs b id = Some q /\
                      dresp s' = put_dresp {| s_backend := b; s_id := id; s_pay := pay |} (dresp s)).
  Proof.
    intros Ho. destruct (authorised s fs who b) eqn:Ha; [|rewrite (agent_rejected _ _ _ _ _ Ho Ha); cbn; tauto].
    destruct o; try discriminate; cbn in Ho; inversion Ho; subst; cbn [AppModel.step]; rewrite Ha; cbn [negb].
    - (* list *)
      destruct (has fs F_put_tracker); destruct (pending list_limit s b); cbn; repeat split; try reflexivity; try (left; reflexivity);
        apply remove_set_tracker.
    - (* fetch *)
      destruct r; [cbn; tauto|]. destruct (read_request s fs b id); cbn; tauto.
    - (* respond *)
      destruct r; [cbn; tauto|]. destruct (read_request s fs b id) as [q|] eqn:Er; [|cbn; tauto].
      destruct (read_request_key _ _ _ _ _ Er) as [Kb Ki].
      destruct (write_response s fs _) as [s1 e1] eqn:W1. destruct (write_request s1 fs _) as [s2 e2] eqn:W2. cbn [snd].
      apply write_response_frame in W1. apply write_request_frame in W2. cbn [q_backend s_backend] in *.
      destruct W1 as (A1 & A2 & A3 & A4 & A5 & A6 & A7 & A8). destruct W2 as (B1 & B2 & B3 & B4 & B5 & B6 & B7 & B8).
      repeat split; try congruence.
      + destruct B8 as [[_ ->] | [_ ->]]; [congruence|]. rewrite A3. rewrite <- Kb at 1.
        change (q_backend q) with (q_backend {| q_backend := q_backend q; q_id := q_id q; q_user := q_user q; q_pay := q_pay q; q_done := true |}) at 1.
        rewrite other_req_put. cbn [q_backend]. rewrite Kb. reflexivity.
      + destruct B7 as [-> | ->]; [congruence|]. rewrite A4. rewrite <- Kb at 1.
        change (q_backend q) with (q_backend {| q_backend := q_backend q; q_id := q_id q; q_user := q_user q; q_pay := q_pay q; q_done := true |}) at 1.
        rewrite other_req_put. cbn [q_backend]. rewrite Kb. reflexivity.
      + rewrite B4. destruct A7 as [-> | ->]; [reflexivity|].
        change b with (s_backend {| s_backend := b; s_id := id; s_pay := pay |}) at 1. rewrite other_resp_put. reflexivity.
      + rewrite B3. destruct A8 as [[_ ->] | [_ ->]]; [left; reflexivity|]. right. exists id, pay, q. auto.
  Qed.

  (* ------------------------------------------------------------------ what an agent call can learn *)

  Lemma find_req_own b id l : find_req b id l = find_req b id (own_req b l).
  Proof.
    unfold find_req, own_req. induction l as [|x r IH]; [reflexivity|]. cbn [find filter]. unfold req_key at 1.
    destruct (String.eqb_spec (q_backend x) b) as [E|E]; cbn [andb].
    - cbn [find]. unfold req_key at 2. rewrite E, String.eqb_refl. cbn [andb]. destruct (q_id x =? id); [reflexivity|exact IH].
    - exact IH.
  Qed.

  Lemma pending_own s1 s2 b : own_req b (dreq s1) = own_req b (dreq s2) -> pending list_limit s1 b = pending list_limit s2 b.
  Proof.
    intros H. unfold pending. f_equal. f_equal.
    assert (E : forall l, filter (fun q => (q_backend q =? b)%string && negb (q_done q)) l = filter (fun q => negb (q_done q)) (own_req b l)).
    { induction l as [|x r IH]; [reflexivity|]. unfold own_req in *. cbn [filter].
      destruct (q_backend x =? b)%string; cbn [andb filter]; [rewrite IH; reflexivity|exact IH]. }
    rewrite !E, H. reflexivity.
  Qed.

  Definition agent_view (b : string) (s : state) : option backend * list sreq * list sreq :=
    (find_backend b (backends s), own_req b (dreq s), own_req b (creq s)).

  (* the answer to an agent call naming backend b is a function of b's record and b's own requests:
     nothing about other backends, their requests, any response, tracker or cache can be learnt from it *)
  Theorem agent_answer_depends_on_own_view s1 s2 o who b fs : agent_op o = Some (who, b, fs) ->
    agent_view b s1 = agent_view b s2 -> fst (step s1 o) = fst (step s2 o).
  Proof.
    intros Ho Hv. unfold agent_view in Hv. inversion Hv as [[Hb Hd Hc]].
    assert (Ha : authorised s1 fs who b = authorised s2 fs who b) by (unfold authorised; rewrite Hb; reflexivity).
    assert (Hr : forall id, read_request s1 fs b id = read_request s2 fs b id).
    { intros id. unfold AppModel.read_request. rewrite (find_req_own b id (creq s1)), (find_req_own b id (dreq s1)), Hc, Hd,
        <- (find_req_own b id (creq s2)), <- (find_req_own b id (dreq s2)). reflexivity. }
    destruct o; try discriminate; cbn in Ho; inversion Ho; subst; cbn [AppModel.step]; rewrite Ha; destruct (authorised s2 fs who b); cbn [negb]; try reflexivity.
    - rewrite (pending_own s1 s2 b Hd). destruct (pending list_limit s2 b); reflexivity.
    - destruct r; [reflexivity|]. rewrite Hr. destruct (read_request s2 fs b id); reflexivity.
    - destruct r; [reflexivity|]. rewrite Hr. destruct (read_request s2 fs b id) as [q|]; [|reflexivity].
      unfold AppModel.write_response, AppModel.write_request.
      destruct (cacheable climit pay && negb (has fs F_mc_set)); cbn [s_pay];
        destruct ((has_parts limit pay && has fs F_put_parts) || has fs F_put_resp);
        destruct (cacheable climit (q_pay q) && negb (has fs F_mc_set)); cbn [q_pay];
        destruct ((has_parts limit (q_pay q) && has fs F_put_parts) || has fs F_put_req); reflexivity.
  Qed.

  (* ------------------------------------------------------------------ C17: end users *)

  Lemma most_specific_member path bs id : most_specific path bs = Some id -> exists b, In b bs /\ bid b = id.
  Proof.
    unfold most_specific, most_specific_raw.
    assert (G : forall l acc, (fst acc = "" \/ exists b, In b (bs) /\ bid b = fst acc) -> incl l bs ->
              let r := fold_left (fun acc b => fold_left (upd path (bid b)) (prefixes b) acc) l acc in
              fst r = "" \/ exists b, In b bs /\ bid b = fst r).
    { induction l as [|x l IH]; intros acc Hacc Hin; cbn [fold_left]; [exact Hacc|].
      apply IH; [|intros y Hy; apply Hin; right; exact Hy].
      assert (Hx : In x bs) by (apply Hin; left; reflexivity).
      generalize (prefixes x). intros ps. revert acc Hacc. induction ps as [|p ps IHp]; intros acc Hacc; cbn [fold_left]; [exact Hacc|].
      apply IHp. unfold upd. destruct (prefix p path); [|exact Hacc].
      destruct ((fst acc =? "")%string || (String.length (snd acc) <? String.length p)%nat); [|exact Hacc].
      right. exists x. auto. }
    specialize (G bs ("", "") (or_introl eq_refl) (incl_refl bs)). cbn zeta in G.
    destruct (String.eqb_spec (fst (fold_left (fun acc b => fold_left (upd path (bid b)) (prefixes b) acc) bs ("", ""))) ""); [discriminate|].
    intros H; inversion H; subst. destruct G as [G|G]; [contradiction|exact G].
  Qed.

  (* an end user is only ever routed to a backend registered for that user or for the shared user *)
  Theorem user_routing s u raw get url path id pay fs b s' :
    step s (OUStart (Some u) raw get url path id pay fs) = (Stored b, s') ->
    exists rec, In rec (backends s) /\ bid rec = b /\ (euser rec = u \/ euser rec = shared).
  Proof.
    cbn [AppModel.step]. destruct (lookup_f s fs u path) as [b'|] eqn:L; [|discriminate].
    destruct (if get && negb (has fs F_mc_get) then find_rcache u url (rcache s) else None); [discriminate|].
    destruct (write_request s fs _) as [s1 e]. destruct e; [discriminate|]. intros H; inversion H; subst b' s'.
    unfold AppModel.lookup_f in L. destruct (has fs F_query_backend); [discriminate|].
    apply lookup_sound in L. destruct L as [_ [L|[_ L]]]; apply most_specific_member in L; destruct L as (rec & Hin & Hid);
      unfold for_user in Hin; apply filter_In in Hin; destruct Hin as [Hin He]; apply String.eqb_eq in He; exists rec; auto.
  Qed.

  (* a request is stored under the user that issued it, and nothing is stored or routed without an identity *)
  Theorem user_anonymous s raw get url path id pay fs :
    step s (OUStart None raw get url path id pay fs) = (Status (if login_required && negb raw then 302 else 401), s).
  Proof. cbn [AppModel.step]. destruct (login_required && negb raw); reflexivity. Qed.

  (* ------------------------------------------------------------------ C17: administrators *)

  Definition admin_op (o : op) : option (admin_ident * list fault) :=
    match o with
    | OAdd who _ _ fs | OList who fs | ODelete who _ fs | OApiOther who _ _ fs => Some (who, fs)
    | _ => None
    end.

  Theorem admin_gate s o who fs : admin_op o = Some (who, fs) -> is_admin who fs = false -> step s o = (Status 403, s).
  Proof.
    intros Ho Ha. destruct o; try discriminate; cbn in Ho; inversion Ho; subst; cbn [AppModel.step]; unfold AppModel.api_step; rewrite Ha; reflexivity.
  Qed.

  Theorem cron_gate s who : cron_front_admin = true -> hdr_admin who = false -> step s (OCron who) = (Status 403, s).
  Proof. intros H1 H2. cbn [AppModel.step]. rewrite H1, H2. reflexivity. Qed.

  (* only the administration API and the cron job change the backend records *)
  Theorem backends_only_by_admin s o : backends (snd (step s o)) <> backends s ->
    (exists who fs, admin_op o = Some (who, fs) /\ is_admin who fs = true) \/ (exists who, o = OCron who /\ (cron_front_admin = false \/ hdr_admin who = true)).
  Proof.
    destruct o; cbn [AppModel.step].
    - intros H. left. exists who, fs. split; [reflexivity|]. destruct (is_admin who fs) eqn:E; [reflexivity|]. unfold AppModel.api_step in H. rewrite E in H. cbn in H. congruence.
    - intros H. unfold AppModel.api_step in H. destruct (is_admin who fs); cbn in H; congruence.
    - intros H. left. exists who, fs. split; [reflexivity|]. destruct (is_admin who fs) eqn:E; [reflexivity|]. unfold AppModel.api_step in H. rewrite E in H. cbn in H. congruence.
    - intros H. left. exists who, fs. split; [reflexivity|]. destruct (is_admin who fs) eqn:E; [reflexivity|]. unfold AppModel.api_step in H. rewrite E in H. cbn in H. congruence.
    - intros H. right. exists who. split; [reflexivity|]. destruct cron_front_admin; [|left; reflexivity]. destruct (hdr_admin who); [right; reflexivity|]. cbn in H. congruence.
    - destruct (last_seen id (trackers s)); cbn; congruence.
    - destruct user as [u|]; [|destruct (login_required && negb raw); cbn; congruence].
      destruct (lookup_f s fs u path); [|cbn; congruence].
      destruct (if get && negb (has fs F_mc_get) then find_rcache u url (rcache s) else None); [cbn; congruence|].
      destruct (write_request s fs _) as [s1 e] eqn:W. apply write_request_frame in W. destruct W as (W & _). destruct e; cbn; congruence.
    - destruct (find_waiter id (waiting s)); [|cbn; congruence]. destruct (read_response s [] _ id); [|cbn; congruence].
      destruct (p_len p =? 0); [cbn; congruence|]. destruct (_ && _ && _); cbn; congruence.
    - intros H. exfalso. apply H. exact (proj1 (agent_frame s (OAList who b fs) who b fs eq_refl)).
    - intros H. exfalso. apply H. exact (proj1 (agent_frame s (OAFetch who b r fs) who b fs eq_refl)).
    - intros H. exfalso. apply H. exact (proj1 (agent_frame s (OARespond who b r pay fs) who b fs eq_refl)).
  Qed.

  (* ------------------------------------------------------------------ C19: provenance of everything stored *)

  (* the past of an execution: (state before, operation, answer), oldest first *)
  Definition past := list (state * op * out).

  Fixpoint trace (s : state) (ops : list op) : past * state :=
    match ops with
    | [] => ([], s)
    | o :: r => let '(x, s1) := step s o in let '(h, s2) := trace s1 r in ((s, o, x) :: h, s2)
    end.

  (* an end user u issued a request with this ID and payload, and the lookup routed it to backend b *)
  Definition issued (h : past) (b u : string) (id : Z) (p : payload) (get : bool) (url : string) : Prop :=
    exists s0 raw path fs x, In (s0, OUStart (Some u) raw get url path id p fs, x) h /\ lookup_f s0 fs u path = Some b.

  (* the authorised agent of backend b posted p under the ID of a request that was routed to b *)
  Definition posted (h : past) (b : string) (id : Z) (p : payload) : Prop :=
    exists s0 who fs x, In (s0, OARespond who b (RId id) p fs, x) h /\ authorised s0 fs who b = true /\
                        exists u p0 get url, issued h b u id p0 get url.

  Record Inv (h : past) (s : state) : Prop := {
    inv_req : forall q, In q (creq s) \/ In q (dreq s) -> exists get url, issued h (q_backend q) (q_user q) (q_id q) (q_pay q) get url;
    inv_resp : forall r, In r (cresp s) \/ In r (dresp s) -> posted h (s_backend r) (s_id r) (s_pay r);
    inv_wait : forall w, In w (waiting s) -> exists p, issued h (w_backend w) (w_user w) (w_id w) p (w_get w) (w_url w);
    inv_rcache : forall u url p, In (u, url, p) (rcache s) ->
      p_status p = 200 /\ p_cc p = false /\
      exists s0 id b p0, In (s0, OUFinish id, Delivered p) h /\ issued h b u id p0 true url
  }.

  Lemma issued_mono h e b u id p get url : issued h b u id p get url -> issued (h ++ [e]) b u id p get url.
  Proof. intros (s0 & raw & path & fs & x & H & L). exists s0, raw, path, fs, x. split; [apply in_or_app; left; exact H|exact L]. Qed.

  Lemma posted_mono h e b id p : posted h b id p -> posted (h ++ [e]) b id p.
  Proof.
    intros (s0 & who & fs & x & H & A & u & p0 & get & url & I). exists s0, who, fs, x. split; [apply in_or_app; left; exact H|]. split; [exact A|].
    exists u, p0, get, url. apply issued_mono. exact I.
  Qed.

  Lemma in_ins_req x q l : In x (ins_req q l) -> x = q \/ In x l.
  Proof.
    induction l as [|y r IH]; cbn [ins_req]; [intros [H|[]]; auto|].
    destruct (_ && _); [intros [H|H]; [auto|right; exact H]|].
    intros [H|H]; [right; left; exact H|]. destruct (IH H); [auto|right; right; assumption].
  Qed.

  Lemma in_put_req_strong x q l : In x (put_req q l) -> x = q \/ (In x l /\ req_key x (q_backend q) (q_id q) = false).
  Proof.
    unfold put_req. intros H. apply in_ins_req in H. destruct H as [H|H]; [auto|]. apply filter_In in H. destruct H as [H1 H2].
    apply negb_true_iff in H2. auto.
  Qed.

  Lemma in_put_req x q l : In x (put_req q l) -> x = q \/ In x l.
  Proof. intros H. apply in_put_req_strong in H. tauto. Qed.

  Lemma in_put_dresp x r l : In x (put_dresp r l) -> x = r \/ In x l.
  Proof. unfold put_dresp. intros [H|H]; [auto|]. apply filter_In in H. tauto. Qed.
  Lemma in_put_cresp x r l : In x (put_cresp r l) -> x = r \/ In x l.
  Proof. unfold put_cresp. intros [H|H]; [auto|]. apply filter_In in H. tauto. Qed.

  Lemma delete_backend_frame s id : let s' := delete_backend s id in
    creq s' = creq s /\ dresp s' = dresp s /\ cresp s' = cresp s /\ rcache s' = rcache s /\ waiting s' = waiting s /\ incl (dreq s') (dreq s).
  Proof. cbn [creq dreq cresp dresp rcache waiting backends trackers with_backends with_trackers with_dreq with_creq with_dresp with_cresp with_rcache with_waiting delete_backend]. repeat split. intros x H. apply filter_In in H. tauto. Qed.

  Lemma fold_delete_frame ids : forall s, let s' := fold_left delete_backend ids s in
    creq s' = creq s /\ dresp s' = dresp s /\ cresp s' = cresp s /\ rcache s' = rcache s /\ waiting s' = waiting s /\ incl (dreq s') (dreq s).
  Proof.
    induction ids as [|i r IH]; intros s; cbn [fold_left]; [repeat split; apply incl_refl|].
    destruct (IH (delete_backend s i)) as (A & B & C & D & E & F). destruct (delete_backend_frame s i) as (A' & B' & C' & D' & E' & F').
    cbn zeta in *. repeat split; try congruence. intros x H. apply F', F, H.
  Qed.

  Lemma api_step_frame s who fs m pth body x s' : api_step s who fs m pth body = (x, s') ->
    creq s' = creq s /\ dresp s' = dresp s /\ cresp s' = cresp s /\ rcache s' = rcache s /\ waiting s' = waiting s /\ incl (dreq s') (dreq s).
  Proof.
    unfold AppModel.api_step. assert (R : creq s = creq s /\ dresp s = dresp s /\ cresp s = cresp s /\ rcache s = rcache s /\ waiting s = waiting s /\ incl (dreq s) (dreq s))
      by (repeat split; apply incl_refl).
    destruct (is_admin who fs); cbn [negb]; [|intros H; inversion H; subst; exact R].
    destruct (pth =? "/api/backends")%string.
    - destruct (m =? "GET")%string; [intros H; inversion H; subst; exact R|].
      destruct (m =? "POST")%string; [|intros H; inversion H; subst; exact R].
      destruct body as [[b valid]|]; [|intros H; inversion H; subst; exact R].
      unfold add_backend. destruct (negb _); [intros H; inversion H; subst; exact R|].
      destruct (has fs F_put_tracker); [intros H; inversion H; subst; exact R|].
      destruct (has fs F_put_backend); intros H; injection H as _ <-; cbn [creq dreq cresp dresp rcache waiting backends trackers with_backends with_trackers with_dreq with_creq with_dresp with_cresp with_rcache with_waiting delete_backend]; repeat split; apply incl_refl.
    - destruct (prefix "/api/backends/" pth); [|intros H; inversion H; subst; exact R].
      destruct (m =? "DELETE")%string; [|intros H; inversion H; subst; exact R].
      destruct (_ =? "")%string; intros H; inversion H; subst; [exact R|]. apply delete_backend_frame.
  Qed.

  Lemma inv_weaken h e s s' : Inv h s ->
    incl (creq s') (creq s) -> incl (dreq s') (dreq s) -> incl (cresp s') (cresp s) -> incl (dresp s') (dresp s) ->
    incl (waiting s') (waiting s) -> incl (rcache s') (rcache s) -> Inv (h ++ [e]) s'.
  Proof.
    intros [I1 I2 I3 I4] A B C D E F. constructor.
    - intros q [H|H]; [destruct (I1 q (or_introl (A _ H))) as (g & u & K)|destruct (I1 q (or_intror (B _ H))) as (g & u & K)]; exists g, u; apply issued_mono; exact K.
    - intros r [H|H]; apply posted_mono; [apply I2; left; apply C, H|apply I2; right; apply D, H].
    - intros w H. destruct (I3 w (E _ H)) as (p & K). exists p. apply issued_mono. exact K.
    - intros u url p H. destruct (I4 u url p (F _ H)) as (K1 & K2 & s0 & id & b & p0 & K3 & K4). split; [exact K1|]. split; [exact K2|].
      exists s0, id, b, p0. split; [apply in_or_app; left; exact K3|apply issued_mono; exact K4].
  Qed.

  Lemma eq_incl {A} (a b : list A) : a = b -> incl a b.
  Proof. intros ->. apply incl_refl. Qed.

  Lemma in_last {A} (l : list A) e : In e (l ++ [e]).
  Proof. apply in_or_app. right. left. reflexivity. Qed.

  Theorem inv_step h s o x s' : Inv h s -> step s o = (x, s') -> Inv (h ++ [(s, o, x)]) s'.
  Proof.
    intros HI Hs. pose proof HI as [I1 I2 I3 I4]. destruct o; cbn [AppModel.step] in Hs.
    - apply api_step_frame in Hs. destruct Hs as (A & B & C & D & E & F). apply (inv_weaken _ _ _ _ HI); try (apply eq_incl; assumption); exact F.
    - apply api_step_frame in Hs. destruct Hs as (A & B & C & D & E & F). apply (inv_weaken _ _ _ _ HI); try (apply eq_incl; assumption); exact F.
    - apply api_step_frame in Hs. destruct Hs as (A & B & C & D & E & F). apply (inv_weaken _ _ _ _ HI); try (apply eq_incl; assumption); exact F.
    - apply api_step_frame in Hs. destruct Hs as (A & B & C & D & E & F). apply (inv_weaken _ _ _ _ HI); try (apply eq_incl; assumption); exact F.
    - (* cron *)
      destruct (cron_front_admin && negb (hdr_admin who)); inversion Hs; subst; [apply (inv_weaken _ _ _ _ HI); apply incl_refl|].
      unfold AppModel.cron. set (ids := firstn multi_limit _).
      destruct (fold_delete_frame ids s) as (A & B & C & D & E & F). cbn zeta in *.
      destruct sets_start; apply (inv_weaken _ _ _ _ HI); cbn [creq dreq cresp dresp rcache waiting backends trackers with_backends with_trackers with_dreq with_creq with_dresp with_cresp with_rcache with_waiting delete_backend]; try (apply eq_incl; assumption); try exact F.
      rewrite B. intros y Hy. rewrite <- (firstn_skipn multi_limit (dresp s)). apply in_or_app. right. exact Hy.
    - (* seen *)
      injection Hs as _ <-. destruct (last_seen id (trackers s)); apply (inv_weaken _ _ _ _ HI); cbn [creq dreq cresp dresp rcache waiting backends trackers with_backends with_trackers with_dreq with_creq with_dresp with_cresp with_rcache with_waiting delete_backend]; apply incl_refl.
    - (* ustart *)
      destruct user as [u|]; [|destruct (login_required && negb raw); inversion Hs; subst; apply (inv_weaken _ _ _ _ HI); apply incl_refl].
      destruct (lookup_f s fs u path) as [b|] eqn:L; [|inversion Hs; subst; apply (inv_weaken _ _ _ _ HI); apply incl_refl].
      destruct (if get && negb (has fs F_mc_get) then find_rcache u url (rcache s) else None); [inversion Hs; subst; apply (inv_weaken _ _ _ _ HI); apply incl_refl|].
      destruct (write_request s fs _) as [s1 e] eqn:W. apply write_request_frame in W.
      destruct W as (W1 & W2 & W3 & W4 & W5 & W6 & W7 & W8).
      set (q0 := {| q_backend := b; q_id := id; q_user := u; q_pay := pay; q_done := false |}) in *.
      assert (Hnew : issued (h ++ [(s, OUStart (Some u) raw get url path id pay fs, x)]) b u id pay get url).
      { exists s, raw, path, fs, x. split; [apply in_last|exact L]. }
      assert (Hreq : forall q, In q (creq s1) \/ In q (dreq s1) ->
                exists g ur, issued (h ++ [(s, OUStart (Some u) raw get url path id pay fs, x)]) (q_backend q) (q_user q) (q_id q) (q_pay q) g ur).
      { intros q Hq.
        assert (Hc : q = q0 \/ In q (creq s) \/ In q (dreq s)).
        { destruct Hq as [Hq|Hq].
          - destruct W7 as [E|E]; rewrite E in Hq; [tauto|]. apply in_put_req in Hq. tauto.
          - destruct W8 as [[_ E]|[_ E]]; rewrite E in Hq; [tauto|]. apply in_put_req in Hq. tauto. }
        destruct Hc as [->|Hc]; [exists get, url; exact Hnew|].
        destruct (I1 q Hc) as (g & ur & K). exists g, ur. apply issued_mono. exact K. }
      destruct e; inversion Hs; subst; constructor; cbn [creq dreq cresp dresp waiting rcache with_waiting]; try exact Hreq.
      + intros r Hr. rewrite W3, W4 in Hr. apply posted_mono. apply I2. tauto.
      + intros w Hw. rewrite W6 in Hw. destruct (I3 w Hw) as (p & K). exists p. apply issued_mono. exact K.
      + intros u' url' p Hp. rewrite W5 in Hp. destruct (I4 u' url' p Hp) as (K1 & K2 & s0 & id' & b' & p0 & K3 & K4). split; [exact K1|]. split; [exact K2|].
        exists s0, id', b', p0. split; [apply in_or_app; left; exact K3|apply issued_mono; exact K4].
      + intros r Hr. rewrite W3, W4 in Hr. apply posted_mono. apply I2. tauto.
      + intros w [<-|Hw]; [exists pay; exact Hnew|]. rewrite W6 in Hw. destruct (I3 w Hw) as (p & K). exists p. apply issued_mono. exact K.
      + intros u' url' p Hp. rewrite W5 in Hp. destruct (I4 u' url' p Hp) as (K1 & K2 & s0 & id' & b' & p0 & K3 & K4). split; [exact K1|]. split; [exact K2|].
        exists s0, id', b', p0. split; [apply in_or_app; left; exact K3|apply issued_mono; exact K4].
    - (* ufinish *)
      destruct (find_waiter id (waiting s)) as [w|] eqn:Fw; [|inversion Hs; subst; apply (inv_weaken _ _ _ _ HI); apply incl_refl].
      destruct (read_response s [] (w_backend w) id) as [p|]; [|inversion Hs; subst; apply (inv_weaken _ _ _ _ HI); apply incl_refl].
      destruct (p_len p =? 0); [inversion Hs; subst; apply (inv_weaken _ _ _ _ HI); apply incl_refl|].
      assert (Hrm : incl (remove_waiter id (waiting s)) (waiting s)) by (intros y Hy; apply filter_In in Hy; tauto).
      destruct (w_get w && (p_status p =? 200) && negb (p_cc p)) eqn:Ec; inversion Hs; subst;
        [|apply (inv_weaken _ _ _ _ HI); cbn [creq dreq cresp dresp rcache waiting backends trackers with_backends with_trackers with_dreq with_creq with_dresp with_cresp with_rcache with_waiting delete_backend]; try apply incl_refl; exact Hrm].
      apply andb_true_iff in Ec. destruct Ec as [Ec E3]. apply andb_true_iff in Ec. destruct Ec as [E1 E2].
      apply Z.eqb_eq in E2. apply negb_true_iff in E3.
      unfold find_waiter in Fw. apply find_some in Fw. destruct Fw as [Fw Fid]. apply Z.eqb_eq in Fid.
      constructor; cbn [creq dreq cresp dresp waiting rcache with_waiting with_rcache].
      + intros q Hq. destruct (I1 q Hq) as (g & ur & K). exists g, ur. apply issued_mono. exact K.
      + intros r Hr. apply posted_mono. apply I2. exact Hr.
      + intros w' Hw'. destruct (I3 w' (Hrm _ Hw')) as (p' & K). exists p'. apply issued_mono. exact K.
      + intros u' url' p' [Hp|Hp].
        * inversion Hp; subst. split; [exact E2|]. split; [exact E3|].
          destruct (I3 w Fw) as (p0 & K). exists s, (w_id w), (w_backend w), p0. split; [apply in_last|]. rewrite E1 in K. apply issued_mono. exact K.
        * apply filter_In in Hp. destruct Hp as [Hp _]. destruct (I4 u' url' p' Hp) as (K1 & K2 & s0 & id' & b' & p0 & K3 & K4). split; [exact K1|]. split; [exact K2|].
          exists s0, id', b', p0. split; [apply in_or_app; left; exact K3|apply issued_mono; exact K4].
    - (* agent list *)
      destruct (negb (authorised s fs who b)); [inversion Hs; subst; apply (inv_weaken _ _ _ _ HI); apply incl_refl|].
      destruct (has fs F_put_tracker); destruct (pending list_limit s b); injection Hs as _ <-; apply (inv_weaken _ _ _ _ HI); cbn [creq dreq cresp dresp rcache waiting backends trackers with_backends with_trackers with_dreq with_creq with_dresp with_cresp with_rcache with_waiting delete_backend]; apply incl_refl.
    - (* agent fetch *)
      destruct (negb (authorised s fs who b)); [inversion Hs; subst; apply (inv_weaken _ _ _ _ HI); apply incl_refl|].
      destruct r; [inversion Hs; subst; apply (inv_weaken _ _ _ _ HI); apply incl_refl|].
      destruct (read_request s fs b id); inversion Hs; subst; apply (inv_weaken _ _ _ _ HI); apply incl_refl.
    - (* agent respond *)
      destruct (authorised s fs who b) eqn:Ha; cbn [negb] in Hs; [|inversion Hs; subst; apply (inv_weaken _ _ _ _ HI); apply incl_refl].
      destruct r; [inversion Hs; subst; apply (inv_weaken _ _ _ _ HI); apply incl_refl|].
      destruct (read_request s fs b id) as [q|] eqn:Er; [|inversion Hs; subst; apply (inv_weaken _ _ _ _ HI); apply incl_refl].
      destruct (read_request_key _ _ _ _ _ Er) as [Kb Ki]. pose proof (read_request_in _ _ _ _ _ Er) as Kin.
      destruct (write_response s fs _) as [s1 e1] eqn:W1. destruct (write_request s1 fs _) as [s2 e2] eqn:W2.
      apply write_response_frame in W1. apply write_request_frame in W2.
      destruct W1 as (A1 & A2 & A3 & A4 & A5 & A6 & A7 & A8). destruct W2 as (B1 & B2 & B3 & B4 & B5 & B6 & B7 & B8).
      inversion Hs as [[Hx Hs']]. subst s'. clear Hs. rewrite Hx.
      set (e := (s, OARespond who b (RId id) pay fs, x)).
      destruct (I1 q Kin) as (g0 & ur0 & Kiss). rewrite Kb, Ki in Kiss.
      assert (Hpost : posted (h ++ [e]) b id pay).
      { exists s, who, fs, x. split; [apply in_last|]. split; [exact Ha|].
        exists (q_user q), (q_pay q), g0, ur0. apply issued_mono. exact Kiss. }
      constructor.
      + intros q' Hq'.
        assert (Hc : (q_backend q' = q_backend q /\ q_user q' = q_user q /\ q_id q' = q_id q /\ q_pay q' = q_pay q) \/ In q' (creq s) \/ In q' (dreq s)).
        { destruct Hq' as [Hq'|Hq'].
          - destruct B7 as [E|E]; rewrite E in Hq'; [rewrite A4 in Hq'; tauto|]. apply in_put_req in Hq'. destruct Hq' as [->|Hq']; [left; cbn; tauto|rewrite A4 in Hq'; tauto].
          - destruct B8 as [[_ E]|[_ E]]; rewrite E in Hq'; [rewrite A3 in Hq'; tauto|]. apply in_put_req in Hq'. destruct Hq' as [->|Hq']; [left; cbn; tauto|rewrite A3 in Hq'; tauto]. }
        destruct Hc as [(E1 & E2 & E3 & E4)|Hc].
        * rewrite E1, E2, E3, E4, Kb, Ki. exists g0, ur0. apply issued_mono. exact Kiss.
        * destruct (I1 q' Hc) as (g & ur & K). exists g, ur. apply issued_mono. exact K.
      + intros r Hr.
        assert (Hc : r = {| s_backend := b; s_id := id; s_pay := pay |} \/ In r (cresp s) \/ In r (dresp s)).
        { destruct Hr as [Hr|Hr].
          - rewrite B4 in Hr. destruct A7 as [E|E]; rewrite E in Hr; [tauto|]. apply in_put_cresp in Hr. tauto.
          - rewrite B3 in Hr. destruct A8 as [[_ E]|[_ E]]; rewrite E in Hr; [tauto|]. apply in_put_dresp in Hr. tauto. }
        destruct Hc as [->|Hc]; [exact Hpost|]. apply posted_mono. apply I2. exact Hc.
      + intros w Hw. rewrite B6, A6 in Hw. destruct (I3 w Hw) as (p & K). exists p. apply issued_mono. exact K.
      + intros u' url' p Hp. rewrite B5, A5 in Hp. destruct (I4 u' url' p Hp) as (K1 & K2 & s0 & id' & b' & p0 & K3 & K4). split; [exact K1|]. split; [exact K2|].
        exists s0, id', b', p0. split; [apply in_or_app; left; exact K3|apply issued_mono; exact K4].
  Qed.

  Lemma inv_init : Inv [] init.
  Proof. constructor; cbn; intros; tauto. Qed.

  (* the invariant holds after every history *)
  Theorem inv_trace ops : forall h0 s0, Inv h0 s0 -> Inv (h0 ++ fst (trace s0 ops)) (snd (trace s0 ops)).
  Proof.
    induction ops as [|o r IH]; intros h0 s0 H; cbn [trace]; [cbn; rewrite app_nil_r; exact H|].
    destruct (step s0 o) as [x s1] eqn:E. destruct (trace s1 r) as [h s2] eqn:T. cbn [fst snd].
    pose proof (IH (h0 ++ [(s0, o, x)]) s1 (inv_step _ _ _ _ _ H E)) as K. rewrite T in K. cbn [fst snd] in K.
    rewrite <- app_assoc in K. exact K.
  Qed.

  Corollary inv_reachable ops : Inv (fst (trace init ops)) (snd (trace init ops)).
  Proof. exact (inv_trace ops [] init inv_init). Qed.

  (* ------------------------------------------------------------------ C19: what agents and clients receive *)

  (* the bytes an agent fetches under an ID are the request an end user issued with that ID (and that
     was routed to the agent's backend) *)
  Theorem fetch_exact h s who b id fs u p s' : Inv h s ->
    step s (OAFetch who b (RId id) fs) = (Fetched u p, s') -> exists get url, issued h b u id p get url.
  Proof.
    intros [I1 _ _ _]. cbn [AppModel.step]. destruct (negb (authorised s fs who b)); [discriminate|].
    destruct (read_request s fs b id) as [q|] eqn:Er; [|discriminate]. intros H; inversion H; subst.
    destruct (read_request_key _ _ _ _ _ Er) as [Kb Ki]. destruct (I1 q (read_request_in _ _ _ _ _ Er)) as (g & ur & K).
    rewrite Kb, Ki in K. exists g, ur. exact K.
  Qed.

  Lemma read_response_in s b id p : read_response s [] b id = Some p ->
    (exists r, In r (cresp s) /\ s_backend r = b /\ s_id r = id /\ s_pay r = p) \/ (exists r, In r (dresp s) /\ s_id r = id /\ s_pay r = p).
  Proof.
    unfold AppModel.read_response. cbn [has existsb]. destruct (find_cresp b id (cresp s)) as [r|] eqn:E.
    - intros H; inversion H; subst. left. exists r. unfold find_cresp in E. apply find_some in E. destruct E as [E1 E2].
      apply andb_true_iff in E2. destruct E2 as [E2 E3]. apply String.eqb_eq in E2. apply Z.eqb_eq in E3. auto.
    - destruct (find_dresp id (dresp s)) as [r|] eqn:E2; [|discriminate]. rewrite andb_false_r. intros H; inversion H; subst.
      right. exists r. unfold find_dresp in E2. apply find_some in E2. destruct E2 as [E2 E3]. apply Z.eqb_eq in E3. auto.
  Qed.

  (* the response a client receives was posted under its request's ID by an authorised agent, for a request routed to that agent's backend *)
  Theorem deliver_exact h s id p s' : Inv h s -> step s (OUFinish id) = (Delivered p, s') ->
    exists w b', find_waiter id (waiting s) = Some w /\ posted h b' id p /\
                 exists p0, issued h (w_backend w) (w_user w) id p0 (w_get w) (w_url w).
  Proof.
    intros [_ I2 I3 _]. cbn [AppModel.step]. destruct (find_waiter id (waiting s)) as [w|] eqn:Fw; [|discriminate].
    destruct (read_response s [] (w_backend w) id) as [p'|] eqn:Er; [|discriminate].
    destruct (p_len p' =? 0); [discriminate|]. intros H. assert (p' = p) by (inversion H; reflexivity). subst p'. clear H.
    pose proof Fw as Fw'. unfold find_waiter in Fw'. apply find_some in Fw'. destruct Fw' as [Fin Fid]. apply Z.eqb_eq in Fid.
    destruct (I3 w Fin) as (p0 & K). rewrite Fid in K.
    apply read_response_in in Er. destruct Er as [(r & Hin & Eb & Ei & Ep)|(r & Hin & Ei & Ep)].
    - exists w, (w_backend w). split; [reflexivity|]. split; [|exists p0; exact K]. specialize (I2 r (or_introl Hin)). rewrite Eb, Ei, Ep in I2. exact I2.
    - exists w, (s_backend r). split; [reflexivity|]. split; [|exists p0; exact K]. specialize (I2 r (or_intror Hin)). rewrite Ei, Ep in I2. exact I2.
  Qed.

  (* request IDs issued by the platform *)
  Definition uid (e : state * op * out) : list Z :=
    match snd (fst e) with OUStart (Some _) _ _ _ _ id _ _ => [id] | _ => [] end.
  Definition ids (h : past) : list Z := flat_map uid h.

  Lemma nodup_app_disjoint {A} (l1 l2 : list A) i : NoDup (l1 ++ l2) -> In i l1 -> In i l2 -> False.
  Proof.
    induction l1 as [|x r IH]; intros N H1 H2; [destruct H1|]. cbn in N. inversion N as [|? ? Hn N']; subst.
    destruct H1 as [->|H1]; [apply Hn; apply in_or_app; right; exact H2|exact (IH N' H1 H2)].
  Qed.

  Lemma flat_map_unique {A B} (f : A -> list B) l a b i :
    NoDup (flat_map f l) -> In a l -> In b l -> In i (f a) -> In i (f b) -> a = b.
  Proof.
    induction l as [|x r IH]; intros N Ha Hb Ia Ib; [destruct Ha|]. cbn [flat_map] in N.
    assert (Nr : NoDup (flat_map f r)).
    { clear -N. induction (f x) as [|y t IHt]; [exact N|]. cbn in N. inversion N; subst. auto. }
    destruct Ha as [->|Ha]; destruct Hb as [->|Hb]; [reflexivity| | |exact (IH Nr Ha Hb Ia Ib)]; exfalso.
    - apply (nodup_app_disjoint _ _ i N Ia). apply in_flat_map. exists b. auto.
    - apply (nodup_app_disjoint _ _ i N Ib). apply in_flat_map. exists a. auto.
  Qed.

  Lemma issued_unique h b u id p g url b' u' p' g' url' : NoDup (ids h) ->
    issued h b u id p g url -> issued h b' u' id p' g' url' -> b = b' /\ u = u' /\ p = p' /\ g = g' /\ url = url'.
  Proof.
    intros N (s0 & raw & path & fs & x & H & L) (s0' & raw' & path' & fs' & x' & H' & L').
    assert (E : (s0, OUStart (Some u) raw g url path id p fs, x) = (s0', OUStart (Some u') raw' g' url' path' id p' fs', x')).
    { apply (flat_map_unique uid h _ _ id N H H'); cbn; auto. }
    inversion E; subst. rewrite L in L'. inversion L'. auto.
  Qed.

  (* with unique request IDs, the agent whose response is delivered is the agent of the very backend the request was routed to *)
  Theorem deliver_from_own_backend h s id p s' : NoDup (ids h) -> Inv h s -> step s (OUFinish id) = (Delivered p, s') ->
    exists w, find_waiter id (waiting s) = Some w /\ posted h (w_backend w) id p.
  Proof.
    intros N HI Hs. destruct (deliver_exact _ _ _ _ _ HI Hs) as (w & b' & Fw & P & p0 & K). exists w. split; [exact Fw|].
    pose proof P as (s0 & who & fs & x & _ & _ & u & p1 & g & ur & K').
    destruct (issued_unique _ _ _ _ _ _ _ _ _ _ _ _ N K' K) as (E & _). rewrite <- E. exact P.
  Qed.

  (* a GET answered from the response cache gets a response that was delivered before, to the same user, for the same URL *)
  Theorem cached_exact h s u raw get url path id pay fs p s' : Inv h s ->
    step s (OUStart (Some u) raw get url path id pay fs) = (Delivered p, s') ->
    get = true /\ p_status p = 200 /\ p_cc p = false /\
    exists s0 id0 b p0, In (s0, OUFinish id0, Delivered p) h /\ issued h b u id0 p0 true url.
  Proof.
    intros [_ _ _ I4]. cbn [AppModel.step]. destruct (lookup_f s fs u path); [|discriminate].
    destruct get; cbn [andb]; [|destruct (write_request s fs _) as [s1 e]; destruct e; discriminate].
    destruct (negb (has fs F_mc_get)); [|destruct (write_request s fs _) as [s1 e]; destruct e; discriminate].
    destruct (find_rcache u url (rcache s)) as [p'|] eqn:E; [|destruct (write_request s fs _) as [s1 e]; destruct e; discriminate].
    intros H. assert (p' = p) by (inversion H; reflexivity). subst p'.
    unfold find_rcache in E. destruct (find (rkey u url) (rcache s)) as [[[u' url'] p']|] eqn:F; [|discriminate]. cbn in E. inversion E; subst p'.
    apply find_some in F. destruct F as [Fin Fk]. unfold rkey in Fk. cbn [fst snd] in Fk. apply andb_true_iff in Fk. destruct Fk as [K1 K2].
    apply String.eqb_eq in K1. apply String.eqb_eq in K2. subst u' url'.
    destruct (I4 u url p Fin) as (A & B & C). auto.
  Qed.

  (* ------------------------------------------------------------------ C19: a completed request is not pending *)

  Definition done_inv (b : string) (id : Z) (s : state) : Prop :=
    forall q, In q (dreq s) -> q_backend q = b -> q_id q = id -> q_done q = true.

  Lemma respond_200_done s who b id pay fs s' : step s (OARespond who b (RId id) pay fs) = (Status 200, s') -> done_inv b id s'.
  Proof.
    cbn [AppModel.step]. destruct (negb (authorised s fs who b)); [discriminate|].
    destruct (read_request s fs b id) as [q|] eqn:Er; [|discriminate]. destruct (read_request_key _ _ _ _ _ Er) as [Kb Ki].
    destruct (write_response s fs _) as [s1 e1] eqn:W1. destruct (write_request s1 fs _) as [s2 e2] eqn:W2.
    destruct e1, e2; cbn [Z.add]; try (destruct (chan_cap <? _); discriminate).
    intros H. assert (s2 = s') by (destruct (chan_cap <? 0 + 0); inversion H; reflexivity). subst s'. clear H.
    apply write_request_frame in W2. destruct W2 as (_ & _ & _ & _ & _ & _ & _ & [[B _]|[_ B]]); [discriminate|].
    intros x Hx Hb Hi. rewrite B in Hx. apply in_put_req_strong in Hx. destruct Hx as [->|[_ Hk]]; [reflexivity|].
    cbn [q_backend q_id] in Hk. unfold req_key in Hk. rewrite Hb, Hi, Kb, Ki, String.eqb_refl, Z.eqb_refl in Hk. discriminate.
  Qed.

  Definition ustart_id (o : op) : option Z :=
    match o with OUStart (Some _) _ _ _ _ id _ _ => Some id | _ => None end.

  Lemma done_incl b id s s' : incl (dreq s') (dreq s) -> done_inv b id s -> done_inv b id s'.
  Proof. intros Hi H q Hq. apply H. apply Hi. exact Hq. Qed.

  Lemma done_step b id s o : done_inv b id s -> ustart_id o <> Some id -> done_inv b id (snd (step s o)).
  Proof.
    intros H Hn. destruct (step s o) as [x s'] eqn:Hs. cbn [snd]. destruct o; cbn [AppModel.step] in Hs.
    - apply api_step_frame in Hs. apply (done_incl _ _ s); tauto.
    - apply api_step_frame in Hs. apply (done_incl _ _ s); tauto.
    - apply api_step_frame in Hs. apply (done_incl _ _ s); tauto.
    - apply api_step_frame in Hs. apply (done_incl _ _ s); tauto.
    - destruct (cron_front_admin && negb (hdr_admin who)); inversion Hs; subst; [exact H|].
      unfold AppModel.cron. set (l := firstn multi_limit _). destruct (fold_delete_frame l s) as (_ & _ & _ & _ & _ & F). cbn zeta in F.
      destruct sets_start; apply (done_incl _ _ s); try exact H; exact F.
    - inversion Hs; subst. destruct (last_seen id0 (trackers s)); exact H.
    - destruct user as [u|]; [|destruct (login_required && negb raw); inversion Hs; subst; exact H].
      destruct (lookup_f s fs u path) as [b0|]; [|inversion Hs; subst; exact H].
      destruct (if get && negb (has fs F_mc_get) then find_rcache u url (rcache s) else None); [inversion Hs; subst; exact H|].
      destruct (write_request s fs _) as [s1 e] eqn:W. apply write_request_frame in W. destruct W as (_ & _ & _ & _ & _ & _ & _ & W).
      assert (D1 : done_inv b id s1).
      { destruct W as [[_ W]|[_ W]]; intros q Hq Hb Hi; rewrite W in Hq; [exact (H q Hq Hb Hi)|].
        apply in_put_req in Hq. destruct Hq as [->|Hq]; [|exact (H q Hq Hb Hi)]. cbn in Hi. cbn in Hn. congruence. }
      destruct e; inversion Hs; subst; exact D1.
    - destruct (find_waiter id0 (waiting s)); [|inversion Hs; subst; exact H]. destruct (read_response s [] _ id0); [|inversion Hs; subst; exact H].
      destruct (p_len p =? 0); [inversion Hs; subst; exact H|]. destruct (_ && _ && _); inversion Hs; subst; exact H.
    - destruct (negb (authorised s fs who b0)); [inversion Hs; subst; exact H|].
      destruct (has fs F_put_tracker); destruct (pending list_limit s b0); inversion Hs; subst; exact H.
    - destruct (negb (authorised s fs who b0)); [inversion Hs; subst; exact H|]. destruct r; [inversion Hs; subst; exact H|].
      destruct (read_request s fs b0 id0); inversion Hs; subst; exact H.
    - destruct (negb (authorised s fs who b0)); [inversion Hs; subst; exact H|]. destruct r; [inversion Hs; subst; exact H|].
      destruct (read_request s fs b0 id0) as [q|] eqn:Er; [|inversion Hs; subst; exact H].
      destruct (write_response s fs _) as [s1 e1] eqn:W1. destruct (write_request s1 fs _) as [s2 e2] eqn:W2.
      apply write_response_frame in W1. apply write_request_frame in W2.
      destruct W1 as (_ & _ & A3 & _). destruct W2 as (_ & _ & _ & _ & _ & _ & _ & B8).
      inversion Hs; subst. intros x Hx Hb Hi. destruct B8 as [[_ B]|[_ B]]; rewrite B in Hx.
      + rewrite A3 in Hx. exact (H x Hx Hb Hi).
      + apply in_put_req in Hx. destruct Hx as [->|Hx]; [reflexivity|]. rewrite A3 in Hx. exact (H x Hx Hb Hi).
  Qed.

  Lemma in_firstn {A} n (l : list A) x : In x (firstn n l) -> In x l.
  Proof. revert l. induction n as [|n IH]; intros [|y r]; cbn; try tauto. intros [H|H]; [auto|right; exact (IH _ H)]. Qed.

  Lemma listed_excludes b id s who fs l s' : done_inv b id s -> step s (OAList who b fs) = (Listed l, s') -> ~ In id l.
  Proof.
    intros H. cbn [AppModel.step]. destruct (negb (authorised s fs who b)); [discriminate|].
    destruct (pending list_limit s b) as [|i r] eqn:P; [discriminate|]. intros E Hin. inversion E; subst l. rewrite <- P in Hin.
    unfold pending in Hin. apply in_map_iff in Hin. destruct Hin as (q & Hid & Hq). apply in_firstn in Hq. apply filter_In in Hq.
    destruct Hq as [Hq Hc]. apply andb_true_iff in Hc. destruct Hc as [Hb Hd]. apply String.eqb_eq in Hb.
    rewrite (H q Hq Hb Hid) in Hd. discriminate.
  Qed.

  (* once an agent's response has been accepted (200), the request is never again listed as pending for
     that backend, whatever happens afterwards (the platform never issues the same request ID twice) *)
  Theorem completed_never_listed s who b id pay fs s1 : step s (OARespond who b (RId id) pay fs) = (Status 200, s1) ->
    forall ops, Forall (fun o => ustart_id o <> Some id) ops ->
    forall s0 who' fs' l, In (s0, OAList who' b fs', Listed l) (fst (trace s1 ops)) -> ~ In id l.
  Proof.
    intros Hs ops. apply respond_200_done in Hs. revert s1 Hs. induction ops as [|o r IH]; intros s1 Hd Hf s0 who' fs' l Hin; cbn [trace] in Hin; [destruct Hin|].
    inversion Hf as [|? ? Ho Hr]; subst. destruct (step s1 o) as [x s2] eqn:E. destruct (trace s2 r) as [h s3] eqn:T. cbn [fst] in Hin.
    destruct Hin as [Hin|Hin].
    - inversion Hin; subst. exact (listed_excludes _ _ _ _ _ _ _ Hd E).
    - pose proof (done_step b id s1 o Hd Ho) as Hd2. rewrite E in Hd2. cbn [snd] in Hd2.
      apply (IH s2 Hd2 Hr s0 who' fs' l). rewrite T. exact Hin.
  Qed.

  (* ------------------------------------------------------------------ C19: no call hangs *)

  Theorem no_hang s o : 2 <= chan_cap -> fst (step s o) <> Hang.
  Proof.
    intros Hc. destruct o; cbn [AppModel.step].
    - unfold AppModel.api_step, add_backend. destruct (is_admin who fs); cbn [negb]; [|cbn; discriminate]. cbn [String.eqb Ascii.eqb Bool.eqb].
      destruct (negb _); [cbn; discriminate|]. destruct (has fs F_put_tracker); [cbn; discriminate|]. destruct (has fs F_put_backend); cbn; discriminate.
    - unfold AppModel.api_step. destruct (is_admin who fs); cbn; discriminate.
    - unfold AppModel.api_step. destruct (is_admin who fs); cbn [negb]; [|cbn; discriminate].
      destruct (_ =? "/api/backends")%string; [destruct ("DELETE" =? "GET")%string; [cbn; discriminate|]; destruct ("DELETE" =? "POST")%string; cbn; discriminate|].
      destruct (prefix _ _); [|cbn; discriminate]. destruct ("DELETE" =? "DELETE")%string; [|cbn; discriminate]. destruct (_ =? "")%string; cbn; discriminate.
    - unfold AppModel.api_step. destruct (is_admin who fs); cbn [negb]; [|cbn; discriminate].
      destruct (path =? "/api/backends")%string; [destruct (method =? "GET")%string; [cbn; discriminate|]; destruct (method =? "POST")%string; cbn; discriminate|].
      destruct (prefix _ _); [|cbn; discriminate]. destruct (method =? "DELETE")%string; [|cbn; discriminate]. destruct (_ =? "")%string; cbn; discriminate.
    - destruct (_ && _); cbn; discriminate.
    - cbn; discriminate.
    - destruct user as [u|]; [|destruct (_ && _); cbn; discriminate]. destruct (lookup_f s fs u path); [|cbn; discriminate].
      destruct (if get && negb (has fs F_mc_get) then find_rcache u url (rcache s) else None); [cbn; discriminate|].
      destruct (write_request s fs _) as [s1 e]. destruct e; cbn; discriminate.
    - destruct (find_waiter id (waiting s)); [|cbn; discriminate]. destruct (read_response s [] _ id); [|cbn; discriminate].
      destruct (p_len p =? 0); cbn; discriminate.
    - destruct (negb _); [cbn; discriminate|]. destruct (pending list_limit s b); cbn; discriminate.
    - destruct (negb _); [cbn; discriminate|]. destruct r; [cbn; discriminate|]. destruct (read_request s fs b id); cbn; discriminate.
    - destruct (negb _); [cbn; discriminate|]. destruct r; [cbn; discriminate|]. destruct (read_request s fs b id); [|cbn; discriminate].
      destruct (write_response s fs _) as [s1 e1]. destruct (write_request s1 fs _) as [s2 e2]. cbn [fst].
      destruct (Z.ltb_spec chan_cap ((if e1 then 1 else 0) + (if e2 then 1 else 0))) as [L|L]; [destruct e1, e2; lia|].
      destruct (0 <? _); discriminate.
  Qed.

  (* ------------------------------------------------------------------ C19: an accepted response reaches the waiting client *)

  Definition has_resp (id : Z) (s : state) : Prop := exists r, find_dresp id (dresp s) = Some r.
  Definition resp_nonempty (s : state) : Prop := forall r, In r (cresp s) \/ In r (dresp s) -> p_len (s_pay r) <> 0.
  Definition nonempty_op (o : op) : Prop := match o with OARespond _ _ _ pay _ => p_len pay <> 0 | _ => True end.
  Definition good (id : Z) (w : waiter) (s : state) : Prop :=
    has_resp id s /\ find_waiter id (waiting s) = Some w /\ resp_nonempty s.

  Lemma find_dresp_put id r l : find_dresp id (put_dresp r l) = if s_id r =? id then Some r else find_dresp id l.
  Proof.
    unfold find_dresp, put_dresp. cbn [find]. destruct (Z.eqb_spec (s_id r) id) as [E|E]; [reflexivity|].
    induction l as [|x t IH]; [reflexivity|]. cbn [filter find]. destruct (Z.eqb_spec (s_id x) (s_id r)) as [E2|E2]; cbn [negb].
    - destruct (Z.eqb_spec (s_id x) id); [congruence|exact IH].
    - cbn [find]. destruct (s_id x =? id); [reflexivity|exact IH].
  Qed.

  Lemma find_waiter_remove id id' l : id' <> id -> find_waiter id (remove_waiter id' l) = find_waiter id l.
  Proof.
    intros Hn. unfold find_waiter, remove_waiter. induction l as [|x t IH]; [reflexivity|]. cbn [filter find].
    destruct (Z.eqb_spec (w_id x) id') as [E|E]; cbn [negb].
    - destruct (Z.eqb_spec (w_id x) id); [congruence|exact IH].
    - cbn [find]. destruct (w_id x =? id); [reflexivity|exact IH].
  Qed.

  Lemma good_step id w s o : sets_start = true -> good id w s ->
    ustart_id o <> Some id -> o <> OUFinish id -> nonempty_op o -> good id w (snd (step s o)).
  Proof.
    intros Hss (H1 & H2 & H3) Hu Hf Hne. destruct (step s o) as [x s'] eqn:Hs. cbn [snd].
    assert (Same : dresp s' = dresp s -> cresp s' = cresp s -> waiting s' = waiting s -> good id w s').
    { intros A B C. unfold good, has_resp, resp_nonempty. rewrite A, B, C. auto. }
    destruct o; cbn [AppModel.step] in Hs.
    - apply api_step_frame in Hs. apply Same; tauto.
    - apply api_step_frame in Hs. apply Same; tauto.
    - apply api_step_frame in Hs. apply Same; tauto.
    - apply api_step_frame in Hs. apply Same; tauto.
    - unfold AppModel.cron in Hs. rewrite Hss in Hs. set (l := firstn multi_limit _) in Hs.
      destruct (fold_delete_frame l s) as (_ & A & B & _ & C & _). cbn zeta in *.
      destruct (cron_front_admin && negb (hdr_admin who)); inversion Hs as [[Hx Hs']]; rewrite <- Hs' in *; [apply Same; reflexivity|apply Same; assumption].
    - inversion Hs; subst. destruct (last_seen id0 (trackers s)); apply Same; reflexivity.
    - destruct user as [u|]; [|destruct (login_required && negb raw); inversion Hs; subst; apply Same; reflexivity].
      destruct (lookup_f s fs u path) as [b0|]; [|inversion Hs; subst; apply Same; reflexivity].
      destruct (if get && negb (has fs F_mc_get) then find_rcache u url (rcache s) else None); [inversion Hs; subst; apply Same; reflexivity|].
      destruct (write_request s fs _) as [s1 e] eqn:W. apply write_request_frame in W. destruct W as (_ & _ & A & B & _ & C & _).
      destruct e; inversion Hs; subst; [apply Same; assumption|].
      unfold good, has_resp, resp_nonempty. cbn [dresp cresp waiting with_waiting]. rewrite A, B, C. split; [exact H1|]. split; [|exact H3].
      unfold find_waiter. cbn [find w_id]. destruct (Z.eqb_spec id0 id) as [E|E]; [cbn in Hu; congruence|exact H2].
    - destruct (find_waiter id0 (waiting s)) as [w0|]; [|inversion Hs; subst; apply Same; reflexivity].
      destruct (read_response s [] _ id0); [|inversion Hs; subst; apply Same; reflexivity].
      destruct (p_len p =? 0); [inversion Hs; subst; apply Same; reflexivity|].
      assert (Hid : id0 <> id) by congruence.
      destruct (_ && _ && _); inversion Hs; subst; unfold good, has_resp, resp_nonempty; cbn [dresp cresp waiting with_waiting with_rcache];
        (split; [exact H1|]; split; [rewrite find_waiter_remove by exact Hid; exact H2|exact H3]).
    - destruct (negb (authorised s fs who b)); [inversion Hs; subst; apply Same; reflexivity|].
      destruct (has fs F_put_tracker); destruct (pending list_limit s b); inversion Hs; subst; apply Same; reflexivity.
    - destruct (negb (authorised s fs who b)); [inversion Hs; subst; apply Same; reflexivity|]. destruct r; [inversion Hs; subst; apply Same; reflexivity|].
      destruct (read_request s fs b id0); inversion Hs; subst; apply Same; reflexivity.
    - destruct (negb (authorised s fs who b)); [inversion Hs; subst; apply Same; reflexivity|]. destruct r; [inversion Hs; subst; apply Same; reflexivity|].
      destruct (read_request s fs b id0) as [q|]; [|inversion Hs; subst; apply Same; reflexivity].
      destruct (write_response s fs _) as [s1 e1] eqn:W1. destruct (write_request s1 fs _) as [s2 e2] eqn:W2.
      apply write_response_frame in W1. apply write_request_frame in W2.
      destruct W1 as (_ & _ & _ & _ & _ & A6 & A7 & A8). destruct W2 as (_ & _ & B3 & B4 & _ & B6 & _).
      inversion Hs; subst x s'. cbn in Hne. unfold good, has_resp, resp_nonempty. rewrite B3, B4, B6, A6. split; [|split; [exact H2|]].
      + destruct A8 as [[_ ->]|[_ ->]]; [exact H1|]. rewrite find_dresp_put. cbn [s_id]. destruct (id0 =? id); [eexists; reflexivity|exact H1].
      + intros r0 [Hr|Hr].
        * destruct A7 as [E|E]; rewrite E in Hr; [apply H3; tauto|]. apply in_put_cresp in Hr. destruct Hr as [->|Hr]; [exact Hne|apply H3; tauto].
        * destruct A8 as [[_ E]|[_ E]]; rewrite E in Hr; [apply H3; tauto|]. apply in_put_dresp in Hr. destruct Hr as [->|Hr]; [exact Hne|apply H3; tauto].
  Qed.

  Lemma good_delivers id w s : good id w s -> exists p, fst (step s (OUFinish id)) = Delivered p.
  Proof.
    intros ((r & H1) & H2 & H3). cbn [AppModel.step]. rewrite H2.
    assert (E : exists p, read_response s [] (w_backend w) id = Some p /\ p_len p <> 0).
    { unfold AppModel.read_response. cbn [has existsb]. destruct (find_cresp (w_backend w) id (cresp s)) as [r0|] eqn:Ec.
      - exists (s_pay r0). split; [reflexivity|]. apply H3. left. unfold find_cresp in Ec. apply find_some in Ec. tauto.
      - rewrite H1, andb_false_r. exists (s_pay r). split; [reflexivity|]. apply H3. right. unfold find_dresp in H1. apply find_some in H1. tauto. }
    destruct E as (p & -> & Hp). destruct (Z.eqb_spec (p_len p) 0); [contradiction|]. exists p. reflexivity.
  Qed.

  (* with StartTime recorded on stored responses: once the agent's post has been accepted (200), whatever
     else happens (other requests, other agents, the cron job, administrator calls), the waiting client's
     next poll finds a response *)
  Theorem accepted_response_reaches_client s who b id pay fs s1 w : sets_start = true ->
    resp_nonempty s -> p_len pay <> 0 -> find_waiter id (waiting s) = Some w ->
    step s (OARespond who b (RId id) pay fs) = (Status 200, s1) ->
    forall ops, Forall (fun o => ustart_id o <> Some id /\ o <> OUFinish id /\ nonempty_op o) ops ->
    exists p, fst (step (snd (trace s1 ops)) (OUFinish id)) = Delivered p.
  Proof.
    intros Hss Hne Hp Hw Hs ops Hops.
    assert (G : good id w s1).
    { revert Hs. cbn [AppModel.step]. destruct (negb (authorised s fs who b)); [discriminate|].
      destruct (read_request s fs b id) as [q|]; [|discriminate].
      destruct (write_response s fs _) as [s0 e1] eqn:W1. destruct (write_request s0 fs _) as [s2 e2] eqn:W2.
      apply write_response_frame in W1. apply write_request_frame in W2.
      destruct W1 as (_ & _ & _ & _ & _ & A6 & A7 & A8). destruct W2 as (_ & _ & B3 & B4 & _ & B6 & _).
      destruct e1; [destruct e2; cbn [Z.add]; destruct (chan_cap <? _); discriminate|].
      destruct e2; [cbn [Z.add]; destruct (chan_cap <? _); discriminate|].
      intros H. assert (s2 = s1) by (destruct (chan_cap <? 0 + 0); inversion H; reflexivity). subst s2.
      destruct A8 as [[A8 _]|[_ A8]]; [discriminate|].
      unfold good, has_resp, resp_nonempty. rewrite B3, B4, B6, A6, A8. split; [|split; [exact Hw|]].
      - rewrite find_dresp_put. cbn [s_id]. rewrite Z.eqb_refl. eexists; reflexivity.
      - intros r0 [Hr|Hr].
        + destruct A7 as [E|E]; rewrite E in Hr; [apply Hne; tauto|]. apply in_put_cresp in Hr. destruct Hr as [->|Hr]; [exact Hp|apply Hne; tauto].
        + apply in_put_dresp in Hr. destruct Hr as [->|Hr]; [exact Hp|apply Hne; tauto]. }
    clear Hs. revert s1 G. induction ops as [|o r IH]; intros s1 G; cbn [trace]; [exact (good_delivers _ _ _ G)|].
    inversion Hops as [|? ? (Ho1 & Ho2 & Ho3) Hr]; subst.
    pose proof (good_step id w s1 o Hss G Ho1 Ho2 Ho3) as G2.
    destruct (step s1 o) as [x s2]. cbn [snd] in G2. destruct (trace s2 r) as [h s3] eqn:T. cbn [snd].
    specialize (IH Hr s2 G2). rewrite T in IH. exact IH.
  Qed.

End Proofs.
