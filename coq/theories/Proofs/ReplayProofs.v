(* Proofs about Agent/ReplayBuffer.v (property C06). *)
From Coq Require Import ZArith List Bool Arith Lia.
From IP Require Import Agent.ReplayBuffer.
Import ListNotations.

Definition seg (a k : nat) (S : list Z) : list Z := firstn k (skipn a S).

Lemma firstn_seg a k (S : list Z) : firstn a S ++ seg a k S = firstn (a + k) S.
Proof.
  unfold seg. revert S. induction a as [|a IH]; intros S; cbn [firstn skipn plus app]; [reflexivity|].
  destruct S as [|x S]; [destruct k; reflexivity|]. cbn [firstn skipn app]. f_equal. apply IH.
Qed.

Lemma seg_length a k (S : list Z) : length (seg a k S) = Nat.min k (length S - a).
Proof. unfold seg. rewrite firstn_length, skipn_length. reflexivity. Qed.

Lemma skipn_firstn_seg r t (S : list Z) : r <= t -> skipn r (firstn t S) = seg r (t - r) S.
Proof.
  intros H. unfold seg. rewrite firstn_skipn_comm. f_equal. f_equal. lia.
Qed.

Lemma is_prefixb_firstn n (S : list Z) : is_prefixb (firstn n S) S = true.
Proof.
  revert S. induction n as [|n IH]; intros S; cbn [firstn is_prefixb]; [reflexivity|].
  destruct S as [|x S]; cbn [is_prefixb]; [reflexivity|]. rewrite Z.eqb_refl. apply IH.
Qed.

Section U.
  Variable cap max_retries : nat.
  Variable S : list Z.
  Hypothesis cap_pos : 0 < cap.

  Definition pos (s : ust) : nat := if length (buf (rd s)) <? cap then rh (rd s) else taken s.

  Definition att_ok (a : list Z * bool * bool) : Prop :=
    let '(bytes, eof, _) := a in (exists n, bytes = firstn n S) /\ (eof = true -> bytes = S).

  Record UInv (s : ust) : Prop := {
    U_buf : buf (rd s) = firstn (Nat.min cap (taken s)) S;
    U_taken : taken s <= length S;
    U_rh : rh (rd s) <= length (buf (rd s));
    U_full : cap <= length (buf (rd s)) -> rh (rd s) = length (buf (rd s));
    U_drained_or_replay : pos s <= taken s;
    U_cur : finished s = false -> cur s = firstn (pos s) S;
    U_eof : finished s = false -> cur_eof s = true -> pos s = length S;
    U_done : Forall att_ok (done_attempts s);
    U_n : nattempts s <= Datatypes.S max_retries;
    U_cnt : length (done_attempts s) + (if finished s then 0 else 1) = nattempts s;
    U_fin_clean : finished s = true -> cur s = []
  }.

  Lemma uinv_init : UInv uinit.
  Proof.
    assert (P0 : pos uinit = 0) by (unfold pos; cbn; destruct cap; reflexivity).
    constructor.
    - cbn. rewrite Nat.min_0_r. reflexivity.
    - cbn. lia.
    - cbn. lia.
    - cbn. intros _. reflexivity.
    - rewrite P0. cbn. lia.
    - intros _. rewrite P0. reflexivity.
    - cbn. intros _ H. discriminate.
    - cbn. constructor.
    - cbn. lia.
    - cbn. reflexivity.
    - cbn. discriminate.
  Qed.

  Lemma buf_len s : UInv s -> length (buf (rd s)) = Nat.min cap (taken s).
  Proof. intros I. rewrite (U_buf s I), firstn_length. pose proof (U_taken s I). lia. Qed.

  Lemma uinv_read s plen k s' : UInv s -> cap <= plen -> ustep cap max_retries S s (ORead plen k) = Some s' -> UInv s'.
  Proof.
    intros I Hp H. unfold ustep in H. destruct (finished s) eqn:Ef; [discriminate|].
    pose proof (buf_len s I) as HL. pose proof (U_taken s I) as HT. pose proof (U_rh s I) as HR.
    set (B := buf (rd s)) in *. set (t := taken s) in *. set (r := rh (rd s)) in *.
    set (room := src_room (rd s) plen) in *.
    set (k' := Nat.min k (Nat.min room (length S - t))) in *.
    set (d := firstn k' (skipn t S)) in *.
    assert (Hd : d = seg t k' S) by reflexivity.
    assert (Hdl : length d = k') by (rewrite Hd, seg_length; lia).
    unfold brs_read in H. fold B r in H.
    inversion H; subst s'; clear H.
    destruct (Nat.ltb_spec (length B) cap) as [Hlt|Hge].
    - (* buffer not full: it holds everything consumed so far *)
      assert (Ht : t < cap) by lia. assert (HBl : length B = t) by lia.
      assert (HB : B = firstn t S) by (unfold B; rewrite (U_buf s I); fold t; f_equal; lia).
      assert (Hfb : firstn plen (skipn r B) = seg r (t - r) S).
      { rewrite firstn_all2 by (rewrite skipn_length; lia). rewrite HB. apply skipn_firstn_seg. lia. }
      assert (Hpos : pos s = r) by (unfold pos; fold B; destruct (length B <? cap) eqn:E; [reflexivity|apply Nat.ltb_ge in E; lia]).
      assert (Hfbl : length (firstn plen (skipn r B)) = t - r) by (rewrite Hfb, seg_length; lia).
      assert (Hw : firstn (cap - length B) d = seg t (Nat.min (cap - t) k') S).
      { rewrite Hd. unfold seg. rewrite firstn_firstn, HBl. reflexivity. }
      assert (Hwl : length (firstn (cap - length B) d) = Nat.min (cap - t) k') by (rewrite Hw, seg_length; lia).
      assert (Hnp : forall c e da na f, pos {| rd := {| buf := B ++ firstn (cap - length B) d; rh := r + length (firstn plen (skipn r B)) + length (firstn (cap - length B) d) |};
                             taken := t + k'; cur := c; cur_eof := e; done_attempts := da; nattempts := na; finished := f |} = t + k').
      { intros. unfold pos. cbn [rd taken buf rh]. rewrite app_length, Hfbl, Hwl. destruct (Nat.ltb_spec (length B + Nat.min (cap - t) k') cap); lia. }
      constructor.
      + cbn [rd buf taken]. rewrite Hw, HB, firstn_seg. f_equal. lia.
      + cbn [taken]. lia.
      + cbn [rd buf rh]. rewrite app_length, Hfbl, Hwl. lia.
      + cbn [rd buf rh]. rewrite app_length, Hfbl, Hwl. lia.
      + rewrite Hnp. cbn [taken]. lia.
      + intros _. rewrite Hnp. cbn [cur]. rewrite (U_cur s I Ef), Hpos, Hfb, Hd. rewrite app_assoc, firstn_seg. replace (r + (t - r)) with t by lia.
        rewrite firstn_seg. reflexivity.
      + intros _ He. rewrite Hnp. cbn [cur_eof] in He. apply orb_true_iff in He. destruct He as [He|He].
        * pose proof (U_eof s I Ef He) as Hq. rewrite Hpos in Hq. pose proof (U_drained_or_replay s I). lia.
        * apply andb_true_iff in He. destruct He as [He2 He3].
          apply Nat.eqb_eq in He2. apply Nat.leb_le in He3. lia.
      + exact (U_done s I).
      + exact (U_n s I).
      + cbn [done_attempts finished nattempts]. pose proof (U_cnt s I) as Hc. rewrite Ef in Hc. exact Hc.
      + cbn [finished]. discriminate.
    - (* buffer full: reads pass straight through *)
      assert (Hr : r = length B) by (apply (U_full s I); exact Hge).
      assert (HBl : length B = cap) by lia. assert (Ht : cap <= t) by lia.
      assert (Hfb : firstn plen (skipn r B) = []) by (rewrite Hr, skipn_all; destruct plen; reflexivity).
      assert (Hw : firstn (cap - length B) d = []) by (replace (cap - length B) with 0 by lia; reflexivity).
      assert (Hpos : pos s = t) by (unfold pos; fold B; destruct (Nat.ltb_spec (length B) cap); [lia|reflexivity]).
      rewrite Hfb, Hw. cbn [length app]. rewrite app_nil_r, !Nat.add_0_r.
      constructor; cbn [rd taken cur cur_eof done_attempts nattempts finished buf rh].
      + fold B. unfold B. rewrite (U_buf s I). fold t. f_equal. lia.
      + lia.
      + lia.
      + intros _. exact Hr.
      + unfold pos. cbn [rd taken buf rh]. destruct (length B <? cap); lia.
      + intros _. rewrite (U_cur s I Ef), Hpos, Hd, firstn_seg. f_equal. unfold pos. cbn [rd taken buf rh].
        destruct (Nat.ltb_spec (length B) cap); [lia|reflexivity].
      + intros _ He. assert (Hnp : forall c e, pos {| rd := {| buf := B; rh := r |}; taken := t + k'; cur := c; cur_eof := e;
                             done_attempts := done_attempts s; nattempts := nattempts s; finished := false |} = t + k').
        { intros. unfold pos. cbn [rd taken buf rh]. destruct (Nat.ltb_spec (length B) cap); [lia|reflexivity]. }
        rewrite Hnp. apply orb_true_iff in He. destruct He as [He|He].
        * pose proof (U_eof s I Ef He) as Hq. rewrite Hpos in Hq. lia.
        * apply andb_true_iff in He. destruct He as [He2 He3].
          apply Nat.eqb_eq in He2. apply Nat.leb_le in He3. lia.
      + exact (U_done s I).
      + exact (U_n s I).
      + pose proof (U_cnt s I) as Hc. rewrite Ef in Hc. exact Hc.
      + discriminate.
  Qed.

  Lemma cur_att_ok s : UInv s -> finished s = false -> att_ok (cur s, cur_eof s, false) /\ att_ok (cur s, cur_eof s, true).
  Proof.
    intros I Ef. assert (A : (exists n, cur s = firstn n S) /\ (cur_eof s = true -> cur s = S)).
    { split; [exists (pos s); exact (U_cur s I Ef)|]. intros He. rewrite (U_cur s I Ef), (U_eof s I Ef He). apply firstn_all. }
    split; exact A.
  Qed.

  Lemma uinv_ack s s' : UInv s -> ustep cap max_retries S s OAck = Some s' -> UInv s'.
  Proof.
    intros I H. unfold ustep in H. destruct (finished s) eqn:Ef; [discriminate|]. inversion H; subst s'; clear H.
    constructor.
    - exact (U_buf s I).
    - exact (U_taken s I).
    - exact (U_rh s I).
    - exact (U_full s I).
    - exact (U_drained_or_replay s I).
    - cbn [finished]. discriminate.
    - cbn [finished]. discriminate.
    - cbn [done_attempts]. apply Forall_app. split; [exact (U_done s I)|]. constructor; [apply cur_att_ok; assumption|constructor].
    - exact (U_n s I).
    - cbn [done_attempts finished nattempts]. rewrite app_length. cbn [length]. pose proof (U_cnt s I) as Hc. rewrite Ef in Hc. lia.
    - reflexivity.
  Qed.

  Lemma uinv_fail s s' : UInv s -> ustep cap max_retries S s OFail = Some s' -> UInv s'.
  Proof.
    intros I H. unfold ustep in H. destruct (finished s) eqn:Ef; [discriminate|].
    pose proof (U_cnt s I) as Hc. rewrite Ef in Hc.
    assert (HD : Forall att_ok (done_attempts s ++ [(cur s, cur_eof s, false)])).
    { apply Forall_app. split; [exact (U_done s I)|]. constructor; [apply cur_att_ok; assumption|constructor]. }
    unfold brs_seek0 in H. destruct (Nat.leb_spec cap (length (buf (rd s)))) as [Hfull|Hroom].
    - inversion H; subst s'; clear H.
      constructor.
      + exact (U_buf s I).
      + exact (U_taken s I).
      + exact (U_rh s I).
      + exact (U_full s I).
      + exact (U_drained_or_replay s I).
      + cbn [finished]. discriminate.
      + cbn [finished]. discriminate.
      + exact HD.
      + exact (U_n s I).
      + cbn [done_attempts finished nattempts]. rewrite app_length. cbn [length]. lia.
      + reflexivity.
    - assert (P0 : forall t c e da na f, pos {| rd := {| buf := buf (rd s); rh := 0 |}; taken := t; cur := c; cur_eof := e; done_attempts := da; nattempts := na; finished := f |} = 0).
      { intros. unfold pos. cbn [rd buf rh taken]. destruct (Nat.ltb_spec (length (buf (rd s))) cap); [reflexivity|lia]. }
      destruct (Nat.leb_spec (nattempts s) max_retries) as [Hmore|Hnomore]; inversion H; subst s'; clear H.
      + constructor.
        * exact (U_buf s I).
        * exact (U_taken s I).
        * cbn [rd rh]. lia.
        * cbn [rd buf rh]. intros Hc'. lia.
        * rewrite P0. lia.
        * intros _. rewrite P0. reflexivity.
        * cbn [cur_eof]. intros _ Hx. discriminate.
        * exact HD.
        * cbn [nattempts]. lia.
        * cbn [done_attempts finished nattempts]. rewrite app_length. cbn [length]. lia.
        * cbn [finished]. discriminate.
      + constructor.
        * exact (U_buf s I).
        * exact (U_taken s I).
        * cbn [rd rh]. lia.
        * cbn [rd buf rh]. intros Hc'. lia.
        * rewrite P0. lia.
        * cbn [finished]. discriminate.
        * cbn [finished]. discriminate.
        * exact HD.
        * exact (U_n s I).
        * cbn [done_attempts finished nattempts]. rewrite app_length. cbn [length]. lia.
        * reflexivity.
  Qed.

  Lemma uinv_step s o s' : UInv s -> read_size_ok cap o -> ustep cap max_retries S s o = Some s' -> UInv s'.
  Proof.
    destruct o as [plen k| |]; cbn [read_size_ok]; intros I Hp H.
    - eapply uinv_read; eassumption.
    - eapply uinv_fail; eassumption.
    - eapply uinv_ack; eassumption.
  Qed.

  Lemma uinv_run ops : forall s s', UInv s -> Forall (read_size_ok cap) ops -> urun cap max_retries S s ops = Some s' -> UInv s'.
  Proof.
    induction ops as [|o ops IH]; intros s s' I HF H; cbn [urun] in H; [inversion H; subst; exact I|].
    inversion HF as [|? ? Ho HF']; subst. destruct (ustep cap max_retries S s o) as [s1|] eqn:E; [|discriminate].
    eapply IH; [|exact HF'|exact H]. eapply uinv_step; eassumption.
  Qed.

  (* C06, sequential part: every attempt carries a prefix of the serialised response, the
     whole of it when read to the end; at most 1 + max_retries attempts *)
  Theorem upload_sequential ops s : Forall (read_size_ok cap) ops -> urun cap max_retries S uinit ops = Some s ->
    Forall att_ok (done_attempts s) /\ length (done_attempts s) <= Datatypes.S max_retries /\
    (finished s = false -> exists n, cur s = firstn n S).
  Proof.
    intros HF H. pose proof (uinv_run ops uinit s uinv_init HF H) as I. split; [exact (U_done s I)|]. split.
    - pose proof (U_cnt s I). pose proof (U_n s I). destruct (finished s); lia.
    - intros Ef. exists (pos s). exact (U_cur s I Ef).
  Qed.

  (* a retry is made only while everything consumed so far is still in the replay buffer *)
  Theorem retry_only_if_replayable s s' : UInv s -> ustep cap max_retries S s OFail = Some s' -> finished s' = false ->
    taken s < cap /\ buf (rd s') = firstn (taken s) S /\ rh (rd s') = 0.
  Proof.
    intros I H Hf. unfold ustep in H. destruct (finished s) eqn:Ef; [discriminate|].
    unfold brs_seek0 in H. destruct (Nat.leb_spec cap (length (buf (rd s)))) as [Hfull|Hroom]; [inversion H; subst; discriminate|].
    destruct (nattempts s <=? max_retries); inversion H; subst s'; clear H; cbn [finished] in Hf; [|discriminate].
    cbn [rd buf rh]. pose proof (buf_len s I). pose proof (U_taken s I). split; [lia|]. split; [|reflexivity].
    rewrite (U_buf s I). f_equal. lia.
  Qed.
End U.
