(* Proofs about App/Route.v (property C18). *)
From Coq Require Import ZArith String List Bool Lia Arith.
From IP Require Import App.Route.
Import ListNotations.
Open Scope string_scope.
Open Scope list_scope.

Definition updp (path : string) (acc : string * string) (ip : string * string) : string * string :=
  upd path (fst ip) acc (snd ip).

Lemma fold_left_map_pair path id ps : forall acc,
  fold_left (upd path id) ps acc = fold_left (updp path) (map (pair id) ps) acc.
Proof. induction ps as [|p ps IH]; intros acc; cbn [fold_left map]; [reflexivity|]. rewrite IH. reflexivity. Qed.

Lemma raw_flat path bs : forall acc,
  fold_left (fun acc b => fold_left (upd path (bid b)) (prefixes b) acc) bs acc =
  fold_left (updp path) (flat bs) acc.
Proof.
  induction bs as [|b bs IH]; intros acc; [reflexivity|].
  unfold flat in *. cbn [fold_left map concat]. rewrite fold_left_app, IH, fold_left_map_pair. reflexivity.
Qed.

Definition matches (path : string) (ip : string * string) : Prop := prefix (snd ip) path = true.

Definition Inv (path : string) (done : list (string * string)) (acc : string * string) : Prop :=
  (fst acc = "" /\ snd acc = "" /\ forall ip, In ip done -> ~ matches path ip) \/
  (fst acc <> "" /\ exists pre post, done = pre ++ acc :: post /\ matches path acc /\
     (forall ip, In ip pre -> matches path ip -> (String.length (snd ip) < String.length (snd acc))%nat) /\
     (forall ip, In ip post -> matches path ip -> (String.length (snd ip) <= String.length (snd acc))%nat)).

Lemma inv_step path done acc ip : fst ip <> "" ->
  Inv path done acc -> Inv path (done ++ [ip]) (updp path acc ip).
Proof.
  intros Hid HI. destruct ip as [id p]. destruct acc as [c l]. cbn [fst snd] in *.
  unfold updp, upd. cbn [fst snd].
  destruct (prefix p path) eqn:Hm.
  - destruct HI as [(Hc & Hl & Hno) | (Hc & pre & post & Hd & Hma & Hpre & Hpost)].
    + cbn [fst snd] in Hc, Hl. subst c l. cbn [String.eqb orb].
      right. cbn [fst snd]. split; [exact Hid|]. exists done, []. repeat split.
      * exact Hm.
      * intros ip Hin Hmi. exfalso. exact (Hno ip Hin Hmi).
      * intros ip [].
    + cbn [fst snd] in *. destruct (c =? "") eqn:Ec; [apply String.eqb_eq in Ec; contradiction|].
      cbn [orb]. destruct (String.length l <? String.length p)%nat eqn:Hlt.
      * apply Nat.ltb_lt in Hlt. right. cbn [fst snd]. split; [exact Hid|].
        exists done, []. repeat split; [exact Hm| |intros ip []].
        intros ip Hin Hmi. subst done. apply in_app_or in Hin. destruct Hin as [Hin|[Heq|Hin]].
        -- specialize (Hpre ip Hin Hmi). cbn [snd] in *. lia.
        -- subst ip. cbn [snd]. lia.
        -- specialize (Hpost ip Hin Hmi). cbn [snd] in *. lia.
      * apply Nat.ltb_ge in Hlt. right. cbn [fst snd]. split; [exact Hc|].
        exists pre, (post ++ [(id, p)]). repeat split.
        -- subst done. rewrite <- app_assoc. reflexivity.
        -- exact Hma.
        -- exact Hpre.
        -- intros ip Hin Hmi. apply in_app_or in Hin. destruct Hin as [Hin|[Heq|[]]].
           ++ exact (Hpost ip Hin Hmi).
           ++ subst ip. cbn [snd]. exact Hlt.
  - destruct HI as [(Hc & Hl & Hno) | (Hc & pre & post & Hd & Hma & Hpre & Hpost)].
    + left. repeat split; try assumption. intros ip Hin. apply in_app_or in Hin. destruct Hin as [Hin|[Heq|[]]].
      * exact (Hno ip Hin).
      * subst ip. unfold matches. cbn [snd]. congruence.
    + right. split; [exact Hc|]. exists pre, (post ++ [(id, p)]). repeat split.
      * subst done. rewrite <- app_assoc. reflexivity.
      * exact Hma.
      * exact Hpre.
      * intros ip Hin Hmi. apply in_app_or in Hin. destruct Hin as [Hin|[Heq|[]]].
        -- exact (Hpost ip Hin Hmi).
        -- subst ip. unfold matches in Hmi. cbn [snd] in Hmi. congruence.
Qed.

Lemma inv_fold path rest : forall done acc,
  Forall (fun ip => fst ip <> "") rest ->
  Inv path done acc -> Inv path (done ++ rest) (fold_left (updp path) rest acc).
Proof.
  induction rest as [|ip rest IH]; intros done acc HF HI.
  - rewrite app_nil_r. exact HI.
  - inversion HF as [|? ? Hip HF']; subst. cbn [fold_left].
    replace (done ++ ip :: rest) with ((done ++ [ip]) ++ rest) by (rewrite <- app_assoc; reflexivity).
    apply IH; [exact HF'|]. apply inv_step; assumption.
Qed.

Lemma flat_ids bs : Forall (fun b => bid b <> "") bs -> Forall (fun ip => fst ip <> "") (flat bs).
Proof.
  induction 1 as [|b bs Hb HF IH]; [constructor|].
  unfold flat in *. cbn [map concat]. apply Forall_app. split; [|exact IH].
  apply Forall_forall. intros ip Hin. apply in_map_iff in Hin. destruct Hin as (p & <- & _). exact Hb.
Qed.

Lemma most_specific_spec path bs : Forall (fun b => bid b <> "") bs ->
  match most_specific path bs with
  | None => forall ip, In ip (flat bs) -> prefix (snd ip) path = false
  | Some id => exists pre p post, flat bs = pre ++ (id, p) :: post /\ prefix p path = true /\
      (forall ip, In ip pre -> prefix (snd ip) path = true -> (String.length (snd ip) < String.length p)%nat) /\
      (forall ip, In ip post -> prefix (snd ip) path = true -> (String.length (snd ip) <= String.length p)%nat)
  end.
Proof.
  intros HF. unfold most_specific, most_specific_raw. rewrite raw_flat.
  pose proof (inv_fold path (flat bs) [] ("", "") (flat_ids bs HF)) as HI.
  cbn [app] in HI. specialize (HI ltac:(left; repeat split; intros ip [])).
  destruct (fold_left (updp path) (flat bs) ("", "")) as [c l]. cbn [fst].
  destruct HI as [(Hc & Hl & Hno) | (Hc & pre & post & Hd & Hma & Hpre & Hpost)]; cbn [fst snd] in *.
  - subst c. cbn [String.eqb]. intros ip Hin. specialize (Hno ip Hin). unfold matches in Hno.
    destruct (prefix (snd ip) path); [exfalso; apply Hno; reflexivity|reflexivity].
  - destruct (c =? "") eqn:Ec; [apply String.eqb_eq in Ec; contradiction|].
    exists pre, l, post. repeat split; assumption.
Qed.

(* corollaries in the vocabulary of the property *)
Lemma most_specific_none_iff path bs : Forall (fun b => bid b <> "") bs ->
  (most_specific path bs = None <-> forall b p, In b bs -> In p (prefixes b) -> prefix p path = false).
Proof.
  intros HF. pose proof (most_specific_spec path bs HF) as S. split.
  - intros E. rewrite E in S. intros b p Hb Hp. apply (S (bid b, p)).
    unfold flat. apply in_concat. exists (map (pair (bid b)) (prefixes b)). split.
    + apply in_map_iff. exists b. split; [reflexivity|exact Hb].
    + apply in_map. exact Hp.
  - intros Hno. destruct (most_specific path bs) as [id|] eqn:E; [|reflexivity]. exfalso.
    destruct S as (pre & p & post & Hd & Hm & _).
    assert (Hin : In (id, p) (flat bs)) by (rewrite Hd; apply in_or_app; right; left; reflexivity).
    unfold flat in Hin. apply in_concat in Hin. destruct Hin as (l & Hl & Hin).
    apply in_map_iff in Hl. destruct Hl as (b & <- & Hb). apply in_map_iff in Hin.
    destruct Hin as (p' & Heq & Hp'). injection Heq as _ Hpp. subst p'. rewrite (Hno b p Hb Hp') in Hm. discriminate.
Qed.

Lemma most_specific_longest path bs id : Forall (fun b => bid b <> "") bs ->
  most_specific path bs = Some id ->
  exists b p, In b bs /\ bid b = id /\ In p (prefixes b) /\ prefix p path = true /\
    forall b' p', In b' bs -> In p' (prefixes b') -> prefix p' path = true -> (String.length p' <= String.length p)%nat.
Proof.
  intros HF E. pose proof (most_specific_spec path bs HF) as S. rewrite E in S.
  destruct S as (pre & p & post & Hd & Hm & Hpre & Hpost).
  assert (Hin : In (id, p) (flat bs)) by (rewrite Hd; apply in_or_app; right; left; reflexivity).
  unfold flat in Hin. apply in_concat in Hin. destruct Hin as (l & Hl & Hin).
  apply in_map_iff in Hl. destruct Hl as (b & <- & Hb). apply in_map_iff in Hin.
  destruct Hin as (p0 & Heq & Hp0). injection Heq as Hid Hpp. subst p0.
  exists b, p. repeat split; try assumption.
  intros b' p' Hb' Hp' Hm'.
  assert (Hin' : In (bid b', p') (flat bs)).
  { unfold flat. apply in_concat. exists (map (pair (bid b')) (prefixes b')). split.
    - apply in_map_iff. exists b'. split; [reflexivity|exact Hb'].
    - apply in_map. exact Hp'. }
  rewrite Hd in Hin'. apply in_app_or in Hin'. destruct Hin' as [Hin'|[Heq'|Hin']].
  - specialize (Hpre _ Hin' Hm'). cbn [snd] in Hpre. lia.
  - injection Heq' as _ Hpp'. subst p'. lia.
  - exact (Hpost _ Hin' Hm').
Qed.

(* LookupBackend *)
Lemma lookup_sound timeout shared trk now user path bs id :
  lookup timeout shared trk now user path bs = Some id ->
  live timeout trk now id = true /\
  (most_specific path (for_user user bs) = Some id \/
   (most_specific path (for_user user bs) = None /\ most_specific path (for_user shared bs) = Some id)).
Proof.
  unfold lookup. destruct (most_specific path (for_user user bs)) as [i|] eqn:E1.
  - destruct (live timeout trk now i) eqn:L; [|discriminate]. intros H; inversion H; subst. split; [exact L|left; reflexivity].
  - destruct (most_specific path (for_user shared bs)) as [i|] eqn:E2; [|discriminate].
    destruct (live timeout trk now i) eqn:L; [|discriminate]. intros H; inversion H; subst. split; [exact L|right; split; reflexivity].
Qed.

Lemma lookup_own timeout shared trk now user path bs id :
  most_specific path (for_user user bs) = Some id ->
  lookup timeout shared trk now user path bs = if live timeout trk now id then Some id else None.
Proof. intros E. unfold lookup. rewrite E. reflexivity. Qed.

Lemma lookup_shared timeout shared trk now user path bs :
  most_specific path (for_user user bs) = None ->
  lookup timeout shared trk now user path bs =
  match most_specific path (for_user shared bs) with
  | Some id => if live timeout trk now id then Some id else None
  | None => None
  end.
Proof. intros E. unfold lookup. rewrite E. reflexivity. Qed.

Lemma live_spec timeout trk now id :
  live timeout trk now id = true <-> exists t, last_seen id trk = Some t /\ (now - t < timeout)%Z.
Proof.
  unfold live. destruct (last_seen id trk) as [t|]; split.
  - intros H. exists t. split; [reflexivity|]. apply Z.ltb_lt. exact H.
  - intros (t' & E & H). inversion E; subst. apply Z.ltb_lt. exact H.
  - discriminate.
  - intros (t' & E & _). discriminate.
Qed.

Lemma for_user_ids u bs : Forall (fun b => bid b <> "") bs -> Forall (fun b => bid b <> "") (for_user u bs).
Proof.
  intros HF. apply Forall_forall. intros b Hin. unfold for_user in Hin. apply filter_In in Hin.
  rewrite Forall_forall in HF. apply HF. tauto.
Qed.

Lemma for_user_In u bs b : In b (for_user u bs) <-> In b bs /\ euser b = u.
Proof.
  unfold for_user. rewrite filter_In. split; intros [A B]; split; try assumption.
  - apply String.eqb_eq. exact B.
  - apply String.eqb_eq. exact B.
Qed.

(* a backend of somebody else is invisible to the per-user selection *)
Lemma for_user_other u pre b post : (euser b =? u) = false -> for_user u (pre ++ b :: post) = for_user u (pre ++ post).
Proof. intros H. unfold for_user. rewrite !filter_app. cbn [filter]. rewrite H. reflexivity. Qed.
