(* Proofs about Lib/Lru.v: the bounded LRU is the K-prefix of the unbounded
   recency list; dedup within the window. Used by C04 and C10. *)
From Coq Require Import List Bool Arith Lia.
From IP Require Import Lib.Lru.
Import ListNotations.

Section P.
  Context {A : Type}.
  Variable eqb : A -> A -> bool.
  Hypothesis eqb_spec : forall x y, eqb x y = true <-> x = y.

  Lemma eqb_refl x : eqb x x = true. Proof. apply eqb_spec. reflexivity. Qed.
  Lemma eqb_neq x y : eqb x y = false <-> x <> y.
  Proof. split; intros H.
    - intros E. apply eqb_spec in E. congruence.
    - destruct (eqb x y) eqn:E; [apply eqb_spec in E; contradiction|reflexivity]. Qed.

  Lemma mem_In x l : mem eqb x l = true <-> In x l.
  Proof.
    induction l as [|y l IH]; cbn [mem In]; [split; [discriminate|tauto]|].
    rewrite orb_true_iff, IH, eqb_spec. split; intros [H|H]; auto.
  Qed.
  Lemma mem_nIn x l : mem eqb x l = false <-> ~ In x l.
  Proof. rewrite <- mem_In. destruct (mem eqb x l); split; congruence. Qed.

  Lemma remove_notin x l : ~ In x l -> remove eqb x l = l.
  Proof.
    induction l as [|y l IH]; intros H; cbn [remove]; [reflexivity|].
    destruct (eqb x y) eqn:E.
    - apply eqb_spec in E. subst. exfalso. apply H. left. reflexivity.
    - rewrite IH; [reflexivity|]. intros Hin. apply H. right. exact Hin.
  Qed.

  Lemma In_remove x y l : In y (remove eqb x l) <-> In y l /\ y <> x.
  Proof.
    induction l as [|z l IH]; cbn [remove In]; [tauto|].
    destruct (eqb x z) eqn:E.
    - apply eqb_spec in E. subst z. rewrite IH. split.
      + intros [H1 H2]. split; [right; exact H1|exact H2].
      + intros [[H1|H1] H2]; [congruence|split; assumption].
    - apply eqb_neq in E. cbn [In]. rewrite IH. split.
      + intros [H|[H1 H2]]; [subst; split; [left; reflexivity|congruence]|split; [right; exact H1|exact H2]].
      + intros [[H|H] H2]; [left; exact H|right; split; assumption].
  Qed.

  Lemma NoDup_remove x l : NoDup l -> NoDup (remove eqb x l).
  Proof.
    induction 1 as [|y l Hy HN IH]; cbn [remove]; [constructor|].
    destruct (eqb x y); [exact IH|]. constructor; [|exact IH].
    rewrite In_remove. tauto.
  Qed.

  Lemma NoDup_touch x l : NoDup l -> NoDup (touch eqb x l).
  Proof.
    intros H. unfold touch. constructor; [|apply NoDup_remove; exact H].
    rewrite In_remove. tauto.
  Qed.

  Lemma In_touch x y l : In y (touch eqb x l) <-> y = x \/ In y l.
  Proof.
    unfold touch. cbn [In]. rewrite In_remove. split.
    - intros [H|[H _]]; [left; congruence|right; exact H].
    - intros [H|H]; [left; congruence|]. destruct (eqb x y) eqn:E.
      + apply eqb_spec in E. left. exact E.
      + apply eqb_neq in E. right. split; [exact H|congruence].
  Qed.

  (* remove on a split list *)
  Lemma remove_app x a b : remove eqb x (a ++ b) = remove eqb x a ++ remove eqb x b.
  Proof.
    induction a as [|y a IH]; cbn [remove app]; [reflexivity|].
    destruct (eqb x y); rewrite IH; reflexivity.
  Qed.

  Lemma split_In (x : A) (l : list A) : In x l -> NoDup l -> exists a b, l = a ++ x :: b /\ ~ In x a /\ ~ In x b.
  Proof.
    intros Hin HN. apply in_split in Hin. destruct Hin as (a & b & ->).
    exists a, b. split; [reflexivity|].
    apply NoDup_remove_2 in HN. split; intros H; apply HN; apply in_or_app; [left|right]; exact H.
  Qed.

  Lemma firstn_app_le {B} n (a b : list B) : n <= length a -> firstn n (a ++ b) = firstn n a.
  Proof. intros H. rewrite firstn_app. replace (n - length a) with 0 by lia. cbn [firstn]. apply app_nil_r. Qed.

  Lemma firstn_app_ge {B} n (a b : list B) : length a <= n -> firstn n (a ++ b) = a ++ firstn (n - length a) b.
  Proof. intros H. rewrite firstn_app. rewrite firstn_all2 by lia. reflexivity. Qed.

  Lemma In_firstn {B} (x : B) n l : In x (firstn n l) -> In x l.
  Proof.
    revert n. induction l as [|y l IH]; intros [|n] H; cbn [firstn In] in *; try tauto.
    destruct H as [H|H]; [left; exact H|right; eapply IH; exact H].
  Qed.

  (* x in the K-prefix of a duplicate-free list: touching commutes with taking the prefix *)
  Lemma touch_firstn_in K x R : NoDup R -> In x (firstn K R) ->
    touch eqb x (firstn K R) = firstn K (touch eqb x R).
  Proof.
    intros HN Hin.
    assert (HinR' : In x R) by (eapply In_firstn; exact Hin).
    destruct (split_In x R HinR' HN) as (a & b & -> & Ha & Hb).
    destruct (le_lt_dec K (length a)) as [Hle|Hlt].
    - exfalso. rewrite firstn_app_le in Hin by exact Hle. apply Ha. eapply In_firstn. exact Hin.
    - destruct K as [|K]; [lia|].
      rewrite firstn_app_ge by lia.
      replace (S K - length a) with (S (K - length a)) by lia. cbn [firstn].
      unfold touch. rewrite !remove_app. cbn [remove]. rewrite eqb_refl.
      rewrite (remove_notin x a Ha), (remove_notin x b Hb).
      rewrite (remove_notin x (firstn (K - length a) b)).
      2:{ intros H. apply Hb. eapply In_firstn. exact H. }
      cbn [firstn]. f_equal. rewrite firstn_app_ge by lia. reflexivity.
  Qed.

  (* x outside the K-prefix: the new prefix is x followed by the old (K-1)-prefix *)
  Lemma touch_firstn_out K x R : NoDup R -> ~ In x (firstn (S K) R) ->
    firstn (S K) (x :: firstn (S K) R) = firstn (S K) (touch eqb x R).
  Proof.
    intros HN Hnin. unfold touch. rewrite !firstn_cons. f_equal.
    rewrite firstn_firstn. replace (Nat.min K (S K)) with K by lia.
    destruct (in_dec (fun a b => match eqb a b as e return (eqb a b = e -> {a = b} + {a <> b}) with
                                  | true => fun E => left (proj1 (eqb_spec a b) E)
                                  | false => fun E => right (proj1 (eqb_neq a b) E) end eq_refl) x R) as [Hin|Hout].
    - destruct (split_In x R Hin HN) as (a & b & -> & Ha & Hb).
      destruct (le_lt_dec (S K) (length a)) as [Hle|Hlt].
      + rewrite remove_app. cbn [remove]. rewrite eqb_refl.
        rewrite (remove_notin x a Ha), (remove_notin x b Hb).
        rewrite !firstn_app_le by lia. reflexivity.
      + exfalso. apply Hnin. rewrite firstn_app_ge by lia. apply in_or_app. right.
        replace (S K - length a) with (S (K - length a)) by lia. left. reflexivity.
    - rewrite (remove_notin x R Hout). reflexivity.
  Qed.

  (* one step of the bounded LRU tracks the K-prefix of the unbounded list *)
  Lemma lru_step_prefix K x R : NoDup R ->
    fst (lru_step eqb (S K) (firstn (S K) R) x) = firstn (S K) (touch eqb x R) /\
    snd (lru_step eqb (S K) (firstn (S K) R) x) = negb (mem eqb x (firstn (S K) R)).
  Proof.
    intros HN. unfold lru_step, lru_get.
    destruct (mem eqb x (firstn (S K) R)) eqn:M.
    - cbn [fst snd negb]. split; [|reflexivity]. apply touch_firstn_in; [exact HN|]. apply mem_In. exact M.
    - cbn [fst snd negb]. split; [|reflexivity]. unfold lru_add. rewrite M.
      apply touch_firstn_out; [exact HN|]. apply mem_nIn. exact M.
  Qed.

  Lemma NoDup_recency s : forall R, NoDup R -> NoDup (recency eqb R s).
  Proof. induction s as [|x s IH]; intros R H; cbn [recency]; [exact H|]. apply IH. apply NoDup_touch. exact H. Qed.

  (* the bounded LRU after any history = K-prefix of the recency list *)
  Theorem lru_is_recency_prefix K s : forall R, NoDup R ->
    fst (lru_run eqb (S K) (firstn (S K) R) s) = firstn (S K) (recency eqb R s).
  Proof.
    induction s as [|x s IH]; intros R HN; cbn [lru_run recency]; [reflexivity|].
    destruct (lru_step_prefix K x R HN) as [E1 E2].
    destruct (lru_step eqb (S K) (firstn (S K) R) x) as [l1 sp]. cbn [fst snd] in *. subst l1.
    specialize (IH (touch eqb x R) (NoDup_touch x R HN)).
    destruct (lru_run eqb (S K) (firstn (S K) (touch eqb x R)) s) as [l2 sps]. cbn [fst] in *. exact IH.
  Qed.

  Lemma index_lt_In x l n : index eqb x l < n -> In x l -> In x (firstn n l).
  Proof.
    revert n. induction l as [|y l IH]; intros n Hlt Hin; [destruct Hin|].
    destruct n as [|n]; [lia|]. cbn [index] in Hlt. cbn [firstn In].
    destruct (eqb x y) eqn:E.
    - left. apply eqb_spec in E. congruence.
    - right. apply IH; [lia|]. destruct Hin as [H|H]; [apply eqb_neq in E; congruence|exact H].
  Qed.

  (* history within the window: a re-listed key is still among the K most recent *)
  Definition window_ok (K : nat) (s : list A) : Prop :=
    forall pre x post, s = pre ++ x :: post -> In x pre -> index eqb x (recency eqb [] pre) < K.

  Lemma In_recency x s : forall R, In x (recency eqb R s) <-> In x s \/ In x R.
  Proof.
    induction s as [|y s IH]; intros R; cbn [recency In]; [tauto|].
    rewrite IH, In_touch. split.
    - intros [H|[H|H]]; [left; right; exact H|left; left; congruence|right; exact H].
    - intros [[H|H]|H]; [right; left; congruence|left; exact H|right; right; exact H].
  Qed.

  Lemma recency_snoc x pre : forall R, recency eqb R (pre ++ [x]) = touch eqb x (recency eqb R pre).
  Proof. induction pre as [|y pre IHp]; intros R; cbn [recency app]; [reflexivity|]. apply IHp. Qed.

  (* generalised: spawns over a suffix, given what has been seen before *)
  Lemma spawned_firsts K suf : forall pre,
    (forall p2 x post, suf = p2 ++ x :: post -> In x (pre ++ p2) -> index eqb x (recency eqb [] (pre ++ p2)) < S K) ->
    snd (lru_run eqb (S K) (firstn (S K) (recency eqb [] pre)) suf) = firsts eqb pre suf.
  Proof.
    induction suf as [|x suf IH]; intros pre W; cbn [lru_run firsts]; [reflexivity|].
    assert (HN : NoDup (recency eqb [] pre)) by (apply NoDup_recency; constructor).
    destruct (lru_step_prefix K x (recency eqb [] pre) HN) as [E1 E2].
    destruct (lru_step eqb (S K) (firstn (S K) (recency eqb [] pre)) x) as [l1 sp]. cbn [fst snd] in *. subst l1.
    rewrite <- recency_snoc.
    assert (W' : forall p2 y post, suf = p2 ++ y :: post -> In y ((pre ++ [x]) ++ p2) ->
                 index eqb y (recency eqb [] ((pre ++ [x]) ++ p2)) < S K).
    { intros p2 y post Es Hin. rewrite <- app_assoc in *. cbn [app] in *.
      apply (W (x :: p2) y post); [rewrite Es; reflexivity|exact Hin]. }
    specialize (IH (pre ++ [x]) W').
    destruct (lru_run eqb (S K) (firstn (S K) (recency eqb [] (pre ++ [x]))) suf) as [l2 sps]. cbn [snd] in *.
    subst sp. destruct (mem eqb x pre) eqn:Mp.
    - (* seen before: inside the window, hence a hit *)
      apply mem_In in Mp.
      assert (Hidx : index eqb x (recency eqb [] pre) < S K).
      { specialize (W [] x suf eq_refl). rewrite app_nil_r in W. apply W. exact Mp. }
      assert (Hin : In x (firstn (S K) (recency eqb [] pre))).
      { apply index_lt_In; [exact Hidx|]. apply In_recency. left. exact Mp. }
      apply mem_In in Hin. rewrite Hin. cbn [negb]. rewrite IH.
      (* firsts (pre ++ [x]) suf = firsts pre suf when x already in pre *)
      clear - eqb_spec Mp. revert pre Mp. induction suf as [|y suf IHs]; intros pre Mp; cbn [firsts]; [reflexivity|].
      assert (Emem : mem eqb y (pre ++ [x]) = mem eqb y pre).
      { destruct (mem eqb y pre) eqn:M1.
        - apply mem_In. apply in_or_app. left. apply mem_In. exact M1.
        - apply mem_nIn. intros H. apply in_app_or in H. destruct H as [H|[H|[]]].
          + apply mem_nIn in M1. contradiction.
          + subst y. apply mem_nIn in M1. contradiction. }
      rewrite Emem. destruct (mem eqb y pre) eqn:M1.
      + apply IHs. exact Mp.
      + f_equal. change (y :: pre ++ [x]) with ((y :: pre) ++ [x]). apply IHs. right. exact Mp.
    - (* never seen: a miss *)
      assert (Hnin : ~ In x (firstn (S K) (recency eqb [] pre))).
      { intros H. apply In_firstn in H. apply In_recency in H. destruct H as [H|[]]. apply mem_nIn in Mp. contradiction. }
      apply mem_nIn in Hnin. rewrite Hnin. cbn [negb]. rewrite IH. f_equal.
      (* firsts (pre ++ [x]) suf = firsts (x :: pre) suf *)
      clear - eqb_spec. revert pre. induction suf as [|y suf IHs]; intros pre; cbn [firsts]; [reflexivity|].
      assert (Emem : mem eqb y (pre ++ [x]) = mem eqb y (x :: pre)).
      { destruct (mem eqb y (x :: pre)) eqn:M1.
        - apply mem_In. apply mem_In in M1. destruct M1 as [M1|M1]; apply in_or_app; [right; left; exact M1|left; exact M1].
        - apply mem_nIn. apply mem_nIn in M1. intros H. apply M1. apply in_app_or in H. destruct H as [H|[H|[]]]; [right; exact H|left; exact H]. }
      rewrite Emem. destruct (mem eqb y (x :: pre)); [apply IHs|].
      f_equal. change (y :: pre ++ [x]) with ((y :: pre) ++ [x]). rewrite IHs.
      (* firsts is insensitive to the order of the seen list *)
      clear - eqb_spec. assert (G : forall s a b, (forall z, In z a <-> In z b) -> firsts eqb a s = firsts eqb b s).
      { induction s as [|z s IHz]; intros a b Hab; cbn [firsts]; [reflexivity|].
        assert (Em : mem eqb z a = mem eqb z b).
        { destruct (mem eqb z b) eqn:Mb; [apply mem_In; apply Hab; apply mem_In; exact Mb|].
          apply mem_nIn. apply mem_nIn in Mb. intros H. apply Mb. apply Hab. exact H. }
        rewrite Em. destruct (mem eqb z b); [apply IHz; exact Hab|]. f_equal. apply IHz.
        intros w. cbn [In]. rewrite Hab. tauto. }
      apply G. intros z. cbn [In]. tauto.
  Qed.

  Theorem spawned_is_firsts K s : window_ok (S K) s ->
    snd (lru_run eqb (S K) [] s) = firsts eqb [] s.
  Proof.
    intros W. change (@nil A) with (firstn (S K) (recency eqb [] [])) at 1.
    apply spawned_firsts. intros p2 x post E Hin. cbn [app] in *. exact (W p2 x post E Hin).
  Qed.

  (* first occurrences: each listed key exactly once *)
  Lemma firsts_In x s : forall seen, In x (firsts eqb seen s) <-> In x s /\ ~ In x seen.
  Proof.
    induction s as [|y s IH]; intros seen; cbn [firsts In]; [tauto|].
    destruct (mem eqb y seen) eqn:M.
    - apply mem_In in M. rewrite IH. split; [tauto|]. intros [[H|H] Hn]; [subst; contradiction|tauto].
    - apply mem_nIn in M. cbn [In]. rewrite IH. cbn [In]. split.
      + intros [H|[H1 H2]]; [subst; tauto|tauto].
      + intros [[H|H] Hn]; [left; exact H|]. destruct (eqb y x) eqn:E; [left; apply eqb_spec; exact E|].
        apply eqb_neq in E. right. split; [exact H|]. intros [H'|H']; [congruence|contradiction].
  Qed.

  Lemma firsts_NoDup s : forall seen, NoDup (firsts eqb seen s).
  Proof.
    induction s as [|y s IH]; intros seen; cbn [firsts]; [constructor|].
    destruct (mem eqb y seen); [apply IH|]. constructor; [|apply IH].
    rewrite firsts_In. cbn [In]. tauto.
  Qed.

  (* a history with at most K distinct keys is within the window *)
  Lemma index_lt_length x l : In x l -> index eqb x l < length l.
  Proof.
    induction l as [|y l IH]; intros H; [destruct H|]. cbn [index length].
    destruct (eqb x y) eqn:E; [lia|]. apply eqb_neq in E. destruct H as [H|H]; [congruence|]. specialize (IH H). lia.
  Qed.

  Lemma NoDup_incl_length_le (l m : list A) : NoDup l -> incl l m -> length l <= length m.
  Proof. apply NoDup_incl_length. Qed.

  Lemma few_distinct_window K s (univ : list A) :
    (forall x, In x s -> In x univ) -> length univ <= K -> window_ok K s.
  Proof.
    intros Hu Hlen pre x post E Hin.
    assert (Hx : In x (recency eqb [] pre)) by (apply In_recency; left; exact Hin).
    pose proof (index_lt_length x _ Hx) as Hi.
    assert (Hl : length (recency eqb [] pre) <= length univ).
    { apply NoDup_incl_length; [apply NoDup_recency; constructor|].
      intros z Hz. apply In_recency in Hz. destruct Hz as [Hz|[]]. apply Hu. rewrite E. apply in_or_app. left. exact Hz. }
    lia.
  Qed.
End P.
