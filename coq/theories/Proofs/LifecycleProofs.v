(* Proofs for Agent/Lifecycle.v (C20). *)
From Coq Require Import List Arith Bool Lia.
From IP Require Import Agent.Lifecycle.
Import ListNotations.

(* polling starts right after the first passing check and not before *)
Theorem gate checks n : wait_healthy checks = Some n ->
  1 <= n /\ nth_error checks (n - 1) = Some true /\ forall j, j < n - 1 -> nth_error checks j = Some false.
Proof.
  revert n. induction checks as [|c r IH]; intros n H; cbn [wait_healthy] in H; [discriminate|].
  destruct c.
  - inversion H; subst. split; [lia|]. split; [reflexivity|]. intros j Hj. lia.
  - destruct (wait_healthy r) as [m|] eqn:E; [|discriminate]. inversion H; subst. destruct (IH m eq_refl) as (A & B & Cc).
    split; [lia|]. replace (S m - 1) with (S (m - 1)) by lia. split; [exact B|].
    intros [|j] Hj; [reflexivity|]. cbn [nth_error]. apply Cc. lia.
Qed.

Theorem gate_never checks : wait_healthy checks = None -> forall j, j < length checks -> nth_error checks j = Some false.
Proof.
  induction checks as [|c r IH]; intros H j Hj; [cbn in Hj; lia|]. cbn [wait_healthy] in H. destruct c; [discriminate|].
  destruct (wait_healthy r) eqn:E; [discriminate|]. destruct j as [|j]; [reflexivity|]. cbn [nth_error length] in *. apply IH; [reflexivity|lia].
Qed.

(* number of consecutive failures at the end of a list of check results *)
Fixpoint lead_false (l : list bool) : nat := match l with false :: r => S (lead_false r) | _ => 0 end.
Definition tf (l : list bool) : nat := lead_false (rev l).

Lemma tf_snoc l c : tf (l ++ [c]) = if c then 0 else S (tf l).
Proof. unfold tf. rewrite rev_app_distr. cbn [rev app lead_false]. destruct c; reflexivity. Qed.

(* the counter machine exits at the first position at which the number of consecutive failures
   just seen reaches the threshold, and nowhere before *)
Lemma health_exit_char thr rest : 1 <= thr -> forall pre, tf pre < thr ->
  match health_exit_from thr (tf pre) (S (length pre)) rest with
  | Some n => length pre < n <= length (pre ++ rest) /\ thr <= tf (firstn n (pre ++ rest)) /\
              forall m, length pre < m -> m < n -> tf (firstn m (pre ++ rest)) < thr
  | None => forall m, length pre < m -> m <= length (pre ++ rest) -> tf (firstn m (pre ++ rest)) < thr
  end.
Proof.
  intros Hthr. induction rest as [|c r IH]; intros pre Hpre; cbn [health_exit_from].
  - intros m Hm1 Hm2. rewrite app_nil_r in Hm2. lia.
  - assert (Ebad : (if c then 0 else S (tf pre)) = tf (pre ++ [c])) by (rewrite tf_snoc; reflexivity).
    rewrite Ebad.
    assert (Efirst : firstn (S (length pre)) (pre ++ c :: r) = pre ++ [c]).
    { replace (pre ++ c :: r) with ((pre ++ [c]) ++ r) by (rewrite <- app_assoc; reflexivity).
      rewrite firstn_app. replace (S (length pre) - length (pre ++ [c])) with 0 by (rewrite app_length; cbn [length]; lia).
      rewrite firstn_all2 by (rewrite app_length; cbn [length]; lia). cbn [firstn]. apply app_nil_r. }
    destruct (thr <=? tf (pre ++ [c])) eqn:E.
    + apply Nat.leb_le in E. split; [rewrite app_length; cbn [length]; lia|]. split; [rewrite Efirst; exact E|]. intros m Hm1 Hm2. lia.
    + apply Nat.leb_gt in E. specialize (IH (pre ++ [c]) E).
      replace (S (length (pre ++ [c]))) with (S (S (length pre))) in IH by (rewrite app_length; cbn [length]; lia).
      replace ((pre ++ [c]) ++ r) with (pre ++ c :: r) in IH by (rewrite <- app_assoc; reflexivity).
      rewrite app_length in IH. cbn [length] in IH.
      destruct (health_exit_from thr (tf (pre ++ [c])) (S (S (length pre))) r) as [n|].
      * destruct IH as (A & B & Cc). split; [lia|]. split; [exact B|].
        intros m Hm1 Hm2. destruct (Nat.eq_dec m (S (length pre))) as [->|Hne]; [rewrite Efirst; exact E|]. apply Cc; lia.
      * intros m Hm1 Hm2. destruct (Nat.eq_dec m (S (length pre))) as [->|Hne]; [rewrite Efirst; exact E|]. apply IH; lia.
Qed.
