(* Trailer delivery (C03): every trailer field of the backend response, announced or not,
   reaches the client as a trailer with its values in order.  Proofs about Agent/RespPath.v. *)
From Coq Require Import String List Bool Ascii ZArith Lia Arith.
From IP Require Import Lib.Header Server.HopFilter Agent.RespPath Proofs.HeaderProofs Proofs.HopFilterProofs Proofs.RespPathProofs.
Import ListNotations.
Open Scope string_scope.
Open Scope list_scope.

(* ---- canonical names are fixed points of canonicalisation ---- *)
Lemma upper_idem c : to_upper (to_upper c) = to_upper c.
Proof. destruct c as [[] [] [] [] [] [] [] []]; vm_compute; reflexivity. Qed.
Lemma lower_idem c : to_lower (to_lower c) = to_lower c.
Proof. destruct c as [[] [] [] [] [] [] [] []]; vm_compute; reflexivity. Qed.
Lemma upper_dash c : Ascii.eqb (to_upper c) "-"%char = Ascii.eqb c "-"%char.
Proof. destruct c as [[] [] [] [] [] [] [] []]; vm_compute; reflexivity. Qed.
Lemma lower_dash c : Ascii.eqb (to_lower c) "-"%char = Ascii.eqb c "-"%char.
Proof. destruct c as [[] [] [] [] [] [] [] []]; vm_compute; reflexivity. Qed.
Lemma upper_tchar c : is_tchar (to_upper c) = is_tchar c.
Proof. destruct c as [[] [] [] [] [] [] [] []]; vm_compute; reflexivity. Qed.
Lemma lower_tchar c : is_tchar (to_lower c) = is_tchar c.
Proof. destruct c as [[] [] [] [] [] [] [] []]; vm_compute; reflexivity. Qed.

Lemma canon_from_idem s : forall u, canon_from u (canon_from u s) = canon_from u s.
Proof.
  induction s as [|c r IH]; intros u; [reflexivity|]. cbn [canon_from]. destruct u.
  - rewrite upper_idem, upper_dash, IH. reflexivity.
  - rewrite lower_idem, lower_dash, IH. reflexivity.
Qed.

Lemma canon_from_tchar s : forall u, all_tchar (canon_from u s) = all_tchar s.
Proof.
  induction s as [|c r IH]; intros u; [reflexivity|]. cbn [canon_from all_tchar]. rewrite IH. destruct u; [rewrite upper_tchar|rewrite lower_tchar]; reflexivity.
Qed.

Lemma canon_idem s : canon (canon s) = canon s.
Proof.
  unfold canon at 2 3. destruct (all_tchar s) eqn:E.
  - unfold canon. rewrite canon_from_tchar, E. apply canon_from_idem.
  - unfold canon. rewrite E. reflexivity.
Qed.

(* ---- folds of Header.Add ---- *)
Definition add_field (f : string * string -> string) (h : header) (t : string * string) : header := hadd (f t) (snd t) h.

Lemma hvalues_fold_add f k l : forall h,
  hvalues k (fold_left (add_field f) l h) = hvalues k h ++ map snd (filter (fun t => f t =? k) l).
Proof.
  induction l as [|t r IH]; intros h; cbn [fold_left filter map]; [rewrite app_nil_r; reflexivity|].
  rewrite IH. unfold add_field at 1. destruct (String.eqb_spec (f t) k) as [E|E].
  - subst. rewrite hvalues_hadd_same. cbn [map]. rewrite <- app_assoc. reflexivity.
  - rewrite hvalues_hadd_other by (intros X; apply E; symmetry; exact X). reflexivity.
Qed.

Lemma NoDup_fold_add f l : forall h, NoDup (hkeys h) -> NoDup (hkeys (fold_left (add_field f) l h)).
Proof. induction l as [|t r IH]; intros h H; cbn [fold_left]; [exact H|]. apply IH. apply NoDup_hadd. exact H. Qed.

Lemma hkeys_fold_add f l : forall h k, In k (hkeys (fold_left (add_field f) l h)) -> In k (hkeys h) \/ exists t, In t l /\ f t = k.
Proof.
  induction l as [|t r IH]; intros h k H; cbn [fold_left] in H; [left; exact H|].
  destruct (IH _ _ H) as [H1|(t' & Hin & E)]; [|right; exists t'; split; [right; exact Hin|exact E]].
  unfold add_field in H1. rewrite hkeys_hadd in H1. destruct (existsb (String.eqb (f t)) (hkeys h)); [left; exact H1|].
  apply in_app_or in H1. destruct H1 as [H1|[H1|[]]]; [left; exact H1|]. right. exists t. split; [left; reflexivity|exact H1].
Qed.

Lemma hvalues_fold_values k k' vs : forall t,
  hvalues k' (fold_left (fun t v => hadd k v t) vs t) = if k =? k' then hvalues k' t ++ vs else hvalues k' t.
Proof.
  induction vs as [|v r IH]; intros t; cbn [fold_left]; [destruct (k =? k'); [rewrite app_nil_r|]; reflexivity|].
  rewrite IH. destruct (String.eqb_spec k k') as [E|E].
  - subst. rewrite hvalues_hadd_same, <- app_assoc. reflexivity.
  - rewrite hvalues_hadd_other by (intros X; apply E; symmetry; exact X). reflexivity.
Qed.

Lemma NoDup_fold_values k vs : forall t, NoDup (hkeys t) -> NoDup (hkeys (fold_left (fun t v => hadd k v t) vs t)).
Proof. induction vs as [|v r IH]; intros t H; cbn [fold_left]; [exact H|]. apply IH. apply NoDup_hadd. exact H. Qed.

(* ---- distinct names in order of first appearance ---- *)
Lemma names_of_in l : forall seen k, In k (names_of l seen) <-> (exists t, In t l /\ canon (fst t) = k) /\ key_in seen k = false.
Proof.
  induction l as [|[n v] r IH]; intros seen k; cbn [names_of].
  - split; [intros []|intros [(t & [] & _) _]].
  - destruct (key_in seen (canon n)) eqn:E.
    + rewrite IH. split.
      * intros [(t & Hin & Ek) Hs]. split; [exists t; split; [right; exact Hin|exact Ek]|exact Hs].
      * intros [(t & [Ht|Hin] & Ek) Hs]; [subst t; cbn [fst] in Ek; subst k; congruence|]. split; [exists t; auto|exact Hs].
    + cbn [In]. rewrite IH. split.
      * intros [H|[(t & Hin & Ek) Hs]].
        -- subst k. split; [exists (n, v); split; [left; reflexivity|reflexivity]|exact E].
        -- split; [exists t; split; [right; exact Hin|exact Ek]|]. unfold key_in in *. cbn [existsb] in Hs. apply orb_false_iff in Hs. tauto.
      * intros [(t & [Ht|Hin] & Ek) Hs]; [subst t; cbn [fst] in Ek; left; exact Ek|].
        destruct (String.eqb_spec k (canon n)) as [X|X]; [left; symmetry; exact X|]. right. split; [exists t; auto|].
        unfold key_in in *. cbn [existsb]. rewrite Hs, orb_false_r. apply String.eqb_neq. exact X.
Qed.

Lemma key_in_spec tbl k : key_in tbl k = true <-> In k tbl.
Proof.
  unfold key_in. rewrite existsb_exists. split.
  - intros (x & Hin & E). apply String.eqb_eq in E. subst. exact Hin.
  - intros H. exists k. split; [exact H|apply String.eqb_refl].
Qed.

Lemma names_of_NoDup l : forall seen, NoDup (names_of l seen).
Proof.
  induction l as [|[n v] r IH]; intros seen; cbn [names_of]; [constructor|].
  destruct (key_in seen (canon n)); [apply IH|]. constructor; [|apply IH].
  intros H. apply names_of_in in H. destruct H as [_ H]. unfold key_in in H. cbn [existsb] in H. rewrite String.eqb_refl in H. discriminate.
Qed.

(* names_of depends on `seen` only through membership *)
Lemma names_of_ext l : forall s1 s2, (forall k, key_in s1 k = key_in s2 k) -> names_of l s1 = names_of l s2.
Proof.
  induction l as [|[n v] r IH]; intros s1 s2 H; cbn [names_of]; [reflexivity|]. rewrite <- H.
  destruct (key_in s1 (canon n)); [apply IH; exact H|]. f_equal. apply IH. intros k. unfold key_in. cbn [existsb]. f_equal. apply H.
Qed.

Lemma names_of_app l1 : forall l2 seen,
  names_of (l1 ++ l2) seen = names_of l1 seen ++ names_of l2 (rev (names_of l1 seen) ++ seen).
Proof.
  induction l1 as [|[n v] r IH]; intros l2 seen; cbn [app names_of]; [reflexivity|].
  destruct (key_in seen (canon n)) eqn:E; [apply IH|]. cbn [app]. f_equal. rewrite IH. f_equal.
  apply names_of_ext. intros k. unfold key_in. rewrite !existsb_app. cbn [rev existsb]. rewrite existsb_app. cbn [existsb].
  rewrite orb_false_r. rewrite <- orb_assoc. reflexivity.
Qed.

(* ---- prefixes ---- *)
Lemma prefix_app p s : prefix p (p ++ s)%string = true.
Proof. induction p as [|c r IH]; cbn; [destruct s; reflexivity|]. destruct (ascii_dec c c); [exact IH|contradiction]. Qed.

Lemma prefix_split p : forall s, prefix p s = true -> s = (p ++ substring (String.length p) (String.length s - String.length p) s)%string.
Proof.
  induction p as [|c r IH]; intros s H.
  - cbn. rewrite Nat.sub_0_r. clear. induction s as [|a t IHt]; [reflexivity|]. cbn. f_equal.
    destruct t; [reflexivity|]. exact IHt.
  - destruct s as [|a t]; [discriminate|]. cbn in H. destruct (ascii_dec c a) as [->|]; [|discriminate].
    cbn [String.length append substring Nat.sub]. f_equal. apply IH. exact H.
Qed.

Lemma cut_prefix_iff p n k : has_prefix p n = true -> (cut_prefix p n = k <-> n = (p ++ k)%string).
Proof.
  intros H. unfold has_prefix in H. unfold cut_prefix. pose proof (prefix_split p n H) as E. split.
  - intros <-. exact E.
  - intros ->. clear. induction p as [|c r IH]; cbn.
    + rewrite Nat.sub_0_r. induction k as [|a t IHt]; [reflexivity|]. cbn. f_equal. destruct t; [reflexivity|exact IHt].
    + exact IH.
Qed.

Section Trailers.
  Variable hop_tbl srv_tbl : list string.
  Hypothesis trailer_is_hop : key_in hop_tbl "Trailer" = true.

  Local Notation rw_step := (rw_step hop_tbl true true).
  Local Notation rw_close := (rw_close hop_tbl true true).

  Definition unhop (h : header) : header := hfilter (fun k => negb (key_in hop_tbl k)) h.

  (* the trailer map created by WriteHeader from the keys declared in the Trailer header *)
  Definition trailer0 (h : header) : header :=
    fold_left (fun t k => if key_in (hkeys t) k then t else t ++ [(k, [])])
              (filter (fun k => negb (key_in hop_tbl k) && negb (k =? "")) (declared_keys true h)) [].

  Lemma trailer0_fold keys : forall t, NoDup keys -> (forall k, In k keys -> ~ In k (hkeys t)) ->
    fold_left (fun t k => if key_in (hkeys t) k then t else t ++ [(k, [])]) keys t = t ++ map (fun k => (k, [])) keys.
  Proof.
    induction keys as [|k r IH]; intros t ND Hn; cbn [fold_left map]; [rewrite app_nil_r; reflexivity|].
    inversion ND as [|? ? Hk ND']; subst.
    destruct (key_in (hkeys t) k) eqn:E; [apply key_in_spec in E; exfalso; exact (Hn k (or_introl eq_refl) E)|].
    rewrite IH; [rewrite <- app_assoc; reflexivity|exact ND'|].
    intros k' Hk' Hin. unfold hkeys in Hin. rewrite map_app in Hin. apply in_app_or in Hin. destruct Hin as [Hin|[Hin|[]]].
    - exact (Hn k' (or_intror Hk') Hin).
    - cbn in Hin. subst k'. exact (Hk Hk').
  Qed.

  (* the ResponseWriter after all of ReverseProxy's calls *)
  Definition adds_of (cs : list rwcall) : list (string * string) :=
    flat_map (fun c => match c with CAddHeader k v => [(k, v)] | _ => [] end) cs.

  Lemma adds_state cs : (forall c, In c cs -> exists k v, c = CAddHeader k v) -> forall s,
    let s' := fold_left rw_step cs s in
    w_sent s' = w_sent s /\ w_trailer s' = w_trailer s /\ w_header s' = fold_left (add_field fst) (adds_of cs) (w_header s).
  Proof.
    induction cs as [|c cs IH]; intros H s; cbn [fold_left adds_of flat_map]; [auto|].
    destruct (H c (or_introl eq_refl)) as (k & v & ->). cbn [rw_step app fold_left].
    destruct (IH (fun c' Hc' => H c' (or_intror Hc')) {| w_header := hadd k v (w_header s); w_sent := w_sent s; w_trailer := w_trailer s; w_body := w_body s |}) as (A & B & C).
    cbn [w_sent w_trailer w_header] in *. repeat split; assumption.
  Qed.

  Lemma main_state s h st : w_sent s = None -> ~ in_1xx st ->
    let s' := fold_left rw_step [CSetHeader h; CWriteHeader st; CWriteBody] s in
    w_sent s' = Some (st, unhop h) /\ w_trailer s' = trailer0 h /\ w_header s' = h.
  Proof.
    intros H1 HS. cbn [fold_left RespPath.rw_step].
    set (s0 := {| w_header := h; w_sent := w_sent s; w_trailer := w_trailer s; w_body := w_body s |}).
    assert (E : rw_write_header hop_tbl true true s0 st =
                {| w_header := h; w_sent := Some (st, unhop h); w_trailer := trailer0 h; w_body := w_body s |}).
    { unfold rw_write_header. cbn [w_sent s0]. rewrite H1.
      destruct (100 <=? st)%Z eqn:A; destruct (st <=? 199)%Z eqn:B; cbn [andb]; try reflexivity.
      exfalso. apply HS. unfold in_1xx. apply Z.leb_le in A. apply Z.leb_le in B. lia. }
    rewrite E. cbn [w_sent w_trailer w_header]. auto.
  Qed.

  (* ---- Close(): the prefixed header entries become trailers ---- *)
  Definition close_fold (h t1 : header) : header :=
    fold_left (fun t kv =>
                 if has_prefix trailer_prefix (fst kv) then
                   let k := cut_prefix trailer_prefix (fst kv) in
                   if key_in hop_tbl k then t else fold_left (fun t v => hadd k v t) (snd kv) t
                 else t) h t1.

  Definition pref_vals (k : string) (l : header) : list string :=
    flat_map (fun kv => if (fst kv =? (trailer_prefix ++ k)%string) then snd kv else []) l.

  Lemma close_fold_values k l : forall t,
    hvalues k (close_fold l t) = if key_in hop_tbl k then hvalues k t else hvalues k t ++ pref_vals k l.
  Proof.
    induction l as [|[n vs] r IH]; intros t; unfold close_fold in *; cbn [fold_left pref_vals flat_map fst snd].
    - destruct (key_in hop_tbl k); [|rewrite app_nil_r]; reflexivity.
    - rewrite IH. clear IH. destruct (has_prefix trailer_prefix n) eqn:Hp.
      + pose proof (cut_prefix_iff trailer_prefix n k Hp) as Hc. cbn zeta.
        destruct (key_in hop_tbl (cut_prefix trailer_prefix n)) eqn:Hh.
        * destruct (key_in hop_tbl k) eqn:Hk; [reflexivity|].
          destruct (String.eqb_spec n (trailer_prefix ++ k)%string) as [E|E]; [apply Hc in E; congruence|reflexivity].
        * rewrite hvalues_fold_values.
          destruct (String.eqb_spec (cut_prefix trailer_prefix n) k) as [E|E].
          -- destruct (key_in hop_tbl k) eqn:Hk; [congruence|]. apply Hc in E. subst n. rewrite String.eqb_refl, <- app_assoc. reflexivity.
          -- destruct (String.eqb_spec n (trailer_prefix ++ k)%string) as [E2|E2]; [apply Hc in E2; contradiction|reflexivity].
      + destruct (String.eqb_spec n (trailer_prefix ++ k)%string) as [E|E]; [|reflexivity].
        subst n. unfold has_prefix in Hp. rewrite prefix_app in Hp. discriminate.
  Qed.

  Lemma pref_vals_notin k l : ~ In (trailer_prefix ++ k)%string (hkeys l) -> pref_vals k l = [].
  Proof.
    induction l as [|[n vs] r IH]; intros H; cbn [pref_vals flat_map fst snd]; [reflexivity|].
    destruct (String.eqb_spec n (trailer_prefix ++ k)%string) as [E|E]; [exfalso; apply H; left; exact E|].
    apply IH. intros X. apply H. right. exact X.
  Qed.

  Lemma pref_vals_nodup k l : NoDup (hkeys l) -> pref_vals k l = hvalues (trailer_prefix ++ k)%string l.
  Proof.
    induction l as [|[n vs] r IH]; intros H; cbn [pref_vals flat_map fst snd hvalues]; [reflexivity|].
    inversion H as [|? ? Hn H']; subst. destruct (String.eqb_spec n (trailer_prefix ++ k)%string) as [E|E].
    - subst n. fold (pref_vals k r). rewrite pref_vals_notin by exact Hn. apply app_nil_r.
    - apply IH. exact H'.
  Qed.

  Lemma NoDup_close_fold l : forall t, NoDup (hkeys t) -> NoDup (hkeys (close_fold l t)).
  Proof.
    induction l as [|[n vs] r IH]; intros t H; unfold close_fold in *; cbn [fold_left fst snd]; [exact H|].
    apply IH. destruct (has_prefix trailer_prefix n); [|exact H]. cbn zeta. destruct (key_in hop_tbl (cut_prefix trailer_prefix n)); [exact H|]. apply NoDup_fold_values. exact H.
  Qed.

  Lemma close_state s x : w_sent s = Some x ->
    w_trailer (rw_close s) = close_fold (w_header s) (map (fun kv => (fst kv, snd kv ++ hvalues (fst kv) (w_header s))) (w_trailer s)).
  Proof. intros H. unfold RespPath.rw_close. rewrite H. reflexivity. Qed.

  Lemma hvalues_t1 (H' : header) keys k :
    hvalues k (map (fun kv : string * list string => (fst kv, snd kv ++ hvalues (fst kv) H')) (map (fun k => (k, [])) keys)) =
    if key_in keys k then hvalues k H' else [].
  Proof.
    induction keys as [|a r IH]; cbn [map hvalues fst snd key_in existsb]; [reflexivity|]. unfold key_in in *.
    rewrite String.eqb_sym. destruct (String.eqb_spec k a) as [E|E]; [subst; reflexivity|exact IH].
  Qed.

  Lemma hkeys_t1 (H' : header) keys :
    hkeys (map (fun kv : string * list string => (fst kv, snd kv ++ hvalues (fst kv) H')) (map (fun k => (k, [])) keys)) = keys.
  Proof. unfold hkeys. rewrite !map_map. cbn [fst]. apply map_id. Qed.


  (* ---- assembling the response path ---- *)
  Definition all_tr (b : bresp) : list (string * string) := br_declared b ++ br_undeclared b.
  Definition wf_trailer (b : bresp) (t : string * string) : Prop :=
    plain_name (canon (fst t)) = true /\ key_in hop_tbl (canon (fst t)) = false /\
    key_in srv_tbl (lower (canon (fst t))) = false /\ hvalues (canon (fst t)) (of_wire (br_fields b)) = [] /\
    has_prefix trailer_prefix (canon (fst t)) = false.
  Definition wf_field (f : string * string) : Prop := has_prefix trailer_prefix (canon (fst f)) = false.

  Lemma fold_add_map (g : string * string -> string) l : forall h,
    fold_left (add_field fst) (map (fun t => (g t, snd t)) l) h = fold_left (add_field g) l h.
  Proof. induction l as [|t r IH]; intros h; cbn [map fold_left]; [reflexivity|]. rewrite IH. reflexivity. Qed.

  Lemma adds_of_map (g : string * string -> string) l : adds_of (map (fun t => CAddHeader (g t) (snd t)) l) = map (fun t => (g t, snd t)) l.
  Proof. induction l as [|t r IH]; cbn [map adds_of flat_map app]; [reflexivity|]. unfold adds_of in IH. rewrite IH. reflexivity. Qed.

  Lemma of_wire_keys fields k : In k (hkeys (of_wire fields)) -> exists f, In f fields /\ canon (fst f) = k.
  Proof.
    intros H. change (of_wire fields) with (fold_left (add_field (fun f => canon (fst f))) fields []) in H.
    apply hkeys_fold_add in H. destruct H as [[]|H]. exact H.
  Qed.

  Lemma trailer_key_no_prefix : has_prefix trailer_prefix "Trailer" = false.
  Proof. reflexivity. Qed.

  (* what the agent uploads as trailers *)
  Lemma upload_trailers b : Forall in_1xx (br_interim b) -> ~ in_1xx (br_status b) ->
    exists h H', agent_upload hop_tbl true true b = Some (br_status b, unhop h, close_fold H' (map (fun kv => (fst kv, snd kv ++ hvalues (fst kv) H')) (trailer0 h))) /\
      h = (let h0 := hfilter (fun k => negb (key_in lib_hop k)) (of_wire (br_fields b)) in
           match names_of (br_declared b) [] with [] => h0 | _ => hadd "Trailer" (join_names (names_of (br_declared b) [])) h0 end) /\
      H' = fold_left (add_field (if (List.length (names_of (all_tr b) []) =? List.length (names_of (br_declared b) []))%nat
                                 then (fun t => canon (fst t)) else (fun t => (trailer_prefix ++ canon (fst t))%string))) (all_tr b) h.
  Proof.
    intros HI HS. unfold agent_upload, revproxy_calls. fold (all_tr b).
    set (h0 := hfilter (fun k => negb (key_in lib_hop k)) (of_wire (br_fields b))).
    set (h := match names_of (br_declared b) [] with [] => h0 | _ => hadd "Trailer" (join_names (names_of (br_declared b) [])) h0 end).
    rewrite !fold_left_app.
    destruct (interim_ignored hop_tbl (br_interim b) HI rw_init eq_refl eq_refl eq_refl) as (E1 & E2 & E3).
    set (s1 := fold_left rw_step (flat_map _ (br_interim b)) rw_init) in *.
    destruct (main_state s1 h (br_status b) E1 HS) as (M1 & M2 & M3).
    set (s2 := fold_left rw_step [CSetHeader h; CWriteHeader (br_status b); CWriteBody] s1) in *.
    exists h. eexists. split; [|split; [reflexivity|reflexivity]].
    destruct (List.length (names_of (all_tr b) []) =? List.length (names_of (br_declared b) []))%nat.
    - set (adds := map (fun t => CAddHeader (canon (fst t)) (snd t)) (all_tr b)).
      assert (Hadds : forall c, In c adds -> exists k v, c = CAddHeader k v) by (intros c Hc; apply in_map_iff in Hc; destruct Hc as (t & <- & _); eexists _, _; reflexivity).
      destruct (adds_state adds Hadds s2) as (A1 & A2 & A3). rewrite M1 in A1. rewrite M2 in A2. rewrite M3 in A3.
      rewrite (close_keeps_sent hop_tbl _ _ A1). rewrite (close_state _ _ A1), A2, A3.
      unfold adds. rewrite (adds_of_map (fun t => canon (fst t))), fold_add_map. reflexivity.
    - set (adds := map (fun t => CAddHeader (trailer_prefix ++ canon (fst t))%string (snd t)) (all_tr b)).
      assert (Hadds : forall c, In c adds -> exists k v, c = CAddHeader k v) by (intros c Hc; apply in_map_iff in Hc; destruct Hc as (t & <- & _); eexists _, _; reflexivity).
      destruct (adds_state adds Hadds s2) as (A1 & A2 & A3). rewrite M1 in A1. rewrite M2 in A2. rewrite M3 in A3.
      rewrite (close_keeps_sent hop_tbl _ _ A1). rewrite (close_state _ _ A1), A2, A3.
      unfold adds. rewrite (adds_of_map (fun t => (trailer_prefix ++ canon (fst t))%string)), fold_add_map. reflexivity.
  Qed.


  Lemma wf_announced b a : Forall (wf_trailer b) (all_tr b) -> In a (names_of (br_declared b) []) ->
    plain_name a = true /\ key_in hop_tbl a = false /\ canon a = a /\ has_prefix trailer_prefix a = false.
  Proof.
    intros W Ha. apply names_of_in in Ha. destruct Ha as [(t & Hin & <-) _].
    rewrite Forall_forall in W. destruct (W t (in_or_app _ _ _ (or_introl Hin))) as (A & B & _ & _ & E).
    repeat split; try assumption. apply canon_idem.
  Qed.

  (* the trailer map created at WriteHeader holds exactly the announced names *)
  Lemma trailer0_announced b : Forall (wf_trailer b) (all_tr b) ->
    let h0 := hfilter (fun k => negb (key_in lib_hop k)) (of_wire (br_fields b)) in
    let ann := names_of (br_declared b) [] in
    trailer0 (match ann with [] => h0 | _ => hadd "Trailer" (join_names ann) h0 end) = map (fun k => (k, [])) ann.
  Proof.
    intros W h0 ann.
    assert (T0 : hvalues "Trailer" h0 = []).
    { unfold h0. rewrite hvalues_hfilter by apply NoDup_of_wire. reflexivity. }
    unfold trailer0.
    assert (K : filter (fun k => negb (key_in hop_tbl k) && negb (k =? ""))
                       (declared_keys true (match ann with [] => h0 | _ => hadd "Trailer" (join_names ann) h0 end)) = ann).
    { destruct ann as [|a0 r] eqn:Ea.
      - unfold declared_keys. rewrite T0. reflexivity.
      - unfold declared_keys. rewrite hvalues_hadd_same, T0. cbn [app flat_map]. rewrite app_nil_r.
        assert (P : Forall (fun n => plain_name n = true) (a0 :: r)).
        { rewrite Forall_forall. intros a Hin. rewrite <- Ea in Hin. exact (proj1 (wf_announced b a W Hin)). }
        rewrite <- (map_map trim canon). rewrite (split_join (a0 :: r) P) by discriminate.
        rewrite <- Ea. assert (Hall : forall a, In a ann -> canon a = a /\ key_in hop_tbl a = false /\ plain_name a = true).
        { intros a Hin. destruct (wf_announced b a W Hin) as (A & B & C & _). auto. }
        clear -Hall. induction ann as [|a r IH]; [reflexivity|]. cbn [map filter].
        destruct (Hall a (or_introl eq_refl)) as (A & B & C). rewrite A, B. cbn [negb andb].
        unfold plain_name in C. apply andb_true_iff in C. destruct C as [_ C]. rewrite C. f_equal. apply IH. intros x Hx. apply Hall. right. exact Hx. }
    rewrite K. rewrite trailer0_fold; [reflexivity|apply names_of_NoDup|intros k _ []].
  Qed.


  Lemma append_eqb p a k : ((p ++ a)%string =? (p ++ k)%string) = (a =? k).
  Proof. induction p as [|c r IH]; [reflexivity|]. cbn. rewrite Ascii.eqb_refl. exact IH. Qed.

  Lemma no_prefix_neq n k : has_prefix trailer_prefix n = false -> n <> (trailer_prefix ++ k)%string.
  Proof. intros H E. subst n. unfold has_prefix in H. rewrite prefix_app in H. discriminate. Qed.

  Lemma filter_none {A} (f : A -> bool) l : (forall x, In x l -> f x = false) -> filter f l = [].
  Proof. induction l as [|x r IH]; intros H; cbn [filter]; [reflexivity|]. rewrite (H x (or_introl eq_refl)). apply IH. intros y Hy. apply H. right. exact Hy. Qed.

  Definition vals (b : bresp) (k : string) : list string := map snd (filter (fun t => canon (fst t) =? k) (all_tr b)).

  (* every trailer field, announced or not, arrives at the client as a trailer with its values in order *)
  Theorem client_trailers b H T : Forall in_1xx (br_interim b) -> ~ in_1xx (br_status b) ->
    Forall (wf_trailer b) (all_tr b) -> Forall wf_field (br_fields b) ->
    client_view hop_tbl true true srv_tbl b = Some (br_status b, H, T) ->
    forall k, hvalues k T = vals b k.
  Proof.
    intros HI HS W WF Hcv k.
    destruct (upload_trailers b HI HS) as (h & H' & Hu & Eh & EH').
    unfold client_view in Hcv. rewrite Hu in Hcv. cbn [option_map server_relay] in Hcv. injection Hcv as EHdr ET. clear EHdr.
    set (ann := names_of (br_declared b) []) in *.
    set (h0 := hfilter (fun k => negb (key_in lib_hop k)) (of_wire (br_fields b))) in *.
    cbn zeta in Eh.
    assert (Et0 : trailer0 h = map (fun k => (k, [])) ann) by (rewrite Eh; exact (trailer0_announced b W)).
    rewrite Et0 in *.
    rewrite Forall_forall in W.
    (* facts about the header h *)
    assert (Nh : NoDup (hkeys h)).
    { rewrite Eh. destruct ann; [|apply NoDup_hadd]; apply NoDup_hfilter; apply NoDup_of_wire. }
    assert (Kh0 : forall n, In n (hkeys h0) -> has_prefix trailer_prefix n = false).
    { intros n Hn. apply hkeys_hfilter_incl in Hn. apply of_wire_keys in Hn. destruct Hn as (f & Hf & <-).
      rewrite Forall_forall in WF. exact (WF f Hf). }
    assert (Kh : forall n, In n (hkeys h) -> has_prefix trailer_prefix n = false).
    { intros n Hn. rewrite Eh in Hn. destruct ann; [exact (Kh0 n Hn)|]. rewrite hkeys_hadd in Hn.
      destruct (existsb _ _); [exact (Kh0 n Hn)|]. apply in_app_or in Hn. destruct Hn as [Hn|[<-|[]]]; [exact (Kh0 n Hn)|reflexivity]. }
    assert (Vh : forall t, In t (all_tr b) -> hvalues (canon (fst t)) h = []).
    { intros t Ht. destruct (W t Ht) as (_ & B & _ & D & _).
      assert (Hne : canon (fst t) <> "Trailer") by (intros X; rewrite X in B; congruence).
      assert (V0 : hvalues (canon (fst t)) h0 = []).
      { unfold h0. rewrite hvalues_hfilter by apply NoDup_of_wire. rewrite D. destruct (negb _); reflexivity. }
      rewrite Eh. destruct ann; [exact V0|]. rewrite hvalues_hadd_other by exact Hne. exact V0. }
    assert (Vnone : (forall t, In t (all_tr b) -> canon (fst t) <> k) -> vals b k = []).
    { intros Hn. unfold vals. rewrite filter_none; [reflexivity|]. intros t Ht. apply String.eqb_neq. exact (Hn t Ht). }
    assert (Ann_tr : forall a, key_in ann a = true -> exists t, In t (all_tr b) /\ canon (fst t) = a).
    { intros a Ha. apply key_in_spec in Ha. apply names_of_in in Ha. destruct Ha as [(t & Hin & E) _]. exists t. split; [apply in_or_app; left; exact Hin|exact E]. }
    set (t1 := map (fun kv : string * list string => (fst kv, snd kv ++ hvalues (fst kv) H')) (map (fun k => (k, [])) ann)) in *.
    assert (Nt1 : NoDup (hkeys t1)) by (unfold t1; rewrite hkeys_t1; apply names_of_NoDup).
    assert (Nt2 : NoDup (hkeys (close_fold H' t1))) by (apply NoDup_close_fold; exact Nt1).
    rewrite <- ET. rewrite server_filter_exact by exact Nt2.
    (* a name that the proxy or the agent treats as hop-by-hop is not a trailer name *)
    destruct (key_in srv_tbl (lower k)) eqn:Esrv.
    { symmetry. apply Vnone. intros t Ht E. destruct (W t Ht) as (_ & _ & C & _). rewrite E in C. congruence. }
    rewrite close_fold_values.
    assert (Vt1 : hvalues k t1 = if key_in ann k then hvalues k H' else []) by (unfold t1; apply hvalues_t1).
    destruct (List.length (names_of (all_tr b) []) =? List.length ann)%nat eqn:Eflag.
    - (* all trailer names were announced: ReverseProxy adds them unprefixed *)
      assert (NP : forall n, In n (hkeys H') -> has_prefix trailer_prefix n = false).
      { intros n Hn. rewrite EH' in Hn. apply hkeys_fold_add in Hn. destruct Hn as [Hn|(t & Ht & <-)]; [exact (Kh n Hn)|].
        destruct (W t Ht) as (_ & _ & _ & _ & E). exact E. }
      assert (PV : pref_vals k H' = []).
      { apply pref_vals_notin. intros Hin. specialize (NP _ Hin). unfold has_prefix in NP. rewrite prefix_app in NP. discriminate. }
      rewrite PV, app_nil_r. assert (Same : (if key_in hop_tbl k then hvalues k t1 else hvalues k t1) = hvalues k t1) by (destruct (key_in hop_tbl k); reflexivity).
      rewrite Same, Vt1.
      assert (VH : hvalues k H' = hvalues k h ++ vals b k) by (rewrite EH'; apply hvalues_fold_add).
      assert (AllAnn : forall t, In t (all_tr b) -> key_in ann (canon (fst t)) = true).
      { intros t Ht. apply key_in_spec. unfold all_tr in Ht. apply in_app_or in Ht. destruct Ht as [Ht|Ht].
        - apply names_of_in. split; [exists t; auto|reflexivity].
        - apply Nat.eqb_eq in Eflag. unfold all_tr in Eflag. rewrite names_of_app, app_length in Eflag. fold ann in Eflag.
          assert (Z : names_of (br_undeclared b) (rev ann ++ []) = []) by (destruct (names_of (br_undeclared b) (rev ann ++ [])); [reflexivity|cbn in Eflag; lia]).
          destruct (key_in (rev ann ++ []) (canon (fst t))) eqn:Ek.
          + apply key_in_spec in Ek. rewrite app_nil_r in Ek. apply in_rev. exact Ek.
          + exfalso. assert (X : In (canon (fst t)) (names_of (br_undeclared b) (rev ann ++ []))) by (apply names_of_in; split; [exists t; auto|exact Ek]).
            rewrite Z in X. destruct X. }
      destruct (key_in ann k) eqn:Ea.
      + destruct (Ann_tr k Ea) as (t & Ht & E). rewrite VH, <- E, (Vh t Ht), E. reflexivity.
      + symmetry. apply Vnone. intros t Ht E. rewrite <- E in Ea. rewrite (AllAnn t Ht) in Ea. discriminate.
    - (* some trailer name was not announced: ReverseProxy adds all of them with the TrailerPrefix *)
      assert (VH : forall k', hvalues k' H' = hvalues k' h ++ map snd (filter (fun t => (trailer_prefix ++ canon (fst t))%string =? k') (all_tr b)))
        by (intros k'; rewrite EH'; apply hvalues_fold_add).
      assert (NH' : NoDup (hkeys H')) by (rewrite EH'; apply NoDup_fold_add; exact Nh).
      assert (V1 : hvalues k t1 = []).
      { rewrite Vt1. destruct (key_in ann k) eqn:Ea; [|reflexivity]. destruct (Ann_tr k Ea) as (t & Ht & E).
        rewrite VH, <- E, (Vh t Ht). rewrite filter_none; [reflexivity|]. intros t' Ht'. apply String.eqb_neq. intros X.
        destruct (W t Ht) as (_ & _ & _ & _ & NPk). apply (no_prefix_neq _ (canon (fst t')) NPk). symmetry. exact X. }
      rewrite V1. destruct (key_in hop_tbl k) eqn:Ehop.
      + symmetry. apply Vnone. intros t Ht E. destruct (W t Ht) as (_ & B & _). rewrite E in B. congruence.
      + cbn [app]. rewrite pref_vals_nodup by exact NH'. rewrite VH.
        assert (Hn : hvalues (trailer_prefix ++ k)%string h = []).
        { apply hvalues_notin. intros Hin. specialize (Kh _ Hin). unfold has_prefix in Kh. rewrite prefix_app in Kh. discriminate. }
        rewrite Hn. cbn [app]. unfold vals. f_equal; try (apply filter_ext; intros t; apply append_eqb).
  Qed.

End Trailers.
