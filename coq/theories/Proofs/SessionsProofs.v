(* Proofs for Sessions/Sessions.v (C10). *)
From Coq Require Import List Arith Bool Lia.
From IP Require Import Sessions.Sessions.
Import ListNotations.

Section P.
  Variable K : nat.
  Variable ce : bool.

  Lemma c_find_in sid c j : c_find sid c = Some j -> In (sid, j) c.
  Proof.
    induction c as [|[s k] c IH]; cbn [c_find]; [discriminate|]. destruct (s =? sid) eqn:E.
    - apply Nat.eqb_eq in E. subst. intros H; inversion H; left; reflexivity.
    - intros H. right. apply IH. exact H.
  Qed.

  Lemma c_remove_incl sid c e : In e (c_remove sid c) -> In e c.
  Proof.
    induction c as [|[s k] c IH]; cbn [c_remove]; [tauto|]. destruct (s =? sid); [intros H; right; apply IH; exact H|].
    intros [H|H]; [left; exact H|right; apply IH; exact H].
  Qed.

  Lemma firstn_incl {A} m (c : list A) e : In e (firstn m c) -> In e c.
  Proof. revert c. induction m as [|m IHm]; intros c H; [destruct H|]. destruct c as [|x c]; [destruct H|]. destruct H as [H|H]; [left; exact H|right; apply IHm; exact H]. Qed.

  Lemma bound_incl c e : In e (bound K c) -> In e c.
  Proof. unfold bound. destruct K; [tauto|]. apply firstn_incl. Qed.

  (* lookup never invents anything: for a predicate that holds of every empty jar, the jar returned
     and every entry of the new cache satisfy it if every entry of the old cache did *)
  Lemma lookup_ok (Q : nat * jar -> Prop) sid c : (forall s, Q (s, [])) -> (forall e, In e c -> Q e) ->
    Q (sid, fst (lookup K ce sid c)) /\ (forall e, In e (snd (lookup K ce sid c)) -> Q e).
  Proof.
    intros Q0 HF. unfold lookup. destruct (c_find sid c) as [j|] eqn:E.
    - pose proof (c_find_in _ _ _ E) as Hin. cbn [fst snd]. split; [exact (HF _ Hin)|].
      intros e [He|He]; [subst e; exact (HF _ Hin)|apply HF; eapply c_remove_incl; exact He].
    - destruct ((sid =? 0) && negb ce); cbn [fst snd].
      + split; [apply Q0|exact HF].
      + split; [apply Q0|]. intros e He. apply bound_incl in He. destruct He as [He|He]; [subst e; apply Q0|apply HF; exact He].
  Qed.

  Lemma store_in sid j c e : In e (store sid j c) -> e = (sid, j) \/ (In e c /\ fst e <> sid).
  Proof.
    unfold store. intros H. apply in_map_iff in H. destruct H as (x & Hx & Hin). destruct (fst x =? sid) eqn:E.
    - left. symmetry. exact Hx.
    - right. subst e. split; [exact Hin|]. apply Nat.eqb_neq. exact E.
  Qed.

  (* invariant at request index i *)
  Definition Q (eff : list (nat * nat)) (i : nat) (e : nat * jar) : Prop :=
    (forall k, In k (snd e) -> eff_of k eff = Some (fst e) /\ k < i) /\ (fst e = 0 -> snd e = []).
  Definition SInv (i : nat) (st : sst) : Prop :=
    (forall e, In e (s_cache st) -> Q (s_eff st) i e) /\ 1 <= s_next st /\ (forall k s, eff_of k (s_eff st) = Some s -> k < i).

  Lemma Q_empty eff i s : Q eff i (s, []).
  Proof. split; [intros k []|reflexivity]. Qed.

  Lemma Q_step eff i sid' e : Q eff i e -> Q ((i, sid') :: eff) (S i) e.
  Proof.
    intros [H1 H2]. split; [|exact H2]. intros k Hk. destruct (H1 k Hk) as [A B]. split; [|lia].
    cbn [s_eff eff_of]. destruct (i =? k) eqn:E; [apply Nat.eqb_eq in E; lia|exact A].
  Qed.

  Lemma serve_inv st i use sets : SInv i st ->
    SInv (S i) (fst (serve K ce st i use sets)) /\
    (forall k, In k (o_consulted (snd (serve K ce st i use sets))) -> eff_of k (s_eff st) = Some use /\ k < i) /\
    (use = 0 -> o_consulted (snd (serve K ce st i use sets)) = []).
  Proof.
    intros (HC & HN & HE). unfold serve.
    destruct (lookup_ok (Q (s_eff st) i) use (s_cache st) (Q_empty _ _) HC) as [Hc1 Hc1'].
    destruct (lookup K ce use (s_cache st)) as [consulted c1] eqn:L1. cbn [fst snd] in Hc1, Hc1'.
    set (sid' := if use =? 0 then s_next st else use).
    destruct (lookup_ok (Q (s_eff st) i) sid' c1 (Q_empty _ _) Hc1') as [Hc2 Hc2'].
    destruct (lookup K ce sid' c1) as [j' c2] eqn:L2. cbn [fst snd] in Hc2, Hc2'.
    assert (Hsid : 1 <= sid' \/ use <> 0) by (unfold sid'; destruct (use =? 0) eqn:E; [left; exact HN|right; apply Nat.eqb_neq; exact E]).
    assert (Hsid0 : sid' <> 0) by (unfold sid'; destruct (use =? 0) eqn:E; [lia|apply Nat.eqb_neq; exact E]).
    cbn [fst snd o_consulted s_cache s_eff s_next]. split; [|split].
    - split; [|split].
      + intros e He. destruct sets.
        * apply store_in in He. destruct He as [He|[He _]].
          -- subst e. split; [|cbn [fst]; intros; contradiction]. cbn [fst snd]. intros k Hk. apply in_app_or in Hk. destruct Hk as [Hk|[Hk|[]]].
             ++ destruct Hc2 as [A _]. destruct (A k Hk) as [A1 A2]. cbn [fst] in A1. split; [|lia]. cbn [s_eff eff_of]. destruct (i =? k) eqn:E; [apply Nat.eqb_eq in E; lia|exact A1].
             ++ subst k. split; [|lia]. cbn [s_eff eff_of]. rewrite Nat.eqb_refl. reflexivity.
          -- apply Q_step. apply Hc2'. exact He.
        * apply Q_step. apply Hc2'. exact He.
      + cbn [s_next]. clear - HN. destruct (use =? 0); [apply le_S; exact HN|exact HN].
      + intros k s Hk. cbn [s_eff eff_of] in Hk. destruct (i =? k) eqn:E; [apply Nat.eqb_eq in E; lia|]. specialize (HE k s Hk). lia.
    - intros k Hk. destruct Hc1 as [A _]. exact (A k Hk).
    - intros Hu. destruct Hc1 as [_ B]. apply B. exact Hu.
  Qed.

  (* isolation: whatever is restored into a request was stored by requests of the very session it presents;
     a request without session cookie gets nothing restored *)
  Theorem isolation h : forall st i, SInv i st ->
    Forall2 (fun (uo : (nat * bool)) (o : sout) =>
               (fst uo = 0 -> o_consulted o = []) /\
               (forall k, In k (o_consulted o) -> eff_of k (s_eff (run_state K ce st i h)) = Some (fst uo)))
            h (run K ce st i h).
  Proof.
    induction h as [|[use sets] h IH]; intros st i I; cbn [run run_state]; [constructor|].
    destruct (serve_inv st i use sets I) as (I' & Hc & H0).
    destruct (serve K ce st i use sets) as [st' o] eqn:E. cbn [fst snd] in *. constructor.
    - cbn [fst]. split; [exact H0|]. intros k Hk. destruct (Hc k Hk) as [A B].
      (* later requests only add entries for larger indices *)
      assert (G : forall h st i, SInv i st -> forall k s, k < i -> eff_of k (s_eff st) = Some s -> eff_of k (s_eff (run_state K ce st i h)) = Some s).
      { clear. induction h as [|[u s0] h IHh]; intros st i I k s Hk Hs; cbn [run_state]; [exact Hs|].
        destruct (serve_inv st i u s0 I) as (I' & _ & _). apply (IHh _ (S i) I'); [lia|].
        unfold serve. destruct (lookup K ce u (s_cache st)) as [c0 c1]. destruct (lookup K ce (if u =? 0 then s_next st else u) c1) as [j' c2].
        cbn [fst s_eff eff_of]. destruct (i =? k) eqn:E; [apply Nat.eqb_eq in E; lia|exact Hs]. }
      apply (G h st' (S i) I'); [lia|].
      assert (Est : s_eff st' = (i, if use =? 0 then s_next st else use) :: s_eff st).
      { unfold serve in E. destruct (lookup K ce use (s_cache st)) as [c0 c1]. destruct (lookup K ce (if use =? 0 then s_next st else use) c1) as [j' c2]. inversion E. reflexivity. }
      rewrite Est. cbn [s_eff eff_of]. destruct (i =? k) eqn:E2; [apply Nat.eqb_eq in E2; lia|exact A].
    - apply IH. exact I'.
  Qed.

  Lemma sinv0 : SInv 0 (s0).
  Proof. unfold SInv, s0; cbn. split; [intros e []|]. split; [lia|]. intros k s H. discriminate. Qed.

  (* the session cookie is issued exactly to the clients that presented none, with a fresh session ID *)
  Theorem issued_iff st i use sets : (o_issued (snd (serve K ce st i use sets)) <> None <-> use = 0) /\
    (use = 0 -> o_issued (snd (serve K ce st i use sets)) = Some (s_next st)).
  Proof.
    unfold serve. destruct (lookup K ce use (s_cache st)) as [c0 c1]. destruct (lookup K ce (if use =? 0 then s_next st else use) c1) as [j' c2].
    cbn [snd o_issued]. destruct (use =? 0) eqn:E.
    - apply Nat.eqb_eq in E. split; [split; [intros _; exact E|discriminate]|intros _; reflexivity].
    - apply Nat.eqb_neq in E. split; [split; [intros H; contradiction|intros H; contradiction]|intros H; contradiction].
  Qed.
End P.
