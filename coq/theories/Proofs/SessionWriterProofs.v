(* Proofs about Sessions/Writer.v *)
From Coq Require Import String List Bool ZArith.
From IP Require Import Lib.Header Proofs.HeaderProofs Sessions.Writer.
Import ListNotations.
Local Open Scope Z_scope.

Section SW.
Variable has_session : bool.
Variable sc : string.

Lemma sw_interims : forall (cs : list (Z * header)) s,
  sw_wrote s = false -> Forall (fun c => informational (fst c) = true) cs ->
  fold_left (fun s c => sw_header has_session sc s (fst c) (snd c)) cs s =
  {| sw_wrote := false; sw_out := sw_out s ++ map (fun c => (fst c, hdel set_cookie (snd c))) cs; sw_jar := sw_jar s |}.
Proof.
  induction cs as [|c r IH]; intros s Hw Hf; cbn [fold_left map].
  - rewrite app_nil_r. destruct s; cbn in *; subst; reflexivity.
  - inversion Hf as [|? ? Hc Hr]; subst. unfold sw_header at 2. rewrite Hw, Hc.
    rewrite IH; cbn; auto. rewrite <- List.app_assoc. reflexivity.
Qed.

Lemma sw_after_final : forall (cs : list (Z * header)) s, sw_wrote s = true ->
  fold_left (fun s c => sw_header has_session sc s (fst c) (snd c)) cs s = s.
Proof. induction cs as [|c r IH]; intros s Hw; cbn [fold_left]; [reflexivity|]. unfold sw_header at 2. rewrite Hw. apply IH, Hw. Qed.

Lemma sw_final_step : forall s final h, sw_wrote s = false -> informational final = false ->
  sw_header has_session sc s final h =
  {| sw_wrote := true;
     sw_out := sw_out s ++ [(final, if has_session then hdel set_cookie h else hadd set_cookie sc (hdel set_cookie h))];
     sw_jar := sw_jar s ++ hvalues set_cookie h |}.
Proof. intros s final h Hw Hf. unfold sw_header. rewrite Hw, Hf. reflexivity. Qed.

(* one response: informational responses, the final header, and whatever WriteHeader calls may follow (ignored) *)
Theorem session_writer_exact : forall (is : list (Z * header)) final h (later : list (Z * header)),
  Forall (fun c => informational (fst c) = true) is -> informational final = false ->
  let s := sw_run has_session sc (is ++ [(final, h)] ++ later) in
  sw_out s = map (fun c => (fst c, hdel set_cookie (snd c))) is ++
             [(final, if has_session then hdel set_cookie h else hadd set_cookie sc (hdel set_cookie h))] /\
  sw_jar s = hvalues set_cookie h.
Proof.
  intros is final h later Hi Hf s. subst s. unfold sw_run. rewrite fold_left_app, (sw_interims is sw_init eq_refl Hi).
  cbn [app fold_left fst snd]. rewrite sw_final_step by (try reflexivity; exact Hf).
  rewrite sw_after_final by reflexivity. cbn [sw_out sw_jar sw_init app]. split; reflexivity.
Qed.

(* what the client can see of it: no Set-Cookie of the backend's, ever; exactly one Set-Cookie - the session cookie - on the
   final response of a request that came without a session, none otherwise; the final status; every other field as it was *)
Theorem session_writer_client_view : forall (is : list (Z * header)) final h (later : list (Z * header)),
  Forall (fun c => informational (fst c) = true) is -> informational final = false ->
  let s := sw_run has_session sc (is ++ [(final, h)] ++ later) in
  (forall c hh, In (c, hh) (sw_out s) -> informational c = true -> hvalues set_cookie hh = []) /\
  (exists hh, last (sw_out s) (0, []) = (final, hh) /\
              hvalues set_cookie hh = (if has_session then [] else [sc]) /\
              (forall k, k <> set_cookie -> hvalues k hh = hvalues k h)) /\
  sw_jar s = hvalues set_cookie h.
Proof.
  intros is final h later Hi Hf s. destruct (session_writer_exact is final h later Hi Hf) as [Ho Hj]. fold s in Ho, Hj.
  split; [|split; [|exact Hj]].
  - intros c hh Hin Hc. rewrite Ho in Hin. apply in_app_or in Hin. destruct Hin as [Hin|Hin].
    + apply in_map_iff in Hin. destruct Hin as [x [Hx _]]. injection Hx as _ <-. apply hvalues_hdel_same.
    + cbn in Hin. destruct Hin as [Hin|[]]. injection Hin as <- _. rewrite Hf in Hc. discriminate.
  - rewrite Ho, last_last. eexists; split; [reflexivity|]. destruct has_session.
    + split; [apply hvalues_hdel_same|]. intros k Hk. apply hvalues_hdel_other; exact Hk.
    + split.
      * rewrite hvalues_hadd_same, hvalues_hdel_same. reflexivity.
      * intros k Hk. rewrite hvalues_hadd_other by exact Hk. apply hvalues_hdel_other; exact Hk.
Qed.
End SW.
