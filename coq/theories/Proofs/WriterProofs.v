(* Proofs about Banner/Writer.v: for every sequence of informational responses, every final status and every
   segmentation of the body, the wrapped writer sees the informational responses, the final status, and then either the
   backend's pieces unchanged or the frame page once. *)
From Coq Require Import List Bool ZArith Lia.
From IP Require Import Banner.Banner Banner.Writer.
Import ListNotations.
Local Open Scope Z_scope.

Section W.
Variable dec : Z -> outcome.
Variable page : list nat.

Lemma run_interims : forall (is : list Z) s,
  wrote_header s = false -> Forall (fun c => informational c = true) is ->
  fold_left (w_step dec page) (map WHeader is) s =
  {| wrote_header := false; write_bytes := write_bytes s; wout := wout s ++ map WHeader is |}.
Proof.
  induction is as [|c r IH]; intros s Hw Hf; cbn [map fold_left].
  - rewrite app_nil_r. destruct s; cbn in *; subst; reflexivity.
  - inversion Hf as [|? ? Hc Hr]; subst. cbn [w_step]. unfold w_header at 1. rewrite Hw, Hc.
    rewrite IH; cbn; auto. rewrite <- List.app_assoc. reflexivity.
Qed.

Lemma run_bodies_pass : forall (bs : list (list nat)) s,
  wrote_header s = true -> write_bytes s = true ->
  fold_left (w_step dec page) (map WBody bs) s =
  {| wrote_header := true; write_bytes := true; wout := wout s ++ map WBody bs |}.
Proof.
  induction bs as [|b r IH]; intros s Hw Hb; cbn [map fold_left].
  - rewrite app_nil_r. destruct s; cbn in *; subst; reflexivity.
  - cbn [w_step]. rewrite Hw, Hb. rewrite IH; cbn; auto. rewrite <- List.app_assoc. reflexivity.
Qed.

Lemma run_bodies_drop : forall (bs : list (list nat)) s,
  wrote_header s = true -> write_bytes s = false ->
  fold_left (w_step dec page) (map WBody bs) s = s.
Proof.
  induction bs as [|b r IH]; intros s Hw Hb; cbn [map fold_left]; [reflexivity|].
  cbn [w_step]. rewrite Hw, Hb. apply IH; assumption.
Qed.

(* the calls ReverseProxy makes for one response: informational ones, the final header, the body in any pieces *)
Theorem writer_exact : forall (is : list Z) final (bs : list (list nat)),
  Forall (fun c => informational c = true) is -> informational final = false ->
  wout (w_run dec page (map WHeader is ++ [WHeader final] ++ map WBody bs)) =
  map WHeader is ++ [WHeader final] ++
  match dec final with FramePage => [WBody page] | _ => map WBody bs end.
Proof.
  intros is final bs Hi Hf. unfold w_run. rewrite fold_left_app.
  rewrite (run_interims is w_init eq_refl Hi).
  cbn [app fold_left w_step]. unfold w_header. cbn [wrote_header write_bytes wout w_init app]. rewrite Hf.
  destruct (dec final) eqn:Ed.
  - rewrite run_bodies_pass by reflexivity. cbn [wout]. rewrite <- List.app_assoc. reflexivity.
  - rewrite run_bodies_pass by reflexivity. cbn [wout]. rewrite <- List.app_assoc. reflexivity.
  - rewrite run_bodies_drop by reflexivity. cbn [wout]. reflexivity.
Qed.

(* a handler that writes the body without a header: the implicit 200 *)
Theorem writer_implicit_200 : forall b (bs : list (list nat)),
  wout (w_run dec page (map WBody (b :: bs))) =
  [WHeader 200] ++ match dec 200 with FramePage => [WBody page] | _ => map WBody (b :: bs) end.
Proof.
  intros b bs. unfold w_run. cbn [map fold_left w_step w_init wrote_header]. unfold w_header. cbn [wrote_header w_init].
  replace (informational 200) with false by reflexivity. cbn [wout write_bytes app].
  destruct (dec 200) eqn:Ed; cbn [write_bytes wrote_header wout].
  - rewrite run_bodies_pass; cbn; auto.
  - rewrite run_bodies_pass; cbn; auto.
  - rewrite run_bodies_drop; cbn; auto.
Qed.

(* what the client sees *)
Lemma final_status_interims : forall is r, Forall (fun c => informational c = true) is ->
  final_status (map WHeader is ++ r) = final_status r.
Proof. induction is as [|c t IH]; intros r Hf; cbn; [reflexivity|]. inversion Hf; subst. rewrite H1. apply IH; assumption. Qed.
Lemma body_of_interims : forall is r, body_of (map WHeader is ++ r) = body_of r.
Proof. induction is as [|c t IH]; intros r; cbn; [reflexivity|apply IH]. Qed.
Lemma body_of_bodies : forall bs, body_of (map WBody bs) = concat bs.
Proof. induction bs as [|b r IH]; cbn; [reflexivity|rewrite IH; reflexivity]. Qed.
Lemma interims_of_app : forall is r, Forall (fun c => informational c = true) is ->
  interims_of (map WHeader is ++ r) = is ++ interims_of r.
Proof. induction is as [|c t IH]; intros r Hf; cbn; [reflexivity|]. inversion Hf; subst. rewrite H1. rewrite IH; auto. Qed.
Lemma interims_of_bodies : forall bs, interims_of (map WBody bs) = [].
Proof. induction bs as [|b r IH]; cbn; auto. Qed.

Theorem writer_client_view : forall (is : list Z) final (bs : list (list nat)),
  Forall (fun c => informational c = true) is -> informational final = false ->
  let o := wout (w_run dec page (map WHeader is ++ [WHeader final] ++ map WBody bs)) in
  final_status o = Some final /\ interims_of o = is /\
  body_of o = match dec final with FramePage => page | _ => concat bs end.
Proof.
  intros is final bs Hi Hf o. subst o. rewrite writer_exact by assumption.
  rewrite final_status_interims, body_of_interims, interims_of_app by assumption.
  cbn [app final_status body_of interims_of]. rewrite Hf.
  split; [reflexivity|]. split.
  - destruct (dec final); cbn [interims_of]; rewrite ?interims_of_bodies, ?app_nil_r; reflexivity.
  - destruct (dec final); cbn [body_of]; rewrite ?body_of_bodies, ?app_nil_r; reflexivity.
Qed.
End W.
