(* Proofs for Agent/Isolation.v (C07). *)
From Coq Require Import List Arith Bool String Lia.
From IP Require Import Agent.Isolation.
Import ListNotations.

Lemma wget_wset_other i j w l : j <> i -> wget j (wset i w l) = wget j l.
Proof.
  intros H. induction l as [|[k v] l IH]; cbn [wset wget]; [reflexivity|].
  destruct (i =? k) eqn:E; cbn [wget].
  - apply Nat.eqb_eq in E. subst k. destruct (j =? i) eqn:E2; [apply Nat.eqb_eq in E2; contradiction|reflexivity].
  - destruct (j =? k); [reflexivity|exact IH].
Qed.

Lemma wget_wset_same i w l v : wget i l = Some v -> wget i (wset i w l) = Some w.
Proof.
  induction l as [|[k u] l IH]; cbn [wset wget]; [discriminate|].
  destruct (i =? k) eqn:E; cbn [wget]; rewrite E; [reflexivity|exact IH].
Qed.

(* frame: an event of worker i leaves every other worker as it was *)
Theorem frame fs a e j : (match e with Spawn i | Complete i _ | Fault i _ => j <> i | _ => True end) ->
  wget j (workers (astep fs a e)) = wget j (workers a).
Proof.
  intros H. unfold astep. destruct (alive a); cbn [negb]; [|reflexivity].
  destruct e as [i|i st|i st| |]; cbn [workers]; try reflexivity.
  - destruct (wget i (workers a)); [reflexivity|]. cbn [workers wget]. destruct (j =? i) eqn:E; [apply Nat.eqb_eq in E; contradiction|reflexivity].
  - destruct (wget i (workers a)) as [[| |]|]; try reflexivity. cbn [workers]. apply wget_wset_other. exact H.
  - destruct (wget i (workers a)) as [[| |]|]; try reflexivity. cbn [workers]. apply wget_wset_other. exact H.
Qed.

(* without a fatal call on the request path no sequence of faults ends the agent *)
Theorem no_exit es : forall a, alive a = true -> alive (arun [] a es) = true.
Proof.
  induction es as [|e es IH]; intros a Ha; [exact Ha|]. cbn [arun fold_left]. apply IH.
  unfold astep. rewrite Ha. cbn [negb].
  destruct e as [i|i st|i st| |]; cbn [exits_on_fault negb alive]; try reflexivity.
  - destruct (wget i (workers a)); [exact Ha|reflexivity].
  - destruct (wget i (workers a)) as [[| |]|]; try exact Ha. reflexivity.
  - destruct (wget i (workers a)) as [[| |]|]; try exact Ha. reflexivity.
Qed.

(* a request listed after any history of faults is served normally *)
Theorem served_after es i st : wget i (workers (arun [] a_init es)) = None ->
  wget i (workers (arun [] a_init (es ++ [Spawn i; Complete i st]))) = Some (WAnswered st).
Proof.
  intros Hn. unfold arun in *. rewrite fold_left_app. set (a := fold_left (astep []) es a_init) in *.
  assert (Ha : alive a = true) by (apply (no_exit es a_init); reflexivity).
  cbn [fold_left]. unfold astep at 2. rewrite Ha. cbn [negb]. rewrite Hn.
  unfold astep. cbn [alive negb workers wget]. rewrite Nat.eqb_refl. cbn [wset]. rewrite Nat.eqb_refl. cbn [workers wget]. rewrite Nat.eqb_refl. reflexivity.
Qed.

(* an unreachable backend is answered 502 *)
Theorem unreachable_502 fs a i : alive a = true -> wget i (workers a) = Some WRunning ->
  wget i (workers (astep fs a (Fault i SConnect))) = Some (WAnswered 502).
Proof.
  intros Ha Hw. unfold astep. rewrite Ha. cbn [negb]. rewrite Hw. cbn [workers fault_outcome]. eapply wget_wset_same. exact Hw.
Qed.
