(* C10, completeness inside the window: while a session has always been among the K most
   recently used ones since it first appeared, a request presenting its cookie gets restored
   exactly the Set-Cookie operations of all earlier requests of that session.
   Proofs about Sessions/Sessions.v (the code after the empty-session-ID repair: ce = false). *)
From Coq Require Import List Arith Bool Lia.
From IP Require Import Lib.Lru Sessions.Sessions Proofs.LruProofs.
Import ListNotations.

Definition keys (c : cache) : list nat := map fst c.
Definition bnd {A} (K : nat) (l : list A) : list A := match K with 0 => l | _ => firstn K l end.

Lemma nat_eqb_spec x y : Nat.eqb x y = true <-> x = y.
Proof. apply Nat.eqb_eq. Qed.

Local Notation touchn := (touch Nat.eqb).
Local Notation removen := (remove Nat.eqb).
Local Notation memn := (mem Nat.eqb).

Lemma keys_bound K c : keys (bound K c) = bnd K (keys c).
Proof. unfold bound, bnd, keys. destruct K; [reflexivity|]. symmetry. apply firstn_map. Qed.

Lemma keys_remove s c : keys (c_remove s c) = removen s (keys c).
Proof.
  induction c as [|[k j] r IH]; [reflexivity|]. cbn [c_remove keys map fst remove]. rewrite Nat.eqb_sym.
  destruct (s =? k); [exact IH|]. cbn [keys map fst]. f_equal. exact IH.
Qed.

Lemma keys_store s j c : keys (store s j c) = keys c.
Proof.
  unfold store, keys. rewrite map_map. apply map_ext_in. intros [k j'] _. cbn [fst].
  destruct (Nat.eqb_spec k s); [subst; reflexivity|reflexivity].
Qed.

Lemma find_none_iff s c : c_find s c = None <-> ~ In s (keys c).
Proof.
  induction c as [|[k j] r IH]; cbn [c_find keys map fst In]; [tauto|].
  destruct (Nat.eqb_spec k s) as [E|E]; [split; [discriminate|intros H; exfalso; apply H; left; exact E]|].
  rewrite IH. unfold keys. tauto.
Qed.

Lemma find_some_in s c j : c_find s c = Some j -> In s (keys c).
Proof.
  intros H. destruct (in_dec Nat.eq_dec s (keys c)) as [Hi|Hi]; [exact Hi|]. apply find_none_iff in Hi. congruence.
Qed.

Lemma mem_keys s c : memn s (keys c) = match c_find s c with Some _ => true | None => false end.
Proof.
  destruct (c_find s c) eqn:E.
  - apply (mem_In Nat.eqb nat_eqb_spec). destruct (in_dec Nat.eq_dec s (keys c)) as [H|H]; [exact H|]. apply find_none_iff in H. congruence.
  - apply (mem_nIn Nat.eqb nat_eqb_spec). apply find_none_iff. exact E.
Qed.

(* the cache keys after one lookup of a real session *)
Definition step_keys (K s : nat) (l : list nat) : list nat := if memn s l then touchn s l else bnd K (s :: l).

Lemma keys_lookup K s c : s <> 0 -> keys (snd (lookup K false s c)) = step_keys K s (keys c).
Proof.
  intros Hs. unfold lookup, step_keys. rewrite mem_keys. destruct (c_find s c) as [j|].
  - cbn [snd keys map fst]. unfold touch. f_equal. apply keys_remove.
  - destruct (Nat.eqb_spec s 0); [contradiction|]. cbn [andb snd]. rewrite keys_bound. reflexivity.
Qed.

Lemma touch_touch s l : touchn s (touchn s l) = touchn s l.
Proof.
  unfold touch. cbn [remove]. rewrite Nat.eqb_refl. f_equal.
  apply (remove_notin Nat.eqb nat_eqb_spec). intros H. apply (In_remove Nat.eqb nat_eqb_spec) in H. destruct H as [_ H]. congruence.
Qed.

(* looking the same session up a second time changes nothing *)
Lemma step_keys_front K s l : step_keys K s (step_keys K s l) = step_keys K s l.
Proof.
  destruct (memn s l) eqn:M.
  - assert (E0 : step_keys K s l = touchn s l) by (unfold step_keys; rewrite M; reflexivity). rewrite E0.
    unfold step_keys. assert (E : memn s (touchn s l) = true) by (apply (mem_In Nat.eqb nat_eqb_spec); left; reflexivity).
    rewrite E. apply touch_touch.
  - assert (Hn : ~ In s l) by (apply (mem_nIn Nat.eqb nat_eqb_spec); exact M).
    assert (E0 : step_keys K s l = bnd K (s :: l)) by (unfold step_keys; rewrite M; reflexivity). rewrite E0.
    unfold step_keys. destruct K as [|K]; cbn [bnd firstn mem]; rewrite Nat.eqb_refl; cbn [orb]; unfold touch; cbn [remove]; rewrite Nat.eqb_refl; f_equal;
      apply (remove_notin Nat.eqb nat_eqb_spec); [exact Hn|]. intros H. apply Hn. eapply In_firstn. exact H.
Qed.

(* the bounded key list tracks the K-prefix of the unbounded recency list *)
Lemma step_keys_prefix K s R : NoDup R -> step_keys K s (bnd K R) = bnd K (touchn s R).
Proof.
  intros HN. unfold step_keys. destruct K as [|K]; cbn [bnd].
  - destruct (memn s R) eqn:M; [reflexivity|]. unfold touch. f_equal. symmetry. apply (remove_notin Nat.eqb nat_eqb_spec).
    apply (mem_nIn Nat.eqb nat_eqb_spec). exact M.
  - destruct (memn s (firstn (S K) R)) eqn:M.
    + apply (touch_firstn_in Nat.eqb nat_eqb_spec); [exact HN|]. apply (mem_In Nat.eqb nat_eqb_spec). exact M.
    + apply (touch_firstn_out Nat.eqb nat_eqb_spec); [exact HN|]. apply (mem_nIn Nat.eqb nat_eqb_spec). exact M.
Qed.

(* ---- jars under cache operations ---- *)
Lemma find_remove_other u s c : u <> s -> c_find u (c_remove s c) = c_find u c.
Proof.
  intros H. induction c as [|[k j] r IH]; [reflexivity|]. cbn [c_remove c_find].
  destruct (Nat.eqb_spec k s) as [E|E].
  - subst k. destruct (Nat.eqb_spec s u); [congruence|exact IH].
  - cbn [c_find]. destruct (k =? u); [reflexivity|exact IH].
Qed.

Lemma find_firstn u n c : In u (keys (firstn n c)) -> c_find u (firstn n c) = c_find u c.
Proof.
  revert n. induction c as [|[k j] r IH]; intros [|n] H; cbn [firstn keys map In] in H; try tauto.
  cbn [firstn c_find]. destruct (Nat.eqb_spec k u) as [E|E]; [reflexivity|]. apply IH. cbn [fst] in H. destruct H as [H|H]; [contradiction|exact H].
Qed.

Lemma find_bound K u c : In u (keys (bound K c)) -> c_find u (bound K c) = c_find u c.
Proof. unfold bound. destruct K; [reflexivity|]. apply find_firstn. Qed.

Lemma find_store_other u s j c : u <> s -> c_find u (store s j c) = c_find u c.
Proof.
  intros H. induction c as [|[k j'] r IH]; [reflexivity|]. cbn [store map c_find fst].
  destruct (Nat.eqb_spec k s) as [E|E]; cbn [c_find].
  - subst k. destruct (Nat.eqb_spec s u); [congruence|]. exact IH.
  - destruct (k =? u); [reflexivity|exact IH].
Qed.

Lemma find_store_same s j c : In s (keys c) -> c_find s (store s j c) = Some j.
Proof.
  induction c as [|[k j'] r IH]; intros H; [destruct H|]. cbn [store map c_find fst].
  destruct (Nat.eqb_spec k s) as [E|E]; cbn [c_find].
  - rewrite Nat.eqb_refl. reflexivity.
  - destruct (Nat.eqb_spec k s); [contradiction|]. apply IH. cbn [keys map fst In] in H. destruct H as [H|H]; [contradiction|exact H].
Qed.

Lemma find_lookup_other K u s c : u <> s -> s <> 0 -> In u (keys (snd (lookup K false s c))) ->
  c_find u (snd (lookup K false s c)) = c_find u c.
Proof.
  intros Hus Hs. unfold lookup. destruct (c_find s c) as [j|]; cbn [snd].
  - intros _. cbn [c_find]. destruct (Nat.eqb_spec s u); [congruence|]. apply find_remove_other. exact Hus.
  - destruct (Nat.eqb_spec s 0); [contradiction|]. cbn [andb snd]. intros H. rewrite find_bound by exact H.
    cbn [c_find]. destruct (Nat.eqb_spec s u); [congruence|reflexivity].
Qed.

Lemma lookup_self K s c : s <> 0 ->
  fst (lookup K false s c) = match c_find s c with Some j => j | None => [] end /\
  c_find s (snd (lookup K false s c)) = Some (match c_find s c with Some j => j | None => [] end).
Proof.
  intros Hs. unfold lookup. destruct (c_find s c) as [j|]; cbn [fst snd].
  - split; [reflexivity|]. cbn [c_find]. rewrite Nat.eqb_refl. reflexivity.
  - destruct (Nat.eqb_spec s 0); [contradiction|]. cbn [andb fst snd]. split; [reflexivity|].
    unfold bound. destruct K; cbn [firstn c_find]; rewrite Nat.eqb_refl; reflexivity.
Qed.

Section W.
  Variable K u : nat.
  Hypothesis u_real : u <> 0.

  (* ---- specification: the session a request runs in, the jar a standards-compliant agent would hold ---- *)
  Definition sess_of (next use : nat) : nat := if use =? 0 then next else use.
  Definition next_of (next use : nat) : nat := if use =? 0 then S next else next.

  (* expected: at every request presenting session u, the operations of all earlier requests of that session *)
  Fixpoint expect (next i : nat) (fj : jar) (h : list (nat * bool)) : list (option jar) :=
    match h with
    | [] => []
    | (use, sets) :: r =>
        let s := sess_of next use in
        (if use =? u then Some fj else None)
          :: expect (next_of next use) (S i) (if (s =? u) && sets then fj ++ [i] else fj) r
    end.

  (* from its first appearance on, u is always among the K most recently used sessions (K = 0: no bound) *)
  Fixpoint in_window (R : list nat) (seen : bool) (next : nat) (h : list (nat * bool)) : Prop :=
    match h with
    | [] => True
    | (use, _) :: r =>
        let s := sess_of next use in
        let R' := touch Nat.eqb s R in
        let seen' := seen || (s =? u) in
        (seen' = true -> In u (bnd K R')) /\ in_window R' seen' (next_of next use) r
    end.

  (* clients present only session IDs that were issued *)
  Fixpoint issued_only (next : nat) (h : list (nat * bool)) : Prop :=
    match h with
    | [] => True
    | (use, _) :: r => use < next /\ issued_only (next_of next use) r
    end.

  Record Inv (st : sst) (R : list nat) (seen : bool) (fj : jar) : Prop := {
    i_keys : keys (s_cache st) = bnd K R;
    i_nodup : NoDup R;
    i_range : forall k, In k R -> 0 < k < s_next st;
    i_next : 0 < s_next st;
    i_jar : seen = true -> c_find u (s_cache st) = Some fj;
    i_unseen : seen = false -> ~ In u R /\ fj = []
  }.

  Lemma bnd_incl {A} (l : list A) x : In x (bnd K l) -> In x l.
  Proof. unfold bnd. destruct K; [auto|]. apply In_firstn. Qed.

  Lemma inv_step st R seen fj i use sets : Inv st R seen fj -> use < s_next st ->
    let s := sess_of (s_next st) use in
    let R' := touch Nat.eqb s R in
    let seen' := seen || (s =? u) in
    let fj' := if (s =? u) && sets then fj ++ [i] else fj in
    (seen' = true -> In u (bnd K R')) ->
    Inv (fst (serve K false st i use sets)) R' seen' fj' /\
    s_next (fst (serve K false st i use sets)) = next_of (s_next st) use /\
    (use = u -> o_consulted (snd (serve K false st i use sets)) = fj).
  Proof.
    intros [Ik In_ Ir Inx Ij Iu] Huse s R' seen' fj' Hwin.
    assert (Hs0 : s <> 0) by (unfold s, sess_of; destruct (Nat.eqb_spec use 0); lia).
    assert (Hz : c_find 0 (s_cache st) = None).
    { apply find_none_iff. rewrite Ik. intros H. apply bnd_incl in H. specialize (Ir 0 H). lia. }
    assert (HN' : NoDup R') by (apply (NoDup_touch Nat.eqb nat_eqb_spec); exact In_).
    assert (Hrange' : forall k, In k R' -> 0 < k < next_of (s_next st) use).
    { intros k Hk. apply (In_touch Nat.eqb nat_eqb_spec) in Hk. unfold next_of, s, sess_of in *. destruct (Nat.eqb_spec use 0).
      - destruct Hk as [->|Hk]; [lia|]. specialize (Ir k Hk). lia.
      - destruct Hk as [->|Hk]; [lia|]. exact (Ir k Hk). }
    (* the cache after the request *)
    unfold serve.
    assert (E1 : lookup K false use (s_cache st) = (if use =? 0 then ([], s_cache st) else lookup K false s (s_cache st))).
    { unfold s, sess_of. destruct (Nat.eqb_spec use 0) as [->|]; [|reflexivity]. unfold lookup. rewrite Hz. reflexivity. }
    destruct (lookup K false use (s_cache st)) as [consulted c1] eqn:L1.
    change (if use =? 0 then s_next st else use) with s. set (next' := if use =? 0 then S (s_next st) else s_next st).
    assert (Kc1 : step_keys K s (keys c1) = step_keys K s (keys (s_cache st)) /\
                  (seen = true -> u <> s -> In u (keys (snd (lookup K false s c1))) -> c_find u c1 = Some fj) /\
                  (use = u -> consulted = fj)).
    { destruct (Nat.eqb_spec use 0) as [E0|E0].
      - inversion E1; subst consulted c1. split; [reflexivity|]. split; [intros Hs _ _; exact (Ij Hs)|]. intros ->. contradiction.
      - assert (Eu : s = use) by (unfold s, sess_of; destruct (Nat.eqb_spec use 0); [contradiction|reflexivity]).
        assert (Ec : c1 = snd (lookup K false s (s_cache st))) by (rewrite <- E1; reflexivity).
        assert (Eco : consulted = fst (lookup K false s (s_cache st))) by (rewrite <- E1; reflexivity).
        split; [rewrite Ec, keys_lookup by exact Hs0; apply step_keys_front|]. split.
        + intros Hs Hus Hin. rewrite Ec. rewrite find_lookup_other; [exact (Ij Hs)|exact Hus|exact Hs0|].
          rewrite keys_lookup by exact Hs0. rewrite keys_lookup, Ec, keys_lookup in Hin by exact Hs0. rewrite step_keys_front in Hin. exact Hin.
        + intros Hu. rewrite Eco. destruct (lookup_self K s (s_cache st) Hs0) as [-> _]. rewrite Eu, Hu.
          destruct seen.
          * rewrite (Ij eq_refl). reflexivity.
          * destruct (Iu eq_refl) as [Hn ->]. assert (c_find u (s_cache st) = None) as ->; [|reflexivity].
            apply find_none_iff. rewrite Ik. intros H. apply Hn. apply bnd_incl in H. exact H. }
    destruct Kc1 as (Kk & Kj & Kcons).
    destruct (lookup K false s c1) as [j' c2] eqn:L2.
    assert (Kc2 : keys c2 = bnd K R').
    { change c2 with (snd (j', c2)). rewrite <- L2, keys_lookup by exact Hs0. rewrite Kk, Ik. apply step_keys_prefix. exact In_. }
    assert (Hsk : In s (keys c2)).
    { change c2 with (snd (j', c2)). rewrite <- L2. destruct (lookup_self K s c1 Hs0) as [_ H]. exact (find_some_in _ _ _ H). }
    set (c3 := if sets then store s (j' ++ [i]) c2 else c2).
    assert (Kc3 : keys c3 = bnd K R') by (unfold c3; destruct sets; [rewrite keys_store|]; exact Kc2).
    cbn [fst snd s_cache s_next o_consulted].
    split; [|split; [reflexivity|exact Kcons]].
    constructor; cbn [s_cache s_next]; try assumption; try (unfold next'; destruct (use =? 0); lia).
    - (* the jar of u *)
      intros Hseen'. unfold fj'. destruct (Nat.eqb_spec s u) as [Esu|Esu]; cbn [andb].
      + (* this request runs in session u *)
        assert (Ej' : j' = fj).
        { change j' with (fst (j', c2)). rewrite <- L2. destruct (lookup_self K s c1 Hs0) as [-> _].
          destruct (Nat.eqb_spec use 0) as [E0|E0].
          - (* u has just been issued: it was never seen *)
            inversion E1; subst c1. assert (Hsn : s = s_next st) by (unfold s, sess_of; rewrite E0; reflexivity).
            assert (Hnotin : ~ In u R) by (intros H; specialize (Ir u H); lia).
            assert (c_find s (s_cache st) = None) as ->.
            { apply find_none_iff. rewrite Ik, Esu. intros H. apply Hnotin. apply bnd_incl in H. exact H. }
            destruct seen; [|destruct (Iu eq_refl) as [_ ->]; reflexivity].
            exfalso. specialize (Ij eq_refl). assert (In u (keys (s_cache st))) by exact (find_some_in _ _ _ Ij).
            rewrite Ik in H. apply Hnotin. apply bnd_incl in H. exact H.
          - assert (Eu : s = use) by (unfold s, sess_of; destruct (Nat.eqb_spec use 0); [contradiction|reflexivity]).
            assert (Ec : c1 = snd (lookup K false s (s_cache st))) by (rewrite <- E1; reflexivity).
            rewrite Ec. destruct (lookup_self K s (s_cache st) Hs0) as [_ ->].
            rewrite <- (Kcons (eq_trans (eq_sym Eu) Esu)).
            assert (consulted = fst (lookup K false s (s_cache st))) by (rewrite <- E1; reflexivity). rewrite H.
            destruct (lookup_self K s (s_cache st) Hs0) as [-> _]. reflexivity. }
        assert (Hfind2 : c_find s c2 = Some j').
        { change c2 with (snd (j', c2)). change j' with (fst (j', c2)) at 2. rewrite <- L2. destruct (lookup_self K s c1 Hs0) as [-> ->]. reflexivity. }
        unfold c3. rewrite <- Esu. destruct sets.
        * rewrite find_store_same by exact Hsk. rewrite Ej'. reflexivity.
        * rewrite Hfind2, Ej'. reflexivity.
      + (* another session: u must have been seen before *)
        assert (Hs : seen = true) by (unfold seen' in Hseen'; destruct seen; [reflexivity|]; cbn [orb] in Hseen'; first [discriminate | apply Nat.eqb_eq in Hseen'; congruence]).
        assert (Hus : u <> s) by congruence.
        assert (Hin3 : In u (keys c2)) by (rewrite Kc2; apply Hwin; exact Hseen').
        assert (F2 : c_find u c2 = Some fj).
        { assert (X : c_find u (snd (lookup K false s c1)) = c_find u c1) by (apply find_lookup_other; [exact Hus|exact Hs0|rewrite L2; exact Hin3]).
          rewrite L2 in X. cbn [snd] in X. rewrite X. apply Kj; [exact Hs|exact Hus|exact Hin3]. }
        cbn [andb]. unfold c3. destruct sets; [rewrite find_store_other by exact Hus|]; exact F2.
    - intros Hseen'. unfold seen' in Hseen'. apply orb_false_iff in Hseen'. destruct Hseen' as [Hs Hsu]. apply Nat.eqb_neq in Hsu.
      destruct (Iu Hs) as [Hn ->]. split.
      + intros H. apply (In_touch Nat.eqb nat_eqb_spec) in H. destruct H as [H|H]; [congruence|exact (Hn H)].
      + unfold fj'. destruct (Nat.eqb_spec s u); [contradiction|reflexivity].
  Qed.

  Definition agrees (e : option jar) (o : sout) : Prop := match e with Some j => o_consulted o = j | None => True end.

  Theorem window_complete_gen : forall h st i R seen fj,
    Inv st R seen fj -> issued_only (s_next st) h -> in_window R seen (s_next st) h ->
    Forall2 agrees (expect (s_next st) i fj h) (run K false st i h).
  Proof.
    induction h as [|[use sets] r IH]; intros st i R seen fj HI Hiss Hwin; cbn [expect run]; [constructor|].
    cbn [issued_only in_window] in Hiss, Hwin. destruct Hiss as [Huse Hiss]. destruct Hwin as [Hw Hwin].
    destruct (inv_step st R seen fj i use sets HI Huse Hw) as (HI' & Hnext & Hcons).
    destruct (serve K false st i use sets) as [st' o] eqn:E. cbn [fst snd] in *.
    constructor.
    - unfold agrees. destruct (Nat.eqb_spec use u) as [Eu|Eu]; [exact (Hcons Eu)|exact I].
    - rewrite <- Hnext. apply (IH st' (S i) _ _ _ HI'); rewrite Hnext; assumption.
  Qed.

  Lemma inv0 : Inv s0 [] false [].
  Proof.
    constructor; cbn [s0 s_cache s_next keys map]; try discriminate.
    - unfold bnd. destruct K; reflexivity.
    - constructor.
    - intros k [].
    - lia.
    - intros _. split; [intros []|reflexivity].
  Qed.

  (* for every history of requests over any number of sessions in which clients present only issued
     session cookies: as long as session u has always been among the K most recently used sessions
     since it first appeared, every request presenting u is given exactly the Set-Cookie operations of
     all earlier requests of session u, in order *)
  Theorem window_complete h : issued_only 1 h -> in_window [] false 1 h ->
    Forall2 agrees (expect 1 0 [] h) (run K false s0 0 h).
  Proof. intros H1 H2. exact (window_complete_gen h s0 0 [] false [] inv0 H1 H2). Qed.

End W.
