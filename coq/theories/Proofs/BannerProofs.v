(* Proofs for Codec/ReplaceFirst.v and Banner/Banner.v (C14). *)
From Coq Require Import List Arith Bool Lia String ZArith.
From IP Require Import Codec.ReplaceFirst Lib.Header Banner.Banner Proofs.HeaderProofs.
Import ListNotations.

Lemma skipn_skipn {A} (a b : nat) (l : list A) : skipn a (skipn b l) = skipn (b + a) l.
Proof. revert l. induction b as [|b IH]; intros l; [reflexivity|]. destruct l as [|x l]; [destruct a; reflexivity|]. cbn [skipn plus]. apply IH. Qed.

Lemma prefixb_spec p s : prefixb p s = true <-> firstn (List.length p) s = p.
Proof.
  revert s. induction p as [|x p IH]; intros s; cbn [prefixb List.length firstn]; [tauto|].
  destruct s as [|y s]; [split; discriminate|]. rewrite andb_true_iff, Nat.eqb_eq, IH. cbn [firstn]. split.
  - intros [-> ->]. reflexivity.
  - intros H. inversion H. subst. rewrite H2. tauto.
Qed.

(* find returns the first position at which the pattern occurs *)
Lemma find_some pat s i : find pat s = Some i ->
  prefixb pat (skipn i s) = true /\ (forall j, j < i -> prefixb pat (skipn j s) = false) /\ i < List.length s.
Proof.
  revert i. induction s as [|c s IH]; intros i H; cbn [find] in H; [discriminate|].
  destruct (prefixb pat (c :: s)) eqn:E.
  - inversion H; subst. cbn [skipn List.length]. repeat split; [exact E|intros j Hj; lia|lia].
  - destruct (find pat s) as [k|] eqn:F; [|discriminate]. inversion H; subst. destruct (IH k eq_refl) as (A & B & L).
    cbn [skipn List.length]. repeat split; [exact A| |lia]. intros [|j] Hj; cbn [skipn]; [exact E|apply B; lia].
Qed.

Lemma find_none pat s : pat <> [] -> find pat s = None -> forall j, prefixb pat (skipn j s) = false.
Proof.
  intros Hp. induction s as [|c s IH]; intros H j; cbn [find] in H.
  - destruct j; cbn [skipn]; destruct pat; try contradiction; reflexivity.
  - destruct (prefixb pat (c :: s)) eqn:E; [discriminate|]. destruct (find pat s) eqn:F; [discriminate|].
    destruct j; cbn [skipn]; [exact E|apply IH; reflexivity].
Qed.

(* replace_first: unchanged without occurrence; otherwise the insertion sits right after the first occurrence and nothing else changes *)
Theorem replace_first_spec pat ins s : pat <> [] ->
  (replace_first pat ins s = s /\ forall j, prefixb pat (skipn j s) = false) \/
  (exists i, s = firstn i s ++ pat ++ skipn (i + List.length pat) s /\
             replace_first pat ins s = firstn i s ++ pat ++ ins ++ skipn (i + List.length pat) s /\
             forall j, j < i -> prefixb pat (skipn j s) = false).
Proof.
  intros Hp. unfold replace_first. destruct (find pat s) as [i|] eqn:F.
  - right. destruct (find_some pat s i F) as (A & B & L). exists i. split; [|split; [reflexivity|exact B]].
    apply prefixb_spec in A. rewrite <- (firstn_skipn i s) at 1. f_equal.
    rewrite <- (firstn_skipn (List.length pat) (skipn i s)) at 1. rewrite A. f_equal. rewrite skipn_skipn. reflexivity.
  - left. split; [reflexivity|apply find_none; assumption].
Qed.

Lemma prefixb_self p : forall s, prefixb p s = prefixb p (firstn (List.length p) s).
Proof.
  induction p as [|x p IH]; intros s; cbn [prefixb List.length firstn]; [reflexivity|].
  destruct s as [|y s]; [reflexivity|]. cbn [prefixb]. rewrite <- IH. reflexivity.
Qed.

(* an occurrence that lies entirely inside the first k bytes is an occurrence of the prefix and conversely *)
Lemma prefixb_firstn pat s k j : j + List.length pat <= k -> prefixb pat (skipn j (firstn k s)) = prefixb pat (skipn j s).
Proof.
  intros H. rewrite (prefixb_self pat (skipn j (firstn k s))), (prefixb_self pat (skipn j s)). f_equal.
  rewrite skipn_firstn_comm, firstn_firstn. f_equal. lia.
Qed.

Lemma skipn_firstn_rest {A} n k (l : list A) : n <= Nat.min k (List.length l) ->
  skipn n (firstn k l) ++ skipn k l = skipn n l.
Proof.
  intros H. rewrite <- (firstn_skipn k l) at 3. rewrite skipn_app, firstn_length.
  replace (n - Nat.min k (List.length l)) with 0 by lia. reflexivity.
Qed.

Theorem shim_body_spec pat script body k : pat <> [] ->
  shim_body pat script body k = body \/
  (exists i, body = firstn i body ++ pat ++ skipn (i + List.length pat) body /\
             shim_body pat script body k = firstn i body ++ pat ++ script ++ skipn (i + List.length pat) body /\
             (forall j, j < i -> prefixb pat (skipn j body) = false)).
Proof.
  intros Hp. unfold shim_body, replace_first. destruct (find pat (firstn k body)) as [i|] eqn:F.
  - right. exists i. destruct (find_some pat (firstn k body) i F) as (A & B & L).
    assert (A' := A). apply prefixb_spec in A'.
    assert (Hik : i + List.length pat <= Nat.min k (List.length body)).
    { assert (Hl : List.length (firstn (List.length pat) (skipn i (firstn k body))) = List.length pat) by (rewrite A'; reflexivity).
      rewrite firstn_length, skipn_length, firstn_length in Hl. rewrite firstn_length in L. lia. }
    assert (Ab : prefixb pat (skipn i body) = true) by (rewrite <- (prefixb_firstn pat body k i) by lia; exact A).
    apply prefixb_spec in Ab.
    assert (F1 : firstn i (firstn k body) = firstn i body) by (rewrite firstn_firstn; f_equal; lia).
    split; [|split].
    + rewrite <- (firstn_skipn i body) at 1. f_equal.
      rewrite <- (firstn_skipn (List.length pat) (skipn i body)) at 1. rewrite Ab. f_equal. rewrite skipn_skipn. reflexivity.
    + rewrite F1. rewrite <- !app_assoc. do 3 f_equal. apply skipn_firstn_rest. exact Hik.
    + intros j Hj. rewrite <- (prefixb_firstn pat body k j) by lia. apply B. exact Hj.
  - left. apply firstn_skipn.
Qed.

(* ---- banner ---- *)
Lemma banner_passthrough q st cds cts :
  banner_outcome q st cds cts <> Passthrough -> is_html_request q = true /\ is_frameable st cds cts = true.
Proof.
  unfold banner_outcome. destruct (is_html_request q); cbn [negb]; [|congruence].
  destruct (is_frameable st cds cts); cbn [negb]; [auto|congruence].
Qed.
