(* Proofs for Websockets/Shim.v (C12). *)
From Coq Require Import List Arith Bool Lia.
From IP Require Import Websockets.Shim.
Import ListNotations.

(* Guarded mode: the channel is closed only together with the flag, and no step ever panics *)
Definition GInv (s : sst) : Prop := panicked s = false /\ (ch_closed s = true -> flag_closed s = true) /\
  (forall t, tget t (threads s) <> Some CloseSent /\ tget t (threads s) <> Some DataChecked).

Lemma tget_tset t u p l : tget u (tset t p l) = if u =? t then (match tget t l with Some _ => Some p | None => None end) else tget u l.
Proof.
  induction l as [|[v q] l IH]; cbn [tset tget]; [destruct (u =? t); reflexivity|].
  destruct (t =? v) eqn:E; cbn [tget].
  - apply Nat.eqb_eq in E. subst v. destruct (u =? t) eqn:E2; [reflexivity|reflexivity].
  - destruct (u =? v) eqn:E2.
    + apply Nat.eqb_eq in E2. subst v. destruct (u =? t) eqn:E3; [apply Nat.eqb_eq in E3; subst; rewrite Nat.eqb_refl in E; discriminate|reflexivity].
    + rewrite IH. destruct (u =? t); reflexivity.
Qed.

Lemma ginv_step cap s l s' : GInv s -> sstep Guarded cap s l = Some s' -> GInv s'.
Proof.
  intros (Hp & Hc & Ht) Hs. unfold sstep in Hs. rewrite Hp in Hs.
  assert (Tset : forall t p, p <> CloseSent -> p <> DataChecked -> forall u, tget u (tset t p (threads s)) <> Some CloseSent /\ tget u (tset t p (threads s)) <> Some DataChecked).
  { intros t p H1 H2 u. rewrite tget_tset. destruct (u =? t); [|apply Ht]. destruct (tget t (threads s)); split; congruence. }
  Ltac fin Tset := unfold keep, upd, GInv; cbn [panicked ch_closed flag_closed threads];
    split; [first [reflexivity|assumption]|split; [try assumption; try (intros _; reflexivity); try (intros; assumption)|apply Tset; try discriminate]].
  destruct l as [t| |].
  - destruct (tget t (threads s)) as [p|] eqn:Et; [|discriminate].
    destruct p; try discriminate; try (exfalso; destruct (Ht t) as [A B]; congruence).
    + (* CloseStart *) injection Hs as <-. fin Tset; destruct (in_table s); discriminate.
    + (* CloseLoaded *) injection Hs as <-. fin Tset.
    + (* CloseDeleted *)
      destruct (flag_closed s) eqn:Ef.
      * injection Hs as <-. fin Tset.
      * destruct (qlen s <? cap).
        -- injection Hs as <-. fin Tset.
        -- destruct (done s); [|discriminate]. injection Hs as <-. fin Tset.
    + (* DataStart *) injection Hs as <-. fin Tset; destruct (in_table s); discriminate.
    + (* DataLoaded *)
      destruct (flag_closed s || done s) eqn:Ef.
      * injection Hs as <-. fin Tset.
      * destruct (qlen s <? cap); [|discriminate]. injection Hs as <-. fin Tset.
  - destruct (done s); [discriminate|]. destruct (qlen s) as [|q].
    + destruct (ch_closed s) eqn:Ec; [|discriminate]. injection Hs as <-. unfold GInv; cbn [panicked ch_closed flag_closed threads].
      split; [reflexivity|]. split; [intros _; apply Hc; reflexivity|exact Ht].
    + injection Hs as <-. unfold GInv; cbn [panicked ch_closed flag_closed threads]. split; [reflexivity|]. split; assumption.
  - injection Hs as <-. unfold GInv; cbn [panicked ch_closed flag_closed threads]. split; [reflexivity|]. split; assumption.
Qed.

Lemma ginv_run cap ls : forall s s', GInv s -> srun Guarded cap s ls = Some s' -> GInv s'.
Proof.
  induction ls as [|l ls IH]; intros s s' I H; cbn [srun] in H; [inversion H; subst; exact I|].
  destruct (sstep Guarded cap s l) as [s1|] eqn:E; [|discriminate]. eapply IH; [|exact H]. eapply ginv_step; eassumption.
Qed.

Lemma tget_start ths : Forall (fun tp => snd tp = CloseStart \/ snd tp = DataStart) ths ->
  forall t, tget t ths <> Some CloseSent /\ tget t ths <> Some DataChecked.
Proof.
  induction 1 as [|[u p] ths Hp HF IH]; intros t; cbn [tget]; [split; discriminate|].
  destruct (t =? u); [|apply IH]. cbn [snd] in Hp. destruct Hp as [-> | ->]; split; discriminate.
Qed.

(* any number of close and data calls on one session, in any interleaving, with the writer
   and the backend doing what they want: no panic *)
Theorem guarded_no_panic cap ths ls s : Forall (fun tp => snd tp = CloseStart \/ snd tp = DataStart) ths ->
  srun Guarded cap (s_init ths) ls = Some s -> panicked s = false.
Proof.
  intros HF H. assert (I : GInv (s_init ths)).
  { unfold GInv, s_init; cbn [panicked ch_closed flag_closed threads]. split; [reflexivity|]. split; [discriminate|]. apply tget_start. exact HF. }
  exact (proj1 (ginv_run cap ls _ _ I H)).
Qed.

(* every reply of the guarded handlers is 200 or 400 *)
Definition replies_ok (s : sst) : Prop := forall t st, tget t (threads s) = Some (Replied st) -> st = 200 \/ st = 400.

Lemma replies_step cap s l s' : replies_ok s -> sstep Guarded cap s l = Some s' -> replies_ok s'.
Proof.
  intros HR Hs. unfold sstep in Hs. destruct (panicked s); [discriminate|].
  assert (G : forall t p, (forall st, p = Replied st -> st = 200 \/ st = 400) -> replies_ok {| in_table := in_table s; flag_closed := flag_closed s; ch_closed := ch_closed s; qlen := qlen s; done := done s; threads := tset t p (threads s); panicked := false |} ).
  { intros t p Hp u st. cbn [threads]. rewrite tget_tset. destruct (u =? t).
    - destruct (tget t (threads s)); [|discriminate]. intros E. inversion E. apply Hp. assumption.
    - apply HR. }
  assert (G2 : forall t p tb fl cc q pan, (forall st, p = Replied st -> st = 200 \/ st = 400) -> replies_ok (upd s t p tb fl cc q pan)).
  { intros t p tb fl cc q pan Hp u st. unfold upd. cbn [threads]. rewrite tget_tset. destruct (u =? t).
    - destruct (tget t (threads s)); [|discriminate]. intros E. inversion E. apply Hp. assumption.
    - apply HR. }
  destruct l as [t| |].
  - destruct (tget t (threads s)) as [p|] eqn:Et; [|discriminate]. destruct p; try discriminate.
    + injection Hs as <-. unfold keep. apply G2. intros st. destruct (in_table s); [discriminate|]. intros E; inversion E; auto.
    + injection Hs as <-. apply G2. discriminate.
    + destruct (flag_closed s).
      * injection Hs as <-. unfold keep. apply G2. intros st E; inversion E; auto.
      * destruct (qlen s <? cap); [injection Hs as <-; apply G2; intros st E; inversion E; auto|].
        destruct (done s); [|discriminate]. injection Hs as <-. apply G2. intros st E; inversion E; auto.
    + destruct (ch_closed s); injection Hs as <-; apply G2; try discriminate. intros st E; inversion E; auto.
    + injection Hs as <-. unfold keep. apply G2. intros st. destruct (in_table s); [discriminate|]. intros E; inversion E; auto.
    + destruct (flag_closed s || done s).
      * injection Hs as <-. unfold keep. apply G2. intros st E; inversion E; auto.
      * destruct (qlen s <? cap); [|discriminate]. injection Hs as <-. apply G2. intros st E; inversion E; auto.
    + destruct (ch_closed s); [injection Hs as <-; apply G2; discriminate|]. destruct (qlen s <? cap); [|discriminate]. injection Hs as <-. apply G2. intros st E; inversion E; auto.
  - destruct (done s); [discriminate|]. destruct (qlen s); [destruct (ch_closed s); [|discriminate]|]; injection Hs as <-; exact HR.
  - injection Hs as <-. exact HR.
Qed.

(* ------------------------------------------------------------------ no call is left hanging (guarded code) *)

Definition rem (p : pc) : nat :=
  match p with
  | CloseStart => 3 | CloseLoaded => 2 | CloseDeleted => 1 | CloseSent => 1
  | DataStart => 2 | DataLoaded => 1 | DataChecked => 1 | Replied _ => 0
  end.
Definition work_of (l : list (nat * pc)) : nat := fold_right (fun tp a => rem (snd tp) + a) 0 l.
Definition work (s : sst) : nat := work_of (threads s).

Lemma work_tset t p q l : tget t l = Some q -> work_of (tset t p l) + rem q = work_of l + rem p.
Proof.
  induction l as [|[u r] l IH]; cbn [tget tset]; [discriminate|]. destruct (t =? u).
  - intros H; inversion H; subst. cbn [work_of fold_right snd]. lia.
  - intros H. cbn [work_of fold_right snd]. specialize (IH H). unfold work_of in IH. lia.
Qed.

(* every action of a call uses up some of its remaining work; the writer and the backend do not add any *)
Theorem guarded_step_decreases cap s t s' : GInv s -> sstep Guarded cap s (Step t) = Some s' -> work s' < work s.
Proof.
  intros (Hp & _ & Ht) Hs. unfold sstep in Hs. rewrite Hp in Hs.
  destruct (tget t (threads s)) as [p|] eqn:Et; [|discriminate].
  assert (W : forall p', rem p' < rem p -> work_of (tset t p' (threads s)) < work_of (threads s)).
  { intros p' Hlt. pose proof (work_tset t p' p (threads s) Et). lia. }
  destruct p; try discriminate; try (exfalso; destruct (Ht t) as [A B]; congruence).
  - injection Hs as <-. unfold work, keep, upd. cbn [threads]. apply W. destruct (in_table s); cbn; lia.
  - injection Hs as <-. unfold work, upd. cbn [threads]. apply W. cbn; lia.
  - destruct (flag_closed s).
    + injection Hs as <-. unfold work, keep, upd. cbn [threads]. apply W. cbn; lia.
    + destruct (qlen s <? cap).
      * injection Hs as <-. unfold work, upd. cbn [threads]. apply W. cbn; lia.
      * destruct (done s); [|discriminate]. injection Hs as <-. unfold work, upd. cbn [threads]. apply W. cbn; lia.
  - injection Hs as <-. unfold work, keep, upd. cbn [threads]. apply W. destruct (in_table s); cbn; lia.
  - destruct (flag_closed s || done s).
    + injection Hs as <-. unfold work, keep, upd. cbn [threads]. apply W. cbn; lia.
    + destruct (qlen s <? cap); [|discriminate]. injection Hs as <-. unfold work, upd. cbn [threads]. apply W. cbn; lia.
Qed.

Theorem guarded_env_keeps_work cap s l s' : (l = WriterPop \/ l = CtxDone) -> sstep Guarded cap s l = Some s' -> work s' = work s.
Proof.
  intros [-> | ->] Hs; unfold sstep in Hs; destruct (panicked s); try discriminate.
  - destruct (done s); [discriminate|]. destruct (qlen s); [destruct (ch_closed s); [|discriminate]|]; injection Hs as <-; reflexivity.
  - injection Hs as <-. reflexivity.
Qed.

Definition is_step (l : slbl) : bool := match l with Step _ => true | _ => false end.

(* hence, whatever the interleaving, the calls together take at most `work` actions *)
Theorem guarded_steps_bounded cap ls : forall s s', GInv s -> srun Guarded cap s ls = Some s' ->
  length (filter is_step ls) + work s' <= work s.
Proof.
  induction ls as [|l ls IH]; intros s s' I H; cbn [srun] in H; [inversion H; subst; cbn; lia|].
  destruct (sstep Guarded cap s l) as [s1|] eqn:E; [|discriminate].
  specialize (IH s1 s' (ginv_step cap s l s1 I E) H). destruct l as [t| |]; cbn [filter is_step length].
  - pose proof (guarded_step_decreases cap s t s1 I E). lia.
  - rewrite (guarded_env_keeps_work cap s WriterPop s1 (or_introl eq_refl) E) in IH. exact IH.
  - rewrite (guarded_env_keeps_work cap s CtxDone s1 (or_intror eq_refl) E) in IH. exact IH.
Qed.

(* a call that has not been answered can always take its next action, except when it has to put a
   message into a full queue whose writer is still running - and then the writer can take one *)
Theorem guarded_progress cap s t p : GInv s -> 1 <= cap -> tget t (threads s) = Some p -> (forall st, p <> Replied st) ->
  sstep Guarded cap s (Step t) <> None \/
  (done s = false /\ cap <= qlen s /\ sstep Guarded cap s WriterPop <> None).
Proof.
  intros (Hp & _ & Ht) Hc Et Hn. unfold sstep. rewrite Hp, Et.
  destruct p; try (left; discriminate); try (exfalso; destruct (Ht t) as [A B]; congruence); try (exfalso; eapply Hn; reflexivity).
  - (* CloseDeleted *)
    destruct (flag_closed s); [left; discriminate|]. destruct (Nat.ltb_spec (qlen s) cap) as [L|L]; [left; discriminate|].
    destruct (done s) eqn:Ed; [left; discriminate|]. right. split; [reflexivity|]. split; [exact L|].
    destruct (qlen s); [lia|discriminate].
  - (* DataLoaded *)
    destruct (flag_closed s); cbn [orb]; [left; discriminate|]. destruct (done s) eqn:Ed; [left; discriminate|].
    destruct (Nat.ltb_spec (qlen s) cap) as [L|L]; [left; discriminate|]. right. split; [reflexivity|]. split; [exact L|].
    destruct (qlen s); [lia|discriminate].
Qed.

(* once the backend connection is gone every pending call can proceed *)
Theorem guarded_progress_when_done cap s t p : GInv s -> done s = true -> tget t (threads s) = Some p -> (forall st, p <> Replied st) ->
  sstep Guarded cap s (Step t) <> None.
Proof.
  intros (Hp & _ & Ht) Hd Et Hn. unfold sstep. rewrite Hp, Et.
  destruct p; try discriminate; try (exfalso; destruct (Ht t) as [A B]; congruence); try (exfalso; eapply Hn; reflexivity).
  - destruct (flag_closed s); [discriminate|]. destruct (qlen s <? cap); [discriminate|]. rewrite Hd. discriminate.
  - rewrite Hd, orb_true_r. discriminate.
Qed.
