(* Proofs for Codec/Chunked.v: the chunked transfer coding round trip, for every segmentation. *)
From Coq Require Import List Arith Bool Lia.
From IP Require Import Codec.Hex Codec.Chunked Proofs.BridgeProofs.
Import ListNotations.

Local Arguments Nat.div : simpl never.
Local Arguments Nat.modulo : simpl never.

(* ---------- the size line ---------- *)
Definition val_rev (l : list nat) : nat := fold_right (fun d v => d + 16 * v) 0 l.

Lemma digits_val f : forall n, n < f -> val_rev (digits_rev f n) = n.
Proof.
  induction f as [|f IH]; intros n H; [lia|]. cbn [digits_rev]. destruct (n / 16 =? 0) eqn:E.
  - apply Nat.eqb_eq in E. cbn [val_rev fold_right]. pose proof (Nat.div_mod n 16 ltac:(lia)). lia.
  - apply Nat.eqb_neq in E. cbn [val_rev fold_right]. fold (val_rev (digits_rev f (n / 16))).
    assert (n / 16 < f). { pose proof (Nat.div_lt n 16). assert (0 < n) by (destruct n; [exfalso; apply E; reflexivity|lia]). lia. }
    rewrite IH by assumption. pose proof (Nat.div_mod n 16 ltac:(lia)). lia.
Qed.

Lemma digits_small f : forall n, Forall (fun d => d < 16) (digits_rev f n).
Proof.
  induction f as [|f IH]; intros n; cbn [digits_rev]; [constructor|]. constructor; [apply Nat.mod_upper_bound; lia|].
  destruct (n / 16 =? 0); [constructor|apply IH].
Qed.

Lemma digits_nonempty f n : digits_rev (S f) n <> [].
Proof. cbn [digits_rev]. discriminate. Qed.

Lemma of_hex_acc_app xs : forall ys a, of_hex_acc (xs ++ ys) a = match of_hex_acc xs a with Some v => of_hex_acc ys v | None => None end.
Proof.
  induction xs as [|x xs IH]; intros ys a; cbn [app of_hex_acc]; [reflexivity|]. destruct (unhex x); [apply IH|reflexivity].
Qed.

Lemma of_hex_rev l : Forall (fun d => d < 16) l -> of_hex_acc (map hexdigit (rev l)) 0 = Some (val_rev l).
Proof.
  induction l as [|d l IH]; intros H; [reflexivity|]. inversion H as [|? ? Hd Hl]; subst. cbn [rev]. rewrite map_app, of_hex_acc_app, (IH Hl).
  cbn [map of_hex_acc]. rewrite (unhex_hexdigit d Hd). cbn [val_rev fold_right]. fold (val_rev l). f_equal. lia.
Qed.

Lemma to_hex_nonempty n : to_hex n <> [].
Proof.
  unfold to_hex. intro H. apply map_eq_nil in H. apply (f_equal (@rev nat)) in H. rewrite rev_involutive in H. exact (digits_nonempty n n H).
Qed.

Theorem of_hex_to_hex n : of_hex (to_hex n) = Some n.
Proof.
  unfold of_hex. destruct (to_hex n) eqn:E; [exfalso; exact (to_hex_nonempty n E)|]. rewrite <- E. unfold to_hex.
  rewrite (of_hex_rev _ (digits_small (S n) n)). rewrite digits_val by lia. reflexivity.
Qed.

Lemma hexdigit_ge d : d < 16 -> 48 <= hexdigit d.
Proof. intros H. unfold hexdigit. destruct (d <? 10); lia. Qed.

Lemma to_hex_chars n : Forall (fun c => 48 <= c) (to_hex n).
Proof.
  unfold to_hex. apply Forall_map. apply Forall_rev. eapply Forall_impl; [|apply digits_small]. intros d Hd. apply hexdigit_ge. exact Hd.
Qed.

(* ---------- finding the end of a line ---------- *)
Lemma split_crlf_cons c r : (c =? CR) = false ->
  split_crlf (c :: r) = match r with [] => None | _ :: _ => match split_crlf r with Some (a, b) => Some (c :: a, b) | None => None end end.
Proof. intros H. cbn [split_crlf]. destruct r as [|d r']; [reflexivity|]. rewrite H. reflexivity. Qed.

Lemma not_cr c : 48 <= c -> (c =? CR) = false.
Proof. intros H. apply Nat.eqb_neq. unfold CR. lia. Qed.

Lemma split_crlf_line a : forall rest, Forall (fun c => 48 <= c) a -> split_crlf (a ++ CR :: LF :: rest) = Some (a, rest).
Proof.
  induction a as [|c a IH]; intros rest H.
  - cbn. reflexivity.
  - inversion H as [|? ? Hc Ha]; subst. cbn [app]. rewrite (split_crlf_cons _ _ (not_cr c Hc)), (IH rest Ha).
    destruct (a ++ CR :: LF :: rest) eqn:E; [destruct a; discriminate|reflexivity].
Qed.

(* a line that has no CRLF yet (a strict prefix of  digits CR LF) is not split *)
Lemma split_crlf_digits_only a : Forall (fun c => 48 <= c) a -> split_crlf a = None.
Proof.
  induction a as [|c a IH]; intros H; [reflexivity|]. inversion H as [|? ? Hc Ha]; subst.
  rewrite (split_crlf_cons _ _ (not_cr c Hc)), (IH Ha). destruct a; reflexivity.
Qed.

Lemma split_crlf_digits_cr a : Forall (fun c => 48 <= c) a -> split_crlf (a ++ [CR]) = None.
Proof.
  induction a as [|c a IH]; intros H; [reflexivity|]. inversion H as [|? ? Hc Ha]; subst. cbn [app].
  rewrite (split_crlf_cons _ _ (not_cr c Hc)), (IH Ha). destruct (a ++ [CR]); reflexivity.
Qed.

(* ---------- round trip ---------- *)
Lemma decode_chunks writes : forall acc tail fuel, length (concat (map enc_chunk writes)) < fuel ->
  decode_fuel fuel (concat (map enc_chunk writes) ++ [48; CR; LF] ++ tail) acc = Some (acc ++ concat writes, tail).
Proof.
  induction writes as [|c ws IH]; intros acc tail fuel Hf.
  - cbn [map concat app]. destruct fuel as [|f]; [cbn in Hf; lia|]. cbn [decode_fuel].
    change (48 :: CR :: LF :: tail) with ([48] ++ CR :: LF :: tail). rewrite split_crlf_line by (repeat constructor).
    cbn. rewrite app_nil_r. reflexivity.
  - cbn [map concat]. destruct c as [|b c].
    + cbn [enc_chunk app]. cbn [map concat] in Hf. cbn [enc_chunk app] in Hf. apply IH. exact Hf.
    + remember (b :: c) as ch eqn:Ech. assert (Hlen : length ch = S (length c)) by (subst; reflexivity).
      assert (Eenc : enc_chunk ch = to_hex (length ch) ++ [CR; LF] ++ ch ++ [CR; LF]) by (subst; reflexivity).
      cbn [map concat] in Hf. rewrite Eenc in *. rewrite !app_length in Hf. cbn [length] in Hf.
      destruct fuel as [|f]; [lia|]. cbn [decode_fuel]. rewrite <- !app_assoc. cbn [app].
      rewrite split_crlf_line by apply to_hex_chars. rewrite of_hex_to_hex, Hlen.
      assert (Hl : (length (ch ++ CR :: LF :: concat (map enc_chunk ws) ++ 48 :: CR :: LF :: tail) <? S (length c) + 2) = false).
      { apply Nat.ltb_ge. rewrite app_length. cbn [length]. lia. }
      rewrite Hl. rewrite <- Hlen. rewrite skipn_app, skipn_all, Nat.sub_diag. cbn [skipn app].
      rewrite firstn_app, firstn_all, Nat.sub_diag. cbn [firstn]. rewrite app_nil_r.
      change (match CR with 13 => true | _ => false end && match LF with 10 => true | _ => false end) with true. cbv iota.
      change (48 :: CR :: LF :: tail) with ([48; CR; LF] ++ tail).
      rewrite IH by lia. rewrite <- app_assoc. reflexivity.
Qed.

(* For every sequence of writes (any sizes, any bytes, empty writes included) and every trailer section: the reader
   returns exactly the concatenation of the writes, and what follows the terminating chunk, untouched. *)
Theorem decode_encode writes trailer_section :
  decode (encode writes trailer_section) = Some (concat writes, trailer_section ++ [CR; LF]).
Proof.
  unfold decode, encode. rewrite decode_chunks; [reflexivity|]. rewrite !app_length. cbn [length]. lia.
Qed.

(* the body survives any re-segmentation: two write sequences with the same concatenation decode to the same body *)
Corollary resegmentation w1 w2 t : concat w1 = concat w2 ->
  option_map fst (decode (encode w1 t)) = option_map fst (decode (encode w2 t)).
Proof. intros H. rewrite !decode_encode. cbn. rewrite H. reflexivity. Qed.

(* ---------- truncation is never mistaken for the end ---------- *)
Lemma Forall_app_l {A} (P : A -> Prop) (a b : list A) : Forall P (a ++ b) -> Forall P a.
Proof. intros H. apply Forall_app in H. exact (proj1 H). Qed.

Lemma decode_fuel_none_split fuel p acc : split_crlf p = None -> decode_fuel fuel p acc = None.
Proof. intros H. destruct fuel; [reflexivity|]. cbn [decode_fuel]. rewrite H. reflexivity. Qed.

(* Every strict prefix of the chunks and the terminating size line is rejected: a body cut off anywhere before the end of
   the  0 CRLF  line - inside a size line, inside the data, between data and its CRLF - never decodes as a complete body. *)
Theorem truncated_rejected writes : forall p q fuel acc,
  p ++ q = concat (map enc_chunk writes) ++ [48; CR; LF] -> q <> [] -> decode_fuel fuel p acc = None.
Proof.
  induction writes as [|c ws IH]; intros p q fuel acc E Hq.
  - cbn [map concat app] in E. apply decode_fuel_none_split.
    destruct p as [|x [|y [|z p']]]; cbn [app] in E.
    + reflexivity.
    + injection E as -> _. reflexivity.
    + injection E as -> -> _. reflexivity.
    + injection E as -> -> -> E. destruct p'; [|discriminate]. cbn in E. subst q. congruence.
  - cbn [map concat] in E. destruct c as [|b c]; [cbn [enc_chunk app] in E; exact (IH p q fuel acc E Hq)|].
    remember (b :: c) as ch eqn:Ech. assert (Hlen : length ch = S (length c)) by (subst; reflexivity).
    assert (Eenc : enc_chunk ch = to_hex (length ch) ++ [CR; LF] ++ ch ++ [CR; LF]) by (subst; reflexivity).
    rewrite Eenc in E. rewrite <- !app_assoc in E. cbn [app] in E. clear Eenc.
    set (REST := concat (map enc_chunk ws) ++ [48; CR; LF]) in *.
    apply app_eq_app in E. destruct E as (l & [(E1 & E2)|(E1 & E2)]).
    + (* p = to_hex .. ++ l *)
      subst p. destruct l as [|x [|y l2]].
      * rewrite app_nil_r. apply decode_fuel_none_split. apply split_crlf_digits_only. apply to_hex_chars.
      * cbn [app] in E2. injection E2 as Ex _. subst x. apply decode_fuel_none_split. apply split_crlf_digits_cr. apply to_hex_chars.
      * cbn [app] in E2. injection E2 as Ex Ey E2. subst x y.
        destruct fuel as [|f]; [reflexivity|]. cbn [decode_fuel]. rewrite split_crlf_line by apply to_hex_chars. rewrite of_hex_to_hex, Hlen.
        (* l2 ++ q = ch ++ CR :: LF :: REST *)
        symmetry in E2. apply app_eq_app in E2. destruct E2 as (l3 & [(E3 & E4)|(E3 & E4)]).
        -- (* l2 = ch ++ l3 *)
           subst l2. destruct l3 as [|x [|y l4]].
           ++ rewrite app_nil_r. assert (Hl : (length ch <? S (length c) + 2) = true) by (apply Nat.ltb_lt; lia). rewrite Hl. reflexivity.
           ++ assert (Hl : (length (ch ++ [x]) <? S (length c) + 2) = true) by (apply Nat.ltb_lt; rewrite app_length; cbn [length]; lia). rewrite Hl. reflexivity.
           ++ cbn [app] in E4. injection E4 as Ex Ey E4. subst x y.
              assert (Hl : (length (ch ++ CR :: LF :: l4) <? S (length c) + 2) = false) by (apply Nat.ltb_ge; rewrite app_length; cbn [length]; lia).
              rewrite Hl, <- Hlen. rewrite skipn_app, skipn_all, Nat.sub_diag. cbn [skipn app].
              rewrite firstn_app, firstn_all, Nat.sub_diag. cbn [firstn]. rewrite app_nil_r.
              change (match CR with 13 => true | _ => false end && match LF with 10 => true | _ => false end) with true. cbv iota.
              apply (IH l4 q). symmetry. exact E4. exact Hq.
        -- (* ch = l2 ++ l3 *)
           assert (Hl : (length l2 <? S (length c) + 2) = true).
           { apply Nat.ltb_lt. rewrite <- Hlen, E3, app_length. lia. }
           rewrite Hl. reflexivity.
    + (* p is a prefix of the size line *)
      apply decode_fuel_none_split. apply split_crlf_digits_only. pose proof (to_hex_chars (length ch)) as F. rewrite E1 in F. exact (Forall_app_l _ _ _ F).
Qed.
