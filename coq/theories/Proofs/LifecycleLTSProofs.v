(* Proofs for Agent/LifecycleLTS.v (C20): properties of every trace of the life-cycle LTS. *)
From Coq Require Import List Arith Bool Lia ZArith.
From IP Require Import Agent.LifecycleLTS.
Import ListNotations.

Local Arguments Nat.max : simpl never.
Local Arguments Nat.leb : simpl never.
Local Arguments Nat.ltb : simpl never.

Ltac leb_hyps :=
  repeat match goal with
  | E : (_ <=? _) = false |- _ => apply Nat.leb_gt in E
  | E : (_ <=? _) = true |- _ => apply Nat.leb_le in E
  | E : (_ <? _) = false |- _ => apply Nat.ltb_ge in E
  | E : (_ <? _) = true |- _ => apply Nat.ltb_lt in E
  end.

Ltac step_cases H :=
  unfold step in H;
  repeat match type of H with
  | context [if ?b then _ else _] => let E := fresh "E" in destruct b eqn:E
  | context [match ?x with _ => _ end] => let E := fresh "E" in destruct x eqn:E
  end;
  try discriminate; try (injection H as H; subst).

Lemma exited_upd s m : exited (upd_main s m) = match m with MExited _ _ => true | _ => false end.
Proof. reflexivity. Qed.

(* ---------- time is monotone, an exited process stays as it is ---------- *)
Lemma step_now c s l s' : step c s l = Some s' -> now s <= now s'.
Proof. intro H. step_cases H; cbn; lia. Qed.

Lemma run_now c tr : forall s s', run c s tr = Some s' -> now s <= now s'.
Proof.
  induction tr as [|l r IH]; intros s s' H; cbn [run] in H; [injection H as ->; lia|].
  destruct (step c s l) as [s1|] eqn:E; [|discriminate]. pose proof (step_now _ _ _ _ E). pose proof (IH _ _ H). lia.
Qed.

Lemma step_exited c s l s' : step c s l = Some s' -> exited s = true -> s' = s.
Proof. intros H He. unfold step in H. rewrite He in H. destruct l; try discriminate. injection H as ->. reflexivity. Qed.

Lemma run_exited c tr : forall s s', run c s tr = Some s' -> exited s = true -> s' = s.
Proof.
  induction tr as [|l r IH]; intros s s' H He; cbn [run] in H; [injection H as ->; reflexivity|].
  destruct (step c s l) as [s1|] eqn:E; [|discriminate]. pose proof (step_exited _ _ _ _ E He) as ->. apply IH; assumption.
Qed.

(* ---------- health gate ---------- *)
Definition GateInv (c : cfg) (s : st) : Prop :=
  hc_enabled c = true -> passed s = false -> poll s = PNotStarted /\ list_starts s = [] /\ workers s = [] /\ registered s = false /\
    (main s = MWaitHealth \/ exists t, main s = MExited 2 t).

Lemma gate_init c : GateInv c (init c).
Proof. intros Hc _. unfold init. rewrite Hc. cbn. repeat split. left. reflexivity. Qed.

Lemma gate_step c s l s' : GateInv c s -> step c s l = Some s' -> GateInv c s'.
Proof.
  intros I H Hc Hp. unfold GateInv in I.
  destruct (exited s) eqn:Ex.
  - pose proof (step_exited _ _ _ _ H Ex) as ->. apply I; assumption.
  - destruct (passed s) eqn:Ps.
    + (* passed never goes back to false *)
      exfalso. step_cases H; cbn in Hp; rewrite ?Ps in Hp; cbn in Hp; discriminate.
    + specialize (I Hc eq_refl). destruct I as (A & B & Cc & D & M).
      destruct M as [M|[t M]]; [|unfold exited in Ex; rewrite M in Ex; discriminate].
      unfold step in H. rewrite Ex in H. destruct l; cbn in H.
      * injection H as <-. cbn. repeat split; try assumption. left. exact M.
      * rewrite Hc in H. cbn in H. rewrite M in H. destruct ok.
        -- injection H as <-. cbn in Hp. discriminate.
        -- injection H as <-. repeat split; try assumption. left. exact M.
      * rewrite D in H. injection H as <-. cbn. repeat split; try assumption. right. eexists. reflexivity.
      * destruct (chclosed s); [discriminate|]. destruct (sigbuf s); [discriminate|]. injection H as <-. cbn. repeat split; try assumption. left. exact M.
      * rewrite M in H. discriminate.
      * rewrite M in H. discriminate.
      * rewrite A in H. discriminate.
      * rewrite A in H. discriminate.
      * rewrite A in H. discriminate.
      * rewrite Cc in H. cbn in H. discriminate.
Qed.

Lemma gate_run c tr : forall s s', GateInv c s -> run c s tr = Some s' -> GateInv c s'.
Proof.
  induction tr as [|l r IH]; intros s s' I H; cbn [run] in H; [injection H as <-; exact I|].
  destruct (step c s l) as [s1|] eqn:E; [|discriminate]. eapply IH; [eapply gate_step; eassumption|exact H].
Qed.

Lemma passed_step c s l s' : step c s l = Some s' -> passed s' = true -> passed s = true \/ l = Check true.
Proof.
  intros H Hp. destruct (passed s) eqn:Ps; [left; reflexivity|]. right.
  step_cases H; cbn in Hp; rewrite ?Ps in Hp; cbn in Hp; try discriminate; try reflexivity.
  all: try (match goal with E : exited _ = true |- _ => idtac end).
  all: destruct ok; try reflexivity; cbn in Hp; try discriminate.
Qed.

Lemma passed_run c tr : forall s s', run c s tr = Some s' -> passed s' = true -> passed s = true \/ In (Check true) tr.
Proof.
  induction tr as [|l r IH]; intros s s' H Hp; cbn [run] in H; [injection H as <-; left; exact Hp|].
  destruct (step c s l) as [s1|] eqn:E; [|discriminate].
  destruct (IH _ _ H Hp) as [P|P]; [|right; right; exact P].
  destruct (passed_step _ _ _ _ E P) as [Q|Q]; [left; exact Q|right; left; exact Q].
Qed.

(* with health checks enabled, no pending-list call starts and no request is taken on before a check has passed *)
Theorem gate_lts c tr s : hc_enabled c = true -> run c (init c) tr = Some s ->
  (list_starts s <> [] \/ workers s <> [] \/ poll s <> PNotStarted) -> In (Check true) tr.
Proof.
  intros Hc H Hne. pose proof (gate_run c tr _ _ (gate_init c) H) as I.
  destruct (passed s) eqn:Ps.
  - destruct (passed_run _ _ _ _ H Ps) as [P|P]; [|exact P]. unfold init in P. cbn in P. discriminate.
  - destruct (I Hc Ps) as (A & B & Cc & _). exfalso. destruct Hne as [N|[N|N]]; congruence.
Qed.

(* while waiting for the first passing check the handler is not registered: a signal ends the process at once *)
Theorem signal_while_waiting c s : exited s = false -> registered s = false -> exists s', step c s Sig = Some s' /\ main s' = MExited 2 (now s).
Proof. intros He Hr. unfold step. rewrite He, Hr. eexists. split; reflexivity. Qed.

(* ---------- unhealthy exit ---------- *)
Definition running (s : st) : bool := match main s with MRunning | MDraining _ => true | _ => false end.

Theorem check_step c s (ok : bool) : hc_enabled c = true -> running s = true ->
  let bad' := if ok then 0 else S (bad s) in
  exists s', step c s (Check ok) = Some s' /\
    (if Nat.max 1 (thr c) <=? bad' then main s' = MExited 1 (now s) else main s' = main s /\ bad s' = bad') /\
    workers s' = workers s /\ list_starts s' = list_starts s.
Proof.
  intros Hc Hr bad'. unfold running in Hr. unfold step.
  assert (Ex : exited s = false) by (unfold exited; destruct (main s); try discriminate; reflexivity).
  rewrite Ex, Hc. cbn [negb]. destruct (main s) eqn:M; try discriminate.
  - fold bad'. destruct (Nat.max 1 (thr c) <=? bad') eqn:T; eexists; (split; [reflexivity|]); cbn; rewrite ?M; repeat split; reflexivity.
  - fold bad'. destruct (Nat.max 1 (thr c) <=? bad') eqn:T; eexists; (split; [reflexivity|]); cbn; rewrite ?M; repeat split; reflexivity.
Qed.

(* only a health check changes the failure counter *)
Lemma bad_frame c s l s' : step c s l = Some s' -> (forall ok, l <> Check ok) -> bad s' = bad s.
Proof. intros H N. step_cases H; cbn; try reflexivity; exfalso; eapply N; reflexivity. Qed.

(* the counter stays below the threshold in every live state reached *)
Definition BadInv (c : cfg) (s : st) : Prop := exited s = false -> bad s < Nat.max 1 (thr c).

Lemma bad_init c : BadInv c (init c).
Proof. intros _. change (0 < Nat.max 1 (thr c)). lia. Qed.

Lemma bad_step c s l s' : BadInv c s -> step c s l = Some s' -> BadInv c s'.
Proof.
  intros I H Ex'. destruct (exited s) eqn:Ex.
  - pose proof (step_exited _ _ _ _ H Ex) as ->. congruence.
  - specialize (I Ex). step_cases H; cbn in *; try lia; try discriminate.
    all: leb_hyps; lia.
Qed.

(* exit status 1 comes from the health threshold or from the end of the grace period, 0 from main returning
   without a grace period, 2 from a signal before the handler is registered *)
Theorem exit_causes c s l s' code t : step c s l = Some s' -> exited s = false -> main s' = MExited code t ->
  t = now s /\
  ((code = 1 /\ exists ok, l = Check ok /\ Nat.max 1 (thr c) <= (if ok then 0 else S (bad s))) \/
   (code = 1 /\ l = Deadline /\ exists d, main s = MDraining d /\ d <= now s) \/
   (code = 0 /\ l = MainWake /\ grace c = 0 /\ main s = MRunning /\ chclosed s = true) \/
   (code = 2 /\ l = Sig /\ registered s = false)).
Proof.
  intros H Ex M. unfold exited in Ex.
  step_cases H; cbn in M; try (rewrite M in Ex; discriminate); try congruence.
  all: try (injection M as <- <-; split; [reflexivity|]).
  all: try (right; right; right; repeat split; assumption).
  all: try (right; right; left; repeat split; assumption).
  all: try (right; left; repeat split; try reflexivity; eexists; split; [reflexivity|apply Nat.leb_le; assumption]).
  all: try (left; split; [reflexivity|]; eexists; split; [reflexivity|]; apply Nat.leb_le; assumption).
Qed.

(* ---------- graceful shutdown ---------- *)
Definition CancelInv (s : st) : Prop :=
  (forall x, In x (list_starts s) -> x <= now s) /\
  (forall t, cancelled_at s = Some t -> cancelled s = true /\ t <= now s /\ forall x, In x (list_starts s) -> x <= t) /\
  (cancelled s = true -> exists t, cancelled_at s = Some t).

Lemma cancel_init c : CancelInv (init c).
Proof. unfold CancelInv, init. cbn. repeat split; try contradiction; try discriminate. Qed.

Lemma cancel_same s s' : now s' = now s -> list_starts s' = list_starts s -> cancelled s' = cancelled s -> cancelled_at s' = cancelled_at s ->
  CancelInv s -> CancelInv s'.
Proof. intros E1 E2 E3 E4 I. unfold CancelInv in *. rewrite E1, E2, E3, E4. exact I. Qed.

Lemma cancel_step c s l s' : CancelInv s -> step c s l = Some s' -> CancelInv s'.
Proof.
  intros I H. destruct (exited s) eqn:Ex.
  - pose proof (step_exited _ _ _ _ H Ex) as ->. exact I.
  - unfold step in H. rewrite Ex in H.
    assert (Same : forall x, Some x = Some s' -> now x = now s -> list_starts x = list_starts s -> cancelled x = cancelled s -> cancelled_at x = cancelled_at s -> CancelInv s')
      by (intros x Hx; injection Hx as <-; intros; apply (cancel_same s); assumption).
    destruct l; cbn in H.
    + (* Tick *) injection H as <-. destruct I as (A & B & Cc). unfold CancelInv; cbn.
      split; [intros x Hx; specialize (A x Hx); lia|]. split; [|exact Cc].
      intros t Ht. destruct (B t Ht) as (B1 & B2 & B3). split; [exact B1|]. split; [lia|exact B3].
    + destruct (negb (hc_enabled c)); [discriminate|]. destruct (main s); destruct ok; cbn in H;
        repeat match type of H with context [if ?b then _ else _] => destruct b end; eapply Same; try exact H; reflexivity.
    + destruct (registered s); [destruct (sigbuf s <? sig_cap c)|]; eapply Same; try exact H; reflexivity.
    + destruct (chclosed s); [discriminate|]. destruct (sigbuf s); [discriminate|]. eapply Same; try exact H; reflexivity.
    + destruct (main s); try discriminate. destruct (chclosed s); [|discriminate]. destruct (grace c).
      * eapply Same; try exact H; reflexivity.
      * injection H as <-. destruct I as (A & B & Cc). unfold CancelInv; cbn. split; [exact A|]. split; [|intros _; eexists; reflexivity].
        intros t Ht. injection Ht as <-. split; [reflexivity|]. split; [lia|exact A].
    + destruct (main s); try discriminate. destruct (deadline <=? now s); [|discriminate]. eapply Same; try exact H; reflexivity.
    + destruct (poll s); try discriminate. destruct (cancelled s) eqn:Cn; [discriminate|]. injection H as <-.
      destruct I as (A & B & Cc). unfold CancelInv; cbn.
      split; [intros x [<-|Hx]; [lia|exact (A x Hx)]|]. split; [|discriminate].
      intros t Ht. destruct (B t Ht) as (B1 & _). congruence.
    + destruct (poll s); try discriminate. eapply Same; try exact H; reflexivity.
    + destruct (poll s); try discriminate. destruct (cancelled s) eqn:Cn; [|discriminate]. eapply Same; try exact H; try reflexivity; try (cbn; symmetry; exact Cn).
    + destruct (advance id (workers s)); [|discriminate]. eapply Same; try exact H; reflexivity.
Qed.

Lemma cancel_run c tr : forall s s', CancelInv s -> run c s tr = Some s' -> CancelInv s'.
Proof.
  induction tr as [|l r IH]; intros s s' I H; cbn [run] in H; [injection H as <-; exact I|].
  destruct (step c s l) as [s1|] eqn:E; [|discriminate]. eapply IH; [eapply cancel_step; eassumption|exact H].
Qed.

(* once the polling context is cancelled it stays cancelled and no pending-list call starts any more *)
Lemma cancelled_step c s l s' : step c s l = Some s' -> cancelled s = true -> cancelled s' = true /\ list_starts s' = list_starts s.
Proof. intros H Hc. step_cases H; cbn; try (split; [assumption|reflexivity]); try (split; reflexivity); congruence. Qed.

Theorem no_list_after_cancel c tr : forall s s', run c s tr = Some s' -> cancelled s = true -> list_starts s' = list_starts s /\ cancelled s' = true.
Proof.
  induction tr as [|l r IH]; intros s s' H Hc; cbn [run] in H; [injection H as <-; split; [reflexivity|exact Hc]|].
  destruct (step c s l) as [s1|] eqn:E; [|discriminate]. destruct (cancelled_step _ _ _ _ E Hc) as (A & B).
  destruct (IH _ _ H A) as (P & Q). split; [congruence|exact Q].
Qed.

(* every pending-list call of a run started no later than the moment main began the graceful shutdown *)
Theorem lists_before_shutdown c tr s t : run c (init c) tr = Some s -> cancelled_at s = Some t ->
  forall x, In x (list_starts s) -> x <= t.
Proof. intros H Ht. destruct (cancel_run c tr _ _ (cancel_init c) H) as (_ & B & _). destruct (B t Ht) as (_ & _ & B3). exact B3. Qed.

(* main begins the shutdown: with a grace period it cancels polling and fixes the deadline, without it exits at once *)
Theorem main_wake c s : main s = MRunning -> chclosed s = true ->
  exists s', step c s MainWake = Some s' /\
    match grace c with
    | 0 => main s' = MExited 0 (now s)
    | g => main s' = MDraining (now s + g) /\ cancelled s' = true /\ cancelled_at s' = Some (now s) /\ workers s' = workers s
    end.
Proof.
  intros M Hc. unfold step. assert (Ex : exited s = false) by (unfold exited; rewrite M; reflexivity). rewrite Ex, M, Hc.
  destruct (grace c); eexists; (split; [reflexivity|]); cbn; repeat split; reflexivity.
Qed.

(* a signal reaches main: Sig, SigTake, MainWake are enabled one after the other at the same instant *)
Theorem signal_reaches_main c s : main s = MRunning -> registered s = true -> chclosed s = false -> sigbuf s = 0 -> 0 < sig_cap c ->
  exists s', run c s [Sig; SigTake; MainWake] = Some s' /\
    match grace c with 0 => main s' = MExited 0 (now s) | g => main s' = MDraining (now s + g) /\ cancelled s' = true /\ workers s' = workers s end.
Proof.
  intros M R Cl B Cap. destruct s; cbn in *; subst.
  assert (L : (0 <? sig_cap c) = true) by (apply Nat.ltb_lt; exact Cap).
  unfold step at 1; cbn. rewrite L. cbn. try (unfold step at 1; cbn). try (unfold step at 1; cbn).
  destruct (grace c); eexists; (split; [reflexivity|]); cbn; repeat split; reflexivity.
Qed.

(* draining states are reached only with the handler registered *)
Definition RegInv (s : st) : Prop := (main s = MRunning \/ exists d, main s = MDraining d) -> registered s = true.

Lemma reg_init c : RegInv (init c).
Proof. unfold RegInv, init. destruct (hc_enabled c); cbn; intros [H|[d H]]; try discriminate; reflexivity. Qed.

Lemma reg_step c s l s' : RegInv s -> step c s l = Some s' -> RegInv s'.
Proof.
  intros I H. destruct (exited s) eqn:Ex.
  - pose proof (step_exited _ _ _ _ H Ex) as ->. exact I.
  - unfold RegInv in *. unfold step in H. rewrite Ex in H. destruct l; cbn in H.
    + injection H as <-. exact I.
    + destruct (negb (hc_enabled c)); [discriminate|]. destruct (main s) eqn:M; destruct ok; cbn in H;
        repeat match type of H with context [if ?b then _ else _] => destruct b end; injection H as <-; cbn;
        try (intros _; reflexivity); try (intros [Q|[d Q]]; cbn in Q; discriminate Q); try exact I; rewrite ?M; exact I.
    + destruct (registered s) eqn:R; [destruct (sigbuf s <? sig_cap c)|]; injection H as <-; cbn; try (intros _; first [reflexivity|exact R]).
      intros [Q|[d Q]]; discriminate Q.
    + destruct (chclosed s); [discriminate|]. destruct (sigbuf s); [discriminate|]. injection H as <-. exact I.
    + destruct (main s) eqn:M; try discriminate. destruct (chclosed s); [|discriminate]. destruct (grace c); injection H as <-; cbn.
      * intros [Q|[d Q]]; cbn in Q; discriminate Q.
      * intros _. apply I. left. reflexivity.
    + destruct (main s) eqn:M; try discriminate. destruct (deadline <=? now s); [|discriminate]. injection H as <-. cbn. intros [Q|[d Q]]; cbn in Q; discriminate Q.
    + destruct (poll s); try discriminate. destruct (cancelled s); [discriminate|]. injection H as <-. exact I.
    + destruct (poll s); try discriminate. injection H as <-. exact I.
    + destruct (poll s); try discriminate. destruct (cancelled s); [|discriminate]. injection H as <-. exact I.
    + destruct (advance id (workers s)); [|discriminate]. injection H as <-. exact I.
Qed.

Lemma reg_run c tr : forall s s', RegInv s -> run c s tr = Some s' -> RegInv s'.
Proof.
  induction tr as [|l r IH]; intros s s' I H; cbn [run] in H; [injection H as <-; exact I|].
  destruct (step c s l) as [s1|] eqn:E; [|discriminate]. eapply IH; [eapply reg_step; eassumption|exact H].
Qed.

(* during the grace period the process leaves the draining state only through the deadline (at or after it) or
   through the health threshold; in particular not through further signals *)
Lemma draining_step c s l s' d : RegInv s -> step c s l = Some s' -> main s = MDraining d ->
  main s' = MDraining d \/ (l = Deadline /\ d <= now s /\ main s' = MExited 1 (now s)) \/ (exists ok, l = Check ok /\ main s' = MExited 1 (now s)).
Proof.
  intros RI H M. assert (Ex : exited s = false) by (unfold exited; rewrite M; reflexivity).
  assert (R : registered s = true) by (apply RI; right; eexists; exact M).
  unfold step in H. rewrite Ex in H. destruct l; cbn in H.
  - injection H as <-. left. first [exact M|reflexivity].
  - destruct (negb (hc_enabled c)); [discriminate|]. rewrite M in H.
    destruct (Nat.max 1 (thr c) <=? (if ok then 0 else S (bad s))); injection H as <-; cbn; [right; right; eexists; split; reflexivity|left; first [exact M|reflexivity]].
  - rewrite R in H. destruct (sigbuf s <? sig_cap c); injection H as <-; left; first [exact M|reflexivity].
  - destruct (chclosed s); [discriminate|]. destruct (sigbuf s); [discriminate|]. injection H as <-. left. first [exact M|reflexivity].
  - rewrite M in H. discriminate.
  - rewrite M in H. destruct (d <=? now s) eqn:L; [|discriminate]. injection H as <-. right. left. repeat split. apply Nat.leb_le. exact L.
  - destruct (poll s); try discriminate. destruct (cancelled s); [discriminate|]. injection H as <-. left. first [exact M|reflexivity].
  - destruct (poll s); try discriminate. injection H as <-. left. first [exact M|reflexivity].
  - destruct (poll s); try discriminate. destruct (cancelled s); [|discriminate]. injection H as <-. left. first [exact M|reflexivity].
  - destruct (advance id (workers s)); [|discriminate]. injection H as <-. left. first [exact M|reflexivity].
Qed.

Fixpoint no_failed_check (tr : list label) : bool :=
  match tr with [] => true | Check false :: _ => false | _ :: r => no_failed_check r end.

(* the process exits when the period ends: from a draining state, with no failing health check, every trace either
   is still draining with the same deadline or has exited with status 1 at a time not before the deadline *)
Theorem drain_exit c tr : forall s s' d, RegInv s -> run c s tr = Some s' -> main s = MDraining d -> no_failed_check tr = true ->
  main s' = MDraining d \/ exists t, main s' = MExited 1 t /\ d <= t.
Proof.
  induction tr as [|l r IH]; intros s s' d RI H M NF; cbn [run] in H; [injection H as <-; left; exact M|].
  destruct (step c s l) as [s1|] eqn:E; [|discriminate].
  assert (NFr : no_failed_check r = true) by (cbn [no_failed_check] in NF; destruct l; try exact NF; destruct ok; [exact NF|discriminate]).
  pose proof (reg_step _ _ _ _ RI E) as RI1.
  destruct (draining_step _ _ _ _ _ RI E M) as [M1|[(-> & L & M1)|(ok & -> & M1)]].
  - exact (IH _ _ _ RI1 H M1 NFr).
  - assert (Ex1 : exited s1 = true) by (unfold exited; rewrite M1; reflexivity). pose proof (run_exited _ _ _ _ H Ex1) as ->.
    right. eexists. split; [exact M1|exact L].
  - (* a check that exits is a failed one *)
    exfalso. destruct ok; [|cbn in NF; discriminate].
    assert (Ex : exited s = false) by (unfold exited; rewrite M; reflexivity).
    unfold step in E. rewrite Ex in E. cbn in E. destruct (negb (hc_enabled c)); [discriminate|]. rewrite M in E.
    destruct (Nat.max 1 (thr c) <=? 0) eqn:T; [apply Nat.leb_le in T; lia|]. injection E as <-. cbn in M1. try rewrite M in M1. discriminate M1.
Qed.

(* ... and the deadline step is enabled as soon as the deadline has come *)
Theorem deadline_enabled c s d : main s = MDraining d -> d <= now s -> exists s', step c s Deadline = Some s' /\ main s' = MExited 1 (now s).
Proof.
  intros M L. unfold step. assert (Ex : exited s = false) by (unfold exited; rewrite M; reflexivity). rewrite Ex, M.
  assert (T : (d <=? now s) = true) by (apply Nat.leb_le; exact L). rewrite T. eexists. split; reflexivity.
Qed.

(* further signals are inert once the handler is registered: they are queued or dropped and change nothing else *)
Theorem later_signal_inert c s : exited s = false -> registered s = true ->
  exists s', step c s Sig = Some s' /\ main s' = main s /\ workers s' = workers s /\ cancelled s' = cancelled s /\ poll s' = poll s /\
             list_starts s' = list_starts s /\ bad s' = bad s /\ registered s' = true /\ now s' = now s.
Proof.
  intros Ex R. unfold step. rewrite Ex, R. destruct (sigbuf s <? sig_cap c); eexists; (split; [reflexivity|]); cbn; repeat split; try reflexivity; exact R.
Qed.

(* the handler is never unregistered *)
Lemma registered_step c s l s' : step c s l = Some s' -> registered s = true -> registered s' = true.
Proof. intros H R. step_cases H; cbn; try assumption; try reflexivity; congruence. Qed.

(* ---------- workers are independent of the shutdown ---------- *)
Lemma advance_spec id ws p : option_map snd (find (fun w => Nat.eqb (fst w) id) ws) = Some p -> p <> WDone ->
  exists ws', advance id ws = Some ws' /\ option_map snd (find (fun w => Nat.eqb (fst w) id) ws') = Some (next_phase p) /\
    (forall j, j <> id -> option_map snd (find (fun w => Nat.eqb (fst w) j) ws') = option_map snd (find (fun w => Nat.eqb (fst w) j) ws)).
Proof.
  induction ws as [|[i q] r IH]; intros H Hp; cbn in H; [discriminate|].
  cbn [advance]. destruct (Nat.eqb i id) eqn:E.
  - cbn in H. injection H as ->. destruct p; try congruence; eexists; (split; [reflexivity|]); cbn; rewrite E; (split; [reflexivity|]);
      intros j Hj; (destruct (Nat.eqb i j) eqn:Ej; [apply Nat.eqb_eq in Ej, E; congruence|reflexivity]).
  - destruct (IH H Hp) as (ws' & A & B & Cc). rewrite A. eexists. split; [reflexivity|]. cbn. rewrite E. split; [exact B|].
    intros j Hj. destruct (Nat.eqb i j); [reflexivity|]. exact (Cc j Hj).
Qed.

(* a worker's next step is enabled in every live state, whatever main, the signal plumbing and the poll loop are doing *)
Theorem work_enabled c s id p : exited s = false -> phase_of id s = Some p -> p <> WDone ->
  exists s', step c s (Work id) = Some s' /\ phase_of id s' = Some (next_phase p) /\ main s' = main s /\ now s' = now s /\
             (forall j, j <> id -> phase_of j s' = phase_of j s).
Proof.
  intros Ex Hp Hn. unfold phase_of in *. destruct (advance_spec _ _ _ Hp Hn) as (ws' & A & B & Cc).
  unfold step. rewrite Ex, A. eexists. split; [reflexivity|]. cbn. repeat split; assumption.
Qed.

Lemma spawn_keeps ids : forall ws j p, option_map snd (find (fun w => Nat.eqb (fst w) j) ws) = Some p ->
  option_map snd (find (fun w => Nat.eqb (fst w) j) (spawn ids ws)) = Some p.
Proof.
  induction ids as [|i r IH]; intros ws j p H; cbn [spawn]; [exact H|].
  destruct (existsb (fun w => Nat.eqb (fst w) i) ws); [apply IH; exact H|]. apply IH.
  clear IH. induction ws as [|[k q] ws IHw]; cbn in *; [discriminate|]. destruct (Nat.eqb k j); [exact H|]. apply IHw. exact H.
Qed.

(* no step other than the worker's own changes its phase (a list reply only adds workers) *)
Theorem worker_frame c s l s' id p : step c s l = Some s' -> phase_of id s = Some p -> l <> Work id -> phase_of id s' = Some p.
Proof.
  intros H Hp Hl. destruct (exited s) eqn:Ex; [pose proof (step_exited _ _ _ _ H Ex) as ->; exact Hp|].
  unfold step in H. rewrite Ex in H. unfold phase_of in *. destruct l; cbn in H.
  - injection H as <-. exact Hp.
  - destruct (negb (hc_enabled c)); [discriminate|]. destruct (main s); destruct ok; cbn in H;
      repeat match type of H with context [if ?b then _ else _] => destruct b end; injection H as <-; exact Hp.
  - destruct (registered s); [destruct (sigbuf s <? sig_cap c)|]; injection H as <-; exact Hp.
  - destruct (chclosed s); [discriminate|]. destruct (sigbuf s); [discriminate|]. injection H as <-. exact Hp.
  - destruct (main s); try discriminate. destruct (chclosed s); [|discriminate]. destruct (grace c); injection H as <-; exact Hp.
  - destruct (main s); try discriminate. destruct (deadline <=? now s); [|discriminate]. injection H as <-. exact Hp.
  - destruct (poll s); try discriminate. destruct (cancelled s); [discriminate|]. injection H as <-. exact Hp.
  - destruct (poll s); try discriminate. injection H as <-. cbn. apply spawn_keeps. exact Hp.
  - destruct (poll s); try discriminate. destruct (cancelled s); [|discriminate]. injection H as <-. exact Hp.
  - destruct (Nat.eq_dec id0 id) as [->|Ne]; [congruence|].
    destruct (advance id0 (workers s)) as [ws'|] eqn:A; [|discriminate]. injection H as <-. cbn.
    (* advance of another id leaves this one *)
    clear Hl Ex. revert ws' A. generalize (workers s) Hp. intros ws. induction ws as [|[k q] r IH]; intros Hq ws' A; cbn in *; [discriminate|].
    destruct (Nat.eqb k id0) eqn:E0.
    + destruct q; try discriminate; injection A as <-; cbn; (destruct (Nat.eqb k id) eqn:E1; [apply Nat.eqb_eq in E0, E1; congruence|exact Hq]).
    + destruct (advance id0 r) as [r'|] eqn:Ar; [|discriminate]. cbn in A. injection A as <-. cbn. destruct (Nat.eqb k id); [exact Hq|]. exact (IH Hq r' eq_refl).
Qed.

(* a request that is at the backend when the shutdown begins is answered in full during the grace period:
   its remaining steps are enabled while the process is draining and complete it, and leave the deadline alone *)
Theorem drain_completes c s d id : main s = MDraining d -> phase_of id s = Some WAtBackend ->
  exists s', run c s [Work id; Work id] = Some s' /\ phase_of id s' = Some WDone /\ main s' = MDraining d /\ now s' = now s.
Proof.
  intros M Hp. assert (Ex : exited s = false) by (unfold exited; rewrite M; reflexivity).
  destruct (work_enabled c s id WAtBackend Ex Hp ltac:(discriminate)) as (s1 & A1 & P1 & M1 & N1 & _).
  assert (Ex1 : exited s1 = false) by (unfold exited; rewrite M1, M; reflexivity).
  destruct (work_enabled c s1 id WUploading Ex1 P1 ltac:(discriminate)) as (s2 & A2 & P2 & M2 & N2 & _).
  exists s2. cbn [run]. rewrite A1, A2. repeat split; [exact P2|congruence|congruence].
Qed.

(* ---------- the invariants on every state reached from the initial one ---------- *)
Lemma bad_run c tr : forall s s', BadInv c s -> run c s tr = Some s' -> BadInv c s'.
Proof.
  induction tr as [|l r IH]; intros s s' I H; cbn [run] in H; [injection H as <-; exact I|].
  destruct (step c s l) as [s1|] eqn:E; [|discriminate]. eapply IH; [eapply bad_step; eassumption|exact H].
Qed.

Theorem counter_below_threshold c tr s : run c (init c) tr = Some s -> exited s = false -> bad s < Nat.max 1 (thr c).
Proof. intros H Ex. exact (bad_run c tr _ _ (bad_init c) H Ex). Qed.

Theorem drain_exit_reach c tr1 tr2 s s' d : run c (init c) tr1 = Some s -> main s = MDraining d -> run c s tr2 = Some s' -> no_failed_check tr2 = true ->
  main s' = MDraining d \/ exists t, main s' = MExited 1 t /\ d <= t.
Proof. intros H1 M H2 NF. exact (drain_exit c tr2 s s' d (reg_run c tr1 _ _ (reg_init c) H1) H2 M NF). Qed.

Lemma registered_run c tr : forall s s', run c s tr = Some s' -> registered s = true -> registered s' = true.
Proof.
  induction tr as [|l r IH]; intros s s' H R; cbn [run] in H; [injection H as <-; exact R|].
  destruct (step c s l) as [s1|] eqn:E; [|discriminate]. exact (IH _ _ H (registered_step _ _ _ _ E R)).
Qed.
