(* Invariants of Agent/System.v: end-to-end correlation (C01) and
   at-most-once forwarding per worker (C04). *)
From Coq Require Import ZArith List Bool Lia.
From IP Require Import Server.ProxyCore Proofs.ProxyCoreProofs Agent.System.
Import ListNotations.
Open Scope Z_scope.

Lemma wget_wset i j v l w : wget i l = Some w ->
  wget j (wset i v l) = if j =? i then Some v else wget j l.
Proof.
  induction l as [|[k u] l IH]; cbn [wget wset]; [discriminate|].
  destruct (i =? k) eqn:E.
  - apply Z.eqb_eq in E. subst k. intros _. cbn [wget]. destruct (j =? i); reflexivity.
  - intros H. cbn [wget]. destruct (j =? k) eqn:E2.
    + apply Z.eqb_eq in E2. subst k. destruct (j =? i) eqn:E3; [|reflexivity].
      apply Z.eqb_eq in E3. subst. rewrite Z.eqb_refl in E. discriminate.
    + apply IH. exact H.
Qed.

Section SInv.
  Variable gen : nat -> id.
  Variable backend : tok -> nat -> resp.
  Variable max_fetch : nat.

  Notation sstep := (sstep gen backend max_fetch).
  Notation srun := (srun gen backend max_fetch).

  Record SInv (s : sys) : Prop := {
    S_px : Inv gen (px s);
    (* a worker holds what the proxy returned for ITS ID *)
    S_fetch : forall i w q, wget i (ws s) = Some w -> wq w = Some q -> In (i, q) (fetched (px s));
    (* its result is the backend's answer to what it fetched *)
    S_res : forall i w r, wget i (ws s) = Some w -> wr w = Some r ->
              exists q n, wq w = Some q /\ r = backend q n /\ In (q, n, r) (invoked s) /\ (n < nonce s)%nat;
    (* everything delivered by the proxy was uploaded by the worker bound to that ID *)
    S_deliv : forall i r c, In (i, r, c) (delivered (px s)) -> exists w, wget i (ws s) = Some w /\ wr w = Some r /\ wup w = true;
    (* bookkeeping for at-most-once *)
    S_nonce : forall q n r, In (q, n, r) (invoked s) -> (n < nonce s)%nat;
    S_inv_once : NoDup (map (fun e => snd (fst e)) (invoked s));
    S_inv_ids : NoDup (inv_ids s);
    S_inv_ids_res : forall i, In i (inv_ids s) -> exists w r, wget i (ws s) = Some w /\ wr w = Some r;
    S_len : length (inv_ids s) = length (invoked s);
    S_attempts : forall i w, wget i (ws s) = Some w -> (wfa w <= max_fetch)%nat;
    S_up_once : NoDup (map (fun u => fst (fst u)) (uploads s));
    S_up : forall i r d, In (i, r, d) (uploads s) -> exists w, wget i (ws s) = Some w /\ wup w = true /\ wr w = Some r;
    S_notup : forall i w, wget i (ws s) = Some w -> wup w = false -> ~ In i (map (fun u => fst (fst u)) (uploads s))
  }.

  Lemma sinv_init : SInv sinit.
  Proof.
    constructor; cbn [sinit px ws nonce invoked inv_ids uploads init delivered fetched wget map]; intros;
      try discriminate; try contradiction; try (constructor; fail); try apply inv_init; try (intros []).
  Qed.

  Ltac inv_some H := inversion H; subst; clear H.

  (* proxy-only labels keep the worker part; delivered/fetched unchanged by Arrive/Hand/Cancel *)
  Lemma step_keeps l p p' : step gen p l = Some p' ->
    match l with Arrive _ _ | Hand _ _ _ | Cancel _ => fetched p' = fetched p /\ delivered p' = delivered p
    | Fetch i o => delivered p' = delivered p /\ fetched p' = match o with Some q => (i, q) :: fetched p | None => fetched p end
    | Post i r d => fetched p' = fetched p /\ (delivered p' = delivered p \/ exists c, d = true /\ delivered p' = (i, r, c) :: delivered p)
    end.
  Proof.
    destruct l; cbn [step]; intros H;
      repeat match type of H with
             | match ?x with _ => _ end = _ => destruct x eqn:?
             | (if ?b then _ else _) = _ => destruct b eqn:?
             end; try discriminate; inv_some H; cbn [fetched delivered]; auto.
    split; [reflexivity|]. right. eexists. split; reflexivity.
  Qed.

  Lemma sinv_step s l s' : SInv s -> sstep s l = Some s' -> SInv s'.
  Proof.
    intros I Hs. destruct l as [c q|k i c|c|i|i o|i|i d]; cbn [System.sstep] in Hs.
    1-3: (unfold lift in Hs;
      match type of Hs with match ?x with _ => _ end = _ => destruct x as [p|] eqn:Ep end; [|discriminate]; inv_some Hs;
      destruct (step_keeps _ _ _ Ep) as [Ef Ed];
      constructor; cbn [px ws nonce invoked inv_ids uploads]; try (destruct I; assumption);
      [ eapply inv_step; [exact (S_px s I)|exact Ep]
      | rewrite Ef; exact (S_fetch s I)
      | rewrite Ed; exact (S_deliv s I) ]).
    - (* WSpawn *)
      destruct (existsb _ _); [|discriminate]. destruct (wget i (ws s)) eqn:Ew; [discriminate|]. inv_some Hs.
      constructor; cbn [px ws nonce invoked inv_ids uploads]; try (destruct I; assumption).
      + intros j w q H Hq. cbn [wget] in H. destruct (j =? i); [inv_some H; discriminate|]. exact (S_fetch s I j w q H Hq).
      + intros j w r H Hr. cbn [wget] in H. destruct (j =? i); [inv_some H; discriminate|]. exact (S_res s I j w r H Hr).
      + intros j r c H. destruct (S_deliv s I j r c H) as (w & Hw & Hr & Hu). exists w. split; [|split; assumption].
        cbn [wget]. destruct (j =? i) eqn:E; [|exact Hw]. apply Z.eqb_eq in E. subst. congruence.
      + intros j Hj. destruct (S_inv_ids_res s I j Hj) as (w & r & Hw & Hr). exists w, r. split; [|exact Hr].
        cbn [wget]. destruct (j =? i) eqn:E; [|exact Hw]. apply Z.eqb_eq in E. subst. congruence.
      + intros j w H. cbn [wget] in H. destruct (j =? i); [inv_some H; cbn; lia|]. exact (S_attempts s I j w H).
      + intros j r d H. destruct (S_up s I j r d H) as (w & Hw & Hu & Hr). exists w. split; [|split; assumption].
        cbn [wget]. destruct (j =? i) eqn:E; [|exact Hw]. apply Z.eqb_eq in E. subst. congruence.
      + intros j w H Hu. cbn [wget] in H. destruct (j =? i) eqn:E; [|exact (S_notup s I j w H Hu)].
        apply Z.eqb_eq in E. subst j. intros Hin. apply in_map_iff in Hin. destruct Hin as ([[j r] d] & Hj & Hin). cbn [fst] in Hj. subst j.
        destruct (S_up s I i r d Hin) as (w' & Hw' & _). congruence.
    - (* WFetch *)
      destruct (wget i (ws s)) as [w|] eqn:Ew; [|discriminate]. destruct (wq w) eqn:Eq; [discriminate|].
      destruct (wfa w <? max_fetch)%nat eqn:Ea; [|discriminate]. apply Nat.ltb_lt in Ea.
      destruct (step gen (px s) (Fetch i o)) as [p|] eqn:Ep; [|discriminate]. inv_some Hs.
      destruct (step_keeps _ _ _ Ep) as [Ed Ef].
      constructor; cbn [px ws nonce invoked inv_ids uploads]; try (destruct I; assumption).
      + eapply inv_step; [exact (S_px s I)|exact Ep].
      + intros j w0 q H Hq. rewrite (wget_wset _ _ _ _ _ Ew) in H. rewrite Ef. destruct (j =? i) eqn:E.
        * apply Z.eqb_eq in E. subst j. inv_some H. cbn [wq] in Hq. subst o. left. reflexivity.
        * pose proof (S_fetch s I j w0 q H Hq). destruct o; [right|]; assumption.
      + intros j w0 r H Hr. rewrite (wget_wset _ _ _ _ _ Ew) in H. destruct (j =? i) eqn:E; [|exact (S_res s I j w0 r H Hr)].
        apply Z.eqb_eq in E. subst j. inv_some H. cbn [wr wq] in *. destruct (S_res s I i w r Ew Hr) as (q & n & Hq & _). congruence.
      + intros j r c H. rewrite Ed in H. destruct (S_deliv s I j r c H) as (w0 & Hw0 & Hr & Hu).
        rewrite (wget_wset _ _ _ _ _ Ew). destruct (j =? i) eqn:E; [|exists w0; repeat split; assumption].
        apply Z.eqb_eq in E. subst j. rewrite Ew in Hw0. inv_some Hw0. eexists. split; [reflexivity|]. cbn [wr wup]. split; assumption.
      + intros j Hj. destruct (S_inv_ids_res s I j Hj) as (w0 & r & Hw0 & Hr). rewrite (wget_wset _ _ _ _ _ Ew).
        destruct (j =? i) eqn:E; [|exists w0, r; split; assumption]. apply Z.eqb_eq in E. subst j. rewrite Ew in Hw0. inv_some Hw0.
        eexists _, r. split; [reflexivity|exact Hr].
      + intros j w0 H. rewrite (wget_wset _ _ _ _ _ Ew) in H. destruct (j =? i); [inv_some H; cbn [wfa]; lia|]. exact (S_attempts s I j w0 H).
      + intros j r d H. destruct (S_up s I j r d H) as (w0 & Hw0 & Hu & Hr).
        rewrite (wget_wset _ _ _ _ _ Ew). destruct (j =? i) eqn:E; [|exists w0; repeat split; assumption].
        apply Z.eqb_eq in E. subst j. rewrite Ew in Hw0. inv_some Hw0. eexists. split; [reflexivity|]. cbn [wr wup]. split; assumption.
      + intros j w0 H Hu. rewrite (wget_wset _ _ _ _ _ Ew) in H. destruct (j =? i) eqn:E; [|exact (S_notup s I j w0 H Hu)].
        apply Z.eqb_eq in E. subst j. inv_some H. cbn [wup] in Hu. exact (S_notup s I i w Ew Hu).
    - (* WBackend *)
      destruct (wget i (ws s)) as [w|] eqn:Ew; [|discriminate]. destruct (wq w) as [q|] eqn:Eq; [|discriminate].
      destruct (wr w) eqn:Er; [discriminate|]. inv_some Hs.
      constructor; cbn [px ws nonce invoked inv_ids uploads]; try (destruct I; assumption).
      + intros j w0 q0 H Hq. rewrite (wget_wset _ _ _ _ _ Ew) in H. destruct (j =? i) eqn:E; [|exact (S_fetch s I j w0 q0 H Hq)].
        apply Z.eqb_eq in E. subst j. inv_some H. cbn [wq] in Hq. apply (S_fetch s I i w q0 Ew). congruence.
      + intros j w0 r H Hr. rewrite (wget_wset _ _ _ _ _ Ew) in H. destruct (j =? i) eqn:E.
        * apply Z.eqb_eq in E. subst j. inv_some H. cbn [wr wq] in *. inv_some Hr. exists q, (nonce s). repeat split; try assumption; try reflexivity; try lia; try (left; reflexivity).
        * destruct (S_res s I j w0 r H Hr) as (q0 & n & A & B & C & D). exists q0, n. repeat split; try assumption; [right; exact C|lia].
      + intros j r c H. destruct (S_deliv s I j r c H) as (w0 & Hw0 & Hr & Hu).
        rewrite (wget_wset _ _ _ _ _ Ew). destruct (j =? i) eqn:E; [|exists w0; repeat split; assumption].
        apply Z.eqb_eq in E. subst j. rewrite Ew in Hw0. inv_some Hw0. congruence.
      + intros q0 n r [H|H]; [inv_some H; lia|]. pose proof (S_nonce s I q0 n r H). lia.
      + cbn [map snd fst]. constructor; [|exact (S_inv_once s I)]. intros Hin. apply in_map_iff in Hin.
        destruct Hin as ([[q0 n] r] & Hn & Hin). cbn [snd fst] in Hn. subst n. pose proof (S_nonce s I _ _ _ Hin). lia.
      + constructor; [|exact (S_inv_ids s I)]. intros Hin. destruct (S_inv_ids_res s I i Hin) as (w0 & r & Hw0 & Hr). rewrite Ew in Hw0. inv_some Hw0. congruence.
      + intros j [Hj|Hj].
        * subst j. rewrite (wget_wset _ _ _ _ _ Ew), Z.eqb_refl. eexists _, _. split; reflexivity.
        * destruct (S_inv_ids_res s I j Hj) as (w0 & r & Hw0 & Hr). rewrite (wget_wset _ _ _ _ _ Ew).
          destruct (j =? i) eqn:E; [|exists w0, r; split; assumption]. apply Z.eqb_eq in E. subst j. rewrite Ew in Hw0. inv_some Hw0. congruence.
      + cbn [length]. f_equal. exact (S_len s I).
      + intros j w0 H. rewrite (wget_wset _ _ _ _ _ Ew) in H. destruct (j =? i); [inv_some H; cbn [wfa]; exact (S_attempts s I i w Ew)|]. exact (S_attempts s I j w0 H).
      + intros j r d H. destruct (S_up s I j r d H) as (w0 & Hw0 & Hu & Hr).
        rewrite (wget_wset _ _ _ _ _ Ew). destruct (j =? i) eqn:E; [|exists w0; repeat split; assumption].
        apply Z.eqb_eq in E. subst j. rewrite Ew in Hw0. inv_some Hw0. congruence.
      + intros j w0 H Hu. rewrite (wget_wset _ _ _ _ _ Ew) in H. destruct (j =? i) eqn:E; [|exact (S_notup s I j w0 H Hu)].
        apply Z.eqb_eq in E. subst j. inv_some H. cbn [wup] in Hu. exact (S_notup s I i w Ew Hu).
    - (* WUpload *)
      destruct (wget i (ws s)) as [w|] eqn:Ew; [|discriminate]. destruct (wr w) as [r|] eqn:Er; [|discriminate].
      destruct (wup w) eqn:Eu; [discriminate|].
      destruct (step gen (px s) (Post i r d)) as [p|] eqn:Ep; [|discriminate]. inv_some Hs.
      destruct (step_keeps _ _ _ Ep) as [Ef Ed].
      constructor; cbn [px ws nonce invoked inv_ids uploads]; try (destruct I; assumption).
      + eapply inv_step; [exact (S_px s I)|exact Ep].
      + intros j w0 q H Hq. rewrite Ef. rewrite (wget_wset _ _ _ _ _ Ew) in H. destruct (j =? i) eqn:E; [|exact (S_fetch s I j w0 q H Hq)].
        apply Z.eqb_eq in E. subst j. inv_some H. cbn [wq] in Hq. exact (S_fetch s I i w q Ew Hq).
      + intros j w0 r0 H Hr. rewrite (wget_wset _ _ _ _ _ Ew) in H. destruct (j =? i) eqn:E; [|exact (S_res s I j w0 r0 H Hr)].
        apply Z.eqb_eq in E. subst j. inv_some H. cbn [wr wq] in *. apply (S_res s I i w r0 Ew). congruence.
      + intros j r0 c H. rewrite (wget_wset _ _ _ _ _ Ew).
        assert (Hold : In (j, r0, c) (delivered (px s)) -> exists w0, (if j =? i then Some {| wq := wq w; wr := Some r; wup := true; wfa := wfa w |} else wget j (ws s)) = Some w0 /\ wr w0 = Some r0 /\ wup w0 = true).
        { intros H0. destruct (S_deliv s I j r0 c H0) as (w0 & Hw0 & Hr & Hu). destruct (j =? i) eqn:E; [|exists w0; repeat split; assumption].
          apply Z.eqb_eq in E. subst j. rewrite Ew in Hw0. inv_some Hw0. congruence. }
        destruct Ed as [Ed|(c0 & Hd & Ed)]; rewrite Ed in H; [exact (Hold H)|].
        destruct H as [H|H]; [|exact (Hold H)]. inv_some H. rewrite Z.eqb_refl. eexists. split; [reflexivity|]. cbn [wr wup]. split; reflexivity.
      + intros j Hj. destruct (S_inv_ids_res s I j Hj) as (w0 & r0 & Hw0 & Hr). rewrite (wget_wset _ _ _ _ _ Ew).
        destruct (j =? i) eqn:E; [|exists w0, r0; split; assumption]. eexists _, _. split; reflexivity.
      + intros j w0 H. rewrite (wget_wset _ _ _ _ _ Ew) in H. destruct (j =? i); [inv_some H; cbn [wfa]; exact (S_attempts s I i w Ew)|]. exact (S_attempts s I j w0 H).
      + cbn [map fst]. constructor; [|exact (S_up_once s I)]. exact (S_notup s I i w Ew Eu).
      + intros j r0 d0 [H|H].
        * inv_some H. rewrite (wget_wset _ _ _ _ _ Ew), Z.eqb_refl. eexists. split; [reflexivity|]. cbn [wr wup]. split; reflexivity.
        * destruct (S_up s I j r0 d0 H) as (w0 & Hw0 & Hu & Hr). rewrite (wget_wset _ _ _ _ _ Ew). destruct (j =? i) eqn:E; [|exists w0; repeat split; assumption].
          apply Z.eqb_eq in E. subst j. rewrite Ew in Hw0. inv_some Hw0. congruence.
      + intros j w0 H Hu. rewrite (wget_wset _ _ _ _ _ Ew) in H. destruct (j =? i) eqn:E; [inv_some H; cbn [wup] in Hu; discriminate|].
        cbn [map fst]. intros [Hin|Hin]; [apply Z.eqb_neq in E; congruence|]. exact (S_notup s I j w0 H Hu Hin).
  Qed.

  Lemma sinv_run tr : forall s s', SInv s -> srun s tr = Some s' -> SInv s'.
  Proof.
    induction tr as [|l tr IH]; intros s s' I H; cbn [System.srun] in H; [inversion H; subst; exact I|].
    destruct (sstep s l) as [s1|] eqn:E; [|discriminate]. eapply IH; [|exact H]. eapply sinv_step; eassumption.
  Qed.

  (* C01 end to end: whatever a client receives is the backend's answer to that client's own request *)
  Theorem end_to_end tr s : srun sinit tr = Some s -> inj_upto gen (drawn (px s)) ->
    forall i r c, In (i, r, c) (delivered (px s)) ->
      exists v n, cget c (clients (px s)) = Some v /\ cid v = i /\ cph v = PDone r /\
                  r = backend (ctok v) n /\ In (ctok v, n, r) (invoked s).
  Proof.
    intros Hr Hinj i r c Hd. pose proof (sinv_run tr sinit s sinv_init Hr) as I.
    destruct (I_deliv gen _ (S_px s I) i r c Hd) as (v & Hv & Hi & Hp).
    destruct (S_deliv s I i r c Hd) as (w & Hw & Hwr & _).
    destruct (S_res s I i w r Hw Hwr) as (q & n & Hq & Hb & Hin & _).
    pose proof (S_fetch s I i w q Hw Hq) as Hf.
    destruct (I_fetch gen _ (S_px s I) i q Hf) as (c2 & v2 & Hv2 & Hi2 & Hq2).
    assert (c = c2) by (eapply (owner_unique gen); try eassumption; [exact (S_px s I)|congruence]). subst c2.
    rewrite Hv in Hv2. inv_some Hv2. exists v2, n. repeat split; try assumption; congruence.
  Qed.

  (* each backend invocation has its own nonce; each worker uploads at most once; attempts bounded *)
  Theorem once_each tr s : srun sinit tr = Some s ->
    NoDup (map (fun e => snd (fst e)) (invoked s)) /\ NoDup (map (fun u => fst (fst u)) (uploads s)) /\
    NoDup (map (fun d => snd d) (delivered (px s))) /\
    (forall i w, wget i (ws s) = Some w -> (wfa w <= max_fetch)%nat) /\
    (* at most one backend invocation per worker, and only after a successful fetch *)
    NoDup (inv_ids s) /\ length (inv_ids s) = length (invoked s) /\
    (forall i w r, wget i (ws s) = Some w -> wr w = Some r -> exists q, wq w = Some q).
  Proof.
    intros Hr. pose proof (sinv_run tr sinit s sinv_init Hr) as I. repeat split.
    - exact (S_inv_once s I).
    - exact (S_up_once s I).
    - exact (I_deliv_once gen _ (S_px s I)).
    - exact (S_attempts s I).
    - exact (S_inv_ids s I).
    - exact (S_len s I).
    - intros i w r Hw Hwr. destruct (S_res s I i w r Hw Hwr) as (q & n & Hq & _). exists q. exact Hq.
  Qed.
End SInv.
