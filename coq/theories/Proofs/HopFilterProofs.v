(* Proofs for Server/HopFilter.v (C02). *)
From Coq Require Import String List Bool.
From IP Require Import Lib.Header Server.HopFilter.
Import ListNotations.
Open Scope string_scope.
Open Scope list_scope.

Lemma hvalues_notin k h : ~ In k (hkeys h) -> hvalues k h = [].
Proof.
  induction h as [|[n vs] h IH]; cbn [hkeys map fst hvalues In]; [reflexivity|].
  intros H. destruct (n =? k) eqn:E; [apply String.eqb_eq in E; exfalso; apply H; left; exact E|].
  apply IH. intros Hin. apply H. right. exact Hin.
Qed.

Lemma hkeys_hadd k v h : hkeys (hadd k v h) = if existsb (String.eqb k) (hkeys h) then hkeys h else hkeys h ++ [k].
Proof.
  induction h as [|[n vs] h IH]; cbn [hadd hkeys map fst existsb]; [reflexivity|].
  destruct (n =? k) eqn:E.
  - apply String.eqb_eq in E. subst n. rewrite String.eqb_refl. reflexivity.
  - rewrite String.eqb_sym, E. cbn [orb map fst]. unfold hkeys in IH. rewrite IH.
    destruct (existsb (String.eqb k) (map fst h)); reflexivity.
Qed.

Lemma NoDup_hadd k v h : NoDup (hkeys h) -> NoDup (hkeys (hadd k v h)).
Proof.
  intros HN. rewrite hkeys_hadd. destruct (existsb (String.eqb k) (hkeys h)) eqn:E; [exact HN|].
  assert (Hnin : ~ In k (hkeys h)).
  { intros Hin. assert (existsb (String.eqb k) (hkeys h) = true); [|congruence].
    apply existsb_exists. exists k. split; [exact Hin|apply String.eqb_refl]. }
  clear E. induction (hkeys h) as [|x l IH]; cbn [app]; [constructor; [intros []|constructor]|].
  inversion HN as [|? ? Hx HN']; subst. constructor.
  - intros Hin. apply in_app_or in Hin. destruct Hin as [Hin|[Hin|[]]]; [contradiction|]. subst. apply Hnin. left. reflexivity.
  - apply IH; [exact HN'|]. intros Hin. apply Hnin. right. exact Hin.
Qed.

Lemma NoDup_of_wire fields : NoDup (hkeys (of_wire fields)).
Proof.
  unfold of_wire. assert (G : forall h, NoDup (hkeys h) -> NoDup (hkeys (fold_left (fun h f => hadd (canon (fst f)) (snd f) h) fields h))).
  { induction fields as [|f fields IH]; intros h HN; cbn [fold_left]; [exact HN|]. apply IH. apply NoDup_hadd. exact HN. }
  apply G. constructor.
Qed.

Lemma hkeys_hfilter_incl keep h k : In k (hkeys (hfilter keep h)) -> In k (hkeys h).
Proof.
  unfold hkeys, hfilter. intros H. apply in_map_iff in H. destruct H as (f & Hf & Hin). apply filter_In in Hin.
  apply in_map_iff. exists f. tauto.
Qed.

Lemma NoDup_hfilter keep h : NoDup (hkeys h) -> NoDup (hkeys (hfilter keep h)).
Proof.
  induction h as [|[n vs] h IH]; cbn [hfilter filter hkeys map fst]; [intros; constructor|].
  intros HN. inversion HN as [|? ? Hx HN']; subst. destruct (keep n); cbn [map fst]; [|apply IH; exact HN'].
  constructor; [|apply IH; exact HN']. intros Hin. apply Hx. eapply hkeys_hfilter_incl. exact Hin.
Qed.

(* a filter on names keeps or removes a field as a whole, and touches nothing else *)
Lemma hvalues_hfilter keep h k : NoDup (hkeys h) ->
  hvalues k (hfilter keep h) = if keep k then hvalues k h else [].
Proof.
  induction h as [|[n vs] h IH]; cbn [hfilter filter hvalues hkeys map fst]; [destruct (keep k); reflexivity|].
  intros HN. inversion HN as [|? ? Hx HN']; subst. destruct (n =? k) eqn:E.
  - apply String.eqb_eq in E. subst n. destruct (keep k) eqn:Ek; cbn [hvalues].
    + rewrite String.eqb_refl. reflexivity.
    + apply hvalues_notin. intros Hin. apply Hx. eapply hkeys_hfilter_incl. exact Hin.
  - destruct (keep n); cbn [hvalues]; [rewrite E|]; apply IH; exact HN'.
Qed.

Theorem server_filter_exact tbl h k : NoDup (hkeys h) ->
  hvalues k (server_filter tbl h) = if key_in tbl (lower k) then [] else hvalues k h.
Proof.
  intros HN. unfold server_filter. rewrite hvalues_hfilter by exact HN. destruct (key_in tbl (lower k)); reflexivity.
Qed.

Theorem to_backend_values tbl fields k :
  hvalues k (to_backend tbl fields) =
  if key_in tbl (lower k) || key_in lib_hop k then [] else hvalues k (of_wire fields).
Proof.
  unfold to_backend, revproxy_filter.
  rewrite hvalues_hfilter by (apply NoDup_hfilter; apply NoDup_of_wire).
  rewrite server_filter_exact by apply NoDup_of_wire.
  destruct (key_in tbl (lower k)), (key_in lib_hop k); reflexivity.
Qed.
