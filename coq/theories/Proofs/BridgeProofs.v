(* Proofs for Codec/Hex.v and TcpBridge/Conn.v (C15, C16). *)
From Coq Require Import List Arith Bool Lia.
From IP Require Import Codec.Hex TcpBridge.Conn.
Import ListNotations.

Lemma unhex_hexdigit d : d < 16 -> unhex (hexdigit d) = Some d.
Proof.
  intros H. do 16 (destruct d as [|d]; [reflexivity|]). lia.
Qed.

Theorem hex_roundtrip bs : Forall (fun b => b < 256) bs -> hex_decode (hex_encode bs) = Some bs.
Proof.
  induction 1 as [|b bs Hb HF IH]; [reflexivity|].
  cbn [hex_encode hex_decode].
  assert (H1 : b / 16 < 16) by (apply Nat.div_lt_upper_bound; lia).
  assert (H2 : b mod 16 < 16) by (apply Nat.mod_upper_bound; lia).
  rewrite (unhex_hexdigit _ H1), (unhex_hexdigit _ H2), IH.
  f_equal. f_equal. pose proof (Nat.div_mod b 16 ltac:(lia)). lia.
Qed.

(* ---- reassembly ---- *)
Definition payload_of (f : frame) : list nat :=
  match f with FText p => match hex_decode p with Some bs => bs | None => [] end | FOther => [] end.
Definition valid (f : frame) : bool :=
  match f with FText p => match hex_decode p with Some _ => true | None => false end | FOther => true end.
Definition all_bytes (st : list nat * list frame) : list nat := fst st ++ concat (map payload_of (snd st)).

Lemma refill_conserves frames : forallb valid frames = true ->
  match refill frames with
  | (Some bs, r, _) => bs <> [] /\ bs ++ concat (map payload_of r) = concat (map payload_of frames) /\ forallb valid r = true
  | (None, r, err) => err = false /\ concat (map payload_of frames) = [] /\ r = []
  end.
Proof.
  induction frames as [|f frames IH]; cbn [refill forallb]; [auto|].
  intros H. apply andb_true_iff in H. destruct H as [Hf HF]. specialize (IH HF).
  destruct f as [p|]; cbn [refill map concat payload_of].
  - cbn [valid] in Hf. destruct (hex_decode p) as [bs|] eqn:E; [|discriminate].
    destruct bs as [|b bs].
    + cbn [app]. exact IH.
    + split; [discriminate|]. split; [reflexivity|exact HF].
  - cbn [app]. exact IH.
Qed.

(* one Read: the bytes returned followed by what is left equal what was there; something is returned when there is something *)
Lemma conn_read_conserves st n : 1 <= n -> forallb valid (snd st) = true ->
  match conn_read st n with
  | (RData bs, st') => bs <> [] /\ bs ++ all_bytes st' = all_bytes st /\ forallb valid (snd st') = true
  | (RNoMore, st') => all_bytes st = []
  | (RErrDecode, _) => False
  end.
Proof.
  intros Hn HV. destruct st as [buf frames]. cbn [snd] in HV. unfold conn_read, all_bytes.
  destruct buf as [|b buf].
  - pose proof (refill_conserves frames HV) as R. destruct (refill frames) as [[[bs|] r] err].
    + destruct R as (Hne & Hc & Hv). cbn [fst snd]. split.
      * destruct bs; [contradiction|]. destruct n; [lia|]. discriminate.
      * split; [|exact Hv]. rewrite app_assoc, firstn_skipn. cbn [app]. exact Hc.
    + destruct R as (He & Hc & Hr). subst err. cbn [fst snd app]. exact Hc.
  - cbn [fst snd]. split; [destruct n; [lia|discriminate]|]. split; [|exact HV].
    rewrite app_assoc, firstn_skipn. reflexivity.
Qed.

(* any sequence of Reads with non-empty buffers returns a prefix of the byte stream, in order, nothing lost or added *)
Theorem reads_prefix sizes : forall st, Forall (fun n => 1 <= n) sizes -> forallb valid (snd st) = true ->
  exists rest, data_of (conn_reads st sizes) ++ rest = all_bytes st.
Proof.
  induction sizes as [|n sizes IH]; intros st HS HV; cbn [conn_reads data_of].
  - exists (all_bytes st). reflexivity.
  - inversion HS as [|? ? Hn HS']; subst. pose proof (conn_read_conserves st n Hn HV) as C.
    destruct (conn_read st n) as [res st']. destruct res as [bs| |].
    + destruct C as (_ & Hc & Hv). destruct (IH st' HS' Hv) as (rest & Hr). cbn [data_of]. exists rest. rewrite <- app_assoc, Hr. exact Hc.
    + contradiction.
    + cbn [data_of]. exists (all_bytes st). reflexivity.
Qed.

(* and the reads stop early only when everything has been handed out *)
Theorem reads_complete sizes : forall st, Forall (fun n => 1 <= n) sizes -> forallb valid (snd st) = true ->
  List.length (all_bytes st) <= List.length sizes -> data_of (conn_reads st sizes) = all_bytes st.
Proof.
  induction sizes as [|n sizes IH]; intros st HS HV HL; cbn [conn_reads data_of].
  - destruct (all_bytes st); [reflexivity|cbn in HL; lia].
  - inversion HS as [|? ? Hn HS']; subst. pose proof (conn_read_conserves st n Hn HV) as C.
    destruct (conn_read st n) as [res st']. destruct res as [bs| |].
    + destruct C as (Hne & Hc & Hv). cbn [data_of]. rewrite (IH st' HS' Hv).
      * exact Hc.
      * rewrite <- Hc, app_length in HL. cbn [List.length] in HL. destruct bs; [contradiction|]. cbn [List.length] in HL. lia.
    + contradiction.
    + cbn [data_of]. symmetry. exact C.
Qed.

(* a written chunk arrives as itself *)
Lemma write_then_payload bs : Forall (fun b => b < 256) bs -> payload_of (conn_write bs) = bs /\ valid (conn_write bs) = true.
Proof. intros H. unfold conn_write, payload_of, valid. rewrite (hex_roundtrip bs H). split; reflexivity. Qed.

(* ---- life-cycle (C16), for the repaired code (close_dest = true) ---- *)
Definition LInv (s : life) : Prop :=
  (handler_done s = true -> a_open s = false /\ b_open s = false /\ copy_ab s = false /\ copy_ba s = false) /\
  (copy_ab s = false -> b_open s = false) /\ (copy_ba s = false -> a_open s = false).

Lemma linv_init : LInv life_init.
Proof. unfold LInv, life_init. cbn. repeat split; discriminate. Qed.

Lemma linv_step s e s' : LInv s -> lstep true s e = Some s' -> LInv s'.
Proof.
  unfold LInv. intros (H1 & H2 & H3) Hs. destruct e; cbn [lstep] in Hs.
  - inversion Hs; subst; cbn. auto.
  - inversion Hs; subst; cbn. auto.
  - destruct (copy_ab s && (a_peer_closed s || negb (a_open s))) eqn:E; [|discriminate]. inversion Hs; subst; cbn.
    apply andb_true_iff in E. destruct E as [Ec _].
    split; [intros Hd; destruct (H1 Hd) as (_ & _ & X & _); congruence|]. split; [reflexivity|exact H3].
  - destruct (copy_ba s && (b_peer_closed s || negb (b_open s))) eqn:E; [|discriminate]. inversion Hs; subst; cbn.
    apply andb_true_iff in E. destruct E as [Ec _].
    split; [intros Hd; destruct (H1 Hd) as (_ & _ & _ & X); congruence|]. split; [exact H2|reflexivity].
  - destruct (negb (copy_ab s) && negb (copy_ba s) && negb (handler_done s)) eqn:E; [|discriminate]. inversion Hs; subst; cbn.
    repeat split; reflexivity.
Qed.

Lemma linv_run es : forall s s', LInv s -> lrun true s es = Some s' -> LInv s'.
Proof.
  induction es as [|e es IH]; intros s s' I H; cbn [lrun] in H; [inversion H; subst; exact I|].
  destruct (lstep true s e) as [s1|] eqn:E; [|discriminate]. eapply IH; [|exact H]. eapply linv_step; eassumption.
Qed.

(* after either peer has closed, every quiescent state has both bridge connections closed and the handler returned *)
Theorem close_propagates es s : lrun true life_init es = Some s ->
  a_peer_closed s = true \/ b_peer_closed s = true -> quiescent true s = true ->
  a_open s = false /\ b_open s = false /\ handler_done s = true.
Proof.
  intros Hr Hp Hq. pose proof (linv_run es life_init s linv_init Hr) as (H1 & H2 & H3).
  unfold quiescent in Hq. cbn [lstep] in Hq.
  destruct (copy_ab s) eqn:Eab; destruct (copy_ba s) eqn:Eba; cbn [andb negb] in Hq.
  - (* both running: one of them can end *)
    destruct Hp as [Hp|Hp]; rewrite Hp in Hq; cbn [orb] in Hq; [discriminate|].
    destruct (a_peer_closed s || negb (a_open s)); discriminate.
  - (* ba ended: a is closed, so ab can end *)
    rewrite (H3 eq_refl) in Hq. cbn [negb orb] in Hq. rewrite orb_true_r in Hq. discriminate.
  - rewrite (H2 eq_refl) in Hq. cbn [negb orb] in Hq. rewrite orb_true_r in Hq. discriminate.
  - destruct (handler_done s) eqn:Ed; cbn [negb] in Hq; [|discriminate].
    destruct (H1 eq_refl) as (A & B & _). repeat split; assumption.
Qed.

(* ---- several streams at once (C15): both directions, concurrently bridged connections ---- *)
Lemma all_bytes_snoc st bs : Forall (fun b => b < 256) bs ->
  all_bytes (fst st, snd st ++ [conn_write bs]) = all_bytes st ++ bs /\
  (forallb valid (snd st) = true -> forallb valid (snd st ++ [conn_write bs]) = true).
Proof.
  intros H. destruct (write_then_payload bs H) as [P V]. unfold all_bytes. cbn [fst snd]. split.
  - rewrite map_app, concat_app. cbn [map concat]. rewrite P, app_nil_r, app_assoc. reflexivity.
  - intros HV. rewrite forallb_app, HV. cbn [forallb]. rewrite V. reflexivity.
Qed.

Lemma mtrace_inv es : forall m, Forall ev_ok es -> (forall k, forallb valid (snd (m k)) = true) ->
  forall k, exists rest, got k (mtrace m es) ++ rest = all_bytes (m k) ++ written k es.
Proof.
  induction es as [|e es IH]; intros m HE HV k.
  - exists (all_bytes (m k)). cbn [mtrace got written]. rewrite app_nil_r. reflexivity.
  - inversion HE as [|? ? He HE']; subst. destruct e as [j bs|j n]; cbn [mtrace mstep ev_ok] in *.
    + destruct (all_bytes_snoc (m j) bs He) as [A V].
      set (m' := upd m j (fst (m j), snd (m j) ++ [conn_write bs])).
      assert (HV' : forall k0, forallb valid (snd (m' k0)) = true).
      { intros k0. unfold m', upd. destruct (k0 =? j) eqn:E; [apply V; apply HV|apply HV]. }
      destruct (IH m' HE' HV' k) as [rest Hr]. exists rest. cbn [app written]. rewrite Hr.
      unfold m', upd. rewrite (Nat.eqb_sym j k). destruct (k =? j) eqn:E.
      * apply Nat.eqb_eq in E. subst j. rewrite A, <- app_assoc. reflexivity.
      * reflexivity.
    + pose proof (conn_read_conserves (m j) n He (HV j)) as C.
      destruct (conn_read (m j) n) as [[bs| |] st'] eqn:Er.
      * destruct C as (_ & C2 & C3).
        set (m' := upd m j st').
        assert (HV' : forall k0, forallb valid (snd (m' k0)) = true).
        { intros k0. unfold m', upd. destruct (k0 =? j) eqn:E; [exact C3|apply HV]. }
        destruct (IH m' HE' HV' k) as [rest Hr]. exists rest. cbn [app got written].
        rewrite (Nat.eqb_sym j k). fold m'. destruct (k =? j) eqn:E.
        -- apply Nat.eqb_eq in E. subst j.
           assert (Em : m' k = st') by (unfold m', upd; rewrite Nat.eqb_refl; reflexivity).
           rewrite Em in Hr. rewrite <- app_assoc, Hr, app_assoc, C2. reflexivity.
        -- assert (Em : m' k = m k) by (unfold m', upd; rewrite E; reflexivity).
           rewrite Em in Hr. exact Hr.
      * destruct C.
      * destruct (IH m HE' HV k) as [rest Hr]. exists rest. cbn [app written]. exact Hr.
Qed.

Theorem streams_independent es k : Forall ev_ok es -> exists rest, got k (mtrace m_init es) ++ rest = written k es.
Proof.
  intros HE. destruct (mtrace_inv es m_init HE (fun _ => eq_refl) k) as [rest Hr]. exists rest. exact Hr.
Qed.
