(* Proofs for Codec/Hex.v and TcpBridge/Conn.v (C15, C16). *)
From Coq Require Import List Arith Bool Lia.
From IP Require Import Codec.Hex TcpBridge.Conn.
Import ListNotations.

Lemma unhex_hexdigit d : d < 16 -> unhex (hexdigit d) = Some d.
Proof.
  intros H. do 16 (destruct d as [|d]; [reflexivity|]). lia.
Qed.

Theorem hex_roundtrip bs : Forall (fun b => b < 256) bs -> hex_decode (hex_encode bs) = Some bs.
Proof.
  induction 1 as [|b bs Hb HF IH]; [reflexivity|].
  cbn [hex_encode hex_decode].
  assert (H1 : b / 16 < 16) by (apply Nat.div_lt_upper_bound; lia).
  assert (H2 : b mod 16 < 16) by (apply Nat.mod_upper_bound; lia).
  rewrite (unhex_hexdigit _ H1), (unhex_hexdigit _ H2), IH.
  f_equal. f_equal. pose proof (Nat.div_mod b 16 ltac:(lia)). lia.
Qed.

(* ---- reassembly ---- *)
Definition payload_of (f : frame) : list nat :=
  match f with FText p => match hex_decode p with Some bs => bs | None => [] end | FOther => [] end.
Definition valid (f : frame) : bool :=
  match f with FText p => match hex_decode p with Some _ => true | None => false end | FOther => true end.
Definition all_bytes (st : list nat * list frame) : list nat := fst st ++ concat (map payload_of (snd st)).

Lemma refill_conserves frames : forallb valid frames = true ->
  match refill frames with
  | (Some bs, r, _) => bs <> [] /\ bs ++ concat (map payload_of r) = concat (map payload_of frames) /\ forallb valid r = true
  | (None, r, err) => err = false /\ concat (map payload_of frames) = [] /\ r = []
  end.
Proof.
  induction frames as [|f frames IH]; cbn [refill forallb]; [auto|].
  intros H. apply andb_true_iff in H. destruct H as [Hf HF]. specialize (IH HF).
  destruct f as [p|]; cbn [refill map concat payload_of].
  - cbn [valid] in Hf. destruct (hex_decode p) as [bs|] eqn:E; [|discriminate].
    destruct bs as [|b bs].
    + cbn [app]. exact IH.
    + split; [discriminate|]. split; [reflexivity|exact HF].
  - cbn [app]. exact IH.
Qed.

(* one Read: the bytes returned followed by what is left equal what was there; something is returned when there is something *)
Lemma conn_read_conserves st n : 1 <= n -> forallb valid (snd st) = true ->
  match conn_read st n with
  | (RData bs, st') => bs <> [] /\ bs ++ all_bytes st' = all_bytes st /\ forallb valid (snd st') = true
  | (RNoMore, st') => all_bytes st = []
  | (RErrDecode, _) => False
  end.
Proof.
  intros Hn HV. destruct st as [buf frames]. cbn [snd] in HV. unfold conn_read, all_bytes.
  destruct buf as [|b buf].
  - pose proof (refill_conserves frames HV) as R. destruct (refill frames) as [[[bs|] r] err].
    + destruct R as (Hne & Hc & Hv). cbn [fst snd]. split.
      * destruct bs; [contradiction|]. destruct n; [lia|]. discriminate.
      * split; [|exact Hv]. rewrite app_assoc, firstn_skipn. cbn [app]. exact Hc.
    + destruct R as (He & Hc & Hr). subst err. cbn [fst snd app]. exact Hc.
  - cbn [fst snd]. split; [destruct n; [lia|discriminate]|]. split; [|exact HV].
    rewrite app_assoc, firstn_skipn. reflexivity.
Qed.

(* any sequence of Reads with non-empty buffers returns a prefix of the byte stream, in order, nothing lost or added *)
Theorem reads_prefix sizes : forall st, Forall (fun n => 1 <= n) sizes -> forallb valid (snd st) = true ->
  exists rest, data_of (conn_reads st sizes) ++ rest = all_bytes st.
Proof.
  induction sizes as [|n sizes IH]; intros st HS HV; cbn [conn_reads data_of].
  - exists (all_bytes st). reflexivity.
  - inversion HS as [|? ? Hn HS']; subst. pose proof (conn_read_conserves st n Hn HV) as C.
    destruct (conn_read st n) as [res st']. destruct res as [bs| |].
    + destruct C as (_ & Hc & Hv). destruct (IH st' HS' Hv) as (rest & Hr). cbn [data_of]. exists rest. rewrite <- app_assoc, Hr. exact Hc.
    + contradiction.
    + cbn [data_of]. exists (all_bytes st). reflexivity.
Qed.

(* and the reads stop early only when everything has been handed out *)
Theorem reads_complete sizes : forall st, Forall (fun n => 1 <= n) sizes -> forallb valid (snd st) = true ->
  List.length (all_bytes st) <= List.length sizes -> data_of (conn_reads st sizes) = all_bytes st.
Proof.
  induction sizes as [|n sizes IH]; intros st HS HV HL; cbn [conn_reads data_of].
  - destruct (all_bytes st); [reflexivity|cbn in HL; lia].
  - inversion HS as [|? ? Hn HS']; subst. pose proof (conn_read_conserves st n Hn HV) as C.
    destruct (conn_read st n) as [res st']. destruct res as [bs| |].
    + destruct C as (Hne & Hc & Hv). cbn [data_of]. rewrite (IH st' HS' Hv).
      * exact Hc.
      * rewrite <- Hc, app_length in HL. cbn [List.length] in HL. destruct bs; [contradiction|]. cbn [List.length] in HL. lia.
    + contradiction.
    + cbn [data_of]. symmetry. exact C.
Qed.

(* a written chunk arrives as itself *)
Lemma write_then_payload bs : Forall (fun b => b < 256) bs -> payload_of (conn_write bs) = bs /\ valid (conn_write bs) = true.
Proof. intros H. unfold conn_write, payload_of, valid. rewrite (hex_roundtrip bs H). split; reflexivity. Qed.

(* ---- life-cycle (C16), for the repaired code (close_dest = true) ---- *)
Definition LInv (s : life) : Prop :=
  (handler_done s = true -> a_open s = false /\ b_open s = false /\ copy_ab s = false /\ copy_ba s = false) /\
  (copy_ab s = false -> b_open s = false) /\ (copy_ba s = false -> a_open s = false).

Lemma linv_init : LInv life_init.
Proof. unfold LInv, life_init. cbn. repeat split; discriminate. Qed.

Lemma linv_step s e s' : LInv s -> lstep true s e = Some s' -> LInv s'.
Proof.
  unfold LInv. intros (H1 & H2 & H3) Hs. destruct e; cbn [lstep] in Hs.
  - inversion Hs; subst; cbn. auto.
  - inversion Hs; subst; cbn. auto.
  - destruct (copy_ab s && (a_peer_closed s || negb (a_open s))) eqn:E; [|discriminate]. inversion Hs; subst; cbn.
    apply andb_true_iff in E. destruct E as [Ec _].
    split; [intros Hd; destruct (H1 Hd) as (_ & _ & X & _); congruence|]. split; [reflexivity|exact H3].
  - destruct (copy_ba s && (b_peer_closed s || negb (b_open s))) eqn:E; [|discriminate]. inversion Hs; subst; cbn.
    apply andb_true_iff in E. destruct E as [Ec _].
    split; [intros Hd; destruct (H1 Hd) as (_ & _ & _ & X); congruence|]. split; [exact H2|reflexivity].
  - destruct (negb (copy_ab s) && negb (copy_ba s) && negb (handler_done s)) eqn:E; [|discriminate]. inversion Hs; subst; cbn.
    repeat split; reflexivity.
Qed.

Lemma linv_run es : forall s s', LInv s -> lrun true s es = Some s' -> LInv s'.
Proof.
  induction es as [|e es IH]; intros s s' I H; cbn [lrun] in H; [inversion H; subst; exact I|].
  destruct (lstep true s e) as [s1|] eqn:E; [|discriminate]. eapply IH; [|exact H]. eapply linv_step; eassumption.
Qed.

(* after either peer has closed, every quiescent state has both bridge connections closed and the handler returned *)
Theorem close_propagates es s : lrun true life_init es = Some s ->
  a_peer_closed s = true \/ b_peer_closed s = true -> quiescent true s = true ->
  a_open s = false /\ b_open s = false /\ handler_done s = true.
Proof.
  intros Hr Hp Hq. pose proof (linv_run es life_init s linv_init Hr) as (H1 & H2 & H3).
  unfold quiescent in Hq. cbn [lstep] in Hq.
  destruct (copy_ab s) eqn:Eab; destruct (copy_ba s) eqn:Eba; cbn [andb negb] in Hq.
  - (* both running: one of them can end *)
    destruct Hp as [Hp|Hp]; rewrite Hp in Hq; cbn [orb] in Hq; [discriminate|].
    destruct (a_peer_closed s || negb (a_open s)); discriminate.
  - (* ba ended: a is closed, so ab can end *)
    rewrite (H3 eq_refl) in Hq. cbn [negb orb] in Hq. rewrite orb_true_r in Hq. discriminate.
  - rewrite (H2 eq_refl) in Hq. cbn [negb orb] in Hq. rewrite orb_true_r in Hq. discriminate.
  - destruct (handler_done s) eqn:Ed; cbn [negb] in Hq; [|discriminate].
    destruct (H1 eq_refl) as (A & B & _). repeat split; assumption.
Qed.
