(* Proofs for TcpBridge/BridgeSys.v (C16): the two bridge halves composed. *)
From Coq Require Import List Bool Arith Lia.
From IP Require Import TcpBridge.Conn Proofs.BridgeProofs TcpBridge.BridgeSys.
Import ListNotations.

Lemma phase_eqb_eq p q : phase_eqb p q = true <-> p = q.
Proof. destruct p, q; cbn; split; intro H; try reflexivity; try discriminate. Qed.

(* ---------- one running half: when it can do nothing more it is either untouched or completely closed ---------- *)
Definition untouched (l : life) : Prop :=
  copy_ab l = true /\ copy_ba l = true /\ a_peer_closed l = false /\ b_peer_closed l = false /\ a_open l = true /\ b_open l = true.
Definition closed (l : life) : Prop := a_open l = false /\ b_open l = false /\ handler_done l = true.

Lemma half_quiescent l : LInv l -> quiescent true l = true -> untouched l \/ closed l.
Proof.
  intros (H1 & H2 & H3) Hq. unfold quiescent in Hq. cbn [lstep] in Hq.
  destruct (copy_ab l) eqn:Eab; destruct (copy_ba l) eqn:Eba; cbn [andb negb] in Hq.
  - left. destruct (a_peer_closed l) eqn:Pa; cbn [orb] in Hq; [discriminate|].
    destruct (a_open l) eqn:Oa; cbn [negb] in Hq; [|discriminate].
    destruct (b_peer_closed l) eqn:Pb; cbn [orb] in Hq; [discriminate|].
    destruct (b_open l) eqn:Ob; cbn [negb] in Hq; [|discriminate].
    unfold untouched. repeat split; assumption.
  - exfalso. rewrite (H3 eq_refl) in Hq. cbn [negb orb] in Hq. rewrite orb_true_r in Hq. discriminate.
  - exfalso. rewrite (H2 eq_refl) in Hq. cbn [negb orb] in Hq. rewrite orb_true_r in Hq. discriminate.
  - right. destruct (handler_done l) eqn:Ed; cbn [negb] in Hq; [|discriminate].
    destruct (H1 eq_refl) as (A & B & _). repeat split; assumption.
Qed.

(* ---------- invariant of the composed system ---------- *)
Definition HInv (h : half) : Prop :=
  match ph h with
  | HDial => copy_ab (lf h) = false /\ copy_ba (lf h) = false /\ handler_done (lf h) = false
  | HRun => LInv (lf h)
  | HFailed => closed (lf h)
  end.

Definition SInv (s : sys) : Prop :=
  HInv (fh s) /\ (forall b, bh s = Some b -> HInv b) /\
  (bh s = None -> ph (fh s) <> HRun) /\ (forall b, bh s = Some b -> ph (fh s) = HRun).

Lemma sinv_init : SInv sys_init.
Proof. unfold SInv, sys_init, HInv, f_init. cbn. repeat split; try discriminate. Qed.

Lemma linv_set_a l : LInv l -> LInv (set_a_peer l).
Proof. unfold LInv, set_a_peer. cbn. tauto. Qed.
Lemma linv_set_b l : LInv l -> LInv (set_b_peer l).
Proof. unfold LInv, set_b_peer. cbn. tauto. Qed.
Lemma linv_started l : LInv (started l).
Proof. unfold LInv, started. cbn. repeat split; discriminate. Qed.

Lemma hinv_set_a h : HInv h -> HInv {| ph := ph h; lf := set_a_peer (lf h) |}.
Proof. unfold HInv. cbn. destruct (ph h); [tauto|apply linv_set_a|unfold closed; cbn; tauto]. Qed.

Lemma sinv_step s e s' : SInv s -> sstep s e = Some s' -> SInv s'.
Proof.
  intros (I1 & I2 & I3 & I4) H. destruct e; cbn [sstep] in H.
  - (* EClientCloses *) injection H as <-. unfold SInv. cbn. split; [apply hinv_set_a; exact I1|]. split; [exact I2|]. split; [exact I3|exact I4].
  - (* EServerCloses *) destruct (bh s) as [b|] eqn:B; [|discriminate]. destruct (phase_eqb (ph b) HRun) eqn:P; [|discriminate]. injection H as <-.
    apply phase_eqb_eq in P. unfold SInv. cbn. split; [exact I1|]. split.
    + intros b' Hb. injection Hb as <-. pose proof (I2 b eq_refl) as Hb. unfold HInv in *. cbn. rewrite P in Hb. apply linv_set_a. exact Hb.
    + split; [discriminate|]. intros b' _. exact (I4 b eq_refl).
  - (* EFDialOk *) destruct (phase_eqb (ph (fh s)) HDial) eqn:P; [|discriminate]. injection H as <-. unfold SInv. cbn.
    split; [unfold HInv; cbn; apply linv_started|]. split.
    + intros b Hb. injection Hb as <-. unfold HInv, b_fresh. cbn. repeat split.
    + split; [discriminate|reflexivity].
  - (* EFDialFail *) destruct (phase_eqb (ph (fh s)) HDial) eqn:P; [|discriminate]. injection H as <-. unfold SInv. cbn.
    split; [unfold HInv, closed, failed; cbn; repeat split|]. split; [discriminate|]. split; [discriminate|discriminate].
  - (* EBDialOk *) destruct (bh s) as [b|] eqn:B; [|discriminate]. destruct (phase_eqb (ph b) HDial) eqn:P; [|discriminate]. injection H as <-.
    unfold SInv. cbn. split; [exact I1|]. split.
    + intros b' Hb. injection Hb as <-. unfold HInv. cbn. apply linv_started.
    + split; [discriminate|]. intros b' _. exact (I4 b eq_refl).
  - (* EBDialFail *) destruct (bh s) as [b|] eqn:B; [|discriminate]. destruct (phase_eqb (ph b) HDial) eqn:P; [|discriminate]. injection H as <-.
    unfold SInv. cbn. split; [exact I1|]. split.
    + intros b' Hb. injection Hb as <-. unfold HInv, closed, failed. cbn. repeat split.
    + split; [discriminate|]. intros b' _. exact (I4 b eq_refl).
  - (* EF *) destruct (phase_eqb (ph (fh s)) HRun && is_internal e) eqn:P; [|discriminate]. apply andb_true_iff in P. destruct P as (P & _). apply phase_eqb_eq in P.
    destruct (lstep true (lf (fh s)) e) as [l|] eqn:L; [|discriminate]. injection H as <-. unfold SInv. cbn.
    split; [unfold HInv in *; cbn; rewrite P in I1; eapply linv_step; eassumption|]. split; [exact I2|]. split; [intros Hn _; exact (I3 Hn P)|reflexivity].
  - (* EB *) destruct (bh s) as [b|] eqn:B; [|discriminate].
    destruct (phase_eqb (ph b) HRun && is_internal e) eqn:P; [|discriminate]. apply andb_true_iff in P. destruct P as (P & _). apply phase_eqb_eq in P.
    destruct (lstep true (lf b) e) as [l|] eqn:L; [|discriminate]. injection H as <-. unfold SInv. cbn. split; [exact I1|]. split.
    + intros b' Hb. injection Hb as <-. pose proof (I2 b eq_refl) as Hb. unfold HInv in *. cbn. rewrite P in Hb. eapply linv_step; eassumption.
    + split; [discriminate|]. intros b' _. exact (I4 b eq_refl).
  - (* ELinkF *) destruct (bh s) as [b|] eqn:B; [|discriminate].
    destruct (phase_eqb (ph (fh s)) HRun && negb (b_open (lf b)) && negb (b_peer_closed (lf (fh s)))) eqn:P; [|discriminate].
    apply andb_true_iff in P. destruct P as (P & _). apply andb_true_iff in P. destruct P as (P & _). apply phase_eqb_eq in P. injection H as <-.
    unfold SInv. cbn. split; [unfold HInv in *; cbn; rewrite P in I1; apply linv_set_b; exact I1|]. split; [intros b' Hb; injection Hb as <-; exact (I2 b eq_refl)|]. split; [discriminate|reflexivity].
  - (* ELinkB *) destruct (bh s) as [b|] eqn:B; [|discriminate].
    destruct (phase_eqb (ph b) HRun && negb (b_open (lf (fh s))) && negb (b_peer_closed (lf b))) eqn:P; [|discriminate].
    apply andb_true_iff in P. destruct P as (P & _). apply andb_true_iff in P. destruct P as (P & _). apply phase_eqb_eq in P. injection H as <-.
    unfold SInv. cbn. split; [exact I1|]. split.
    + intros b' Hb. injection Hb as <-. pose proof (I2 b eq_refl) as Hb. unfold HInv in *. cbn. rewrite P in Hb. apply linv_set_b. exact Hb.
    + split; [discriminate|]. intros b' _. exact (I4 b eq_refl).
Qed.

Lemma sinv_run es : forall s s', SInv s -> srun s es = Some s' -> SInv s'.
Proof.
  induction es as [|e es IH]; intros s s' I H; cbn [srun] in H; [injection H as <-; exact I|].
  destruct (sstep s e) as [s1|] eqn:E; [|discriminate]. eapply IH; [eapply sinv_step; eassumption|exact H].
Qed.

(* ---------- what quiescence of the whole system says ---------- *)
Lemma quiescent_event s e : squiescent s = true -> In e own_events -> sstep s e = None.
Proof.
  unfold squiescent. intros H Hin. rewrite forallb_forall in H. specialize (H e Hin). destruct (sstep s e); [discriminate|reflexivity].
Qed.

Lemma half_run_quiescent l : (forall e, is_internal e = true -> lstep true l e = None) -> quiescent true l = true.
Proof. intros H. unfold quiescent. rewrite (H CopyABEnds eq_refl), (H CopyBAEnds eq_refl), (H HandlerReturns eq_refl). reflexivity. Qed.

Lemma closed_half h : closed (lf h) -> half_closed h = true.
Proof. intros (A & B & D). unfold half_closed. rewrite A, B, D. reflexivity. Qed.

(* Once a peer has closed or a dial has failed, every state in which the bridge can take no step of its own has all
   four connection ends closed and both handlers returned. *)
Theorem sys_close_propagates es s : srun sys_init es = Some s -> triggered s = true -> squiescent s = true -> all_closed s = true.
Proof.
  intros Hr Ht Hq. pose proof (sinv_run es _ _ sinv_init Hr) as (I1 & I2 & I3 & I4).
  assert (Q : forall e, In e own_events -> sstep s e = None) by (intros e He; apply quiescent_event; assumption).
  (* the frontend half is not dialling any more *)
  assert (Fph : ph (fh s) <> HDial).
  { intro P. pose proof (Q EFDialOk ltac:(cbn; tauto)) as X. cbn [sstep] in X. rewrite P in X. cbn in X. discriminate. }
  (* a running frontend half is internally quiescent *)
  assert (FQ : ph (fh s) = HRun -> untouched (lf (fh s)) \/ closed (lf (fh s))).
  { intros P. apply half_quiescent; [unfold HInv in I1; rewrite P in I1; exact I1|]. apply half_run_quiescent. intros e He.
    assert (Hin : In (EF e) own_events) by (destruct e; try discriminate; cbn; tauto).
    pose proof (Q _ Hin) as X. cbn [sstep] in X. rewrite P, He in X. cbn in X. destruct (lstep true (lf (fh s)) e); [discriminate|reflexivity]. }
  destruct (bh s) as [b|] eqn:B.
  - (* the backend half exists: the frontend half runs *)
    pose proof (I4 b eq_refl) as PF. specialize (FQ PF). pose proof (I2 b eq_refl) as IB.
    assert (Bph : ph b <> HDial).
    { intro P. pose proof (Q EBDialOk ltac:(cbn; tauto)) as X. cbn [sstep] in X. rewrite B, P in X. cbn in X. discriminate. }
    assert (BQ : ph b = HRun -> untouched (lf b) \/ closed (lf b)).
    { intros P. apply half_quiescent; [unfold HInv in IB; rewrite P in IB; exact IB|]. apply half_run_quiescent. intros e He.
      assert (Hin : In (EB e) own_events) by (destruct e; try discriminate; cbn; tauto).
      pose proof (Q _ Hin) as X. cbn [sstep] in X. rewrite B, P, He in X. cbn in X. destruct (lstep true (lf b) e); [discriminate|reflexivity]. }
    (* the links have been noticed *)
    assert (LF : b_open (lf b) = false -> b_peer_closed (lf (fh s)) = true).
    { intros Ob. pose proof (Q ELinkF ltac:(cbn; tauto)) as X. cbn [sstep] in X. rewrite B, PF, Ob in X. cbn in X. destruct (b_peer_closed (lf (fh s))); [reflexivity|discriminate]. }
    assert (LB : ph b = HRun -> b_open (lf (fh s)) = false -> b_peer_closed (lf b) = true).
    { intros P Of. pose proof (Q ELinkB ltac:(cbn; tauto)) as X. cbn [sstep] in X. rewrite B, P, Of in X. cbn in X. destruct (b_peer_closed (lf b)); [reflexivity|discriminate]. }
    (* the backend half is closed ... *)
    assert (BC : closed (lf (fh s)) -> closed (lf b)).
    { intros (_ & Of & _). destruct (ph b) eqn:P; [congruence| |unfold HInv in IB; rewrite P in IB; exact IB].
      destruct (BQ eq_refl) as [U|Cb]; [|exact Cb]. destruct U as (_ & _ & _ & Pb & _). rewrite (LB eq_refl Of) in Pb. discriminate. }
    (* ... and so is the frontend half, whatever the trigger was *)
    assert (FC : closed (lf (fh s))).
    { destruct FQ as [U|Cf]; [|exact Cf]. exfalso. destruct U as (_ & _ & Pa & Pb & _ & _).
      unfold triggered in Ht. rewrite B, Pa, PF in Ht. cbn in Ht.
      assert (Cb : closed (lf b)).
      { apply orb_true_iff in Ht. destruct Ht as [Ht|Ht].
        - destruct (ph b) eqn:P; [congruence| |unfold HInv in IB; rewrite P in IB; exact IB].
          destruct (BQ eq_refl) as [U|Cb]; [|exact Cb]. destruct U as (_ & _ & Pab & _). congruence.
        - apply phase_eqb_eq in Ht. unfold HInv in IB. rewrite Ht in IB. exact IB. }
      destruct Cb as (_ & Ob & _). rewrite (LF Ob) in Pb. discriminate. }
    unfold all_closed. rewrite B, (closed_half _ FC), (closed_half _ (BC FC)). reflexivity.
  - (* no backend half: the frontend's dial failed *)
    unfold all_closed. rewrite B, andb_true_r. destruct (ph (fh s)) eqn:P; [congruence|exfalso; exact (I3 eq_refl eq_refl)|].
    unfold HInv in I1. rewrite P in I1. apply closed_half. exact I1.
Qed.

(* ---------- nothing is closed while both peers are there ---------- *)
Definition running_open (l : life) : Prop := a_open l = true /\ b_open l = true /\ copy_ab l = true /\ copy_ba l = true /\ handler_done l = false.

Definition PInv (s : sys) : Prop :=
  triggered s = false ->
  b_peer_closed (lf (fh s)) = false /\ (ph (fh s) = HRun -> running_open (lf (fh s))) /\
  (forall b, bh s = Some b -> b_peer_closed (lf b) = false /\ b_open (lf b) = true /\ (ph b = HRun -> running_open (lf b))).

Lemma pinv_init : PInv sys_init.
Proof. intros _. unfold sys_init, f_init. cbn. repeat split; discriminate. Qed.

Lemma trig_false s : triggered s = false ->
  a_peer_closed (lf (fh s)) = false /\ ph (fh s) <> HFailed /\
  (forall b, bh s = Some b -> a_peer_closed (lf b) = false /\ ph b <> HFailed).
Proof.
  unfold triggered. intros H. apply orb_false_iff in H. destruct H as (H & HB). apply orb_false_iff in H. destruct H as (Ha & Hp).
  split; [exact Ha|]. split; [intro E; rewrite E in Hp; discriminate|].
  intros b Hb. rewrite Hb in HB. apply orb_false_iff in HB. destruct HB as (A & P). split; [exact A|intro E; rewrite E in P; discriminate].
Qed.

Lemma trig_intro s : a_peer_closed (lf (fh s)) = false -> ph (fh s) <> HFailed ->
  (forall b, bh s = Some b -> a_peer_closed (lf b) = false /\ ph b <> HFailed) -> triggered s = false.
Proof.
  intros A P HB. unfold triggered. rewrite A. cbn. destruct (ph (fh s)) eqn:E; try congruence; cbn;
    (destruct (bh s) as [b|]; [destruct (HB b eq_refl) as (Ab & Pb); rewrite Ab; destruct (ph b); try congruence; reflexivity|reflexivity]).
Qed.

Lemma lstep_internal_running l e : running_open l -> a_peer_closed l = false -> b_peer_closed l = false -> is_internal e = true -> lstep true l e = None.
Proof.
  intros (Oa & Ob & Cab & Cba & D) Pa Pb He. destruct e; try discriminate; cbn [lstep]; rewrite ?Oa, ?Ob, ?Cab, ?Cba, ?Pa, ?Pb; reflexivity.
Qed.

Lemma pinv_step s e s' : SInv s -> PInv s -> sstep s e = Some s' -> PInv s'.
Proof.
  intros (I1 & I2 & I3 & I4) IP H T'. destruct (trig_false _ T') as (Ta & Tp & Tb). destruct e; cbn [sstep] in H.
  - injection H as <-. cbn in Ta. discriminate.
  - destruct (bh s) as [b|] eqn:B; [|discriminate]. destruct (phase_eqb (ph b) HRun); [|discriminate]. injection H as <-.
    destruct (Tb _ eq_refl) as (X & _). cbn in X. discriminate.
  - destruct (phase_eqb (ph (fh s)) HDial) eqn:P; [|discriminate]. apply phase_eqb_eq in P. injection H as <-.
    assert (Bn : bh s = None) by (destruct (bh s) as [b|] eqn:B; [pose proof (I4 b eq_refl); congruence|reflexivity]).
    assert (T : triggered s = false) by (apply trig_intro; [exact Ta|congruence|intros b Hb; congruence]).
    destruct (IP T) as (Pb & _). cbn. refine (conj Pb (conj _ _)).
    + intros _. unfold running_open, started. cbn. repeat split; reflexivity.
    + intros b Hb. injection Hb as <-. unfold b_fresh. cbn. split; [reflexivity|]. split; [reflexivity|]. intros X. discriminate X.
  - destruct (phase_eqb (ph (fh s)) HDial); [|discriminate]. injection H as <-. cbn in Tp. congruence.
  - destruct (bh s) as [b|] eqn:B; [|discriminate]. destruct (phase_eqb (ph b) HDial) eqn:P; [|discriminate]. apply phase_eqb_eq in P. injection H as <-.
    assert (T : triggered s = false).
    { apply trig_intro; [exact Ta|exact Tp|]. intros b' Hb. rewrite B in Hb. injection Hb as <-. destruct (Tb _ eq_refl) as (X & _). cbn in X. split; [exact X|congruence]. }
    destruct (IP T) as (Pf & Rf & HB). destruct (HB b B) as (Pb & Ob & _). cbn. refine (conj Pf (conj Rf _)).
    intros b' Hb. injection Hb as <-. cbn. split; [exact Pb|]. split; [reflexivity|]. intros _. unfold running_open, started. cbn. repeat split; reflexivity.
  - destruct (bh s) as [b|] eqn:B; [|discriminate]. destruct (phase_eqb (ph b) HDial); [|discriminate]. injection H as <-.
    destruct (Tb _ eq_refl) as (_ & X). cbn in X. congruence.
  - (* EF: not enabled in a pristine state *)
    destruct (phase_eqb (ph (fh s)) HRun && is_internal e) eqn:P; [|discriminate]. apply andb_true_iff in P. destruct P as (P & He). apply phase_eqb_eq in P.
    destruct (lstep true (lf (fh s)) e) as [l|] eqn:L; [|discriminate]. injection H as <-. exfalso.
    assert (Pa : a_peer_closed (lf (fh s)) = false).
    { cbn in Ta. destruct e; try discriminate; cbn [lstep] in L;
        repeat match type of L with context [if ?c then _ else _] => destruct c; [|discriminate] end; injection L as <-; exact Ta. }
    assert (T : triggered s = false).
    { apply trig_intro; [exact Pa|congruence|]. intros b Hb. exact (Tb b Hb). }
    destruct (IP T) as (Pb & Rf & _). rewrite (lstep_internal_running _ _ (Rf P) Pa Pb He) in L. discriminate.
  - destruct (bh s) as [b|] eqn:B; [|discriminate].
    destruct (phase_eqb (ph b) HRun && is_internal e) eqn:P; [|discriminate]. apply andb_true_iff in P. destruct P as (P & He). apply phase_eqb_eq in P.
    destruct (lstep true (lf b) e) as [l|] eqn:L; [|discriminate]. injection H as <-. exfalso.
    assert (Pa : a_peer_closed (lf b) = false).
    { destruct (Tb _ eq_refl) as (X & _). cbn in X. destruct e; try discriminate; cbn [lstep] in L;
        repeat match type of L with context [if ?c then _ else _] => destruct c; [|discriminate] end; injection L as <-; exact X. }
    assert (T : triggered s = false).
    { apply trig_intro; [exact Ta|exact Tp|]. intros b' Hb. rewrite B in Hb. injection Hb as <-. split; [exact Pa|congruence]. }
    destruct (IP T) as (_ & _ & HB). destruct (HB b B) as (Pb & _ & Rb). rewrite (lstep_internal_running _ _ (Rb P) Pa Pb He) in L. discriminate.
  - (* ELinkF: needs the backend's websocket end closed *)
    destruct (bh s) as [b|] eqn:B; [|discriminate].
    destruct (phase_eqb (ph (fh s)) HRun && negb (b_open (lf b)) && negb (b_peer_closed (lf (fh s)))) eqn:P; [|discriminate]. injection H as <-. exfalso.
    apply andb_true_iff in P. destruct P as (P & _). apply andb_true_iff in P. destruct P as (P & Ob). apply phase_eqb_eq in P.
    assert (T : triggered s = false).
    { apply trig_intro; [exact Ta|congruence|]. intros b' Hb. rewrite B in Hb. injection Hb as <-. exact (Tb b eq_refl). }
    destruct (IP T) as (_ & _ & HB). destruct (HB b B) as (_ & Ob' & _). rewrite Ob' in Ob. discriminate.
  - destruct (bh s) as [b|] eqn:B; [|discriminate].
    destruct (phase_eqb (ph b) HRun && negb (b_open (lf (fh s))) && negb (b_peer_closed (lf b))) eqn:P; [|discriminate]. injection H as <-. exfalso.
    apply andb_true_iff in P. destruct P as (P & _). apply andb_true_iff in P. destruct P as (P & Of). apply phase_eqb_eq in P.
    assert (T : triggered s = false).
    { apply trig_intro; [exact Ta|exact Tp|]. intros b' Hb. rewrite B in Hb. injection Hb as <-. destruct (Tb _ eq_refl) as (X & _). cbn in X. split; [exact X|congruence]. }
    destruct (IP T) as (_ & Rf & _). destruct (Rf (I4 b eq_refl)) as (_ & Ob & _). rewrite Ob in Of. discriminate.
Qed.

Lemma pinv_run es : forall s s', SInv s -> PInv s -> srun s es = Some s' -> PInv s'.
Proof.
  induction es as [|e es IH]; intros s s' I IP H; cbn [srun] in H; [injection H as <-; exact IP|].
  destruct (sstep s e) as [s1|] eqn:E; [|discriminate]. eapply IH; [eapply sinv_step; eassumption|eapply pinv_step; eassumption|exact H].
Qed.

(* While neither peer has closed and no dial has failed, the bridge closes nothing and stops no copy loop: with both halves
   running, all four connection ends are open and all four copy loops are running, whatever else has happened. *)
Theorem no_spurious_close es s b : srun sys_init es = Some s -> triggered s = false -> ph (fh s) = HRun -> bh s = Some b -> ph b = HRun ->
  running_open (lf (fh s)) /\ running_open (lf b).
Proof.
  intros Hr T PF B PB. destruct (pinv_run es _ _ sinv_init pinv_init Hr T) as (_ & Rf & HB). destruct (HB b B) as (_ & _ & Rb). split; [exact (Rf PF)|exact (Rb PB)].
Qed.

(* ---------- the bridge's own steps are bounded ---------- *)
Lemma lstep_work l e l' : lstep true l e = Some l' -> is_internal e = true ->
  b_peer_closed l' = b_peer_closed l /\
  (if copy_ab l' then 1 else 0) + (if copy_ba l' then 1 else 0) + (if handler_done l' then 0 else 1) + 1 =
  (if copy_ab l then 1 else 0) + (if copy_ba l then 1 else 0) + (if handler_done l then 0 else 1).
Proof.
  intros L He. destruct e; try discriminate; cbn [lstep] in L.
  - destruct (copy_ab l) eqn:C; cbn [andb] in L; [|discriminate]. destruct (a_peer_closed l || negb (a_open l)); [|discriminate]. injection L as <-. cbn. split; [reflexivity|lia].
  - destruct (copy_ba l) eqn:C; cbn [andb] in L; [|discriminate]. destruct (b_peer_closed l || negb (b_open l)); [|discriminate]. injection L as <-. cbn. split; [reflexivity|].
    destruct (copy_ab l); lia.
  - destruct (copy_ab l) eqn:C1; cbn in L; [discriminate|]. destruct (copy_ba l) eqn:C2; cbn in L; [discriminate|]. destruct (handler_done l) eqn:D; cbn in L; [discriminate|].
    injection L as <-. cbn. split; [reflexivity|lia].
Qed.

Lemma work_step s e s' : SInv s -> sstep s e = Some s' -> if is_env e then work s' = work s else work s' < work s.
Proof.
  intros (I1 & I2 & I3 & I4) H. destruct e; cbn [sstep is_env] in *.
  - injection H as <-. unfold work, half_work, link_work. cbn. reflexivity.
  - destruct (bh s) as [b|] eqn:B; [|discriminate]. destruct (phase_eqb (ph b) HRun) eqn:P; [|discriminate]. apply phase_eqb_eq in P. injection H as <-.
    unfold work, half_work, link_work. cbn. rewrite B, P. reflexivity.
  - destruct (phase_eqb (ph (fh s)) HDial) eqn:P; [|discriminate]. apply phase_eqb_eq in P. injection H as <-.
    assert (Bn : bh s = None) by (destruct (bh s) as [b|] eqn:B; [pose proof (I4 b eq_refl); congruence|reflexivity]).
    unfold work, half_work, link_work. cbn. rewrite Bn, P. destruct (b_peer_closed (lf (fh s))); lia.
  - destruct (phase_eqb (ph (fh s)) HDial) eqn:P; [|discriminate]. apply phase_eqb_eq in P. injection H as <-.
    assert (Bn : bh s = None) by (destruct (bh s) as [b|] eqn:B; [pose proof (I4 b eq_refl); congruence|reflexivity]).
    unfold work, half_work, link_work. cbn. rewrite Bn, P. lia.
  - destruct (bh s) as [b|] eqn:B; [|discriminate]. destruct (phase_eqb (ph b) HDial) eqn:P; [|discriminate]. apply phase_eqb_eq in P. injection H as <-.
    unfold work, half_work, link_work. cbn. rewrite B, P. lia.
  - destruct (bh s) as [b|] eqn:B; [|discriminate]. destruct (phase_eqb (ph b) HDial) eqn:P; [|discriminate]. apply phase_eqb_eq in P. injection H as <-.
    unfold work, half_work, link_work. cbn. rewrite B, P. lia.
  - destruct (phase_eqb (ph (fh s)) HRun && is_internal e) eqn:P; [|discriminate]. apply andb_true_iff in P. destruct P as (P & He). apply phase_eqb_eq in P.
    destruct (lstep true (lf (fh s)) e) as [l|] eqn:L; [|discriminate]. injection H as <-. destruct (lstep_work _ _ _ L He) as (Eb & Ew).
    unfold work, half_work, link_work. cbn. rewrite P, Eb. lia.
  - destruct (bh s) as [b|] eqn:B; [|discriminate].
    destruct (phase_eqb (ph b) HRun && is_internal e) eqn:P; [|discriminate]. apply andb_true_iff in P. destruct P as (P & He). apply phase_eqb_eq in P.
    destruct (lstep true (lf b) e) as [l|] eqn:L; [|discriminate]. injection H as <-. destruct (lstep_work _ _ _ L He) as (Eb & Ew).
    unfold work, half_work, link_work. cbn. rewrite B, P, Eb. lia.
  - destruct (bh s) as [b|] eqn:B; [|discriminate].
    destruct (phase_eqb (ph (fh s)) HRun && negb (b_open (lf b)) && negb (b_peer_closed (lf (fh s)))) eqn:P; [|discriminate]. injection H as <-.
    apply andb_true_iff in P. destruct P as (P & Pb). apply andb_true_iff in P. destruct P as (P & _). apply phase_eqb_eq in P. apply negb_true_iff in Pb.
    unfold work, half_work, link_work. cbn. rewrite B, P, Pb. lia.
  - destruct (bh s) as [b|] eqn:B; [|discriminate].
    destruct (phase_eqb (ph b) HRun && negb (b_open (lf (fh s))) && negb (b_peer_closed (lf b))) eqn:P; [|discriminate]. injection H as <-.
    apply andb_true_iff in P. destruct P as (P & Pb). apply andb_true_iff in P. destruct P as (P & _). apply phase_eqb_eq in P. apply negb_true_iff in Pb.
    unfold work, half_work, link_work. cbn. rewrite B, P, Pb. lia.
Qed.

Lemma work_run es : forall s s', SInv s -> srun s es = Some s' -> own_count es + work s' <= work s.
Proof.
  induction es as [|e es IH]; intros s s' I H; cbn [srun own_count] in *; [injection H as <-; lia|].
  destruct (sstep s e) as [s1|] eqn:E; [|discriminate]. pose proof (work_step _ _ _ I E) as W. pose proof (IH _ _ (sinv_step _ _ _ I E) H) as R.
  destruct (is_env e); lia.
Qed.

(* however the run goes, the bridge takes at most ten steps of its own for one bridged connection *)
Theorem own_steps_bounded es s : srun sys_init es = Some s -> own_count es + work s <= 10.
Proof. intros H. exact (work_run es _ _ sinv_init H). Qed.

(* ... and whenever it is not finished after a trigger, one of them is enabled *)
Theorem progress_after_trigger es s : srun sys_init es = Some s -> triggered s = true -> all_closed s = false -> squiescent s = false.
Proof.
  intros Hr Ht Hc. destruct (squiescent s) eqn:Q; [|reflexivity]. rewrite (sys_close_propagates es s Hr Ht Q) in Hc. discriminate.
Qed.
