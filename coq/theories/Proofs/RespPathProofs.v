(* Proofs about Agent/RespPath.v (C03). *)
From Coq Require Import String List Bool Ascii ZArith Lia.
From IP Require Import Lib.Header Server.HopFilter Proofs.HeaderProofs Proofs.HopFilterProofs Agent.RespPath.
Import ListNotations.
Open Scope string_scope.
Open Scope list_scope.

(* ---- comma-separated lists: split (join l) = l ---- *)
Fixpoint no_char (c : ascii) (s : string) : bool :=
  match s with EmptyString => true | String d r => negb (Ascii.eqb c d) && no_char c r end.

Definition plain_name (s : string) : bool := no_char ","%char s && no_char " "%char s && negb (s =? "").

Lemma append_nil_r (s : string) : (s ++ "")%string = s.
Proof. induction s as [|c s IH]; cbn [append]; [reflexivity|f_equal; exact IH]. Qed.

Lemma append_assoc (a b c : string) : ((a ++ b) ++ c)%string = (a ++ (b ++ c))%string.
Proof. induction a as [|x a IH]; cbn [append]; [reflexivity|f_equal; exact IH]. Qed.

Lemma split_aux_app acc n rest : no_char ","%char n = true ->
  split_commas_aux acc (n ++ rest)%string = split_commas_aux (acc ++ n)%string rest.
Proof.
  revert acc. induction n as [|c n IH]; intros acc H; cbn [append].
  - rewrite append_nil_r. reflexivity.
  - cbn [no_char] in H. apply andb_true_iff in H. destruct H as [Hc Hn]. cbn [split_commas_aux].
    destruct (Ascii.eqb c ","%char) eqn:E.
    + rewrite Ascii.eqb_sym in E. rewrite E in Hc. discriminate.
    + rewrite IH by exact Hn. f_equal. rewrite append_assoc. reflexivity.
Qed.

Lemma ltrim_plain n : no_char " "%char n = true -> ltrim n = n.
Proof.
  destruct n as [|c n]; [reflexivity|]. cbn [no_char ltrim]. intros H. apply andb_true_iff in H. destruct H as [Hc _].
  destruct (Ascii.eqb c " "%char) eqn:E; [rewrite Ascii.eqb_sym in E; rewrite E in Hc; discriminate|reflexivity].
Qed.

Lemma plain_parts n : plain_name n = true -> no_char ","%char n = true /\ no_char " "%char n = true.
Proof. unfold plain_name. intros H. apply andb_true_iff in H. destruct H as [H _]. apply andb_true_iff in H. exact H. Qed.

Lemma split_join_aux l : Forall (fun n => plain_name n = true) l -> l <> [] ->
  forall acc, map trim (split_commas_aux acc (join_names l)) = trim (acc ++ hd "" l)%string :: tl l.
Proof.
  induction l as [|n l IH]; intros HF Hne acc; [contradiction|].
  inversion HF as [|? ? Hn HF']; subst. destruct (plain_parts n Hn) as [Hcomma Hspace].
  destruct l as [|m l].
  - cbn [join_names hd tl]. rewrite <- (append_nil_r n) at 1. rewrite split_aux_app by exact Hcomma. reflexivity.
  - cbn [hd tl]. change (join_names (n :: m :: l)) with (n ++ String "," (String " " (join_names (m :: l))))%string.
    rewrite split_aux_app by exact Hcomma. cbn [split_commas_aux]. 
    replace (Ascii.eqb "," ",")%char with true by reflexivity.
    replace (Ascii.eqb " " ",")%char with false by reflexivity.
    cbn [map append]. f_equal.
    rewrite (IH HF' ltac:(discriminate) " "). cbn [hd tl]. f_equal.
    inversion HF' as [|? ? Hm _]; subst. destruct (plain_parts m Hm) as [_ Hms].
    unfold trim. cbn [append ltrim]. replace (Ascii.eqb " " " ")%char with true by reflexivity. apply ltrim_plain. exact Hms.
Qed.

Lemma split_join l : Forall (fun n => plain_name n = true) l -> l <> [] ->
  map trim (split_commas (join_names l)) = l.
Proof.
  intros HF Hne. unfold split_commas. rewrite (split_join_aux l HF Hne ""). destruct l as [|n l]; [contradiction|].
  cbn [hd tl append]. f_equal. inversion HF as [|? ? Hn _]; subst. destruct (plain_parts n Hn) as [_ Hs]. apply ltrim_plain. exact Hs.
Qed.

(* ---- status and headers ---- *)
Section SH.
  Variable hop_tbl srv_tbl : list string.
  Hypothesis trailer_is_hop : key_in hop_tbl "Trailer" = true.

  Definition in_1xx (c : Z) : Prop := (100 <= c <= 199)%Z.

  Lemma write_header_1xx s c : in_1xx c -> w_sent s = None -> rw_write_header hop_tbl true true s c = s.
  Proof.
    intros Hc H1. unfold rw_write_header. rewrite H1. unfold in_1xx in Hc.
    assert ((100 <=? c)%Z = true /\ (c <=? 199)%Z = true) as [E1 E2] by (split; apply Z.leb_le; lia).
    rewrite E1, E2. reflexivity.
  Qed.

  Lemma interim_ignored codes : Forall in_1xx codes -> forall s,
    w_sent s = None -> w_trailer s = [] -> w_body s = false ->
    let s' := fold_left (rw_step hop_tbl true true) (flat_map (fun code => [CSetHeader [("X-Interim", ["1"])]; CWriteHeader code]) codes) s in
    w_sent s' = None /\ w_trailer s' = [] /\ w_body s' = false.
  Proof.
    induction 1 as [|c codes Hc HF IH]; intros s H1 H2 H3; cbn [flat_map fold_left app]; [auto|].
    cbn [rw_step]. rewrite write_header_1xx by (cbn [w_sent]; assumption). apply IH; cbn [w_sent w_trailer w_body]; assumption.
  Qed.

  Lemma adds_keep_sent cs : (forall c, In c cs -> exists k v, c = CAddHeader k v) -> forall s,
    w_sent (fold_left (rw_step hop_tbl true true) cs s) = w_sent s.
  Proof.
    induction cs as [|c cs IH]; intros H s; cbn [fold_left]; [reflexivity|].
    rewrite IH by (intros c' Hc'; apply H; right; exact Hc').
    destruct (H c (or_introl eq_refl)) as (k & v & ->). reflexivity.
  Qed.

  Lemma close_keeps_sent s x : w_sent s = Some x -> w_sent (rw_close hop_tbl true true s) = Some x.
  Proof. intros H. unfold rw_close. rewrite H. cbn [w_sent]. exact H. Qed.

  Lemma write_header_final s st : w_sent s = None -> ~ in_1xx st ->
    w_sent (rw_write_header hop_tbl true true s st) = Some (st, hfilter (fun k => negb (key_in hop_tbl k)) (w_header s)).
  Proof.
    intros H1 HS. unfold rw_write_header. rewrite H1.
    destruct (100 <=? st)%Z eqn:A; destruct (st <=? 199)%Z eqn:B; cbn [andb w_sent]; try reflexivity.
    exfalso. apply HS. unfold in_1xx. apply Z.leb_le in A. apply Z.leb_le in B. lia.
  Qed.

  Lemma main_calls s h st : w_sent s = None -> ~ in_1xx st ->
    w_sent (fold_left (rw_step hop_tbl true true) [CSetHeader h; CWriteHeader st; CWriteBody] s) =
    Some (st, hfilter (fun k => negb (key_in hop_tbl k)) h).
  Proof.
    intros H1 HS. cbn [fold_left rw_step].
    set (s0 := {| w_header := h; w_sent := w_sent s; w_trailer := w_trailer s; w_body := w_body s |}).
    assert (E : w_sent (rw_write_header hop_tbl true true s0 st) = Some (st, hfilter (fun k => negb (key_in hop_tbl k)) h)).
    { apply (write_header_final s0 st); [exact H1|exact HS]. }
    rewrite E. cbn [w_sent]. exact E.
  Qed.

  (* the response handed to the proxy: the final status and the backend's header minus hop-by-hop fields *)
  Lemma upload_status_header b : Forall in_1xx (br_interim b) -> ~ in_1xx (br_status b) ->
    exists t h, agent_upload hop_tbl true true b = Some (br_status b, hfilter (fun k => negb (key_in hop_tbl k)) h, t) /\
      NoDup (hkeys h) /\ (forall k, k <> "Trailer" -> hvalues k h = hvalues k (hfilter (fun k => negb (key_in lib_hop k)) (of_wire (br_fields b)))).
  Proof.
    intros HI HS. unfold agent_upload, revproxy_calls.
    set (h0 := hfilter (fun k => negb (key_in lib_hop k)) (of_wire (br_fields b))).
    set (h := match names_of (br_declared b) [] with [] => h0 | _ => hadd "Trailer" (join_names (names_of (br_declared b) [])) h0 end).
    set (adds := if (_ =? _)%nat then _ else _).
    rewrite !fold_left_app.
    destruct (interim_ignored (br_interim b) HI rw_init eq_refl eq_refl eq_refl) as (E1 & E2 & E3).
    set (s1 := fold_left (rw_step hop_tbl true true) (flat_map _ (br_interim b)) rw_init) in *.
    pose proof (main_calls s1 h (br_status b) E1 HS) as Hsent.
    set (s2 := fold_left (rw_step hop_tbl true true) [CSetHeader h; CWriteHeader (br_status b); CWriteBody] s1) in *.
    assert (Hadds : forall c, In c adds -> exists k v, c = CAddHeader k v).
    { intros c Hc. unfold adds in Hc. destruct (_ =? _)%nat; apply in_map_iff in Hc; destruct Hc as (t & <- & _); eexists _, _; reflexivity. }
    pose proof (adds_keep_sent adds Hadds s2) as Hk. rewrite Hsent in Hk.
    rewrite (close_keeps_sent _ _ Hk).
    eexists _, h. split; [reflexivity|]. split.
    - unfold h. destruct (names_of (br_declared b) []); [|apply NoDup_hadd]; apply NoDup_hfilter; apply NoDup_of_wire.
    - intros k Hk'. unfold h. destruct (names_of (br_declared b) []); [reflexivity|]. apply hvalues_hadd_other. exact Hk'.
  Qed.

  (* what the client receives: status and header fields *)
  Theorem client_status_headers b : Forall in_1xx (br_interim b) -> ~ in_1xx (br_status b) ->
    exists H T, client_view hop_tbl true true srv_tbl b = Some (br_status b, H, T) /\
      (forall k, key_in hop_tbl k = false -> key_in lib_hop k = false -> key_in srv_tbl (lower k) = false -> k <> "Trailer" ->
         hvalues k H = hvalues k (of_wire (br_fields b))) /\
      (forall k, key_in hop_tbl k = true \/ key_in lib_hop k = true \/ key_in srv_tbl (lower k) = true -> hvalues k H = []).
  Proof.
    intros HI HS. destruct (upload_status_header b HI HS) as (t & h & Hu & HN & Hv).
    unfold client_view. rewrite Hu. cbn [option_map server_relay]. eexists _, _. split; [reflexivity|].
    assert (HN2 : NoDup (hkeys (hfilter (fun k => negb (key_in hop_tbl k)) h))) by (apply NoDup_hfilter; exact HN).
    split.
    - intros k H1 H2 H3 H4. rewrite server_filter_exact by exact HN2. rewrite H3.
      rewrite hvalues_hfilter by exact HN. rewrite H1. cbn [negb]. rewrite Hv by exact H4.
      rewrite hvalues_hfilter by apply NoDup_of_wire. rewrite H2. reflexivity.
    - intros k Hk. rewrite server_filter_exact by exact HN2. destruct (key_in srv_tbl (lower k)) eqn:E3; [reflexivity|].
      rewrite hvalues_hfilter by exact HN. destruct (key_in hop_tbl k) eqn:E1; [reflexivity|]. cbn [negb].
      destruct Hk as [Hk|[Hk|Hk]]; try congruence.
      destruct (String.eqb k "Trailer") eqn:Et; [apply String.eqb_eq in Et; subst; congruence|]. apply String.eqb_neq in Et.
      rewrite Hv by exact Et. rewrite hvalues_hfilter by apply NoDup_of_wire. rewrite Hk. reflexivity.
  Qed.
End SH.
