(* Proofs for Websockets/ShimTable.v (C12): sessions are never confused with one another. *)
From Coq Require Import List Arith Bool Lia.
From IP Require Import Websockets.ShimTable.
Import ListNotations.

(* ---------- association lists ---------- *)
Lemma lookup_update_same i s l x : lookup i l = Some x -> lookup i (update i s l) = Some s.
Proof.
  induction l as [|[j y] r IH]; cbn; [discriminate|]. destruct (Nat.eqb i j) eqn:E; cbn; rewrite E; [reflexivity|exact IH].
Qed.

Lemma lookup_update_other i j s l : j <> i -> lookup j (update i s l) = lookup j l.
Proof.
  intros H. induction l as [|[k y] r IH]; cbn; [reflexivity|]. destruct (Nat.eqb i k) eqn:E; cbn.
  - apply Nat.eqb_eq in E. subst k. assert (Nat.eqb j i = false) by (apply Nat.eqb_neq; exact H). rewrite H0. reflexivity.
  - destruct (Nat.eqb j k); [reflexivity|exact IH].
Qed.

Lemma lookup_update_none i s l : lookup i l = None -> update i s l = l.
Proof.
  induction l as [|[k y] r IH]; cbn; [reflexivity|]. destruct (Nat.eqb i k) eqn:E; [discriminate|]. intros H. rewrite (IH H). reflexivity.
Qed.

Lemma lookup_remove_other i j l : j <> i -> lookup j (remove i l) = lookup j l.
Proof.
  intros H. induction l as [|[k y] r IH]; cbn; [reflexivity|]. destruct (Nat.eqb i k) eqn:E; cbn.
  - apply Nat.eqb_eq in E. subst k. assert (Nat.eqb j i = false) by (apply Nat.eqb_neq; exact H). rewrite H0. reflexivity.
  - destruct (Nat.eqb j k); [reflexivity|exact IH].
Qed.

Lemma lookup_app_fresh j l id s : j <> id -> lookup j (l ++ [(id, s)]) = lookup j l.
Proof.
  intros H. induction l as [|[k y] r IH]; cbn.
  - assert (Nat.eqb j id = false) by (apply Nat.eqb_neq; exact H). rewrite H0. reflexivity.
  - destruct (Nat.eqb j k); [reflexivity|exact IH].
Qed.

Lemma lookup_app_new id l s : lookup id l = None -> lookup id (l ++ [(id, s)]) = Some s.
Proof.
  induction l as [|[k y] r IH]; intros H; cbn [app lookup] in *; [rewrite Nat.eqb_refl; reflexivity|].
  destruct (Nat.eqb id k); [discriminate|exact (IH H)].
Qed.

Lemma lookup_in i l s : lookup i l = Some s -> In i (map fst l).
Proof.
  induction l as [|[k y] r IH]; cbn; [discriminate|]. destruct (Nat.eqb i k) eqn:E; [apply Nat.eqb_eq in E; left; symmetry; exact E|right; apply IH; assumption].
Qed.

Lemma update_keys i s l : map fst (update i s l) = map fst l.
Proof. induction l as [|[k y] r IH]; cbn; [reflexivity|]. destruct (Nat.eqb i k); cbn; [reflexivity|rewrite IH; reflexivity]. Qed.

Lemma remove_keys_incl i l x : In x (map fst (remove i l)) -> In x (map fst l).
Proof.
  induction l as [|[k y] r IH]; cbn; [tauto|]. destruct (Nat.eqb i k); cbn; [intros H; right; exact H|]. intros [H|H]; [left; exact H|right; exact (IH H)].
Qed.

(* ---------- every ID in use is at most the counter ---------- *)
Definition Bounded (t : tstate) : Prop :=
  (forall i, In i (map fst (tbl t)) -> i <= next_id t) /\ (forall i, In i (map fst (gone t)) -> i <= next_id t).

Lemma bounded_init : Bounded t_init.
Proof. split; cbn; tauto. Qed.

Lemma deliver_shape elems : forall t ok t', deliver t elems = (ok, t') ->
  next_id t' = next_id t /\ gone t' = gone t /\ map fst (tbl t') = map fst (tbl t).
Proof.
  induction elems as [|[i m] r IH]; intros t ok t' H; cbn [deliver] in H.
  - injection H as _ <-. repeat split.
  - destruct (lookup i (tbl t)) as [s|] eqn:L; [|injection H as _ <-; repeat split].
    destruct (s_open s); [|injection H as _ <-; repeat split].
    destruct (IH _ _ _ H) as (A & B & Cc). cbn in A, B, Cc. rewrite update_keys in Cc. repeat split; assumption.
Qed.

Lemma bounded_step t c o t' : Bounded t -> tstep t c = (o, t') -> Bounded t' /\ next_id t <= next_id t'.
Proof.
  intros (A & B) H. destruct c; cbn [tstep] in H.
  - destruct dial_ok; injection H as _ <-; (split; [split|simpl; lia]); simpl.
    + intros i Hi. rewrite map_app in Hi. apply in_app_or in Hi. destruct Hi as [Hi|Hi]; [specialize (A i Hi); lia|cbn in Hi; destruct Hi as [<-|[]]; lia].
    + intros i Hi. specialize (B i Hi). lia.
    + intros i Hi. specialize (A i Hi). lia.
    + intros i Hi. specialize (B i Hi). lia.
  - destruct (deliver t elems) as [ok t1] eqn:D. injection H as _ <-. destruct (deliver_shape _ _ _ _ D) as (E1 & E2 & E3).
    split; [|lia]. split; [rewrite E3, E1; exact A|rewrite E2, E1; exact B].
  - destruct (lookup id (tbl t)) as [s|] eqn:L; [|injection H as _ <-; split; [split; assumption|lia]].
    destruct (s_queue s); [destruct (s_open s)|]; injection H as _ <-; (split; [split|simpl; lia]); simpl; try assumption.
    + intros i Hi. apply A. eapply remove_keys_incl. exact Hi.
    + intros i [<-|Hi]; [apply A; eapply lookup_in; exact L|exact (B i Hi)].
    + intros i Hi. rewrite update_keys in Hi. exact (A i Hi).
  - destruct (lookup id (tbl t)) as [s|] eqn:L; injection H as _ <-; (split; [split|simpl; lia]); simpl; try assumption.
    + intros i Hi. apply A. eapply remove_keys_incl. exact Hi.
    + intros i [<-|Hi]; [apply A; eapply lookup_in; exact L|exact (B i Hi)].
  - destruct (lookup id (tbl t)) as [s|] eqn:L; [destruct (s_open s)|]; injection H as _ <-; (split; [split|simpl; lia]); simpl; try assumption.
    intros i Hi. rewrite update_keys in Hi. exact (A i Hi).
  - destruct (lookup id (tbl t)) as [s|] eqn:L; injection H as _ <-; (split; [split|simpl; lia]); simpl; try assumption.
    intros i Hi. rewrite update_keys in Hi. exact (A i Hi).
Qed.

(* ---------- session IDs are fresh: strictly increasing over any history ---------- *)
Fixpoint increasing_from (b : nat) (l : list nat) : Prop :=
  match l with [] => True | x :: r => b < x /\ increasing_from x r end.

Lemma increasing_weaken l : forall a b, a <= b -> increasing_from b l -> increasing_from a l.
Proof. destruct l as [|x r]; intros a b H I; [exact I|]. cbn in *. destruct I as (I1 & I2). split; [lia|exact I2]. Qed.

Lemma opened_increasing cs : forall t os t', trun t cs = (os, t') -> increasing_from (next_id t) (opened os) /\ next_id t <= next_id t'.
Proof.
  induction cs as [|c r IH]; intros t os t' H; cbn [trun] in H.
  - injection H as <- <-. cbn. split; [exact I|lia].
  - destruct (tstep t c) as [o t1] eqn:S. destruct (trun t1 r) as [os2 t2] eqn:R. injection H as <- <-.
    destruct (IH _ _ _ R) as (I2 & L2).
    assert (M : next_id t <= next_id t1 /\ (forall i, o = OOpened i -> i = next_id t1 /\ next_id t < i)).
    { destruct c; cbn [tstep] in S.
      - destruct dial_ok; injection S as <- <-; cbn; (split; [lia|]); intros i Hi; [injection Hi as <-; lia|discriminate].
      - destruct (deliver t elems) as [ok tt] eqn:D. injection S as <- <-. destruct (deliver_shape _ _ _ _ D) as (E1 & _). split; [lia|discriminate].
      - destruct (lookup id (tbl t)) as [s|]; [destruct (s_queue s); [destruct (s_open s)|]|]; injection S as <- <-; cbn; (split; [lia|discriminate]).
      - destruct (lookup id (tbl t)) as [s|]; injection S as <- <-; cbn; (split; [lia|discriminate]).
      - destruct (lookup id (tbl t)) as [s|]; [destruct (s_open s)|]; injection S as <- <-; cbn; (split; [lia|discriminate]).
      - destruct (lookup id (tbl t)) as [s|]; injection S as <- <-; cbn; (split; [lia|discriminate]). }
    destruct M as (M1 & M2). split; [|lia].
    destruct o; cbn [opened]; try (eapply increasing_weaken; [exact M1|exact I2]).
    destruct (M2 id eq_refl) as (E & Lt). cbn. split; [exact Lt|]. rewrite E. exact I2.
Qed.

Lemma increasing_nodup l : forall b, increasing_from b l -> NoDup l /\ forall x, In x l -> b < x.
Proof.
  induction l as [|x r IH]; intros b H; [split; [constructor|intros ? []]|]. cbn in H. destruct H as (H1 & H2). destruct (IH x H2) as (N & G).
  split.
  - constructor; [intro Hin; specialize (G x Hin); lia|exact N].
  - intros y [<-|Hy]; [exact H1|specialize (G y Hy); lia].
Qed.

(* the session IDs handed out in any history are pairwise different *)
Theorem session_ids_unique cs os t' : trun t_init cs = (os, t') -> NoDup (opened os).
Proof. intros H. destruct (opened_increasing cs _ _ _ H) as (I & _). exact (proj1 (increasing_nodup _ _ I)). Qed.

(* a new session never takes the ID of a session that is or was in the table *)
Theorem open_is_fresh t id t' : Bounded t -> tstep t (TOpen true) = (OOpened id, t') ->
  lookup id (tbl t) = None /\ gone_recv id (gone t) = None /\ lookup id (tbl t') = Some {| s_open := true; s_queue := []; s_recv := [] |}.
Proof.
  intros (A & B) H. cbn in H. injection H as <- <-. cbn.
  assert (N1 : lookup (S (next_id t)) (tbl t) = None).
  { destruct (lookup (S (next_id t)) (tbl t)) eqn:L; [|reflexivity]. apply lookup_in in L. specialize (A _ L). lia. }
  assert (N2 : gone_recv (S (next_id t)) (gone t) = None).
  { clear -B. revert B. generalize (next_id t). induction (gone t) as [|[j l] r IH]; intros n B; [reflexivity|]. cbn [gone_recv].
    destruct (Nat.eqb (S n) j) eqn:E; [apply Nat.eqb_eq in E; specialize (B j (or_introl eq_refl)); cbn in B; lia|].
    apply IH. intros i Hi. apply B. right. exact Hi. }
  split; [exact N1|]. split; [exact N2|].
  exact (lookup_app_new _ _ _ N1).
Qed.

(* ---------- a call reaches the session it names and no other ---------- *)
Definition names (c : tcall) (j : nat) : Prop :=
  match c with
  | TOpen _ => False
  | TData elems => In j (map fst elems)
  | TPoll i | TClose i | TBackendSend i _ | TBackendClose i => j = i
  end.

Lemma gone_recv_cons_other j i l g : j <> i -> gone_recv j ((i, l) :: g) = gone_recv j g.
Proof. intros H. cbn. assert (Nat.eqb j i = false) by (apply Nat.eqb_neq; exact H). rewrite H0. reflexivity. Qed.

Lemma deliver_frame elems : forall t ok t' j, deliver t elems = (ok, t') -> ~ In j (map fst elems) -> lookup j (tbl t') = lookup j (tbl t).
Proof.
  induction elems as [|[i m] r IH]; intros t ok t' j H Hn; cbn [deliver] in H.
  - injection H as _ <-. reflexivity.
  - cbn in Hn. destruct (lookup i (tbl t)) as [s|] eqn:L; [|injection H as _ <-; reflexivity].
    destruct (s_open s); [|injection H as _ <-; reflexivity].
    rewrite (IH _ _ _ j H ltac:(tauto)). cbn. apply lookup_update_other. intro E. apply Hn. left. symmetry. exact E.
Qed.

Theorem call_frame t c o t' j : Bounded t -> tstep t c = (o, t') -> ~ names c j -> j <= next_id t ->
  lookup j (tbl t') = lookup j (tbl t) /\ received t' j = received t j.
Proof.
  intros Bd H Hn Hj.
  assert (K : lookup j (tbl t') = lookup j (tbl t) /\ gone_recv j (gone t') = gone_recv j (gone t)).
  { destruct c; cbn [tstep names] in *.
    - destruct dial_ok; injection H as _ <-; cbn; (split; [|reflexivity]); [apply lookup_app_fresh; lia|reflexivity].
    - destruct (deliver t elems) as [ok tt] eqn:D. injection H as _ <-. destruct (deliver_shape _ _ _ _ D) as (_ & E2 & _).
      split; [eapply deliver_frame; eassumption|rewrite E2; reflexivity].
    - destruct (lookup id (tbl t)) as [s|] eqn:L; [|injection H as _ <-; split; reflexivity].
      destruct (s_queue s); [destruct (s_open s)|]; injection H as _ <-; cbn; try (split; reflexivity).
      + split; [apply lookup_remove_other; exact Hn|apply gone_recv_cons_other; exact Hn].
      + split; [apply lookup_update_other; exact Hn|reflexivity].
    - destruct (lookup id (tbl t)) as [s|] eqn:L; injection H as _ <-; cbn; [|split; reflexivity].
      split; [apply lookup_remove_other; exact Hn|apply gone_recv_cons_other; exact Hn].
    - destruct (lookup id (tbl t)) as [s|] eqn:L; [destruct (s_open s)|]; injection H as _ <-; cbn; try (split; reflexivity).
      split; [apply lookup_update_other; exact Hn|reflexivity].
    - destruct (lookup id (tbl t)) as [s|] eqn:L; injection H as _ <-; cbn; [|split; reflexivity].
      split; [apply lookup_update_other; exact Hn|reflexivity]. }
  destruct K as (K1 & K2). split; [exact K1|]. unfold received. rewrite K1, K2. reflexivity.
Qed.

(* ---------- what a data post delivers, and to whom ---------- *)
Definition for_session (i : nat) (elems : list (nat * nat)) : list nat := map snd (filter (fun e => Nat.eqb (fst e) i) elems).

Lemma deliver_ok elems : forall t t', deliver t elems = (true, t') ->
  forall i, received t' i = received t i ++ for_session i elems.
Proof.
  induction elems as [|[k m] r IH]; intros t t' H i; cbn [deliver] in H.
  - injection H as <-. unfold for_session. cbn. rewrite app_nil_r. reflexivity.
  - destruct (lookup k (tbl t)) as [s|] eqn:L; [|discriminate]. destruct (s_open s) eqn:O; [|discriminate].
    rewrite (IH _ _ H i). unfold for_session. cbn [filter fst]. unfold received at 1. cbn [tbl gone with_tbl].
    destruct (Nat.eqb k i) eqn:E.
    + apply Nat.eqb_eq in E. subst k. rewrite (lookup_update_same _ _ _ _ L). cbn [s_recv map snd]. unfold received. rewrite L. rewrite <- app_assoc. reflexivity.
    + apply Nat.eqb_neq in E. rewrite (lookup_update_other k i _ _ (fun H0 => E (eq_sym H0))). fold (received t i). reflexivity.
Qed.

(* 200: every element went to the session it names, in order, and to nobody else *)
Theorem data_accepted t elems t' : tstep t (TData elems) = (OStatus 200, t') ->
  forall i, received t' i = received t i ++ for_session i elems.
Proof.
  intros H. cbn in H. destruct (deliver t elems) as [ok tt] eqn:D. destruct ok; [|discriminate]. injection H as <-. exact (deliver_ok _ _ _ D).
Qed.

Lemma deliver_fail elems : forall t t', deliver t elems = (false, t') ->
  exists pre e post, elems = pre ++ e :: post /\ deliver t pre = (true, t') /\
    match lookup (fst e) (tbl t') with None => True | Some s => s_open s = false end.
Proof.
  induction elems as [|[k m] r IH]; intros t t' H; cbn [deliver] in H; [discriminate|].
  destruct (lookup k (tbl t)) as [s|] eqn:L.
  - destruct (s_open s) eqn:O.
    + destruct (IH _ _ H) as (pre & e & post & E & D & F). exists ((k, m) :: pre), e, post. split; [rewrite E; reflexivity|]. split; [|exact F].
      cbn [deliver]. rewrite L, O. exact D.
    + injection H as <-. exists [], (k, m), r. split; [reflexivity|]. split; [reflexivity|]. cbn. rewrite L. exact O.
  - injection H as <-. exists [], (k, m), r. split; [reflexivity|]. split; [reflexivity|]. cbn. rewrite L. exact I.
Qed.

(* 400: exactly the elements before the first one that names a session which is not in the table (unknown, closed) or whose
   backend is gone were delivered, each to its own session; that element and everything after it reached nobody *)
Theorem data_rejected t elems t' : tstep t (TData elems) = (OStatus 400, t') ->
  exists pre e post, elems = pre ++ e :: post /\
    (forall i, received t' i = received t i ++ for_session i pre) /\
    match lookup (fst e) (tbl t') with None => True | Some s => s_open s = false end.
Proof.
  intros H. cbn in H. destruct (deliver t elems) as [ok tt] eqn:D. destruct ok; [discriminate|]. injection H as <-.
  destruct (deliver_fail _ _ _ D) as (pre & e & post & E & Dp & F). exists pre, e, post. split; [exact E|]. split; [exact (deliver_ok _ _ _ Dp)|exact F].
Qed.

(* calls that name a session which is not in the table are answered 400 and change nothing *)
Theorem unknown_session_rejected t i : lookup i (tbl t) = None ->
  tstep t (TPoll i) = (OStatus 400, t) /\ tstep t (TClose i) = (OStatus 400, t) /\ forall m r, tstep t (TData ((i, m) :: r)) = (OStatus 400, t).
Proof. intros L. cbn. rewrite L. repeat split. Qed.

(* ---------- a session that has left the table never comes back ---------- *)
Lemma absent_step t c o t' i : Bounded t -> tstep t c = (o, t') -> i <= next_id t -> lookup i (tbl t) = None -> lookup i (tbl t') = None.
Proof.
  intros Bd H Hi L. destruct c; cbn [tstep] in H.
  - destruct dial_ok; injection H as _ <-; cbn; [rewrite lookup_app_fresh by lia; exact L|exact L].
  - destruct (deliver t elems) as [ok tt] eqn:D. injection H as _ <-.
    destruct (lookup i (tbl tt)) eqn:L2; [|reflexivity]. apply lookup_in in L2. destruct (deliver_shape _ _ _ _ D) as (_ & _ & E3). rewrite E3 in L2.
    exfalso. clear -L L2. induction (tbl t) as [|[k y] r IH]; cbn in *; [exact L2|]. destruct (Nat.eqb i k) eqn:E; [discriminate|].
    destruct L2 as [L2|L2]; [subst k; rewrite Nat.eqb_refl in E; discriminate|exact (IH L L2)].
  - destruct (lookup id (tbl t)) as [s|] eqn:L1; [|injection H as _ <-; exact L].
    assert (Ne : i <> id) by (intro E; subst id; congruence).
    destruct (s_queue s); [destruct (s_open s)|]; injection H as _ <-; cbn; [exact L|rewrite lookup_remove_other by exact Ne; exact L|rewrite lookup_update_other by exact Ne; exact L].
  - destruct (lookup id (tbl t)) as [s|] eqn:L1; injection H as _ <-; cbn; [|exact L].
    assert (Ne : i <> id) by (intro E; subst id; congruence). rewrite lookup_remove_other by exact Ne. exact L.
  - destruct (lookup id (tbl t)) as [s|] eqn:L1; [destruct (s_open s)|]; injection H as _ <-; cbn; try exact L.
    assert (Ne : i <> id) by (intro E; subst id; congruence). rewrite lookup_update_other by exact Ne. exact L.
  - destruct (lookup id (tbl t)) as [s|] eqn:L1; injection H as _ <-; cbn; [|exact L].
    assert (Ne : i <> id) by (intro E; subst id; congruence). rewrite lookup_update_other by exact Ne. exact L.
Qed.

Theorem no_resurrection cs : forall t os t' i, Bounded t -> trun t cs = (os, t') -> i <= next_id t -> lookup i (tbl t) = None -> lookup i (tbl t') = None.
Proof.
  induction cs as [|c r IH]; intros t os t' i Bd H Hi L; cbn [trun] in H; [injection H as _ <-; exact L|].
  destruct (tstep t c) as [o t1] eqn:S. destruct (trun t1 r) as [os2 t2] eqn:R. injection H as _ <-.
  destruct (bounded_step _ _ _ _ Bd S) as (Bd1 & Le). eapply IH; [exact Bd1|exact R|lia|]. exact (absent_step _ _ _ _ _ Bd S Hi L).
Qed.
