(* Proofs about Agent/Backoff.v (property C08). *)
From Coq Require Import ZArith List Bool Lia.
From IP Require Import Agent.Backoff.
Import ListNotations.
Open Scope Z_scope.

Lemma wrap_i64_small x : 0 <= x < 2^63 -> wrap_i64 x = x.
Proof.
  intros H. unfold wrap_i64.
  assert (E : x mod 2^64 = x) by (apply Z.mod_small; lia).
  rewrite E. destruct (x <? 2^63) eqn:L; [reflexivity|].
  apply Z.ltb_ge in L. lia.
Qed.

Section General.
  Variables maxB first jnum jden : Z.
  Hypothesis Hfirst : 0 < first.
  Hypothesis Hle : first <= maxB.
  Hypothesis Hmax : maxB < 2^62.
  Hypothesis Hjn : 0 <= jnum.
  Hypothesis Hjd : jnum < jden.
  Hypothesis Hjpos : jden <= first * (jden - jnum).

  Let T := threshold maxB first.
  Let q := maxB / first.

  Lemma q_pos : 1 <= q.
  Proof. unfold q. apply Z.div_le_lower_bound; lia. Qed.

  Lemma q_spec : q * first <= maxB < (q + 1) * first.
  Proof.
    unfold q. pose proof (Z.div_mod maxB first ltac:(lia)) as D.
    pose proof (Z.mod_pos_bound maxB first Hfirst) as M. nia.
  Qed.

  Lemma T_spec : 2^T <= q < 2^(T+1).
  Proof.
    unfold T, threshold. fold q. pose proof q_pos.
    pose proof (Z.log2_spec q ltac:(lia)) as L.
    replace (T + 1) with (Z.succ T) by lia. unfold T, threshold. fold q.
    replace (Z.log2 q + 1) with (Z.succ (Z.log2 q)) by lia. exact L.
  Qed.

  Lemma T_nonneg : 0 <= T.
  Proof. unfold T, threshold. apply Z.log2_nonneg. Qed.

  Lemma pow_le_T n : 0 <= n <= T -> 2^n * first <= maxB.
  Proof.
    intros Hn. pose proof T_spec as [A _]. pose proof q_spec as [B _].
    assert (2^n <= 2^T) by (apply Z.pow_le_mono_r; lia). nia.
  Qed.

  Lemma pow_gt_T n : T < n -> maxB < 2^n * first.
  Proof.
    intros Hn. pose proof T_spec as [_ A]. pose proof q_spec as [_ B].
    pose proof T_nonneg.
    assert (2^(T+1) <= 2^n) by (apply Z.pow_le_mono_r; lia). nia.
  Qed.

  Lemma T_lt_62 : T < 62.
  Proof.
    destruct (Z_lt_ge_dec T 62) as [L|G]; [exact L|exfalso].
    pose proof (pow_le_T T ltac:(pose proof T_nonneg; lia)) as P.
    assert (2^62 <= 2^T) by (apply Z.pow_le_mono_r; lia). nia.
  Qed.

  Lemma base_low n : 0 <= n <= T -> base maxB first true n = 2^n * first.
  Proof.
    intros Hn. unfold base. fold T. cbn [andb].
    destruct (n >? T) eqn:G; [apply Z.gtb_lt in G; lia|].
    pose proof T_lt_62. pose proof (pow_le_T n Hn) as P.
    assert (Hp : 0 < 2^n) by (apply Z.pow_pos_nonneg; lia).
    assert (Hlt : 2^n < 2^62).
    { apply Z.pow_lt_mono_r; lia. }
    unfold shl1_i64. destruct (n <? 64) eqn:L; [|apply Z.ltb_ge in L; lia].
    rewrite (wrap_i64_small (2^n)) by lia.
    apply wrap_i64_small. nia.
  Qed.

  Lemma base_high n : T < n -> base maxB first true n = maxB.
  Proof.
    intros Hn. unfold base. fold T. cbn [andb].
    destruct (n >? T) eqn:G; [reflexivity|].
    assert (~ (n > T)) by (intro; apply Z.gtb_lt in H; [congruence|lia] || (rewrite Z.gtb_ltb in G; apply Z.ltb_ge in G; lia)).
    lia.
  Qed.

  (* the schedule: min (2^n * first) maxB for every retry count *)
  Lemma base_is_min n : 0 <= n -> base maxB first true n = Z.min (2^n * first) maxB.
  Proof.
    intros Hn. destruct (Z_le_gt_dec n T) as [L|G].
    - rewrite base_low by lia. pose proof (pow_le_T n ltac:(lia)). lia.
    - rewrite base_high by lia. pose proof (pow_gt_T n ltac:(lia)). lia.
  Qed.

  Lemma base_range n : 0 <= n -> first <= base maxB first true n <= maxB.
  Proof.
    intros Hn. rewrite base_is_min by lia.
    assert (1 <= 2^n) by (pose proof (Z.pow_pos_nonneg 2 n); lia). nia.
  Qed.

  Lemma base_doubles n : 0 <= n < T ->
    base maxB first true (n + 1) = 2 * base maxB first true n.
  Proof.
    intros Hn. rewrite !base_low by lia. rewrite Z.pow_add_r by lia. lia.
  Qed.

  Lemma delay_bounds n k : 0 <= n -> 0 <= k < 2^53 ->
    let b := base maxB first true n in
    let d := delay maxB first jnum jden true n k in
    0 < d /\ (jden - jnum) * b <= jden * d + jden /\ jden * d <= (jden + jnum) * b.
  Proof.
    intros Hn Hk b d. pose proof (base_range n Hn) as Hb. fold b in Hb.
    unfold d, delay. fold b.
    set (num := jit_num jnum jden k). set (den := jit_den jden).
    assert (P53 : 0 < 2^53) by (apply Z.pow_pos_nonneg; lia).
    assert (Hden : 0 < den) by (unfold den, jit_den; nia).
    assert (Hnum : (jden - jnum) * 2^53 <= num < (jden + jnum) * 2^53 + 1)
      by (unfold num, jit_num; nia).
    assert (Hnn : 0 <= b * num) by nia.
    rewrite Z.quot_div_nonneg by lia.
    pose proof (Z.div_mod (b * num) den ltac:(lia)) as DM.
    pose proof (Z.mod_pos_bound (b * num) den Hden) as MB.
    set (dd := (b * num) / den) in *. unfold den, jit_den in *.
    repeat split.
    - assert (jden * 2^53 <= b * num) by nia. nia.
    - nia.
    - nia.
  Qed.
End General.

(* retry-counter bookkeeping of the poll loop *)
Lemma fails_before_nonneg rp : 0 <= fails_before rp.
Proof. induction rp as [|[|] rp IH]; cbn [fails_before]; lia. Qed.

Lemma sleeps_from_spec outs : forall rp,
  fails_before rp + Z.of_nat (length outs) < 2^64 ->
  sleeps_from (fails_before rp) outs = spec_sleeps_from rp outs.
Proof.
  induction outs as [|o outs IH]; intros rp H; [reflexivity|].
  cbn [length] in H. rewrite Nat2Z.inj_succ in H.
  pose proof (fails_before_nonneg rp) as Hnn.
  destruct o; cbn [sleeps_from spec_sleeps_from].
  - change 0 with (fails_before (true :: rp)). apply IH. cbn [fails_before]. lia.
  - f_equal.
    replace ((fails_before rp + 1) mod 2^64) with (fails_before (false :: rp)).
    + apply IH. cbn [fails_before]. lia.
    + cbn [fails_before]. rewrite Z.mod_small by lia. lia.
Qed.

Lemma sleeps_spec outs : Z.of_nat (length outs) < 2^64 -> sleeps outs = spec_sleeps outs.
Proof.
  intros H. unfold sleeps, spec_sleeps. change 0 with (fails_before []).
  apply sleeps_from_spec. cbn [fails_before]. lia.
Qed.

(* every retry count handed to the delay function is a valid uint *)
Lemma sleeps_from_range outs : forall c, 0 <= c < 2^64 ->
  Forall (fun n => 0 <= n < 2^64) (sleeps_from c outs).
Proof.
  induction outs as [|o outs IH]; intros c Hc; cbn [sleeps_from]; [constructor|].
  destruct o.
  - apply IH. lia.
  - constructor; [exact Hc|]. apply IH. apply Z.mod_pos_bound. lia.
Qed.

(* one sleep per failed list call *)
Lemma sleeps_from_count outs : forall c,
  Z.of_nat (length (sleeps_from c outs)) = failures outs.
Proof.
  induction outs as [|o outs IH]; intros c; [reflexivity|].
  destruct o; cbn [sleeps_from failures length].
  - apply IH.
  - rewrite Nat2Z.inj_succ, IH. lia.
Qed.

(* a per-sleep lower bound  a <= b * d n k + c  sums up over the whole run *)
Lemma total_wait_lower (d : Z -> Z -> Z) (a b c : Z) :
  (forall n k, 0 <= n < 2^64 -> 0 <= k < 2^53 -> a <= b * d n k + c) ->
  forall ns ks,
  Forall (fun n => 0 <= n < 2^64) ns -> Forall (fun k => 0 <= k < 2^53) ks ->
  length ks = length ns ->
  a * Z.of_nat (length ns) <= b * total_wait d ns ks + c * Z.of_nat (length ns).
Proof.
  intros Hd ns. induction ns as [|n ns IH]; intros ks Hn Hk Hl.
  - destruct ks; cbn [total_wait length]; lia.
  - destruct ks as [|k ks]; [discriminate Hl|].
    inversion Hn as [|? ? Hn1 Hn2]; subst. inversion Hk as [|? ? Hk1 Hk2]; subst.
    cbn [length] in Hl. injection Hl as Hl.
    pose proof (IH ks Hn2 Hk2 Hl) as IH1.
    pose proof (Hd n k Hn1 Hk1) as H1.
    cbn [total_wait length]. rewrite Nat2Z.inj_succ. lia.
Qed.
