(* Invariants of Server/ProxyCore.v (properties C01 and C04). *)
From Coq Require Import ZArith List Bool Lia.
From IP Require Import Server.ProxyCore.
Import ListNotations.
Open Scope Z_scope.

(* ---- association-list facts ---- *)
Lemma cget_cset_same c v l w : cget c l = Some w -> cget c (cset c v l) = Some v.
Proof.
  induction l as [|[d u] l IH]; cbn [cget cset]; [discriminate|].
  destruct (c =? d) eqn:E; cbn [cget]; rewrite E; [reflexivity|exact IH].
Qed.

Lemma cget_cset_other c c' v l : c' <> c -> cget c' (cset c v l) = cget c' l.
Proof.
  intros Hne. induction l as [|[d u] l IH]; cbn [cget cset]; [reflexivity|].
  destruct (c =? d) eqn:E; cbn [cget].
  - apply Z.eqb_eq in E. subst d. destruct (c' =? c) eqn:E'; [apply Z.eqb_eq in E'; contradiction|reflexivity].
  - destruct (c' =? d); [reflexivity|exact IH].
Qed.

Lemma cget_cset c c' v l w : cget c l = Some w ->
  cget c' (cset c v l) = if c' =? c then Some v else cget c' l.
Proof.
  intros H. destruct (c' =? c) eqn:E.
  - apply Z.eqb_eq in E. subst. eapply cget_cset_same. exact H.
  - apply Z.eqb_neq in E. apply cget_cset_other. exact E.
Qed.

Lemma cget_In c l v : cget c l = Some v -> In (c, v) l.
Proof.
  induction l as [|[d u] l IH]; cbn [cget]; [discriminate|].
  destruct (c =? d) eqn:E; intros H.
  - apply Z.eqb_eq in E. inversion H; subst. left. reflexivity.
  - right. apply IH. exact H.
Qed.

Lemma cset_phase_fwd c v p l : cget c l = Some v ->
  forall c0 v0, cget c0 (cset c (with_phase v p) l) = Some v0 ->
  exists w, cget c0 l = Some w /\ cid w = cid v0 /\ ctok w = ctok v0 /\
            (c0 <> c -> w = v0) /\ (c0 = c -> w = v /\ cph v0 = p).
Proof.
  intros Ec c0 v0 H. rewrite (cget_cset _ _ _ _ _ Ec) in H. destruct (c0 =? c) eqn:E.
  - apply Z.eqb_eq in E. subst c0. inversion H; subst; clear H. exists v.
    split; [exact Ec|]. split; [reflexivity|]. split; [reflexivity|]. split; [intros Hn; contradiction|].
    intros _. split; reflexivity.
  - apply Z.eqb_neq in E. exists v0.
    split; [exact H|]. split; [reflexivity|]. split; [reflexivity|]. split; [intros _; reflexivity|].
    intros Hn; contradiction.
Qed.

Lemma cset_phase_bwd c v p l : cget c l = Some v ->
  forall c0 w, cget c0 l = Some w ->
  exists v0, cget c0 (cset c (with_phase v p) l) = Some v0 /\ cid v0 = cid w /\ ctok v0 = ctok w /\
             (c0 <> c -> v0 = w) /\ (c0 = c -> cph v0 = p).
Proof.
  intros Ec c0 w H. rewrite (cget_cset _ _ _ _ _ Ec). destruct (c0 =? c) eqn:E.
  - apply Z.eqb_eq in E. subst c0. rewrite Ec in H. inversion H; subst; clear H. exists (with_phase w p).
    split; [reflexivity|]. split; [reflexivity|]. split; [reflexivity|]. split; [intros Hn; contradiction|].
    intros _. reflexivity.
  - apply Z.eqb_neq in E. exists w.
    split; [exact H|]. split; [reflexivity|]. split; [reflexivity|]. split; [intros _; reflexivity|].
    intros Hn; contradiction.
Qed.

Section Inv.
  Variable gen : nat -> id.

  (* the hypothesis of C01: the IDs drawn so far are pairwise distinct *)
  Definition inj_upto (n : nat) : Prop := forall a b, (a < n)%nat -> (b < n)%nat -> gen a = gen b -> a = b.

  Record Inv (s : pst) : Prop := {
    (* every client record carries an ID drawn earlier *)
    I_ids : forall c v, cget c (clients s) = Some v -> exists n, (n < drawn s)%nat /\ cid v = gen n /\
              (* and distinct clients were given distinct draws *)
              forall c' v' , cget c' (clients s) = Some v' -> cid v' = gen n -> inj_upto (drawn s) -> c' = c;
    (* the table maps an ID to a client that owns this ID; with distinct IDs it is the owner *)
    I_table : forall i c, lookup i (table s) = Some c -> exists v, cget c (clients s) = Some v /\ cid v = i;
    I_table_total : forall c v, cget c (clients s) = Some v -> exists c', lookup (cid v) (table s) = Some c';
    (* a delivered response sits in the record of the client it went to, under that client's ID *)
    I_deliv : forall i r c, In (i, r, c) (delivered s) ->
                exists v, cget c (clients s) = Some v /\ cid v = i /\ cph v = PDone r;
    I_deliv_once : NoDup (map (fun d => snd d) (delivered s));
    I_done : forall c v r, cget c (clients s) = Some v -> cph v = PDone r -> In (cid v, r, c) (delivered s);
    (* a fetch returned the token of some client owning that ID *)
    I_fetch : forall i q, In (i, q) (fetched s) -> exists c v, cget c (clients s) = Some v /\ cid v = i /\ ctok v = q;
    (* hand-off: a handed client left the offering phase, and is handed once *)
    I_hand : forall k i c, In (k, i, c) (handed s) ->
                exists v, cget c (clients s) = Some v /\ cid v = i /\ cph v <> POffer;
    I_hand_once : NoDup (map (fun h => snd h) (handed s));
    I_waiting_handed : forall c v, cget c (clients s) = Some v -> (cph v = PWait \/ exists r, cph v = PDone r) ->
                exists k, In (k, cid v, c) (handed s)
  }.

  Lemma inv_init : Inv init.
  Proof.
    constructor; cbn; intros; try discriminate; try contradiction; try constructor.
  Qed.

  Ltac inv_some H := match type of H with Some _ = Some _ => inversion H; subst; clear H end.

  Lemma inj_upto_S n : inj_upto (S n) -> inj_upto n.
  Proof. intros H a b Ha Hb. apply H; lia. Qed.

  Lemma inv_step s l s' : Inv s -> step gen s l = Some s' -> Inv s'.
  Proof.
    intros I Hs. destruct l as [c q|k i c|i o|i r d|c]; cbn [step] in Hs.
    - (* Arrive *)
      destruct (cget c (clients s)) eqn:Ec; [discriminate|]. inv_some Hs.
      constructor; cbn [drawn clients table handed fetched delivered].
      + intros c0 v0 H. cbn [cget] in H. destruct (c0 =? c) eqn:E.
        * apply Z.eqb_eq in E. subst c0. inv_some H. cbn [cid]. exists (drawn s). split; [lia|]. split; [reflexivity|].
          intros c' v' H' Hid Hinj. cbn [cget] in H'. destruct (c' =? c) eqn:E'; [apply Z.eqb_eq in E'; exact E'|].
          exfalso. destruct (I_ids s I c' v' H') as (n & Hn & Hgn & _).
          rewrite Hgn in Hid. apply Hinj in Hid; lia.
        * destruct (I_ids s I c0 v0 H) as (n & Hn & Hgn & Huniq). exists n. split; [lia|]. split; [exact Hgn|].
          intros c' v' H' Hid Hinj. cbn [cget] in H'. destruct (c' =? c) eqn:E'.
          -- exfalso. inv_some H'. cbn [cid] in Hid. apply Hinj in Hid; lia.
          -- apply (Huniq c' v' H' Hid). apply inj_upto_S. exact Hinj.
      + intros i0 c0 H. cbn [lookup] in H. destruct (i0 =? gen (drawn s)) eqn:E.
        * apply Z.eqb_eq in E. inv_some H. cbn [cget]. rewrite Z.eqb_refl. eexists. split; [reflexivity|]. cbn [cid]. congruence.
        * destruct (I_table s I i0 c0 H) as (v & Hv & Hi). exists v. split; [|exact Hi].
          cbn [cget]. destruct (c0 =? c) eqn:E'; [|exact Hv]. apply Z.eqb_eq in E'. subst. congruence.
      + intros c0 v0 H. cbn [cget] in H. cbn [lookup]. destruct (c0 =? c) eqn:E.
        * inv_some H. cbn [cid]. rewrite Z.eqb_refl. eexists. reflexivity.
        * destruct (I_table_total s I c0 v0 H) as (c' & Hc'). destruct (cid v0 =? gen (drawn s)); eexists; [reflexivity|exact Hc'].
      + intros i0 r0 c0 H. destruct (I_deliv s I i0 r0 c0 H) as (v & Hv & Hi & Hp). exists v. split; [|split; assumption].
        cbn [cget]. destruct (c0 =? c) eqn:E'; [|exact Hv]. apply Z.eqb_eq in E'. subst. congruence.
      + exact (I_deliv_once s I).
      + intros c0 v0 r0 H Hp. cbn [cget] in H. destruct (c0 =? c) eqn:E.
        * inv_some H. cbn [cph] in Hp. discriminate.
        * exact (I_done s I c0 v0 r0 H Hp).
      + intros i0 q0 H. destruct (I_fetch s I i0 q0 H) as (c0 & v & Hv & Hi & Hq). exists c0, v. split; [|split; assumption].
        cbn [cget]. destruct (c0 =? c) eqn:E'; [|exact Hv]. apply Z.eqb_eq in E'. subst. congruence.
      + intros k0 i0 c0 H. destruct (I_hand s I k0 i0 c0 H) as (v & Hv & Hi & Hp). exists v. split; [|split; assumption].
        cbn [cget]. destruct (c0 =? c) eqn:E'; [|exact Hv]. apply Z.eqb_eq in E'. subst. congruence.
      + exact (I_hand_once s I).
      + intros c0 v0 H Hp. cbn [cget] in H. destruct (c0 =? c) eqn:E.
        * inv_some H. cbn [cph] in Hp. destruct Hp as [Hp|[r Hp]]; discriminate.
        * exact (I_waiting_handed s I c0 v0 H Hp).
    - (* Hand *)
      destruct (cget c (clients s)) as [v|] eqn:Ec; [|discriminate].
      destruct (is_offer (cph v) && (cid v =? i)) eqn:Eg; [|discriminate]. inv_some Hs.
      apply andb_true_iff in Eg. destruct Eg as [Eo Ei]. apply Z.eqb_eq in Ei.
      assert (Hoff : cph v = POffer) by (destruct (cph v); try discriminate; reflexivity).
      pose proof (cset_phase_fwd c v PWait (clients s) Ec) as G.
      pose proof (cset_phase_bwd c v PWait (clients s) Ec) as G2.
      constructor; cbn [drawn clients table handed fetched delivered].
      + intros c0 v0 H. destruct (G c0 v0 H) as (w & Hw & Hid & _). destruct (I_ids s I c0 w Hw) as (n & Hn & Hgn & Huniq).
        exists n. split; [exact Hn|]. split; [congruence|]. intros c' v' H' Hid' Hinj.
        destruct (G c' v' H') as (w' & Hw' & Hid2 & _). apply (Huniq c' w' Hw'); [congruence|exact Hinj].
      + intros i0 c0 H. destruct (I_table s I i0 c0 H) as (w & Hw & Hi). destruct (G2 c0 w Hw) as (v0 & Hv0 & Hid & _).
        exists v0. split; [exact Hv0|congruence].
      + intros c0 v0 H. destruct (G c0 v0 H) as (w & Hw & Hid & _). destruct (I_table_total s I c0 w Hw) as (c' & Hc'). exists c'. congruence.
      + intros i0 r0 c0 H. destruct (I_deliv s I i0 r0 c0 H) as (w & Hw & Hi & Hp).
        destruct (G2 c0 w Hw) as (v0 & Hv0 & Hid & _ & Hne & _). exists v0. split; [exact Hv0|].
        assert (c0 <> c) by (intros ->; rewrite Ec in Hw; inv_some Hw; congruence).
        rewrite (Hne H0). split; assumption.
      + exact (I_deliv_once s I).
      + intros c0 v0 r0 H Hp. destruct (G c0 v0 H) as (w & Hw & Hid & _ & Hne & Heq).
        destruct (Z.eq_dec c0 c) as [->|Hn]; [destruct (Heq eq_refl); congruence|].
        rewrite <- (Hne Hn) in *. exact (I_done s I c0 w r0 Hw Hp).
      + intros i0 q0 H. destruct (I_fetch s I i0 q0 H) as (c0 & w & Hw & Hi & Hq). destruct (G2 c0 w Hw) as (v0 & Hv0 & Hid & Htk & _).
        exists c0, v0. split; [exact Hv0|]. split; congruence.
      + intros k0 i0 c0 [H|H].
        * inversion H; subst. rewrite (cget_cset_same _ _ _ _ Ec). eexists. split; [reflexivity|]. cbn [with_phase cid cph]. split; [reflexivity|discriminate].
        * destruct (I_hand s I k0 i0 c0 H) as (w & Hw & Hi & Hp). destruct (G2 c0 w Hw) as (v0 & Hv0 & Hid & _ & Hne & Heq).
          exists v0. split; [exact Hv0|]. split; [congruence|].
          destruct (Z.eq_dec c0 c) as [->|Hn]; [rewrite (Heq eq_refl); discriminate|rewrite (Hne Hn); exact Hp].
      + cbn [map snd]. constructor; [|exact (I_hand_once s I)].
        intros Hin. apply in_map_iff in Hin. destruct Hin as ([[k0 i0] c0] & Hc0 & Hin). cbn [snd] in Hc0. subst c0.
        destruct (I_hand s I k0 i0 c Hin) as (w & Hw & _ & Hp). rewrite Ec in Hw. inv_some Hw. contradiction.
      + intros c0 v0 H Hp. destruct (G c0 v0 H) as (w & Hw & Hid & _ & Hne & Heq).
        destruct (Z.eq_dec c0 c) as [->|Hn].
        * destruct (Heq eq_refl) as [-> _]. exists k. left. congruence.
        * rewrite <- (Hne Hn) in *. destruct (I_waiting_handed s I c0 w Hw Hp) as (k0 & Hk0). exists k0. right. exact Hk0.
    - (* Fetch *)
      match type of Hs with (if ?b then _ else _) = _ => destruct b eqn:Eo end; [|discriminate]. inv_some Hs.
      constructor; cbn [drawn clients table handed fetched delivered]; try (destruct I; assumption).
      intros i0 q0 H. destruct o as [q|].
      + destruct H as [H|H]; [|exact (I_fetch s I i0 q0 H)]. inversion H; subst.
        destruct (lookup i0 (table s)) as [c|] eqn:El; [|discriminate].
        destruct (I_table s I i0 c El) as (v & Hv & Hi). rewrite Hv in Eo. cbn [option_map opt_tok_eqb] in Eo.
        apply Z.eqb_eq in Eo. exists c, v. repeat split; congruence.
      + exact (I_fetch s I i0 q0 H).
    - (* Post *)
      destruct d; [|inv_some Hs; exact I].
      destruct (lookup i (table s)) as [c|] eqn:El; [|discriminate].
      destruct (cget c (clients s)) as [v|] eqn:Ec; [|discriminate].
      destruct (is_wait (cph v)) eqn:Ew; [|discriminate]. inv_some Hs.
      assert (Hwait : cph v = PWait) by (destruct (cph v); try discriminate; reflexivity).
      destruct (I_table s I i c El) as (v1 & Hv1 & Hvi). rewrite Ec in Hv1. injection Hv1 as Hv1. subst v1.
      pose proof (cset_phase_fwd c v (PDone r) (clients s) Ec) as G.
      pose proof (cset_phase_bwd c v (PDone r) (clients s) Ec) as G2.
      constructor; cbn [drawn clients table handed fetched delivered].
      + intros c0 v0 H. destruct (G c0 v0 H) as (w & Hw & Hid & _). destruct (I_ids s I c0 w Hw) as (n & Hn & Hgn & Huniq).
        exists n. split; [exact Hn|]. split; [congruence|]. intros c' v' H' Hid' Hinj.
        destruct (G c' v' H') as (w' & Hw' & Hid2 & _). apply (Huniq c' w' Hw'); [congruence|exact Hinj].
      + intros i0 c0 H. destruct (I_table s I i0 c0 H) as (w & Hw & Hi). destruct (G2 c0 w Hw) as (v0 & Hv0 & Hid & _).
        exists v0. split; [exact Hv0|congruence].
      + intros c0 v0 H. destruct (G c0 v0 H) as (w & Hw & Hid & _). destruct (I_table_total s I c0 w Hw) as (c' & Hc'). exists c'. congruence.
      + intros i0 r0 c0 [H|H].
        * injection H as Hi0 Hr0 Hc0. subst i0 r0 c0. rewrite (cget_cset_same _ _ _ _ Ec). eexists. split; [reflexivity|]. cbn [with_phase cid cph]. split; [exact Hvi|reflexivity].
        * destruct (I_deliv s I i0 r0 c0 H) as (w & Hw & Hi & Hp).
          assert (c0 <> c) by (intros ->; rewrite Ec in Hw; inv_some Hw; congruence).
          destruct (G2 c0 w Hw) as (v0 & Hv0 & Hid & _ & Hne & _). exists v0. split; [exact Hv0|]. rewrite (Hne H0). split; assumption.
      + cbn [map snd]. constructor; [|exact (I_deliv_once s I)].
        intros Hin. apply in_map_iff in Hin. destruct Hin as ([[i0 r0] c0] & Hc0 & Hin). cbn [snd] in Hc0. subst c0.
        destruct (I_deliv s I i0 r0 c Hin) as (w & Hw & _ & Hp). rewrite Ec in Hw. inv_some Hw. congruence.
      + intros c0 v0 r0 H Hp. destruct (G c0 v0 H) as (w & Hw & Hid & _ & Hne & Heq).
        destruct (Z.eq_dec c0 c) as [->|Hn].
        * destruct (Heq eq_refl) as [Hwv Hp']. subst w. rewrite Hp' in Hp. injection Hp as Hr0. subst r0. left. rewrite <- Hid, Hvi. reflexivity.
        * rewrite <- (Hne Hn) in *. right. exact (I_done s I c0 w r0 Hw Hp).
      + intros i0 q0 H. destruct (I_fetch s I i0 q0 H) as (c0 & w & Hw & Hi & Hq). destruct (G2 c0 w Hw) as (v0 & Hv0 & Hid & Htk & _).
        exists c0, v0. split; [exact Hv0|]. split; congruence.
      + intros k0 i0 c0 H. destruct (I_hand s I k0 i0 c0 H) as (w & Hw & Hi & Hp). destruct (G2 c0 w Hw) as (v0 & Hv0 & Hid & _ & Hne & Heq).
        exists v0. split; [exact Hv0|]. split; [congruence|].
        destruct (Z.eq_dec c0 c) as [->|Hn]; [rewrite (Heq eq_refl); discriminate|rewrite (Hne Hn); exact Hp].
      + exact (I_hand_once s I).
      + intros c0 v0 H Hp. destruct (G c0 v0 H) as (w & Hw & Hid & _ & Hne & Heq).
        destruct (Z.eq_dec c0 c) as [->|Hn].
        * destruct (Heq eq_refl) as [-> _]. destruct (I_waiting_handed s I c v Ec (or_introl Hwait)) as (k0 & Hk0). exists k0. congruence.
        * rewrite <- (Hne Hn) in *. exact (I_waiting_handed s I c0 w Hw Hp).
    - (* Cancel *)
      destruct (cget c (clients s)) as [v|] eqn:Ec; [|discriminate].
      destruct (is_offer (cph v) || is_wait (cph v)) eqn:Eg; [|inv_some Hs; exact I]. inv_some Hs.
      assert (Hph : cph v = POffer \/ cph v = PWait) by (destruct (cph v); try discriminate; auto).
      pose proof (cset_phase_fwd c v PCancel (clients s) Ec) as G.
      pose proof (cset_phase_bwd c v PCancel (clients s) Ec) as G2.
      constructor; cbn [drawn clients table handed fetched delivered].
      + intros c0 v0 H. destruct (G c0 v0 H) as (w & Hw & Hid & _). destruct (I_ids s I c0 w Hw) as (n & Hn & Hgn & Huniq).
        exists n. split; [exact Hn|]. split; [congruence|]. intros c' v' H' Hid' Hinj.
        destruct (G c' v' H') as (w' & Hw' & Hid2 & _). apply (Huniq c' w' Hw'); [congruence|exact Hinj].
      + intros i0 c0 H. destruct (I_table s I i0 c0 H) as (w & Hw & Hi). destruct (G2 c0 w Hw) as (v0 & Hv0 & Hid & _).
        exists v0. split; [exact Hv0|congruence].
      + intros c0 v0 H. destruct (G c0 v0 H) as (w & Hw & Hid & _). destruct (I_table_total s I c0 w Hw) as (c' & Hc'). exists c'. congruence.
      + intros i0 r0 c0 H. destruct (I_deliv s I i0 r0 c0 H) as (w & Hw & Hi & Hp).
        assert (c0 <> c) by (intros ->; rewrite Ec in Hw; inv_some Hw; destruct Hph; congruence).
        destruct (G2 c0 w Hw) as (v0 & Hv0 & Hid & _ & Hne & _). exists v0. split; [exact Hv0|]. rewrite (Hne H0). split; assumption.
      + exact (I_deliv_once s I).
      + intros c0 v0 r0 H Hp. destruct (G c0 v0 H) as (w & Hw & Hid & _ & Hne & Heq).
        destruct (Z.eq_dec c0 c) as [->|Hn]; [destruct (Heq eq_refl); congruence|].
        rewrite <- (Hne Hn) in *. exact (I_done s I c0 w r0 Hw Hp).
      + intros i0 q0 H. destruct (I_fetch s I i0 q0 H) as (c0 & w & Hw & Hi & Hq). destruct (G2 c0 w Hw) as (v0 & Hv0 & Hid & Htk & _).
        exists c0, v0. split; [exact Hv0|]. split; congruence.
      + intros k0 i0 c0 H. destruct (I_hand s I k0 i0 c0 H) as (w & Hw & Hi & Hp). destruct (G2 c0 w Hw) as (v0 & Hv0 & Hid & _ & Hne & Heq).
        exists v0. split; [exact Hv0|]. split; [congruence|].
        destruct (Z.eq_dec c0 c) as [->|Hn]; [rewrite (Heq eq_refl); discriminate|rewrite (Hne Hn); exact Hp].
      + exact (I_hand_once s I).
      + intros c0 v0 H Hp. destruct (G c0 v0 H) as (w & Hw & Hid & _ & Hne & Heq).
        destruct (Z.eq_dec c0 c) as [->|Hn].
        * destruct (Heq eq_refl) as [_ Hc]. rewrite Hc in Hp. destruct Hp as [Hp|[r Hp]]; discriminate.
        * rewrite <- (Hne Hn) in *. exact (I_waiting_handed s I c0 w Hw Hp).
  Qed.

  Lemma inv_run tr : forall s s', Inv s -> run gen s tr = Some s' -> Inv s'.
  Proof.
    induction tr as [|l tr IH]; intros s s' I H; cbn [run] in H; [inversion H; subst; exact I|].
    destruct (step gen s l) as [s1|] eqn:E; [|discriminate]. eapply IH; [|exact H]. eapply inv_step; eassumption.
  Qed.

  Lemma drawn_run tr : forall s s', run gen s tr = Some s' -> (drawn s <= drawn s')%nat.
  Proof.
    induction tr as [|l tr IH]; intros s s' H; cbn [run] in H; [inversion H; lia|].
    destruct (step gen s l) as [s1|] eqn:E; [|discriminate]. specialize (IH _ _ H).
    assert (drawn s <= drawn s1)%nat; [|lia].
    destruct l; cbn [step] in E;
      repeat match type of E with
             | match ?x with _ => _ end = _ => destruct x
             | (if ?b then _ else _) = _ => destruct b
             end; inversion E; subst; cbn [drawn]; lia.
  Qed.

  (* ---- the statements used by C01 / C04 ---- *)

  (* under distinct IDs, the client owning an ID is unique *)
  Lemma owner_unique s : Inv s -> inj_upto (drawn s) ->
    forall c v c' v', cget c (clients s) = Some v -> cget c' (clients s) = Some v' -> cid v = cid v' -> c = c'.
  Proof.
    intros I Hinj c v c' v' H H' E. destruct (I_ids s I c v H) as (n & Hn & Hgn & Huniq).
    symmetry. apply (Huniq c' v' H'); [congruence|exact Hinj].
  Qed.

  Theorem proxy_correlation tr s : run gen init tr = Some s -> inj_upto (drawn s) ->
    forall i r c, In (i, r, c) (delivered s) ->
      exists v, cget c (clients s) = Some v /\ cid v = i /\ cph v = PDone r /\
                (forall q', In (i, q') (fetched s) -> q' = ctok v).
  Proof.
    intros Hr Hinj i r c Hd. pose proof (inv_run tr init s inv_init Hr) as I.
    destruct (I_deliv s I i r c Hd) as (v & Hv & Hi & Hp). exists v. repeat split; try assumption.
    intros q' Hf. destruct (I_fetch s I i q' Hf) as (c2 & v2 & Hv2 & Hi2 & Hq2).
    assert (c = c2) by (eapply owner_unique; try eassumption; congruence). subst c2. congruence.
  Qed.

  (* a client that completed got a response that was delivered to it under its own ID *)
  Theorem done_is_delivered tr s : run gen init tr = Some s ->
    forall c v r, cget c (clients s) = Some v -> cph v = PDone r -> In (cid v, r, c) (delivered s).
  Proof. intros Hr. exact (I_done s (inv_run tr init s inv_init Hr)). Qed.

  Theorem handoff_once tr s : run gen init tr = Some s ->
    NoDup (map (fun h => snd h) (handed s)) /\
    (inj_upto (drawn s) -> NoDup (map (fun h => snd (fst h)) (handed s))) /\
    (forall c v, cget c (clients s) = Some v -> (cph v = PWait \/ exists r, cph v = PDone r) -> exists k, In (k, cid v, c) (handed s)).
  Proof.
    intros Hr. pose proof (inv_run tr init s inv_init Hr) as I. split; [exact (I_hand_once s I)|]. split; [|exact (I_waiting_handed s I)].
    intros Hinj. pose proof (I_hand_once s I) as HN.
    assert (Hown : forall k i c, In (k, i, c) (handed s) -> exists v, cget c (clients s) = Some v /\ cid v = i).
    { intros k i c H. destruct (I_hand s I k i c H) as (v & Hv & Hi & _). exists v. split; assumption. }
    revert HN Hown. generalize (handed s). induction l as [|[[k i] c] l IHl]; intros HN Hown; cbn [map snd fst]; [constructor|].
    cbn [map snd] in HN. inversion HN as [|? ? Hnot HN']; subst. constructor.
    - intros Hin. apply in_map_iff in Hin. destruct Hin as ([[k2 i2] c2] & Hi2 & Hin). cbn [snd fst] in Hi2. subst i2.
      destruct (Hown k i c (or_introl eq_refl)) as (v & Hv & Hvi). destruct (Hown k2 i c2 (or_intror Hin)) as (v2 & Hv2 & Hvi2).
      assert (c = c2) by (eapply owner_unique; try eassumption; congruence). subst c2.
      apply Hnot. apply in_map_iff. exists (k2, i, c). split; [reflexivity|exact Hin].
    - apply IHl; [exact HN'|]. intros k2 i2 c2 H. apply (Hown k2 i2 c2). right. exact H.
  Qed.

  (* one response per client *)
  Theorem one_response_per_client tr s : run gen init tr = Some s -> NoDup (map (fun d => snd d) (delivered s)).
  Proof. intros Hr. exact (I_deliv_once s (inv_run tr init s inv_init Hr)). Qed.
End Inv.
