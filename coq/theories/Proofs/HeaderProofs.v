(* Facts about Lib/Header.v and Agent/Forward.v (C09; reused by C02/C03). *)
From Coq Require Import String List Bool.
From IP Require Import Lib.Header Agent.Forward.
Import ListNotations.
Open Scope string_scope.
Open Scope list_scope.

Lemma hvalues_hdel_same k h : hvalues k (hdel k h) = [].
Proof.
  induction h as [|[n vs] h IH]; cbn [hdel hvalues]; [reflexivity|].
  destruct (n =? k) eqn:E; [exact IH|]. cbn [hvalues]. rewrite E. exact IH.
Qed.

Lemma hvalues_hdel_other k k' h : k' <> k -> hvalues k' (hdel k h) = hvalues k' h.
Proof.
  intros Hne. induction h as [|[n vs] h IH]; cbn [hdel hvalues]; [reflexivity|].
  destruct (n =? k) eqn:E.
  - apply String.eqb_eq in E. subst n. destruct (k =? k') eqn:E2; [apply String.eqb_eq in E2; congruence|exact IH].
  - cbn [hvalues]. destruct (n =? k'); [reflexivity|exact IH].
Qed.

Lemma hvalues_hset_same k v h : hvalues k (hset k v h) = [v].
Proof. unfold hset. cbn [hvalues]. rewrite String.eqb_refl. reflexivity. Qed.

Lemma hvalues_hset_other k k' v h : k' <> k -> hvalues k' (hset k v h) = hvalues k' h.
Proof.
  intros Hne. unfold hset. cbn [hvalues]. destruct (k =? k') eqn:E; [apply String.eqb_eq in E; congruence|].
  apply hvalues_hdel_other. exact Hne.
Qed.

Lemma hvalues_hadd_same k v h : hvalues k (hadd k v h) = hvalues k h ++ [v].
Proof.
  induction h as [|[n vs] h IH]; cbn [hadd hvalues]; [rewrite String.eqb_refl; reflexivity|].
  destruct (n =? k) eqn:E; cbn [hvalues]; rewrite E; [reflexivity|exact IH].
Qed.

Lemma hvalues_hadd_other k k' v h : k' <> k -> hvalues k' (hadd k v h) = hvalues k' h.
Proof.
  intros Hne. induction h as [|[n vs] h IH]; cbn [hadd hvalues].
  - destruct (k =? k') eqn:E; [apply String.eqb_eq in E; congruence|reflexivity].
  - destruct (n =? k) eqn:E; cbn [hvalues].
    + apply String.eqb_eq in E. subst n. destruct (k =? k') eqn:E2; [apply String.eqb_eq in E2; congruence|reflexivity].
    + destruct (n =? k'); [reflexivity|exact IH].
Qed.

Lemma apply_method_other m key v k' h : k' <> key -> hvalues k' (apply_method m key v h) = hvalues k' h.
Proof.
  intros Hne. unfold apply_method.
  destruct (m =? "Set"); [apply hvalues_hset_other; exact Hne|].
  destruct (m =? "Add"); [apply hvalues_hadd_other; exact Hne|].
  destruct (m =? "Del"); [apply hvalues_hdel_other; exact Hne|reflexivity].
Qed.

Lemma apply_methods_other ms key v k' : k' <> key -> forall h, hvalues k' (apply_methods ms key v h) = hvalues k' h.
Proof.
  intros Hne. unfold apply_methods. induction ms as [|m ms IH]; intros h; cbn [fold_left]; [reflexivity|].
  rewrite IH. apply apply_method_other. exact Hne.
Qed.

Lemma strip_ws_values names k h : existsb (String.eqb k) names = false ->
  hvalues k (strip_ws names h) = hvalues k h.
Proof.
  intros Hk. unfold strip_ws. induction h as [|[n vs] h IH]; cbn [filter hvalues fst]; [reflexivity|].
  destruct (n =? k) eqn:E.
  - apply String.eqb_eq in E. subst n. rewrite Hk. cbn [negb hvalues]. rewrite String.eqb_refl. reflexivity.
  - destruct (negb (existsb (String.eqb n) names)); cbn [hvalues]; [rewrite E|]; exact IH.
Qed.

