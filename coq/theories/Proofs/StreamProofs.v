(* Proofs for Agent/StreamPipe.v (C05). *)
From Coq Require Import List Arith Bool Lia.
From IP Require Import Agent.StreamPipe.
Import ListNotations.

(* without a hoarding stage every stage holds at most one chunk *)
Definition small (s : pst) : Prop := Forall (fun h => length h <= 1) (stages s).

Lemma set_nth_length {A} k (v : A) l : length (set_nth k v l) = length l.
Proof. revert k. induction l as [|x l IH]; intros [|k]; cbn [set_nth length]; auto. Qed.

Lemma nth_error_set_nth_same {A} k (v : A) l : k < length l -> nth_error (set_nth k v l) k = Some v.
Proof.
  revert k. induction l as [|x l IH]; intros k H; [cbn in H; lia|].
  destruct k as [|k]; cbn [set_nth nth_error]; [reflexivity|]. apply IH. cbn [length] in H. lia.
Qed.

Lemma nth_error_set_nth_other {A} k j (v : A) l : j <> k -> nth_error (set_nth k v l) j = nth_error l j.
Proof.
  revert k j. induction l as [|x l IH]; intros k j H; [destruct k; reflexivity|].
  destruct k as [|k]; destruct j as [|j]; cbn [set_nth nth_error]; try reflexivity; try lia. apply IH. lia.
Qed.

Lemma Forall_set_nth {A} (P : A -> Prop) k v l : Forall P l -> P v -> Forall P (set_nth k v l).
Proof. revert k. induction l as [|x l IH]; intros [|k] HF Hv; cbn [set_nth]; auto; inversion HF; subst; constructor; auto. Qed.

Lemma small_step s l s' : small s -> pstep no_hoarding s l = Some s' -> small s'.
Proof.
  unfold small. intros HS H. destruct l as [c| |k]; cbn [pstep] in H.
  - destruct (ended s); [discriminate|]. destruct (stages s) as [|h r] eqn:E; [discriminate|]. destruct h as [|x h]; [|discriminate].
    injection H as <-. cbn [stages]. inversion HS; subst. constructor; [cbn; lia|assumption].
  - destruct (ended s); [discriminate|]. injection H as <-. exact HS.
  - destruct (can_move no_hoarding s k) eqn:Ec; [|discriminate]. unfold can_move in Ec.
    destruct (nth_error (stages s) k) as [[|c rest]|] eqn:En; try discriminate.
    assert (Hrest : length rest <= 1).
    { rewrite Forall_forall in HS. assert (In (c :: rest) (stages s)) by (eapply nth_error_In; exact En). specialize (HS _ H0). cbn in HS. lia. }
    destruct (S k =? length (stages s)) eqn:El.
    + injection H as <-. change (Forall (fun h : list nat => length h <= 1) (set_nth k rest (stages s))). apply Forall_set_nth; [exact HS|exact Hrest].
    + destruct (nth_error (stages s) (S k)) as [nxt|] eqn:En2; [|discriminate]. cbn [no_hoarding negb orb andb] in Ec.
      destruct nxt as [|y nxt]; [|discriminate]. injection H as <-.
      change (Forall (fun h : list nat => length h <= 1) (set_nth (S k) ([] ++ [c]) (set_nth k rest (stages s)))).
      apply Forall_set_nth; [apply Forall_set_nth; [exact HS|exact Hrest]|cbn; lia].
Qed.

Lemma all_empty_dec (l : list (list nat)) :
  (forall j, j < length l -> nth_error l j = Some []) \/ (exists h, In h l /\ h <> []).
Proof.
  induction l as [|x l IH]; [left; intros j Hj; cbn in Hj; lia|].
  destruct x as [|c rest].
  - destruct IH as [IH|(h & Hin & Hne)].
    + left. intros [|j] Hj; [reflexivity|]. cbn [nth_error length] in *. apply IH. lia.
    + right. exists h. split; [right; exact Hin|exact Hne].
  - right. exists (c :: rest). split; [left; reflexivity|discriminate].
Qed.

(* the last non-empty stage *)
Lemma last_nonempty (l : list (list nat)) : (exists h, In h l /\ h <> []) ->
  exists k c rest, k < length l /\ nth_error l k = Some (c :: rest) /\ forall j, k < j -> j < length l -> nth_error l j = Some [].
Proof.
  induction l as [|x l IH]; intros (h & Hin & Hne); [destruct Hin|].
  destruct (all_empty_dec l) as [Hall|Hsome].
  - destruct Hin as [->|Hin].
    + destruct h as [|c rest]; [contradiction|]. exists 0, c, rest. split; [cbn; lia|]. split; [reflexivity|].
      intros [|j] Hj Hl; [lia|]. cbn [nth_error length] in *. apply Hall. lia.
    + exfalso. apply Hne. destruct (In_nth_error _ _ Hin) as (j & Hj).
      assert (Hlt : j < length l) by (apply nth_error_Some; congruence). rewrite (Hall j Hlt) in Hj. congruence.
  - destruct (IH Hsome) as (k & c & rest & Hlt & Hk & Hafter). exists (S k), c, rest. split; [cbn; lia|]. split; [exact Hk|].
    intros [|j] Hj Hl; [lia|]. cbn [nth_error length] in *. apply Hafter; lia.
Qed.

(* C05: in every state in which nothing can move any more, no stage holds anything *)
Theorem quiescent_holds_nothing s : quiescent no_hoarding s = true -> Forall (fun h => h = []) (stages s).
Proof.
  intros Hq. destruct (all_empty_dec (stages s)) as [Hall|Hsome].
  - apply Forall_forall. intros h Hin. destruct (In_nth_error _ _ Hin) as (j & Hj).
    assert (Hlt : j < length (stages s)) by (apply nth_error_Some; congruence). rewrite (Hall j Hlt) in Hj. congruence.
  - exfalso. destruct (last_nonempty _ Hsome) as (k & c & rest & Hlt & Hk & Hafter).
    unfold quiescent in Hq. rewrite forallb_forall in Hq. specialize (Hq k ltac:(apply in_seq; lia)).
    unfold can_move in Hq. rewrite Hk in Hq. cbn [no_hoarding negb orb andb] in Hq.
    destruct (S k =? length (stages s)) eqn:El; [discriminate|]. apply Nat.eqb_neq in El.
    rewrite (Hafter (S k) ltac:(lia) ltac:(lia)) in Hq. discriminate.
Qed.

(* ---- conservation: nothing is lost, duplicated or reordered on the way ---- *)
Lemma nth_error_split3 (l : list (list nat)) k a : nth_error l k = Some a -> exists l1 l2, l = l1 ++ a :: l2 /\ length l1 = k.
Proof. intros H. destruct (nth_error_split l k H) as (l1 & l2 & E & L). exists l1, l2. split; assumption. Qed.

Lemma set_nth_app (l1 l2 : list (list nat)) a v : set_nth (length l1) v (l1 ++ a :: l2) = l1 ++ v :: l2.
Proof.
  induction l1 as [|x l1 IH]; [reflexivity|].
  change (x :: set_nth (length l1) v (l1 ++ a :: l2) = x :: l1 ++ v :: l2). rewrite IH. reflexivity.
Qed.

Lemma set_nth_app_S (l1 l2 : list (list nat)) a b v : set_nth (S (length l1)) v (l1 ++ a :: b :: l2) = l1 ++ a :: v :: l2.
Proof.
  induction l1 as [|x l1 IH]; [reflexivity|].
  change (x :: set_nth (S (length l1)) v (l1 ++ a :: b :: l2) = x :: l1 ++ a :: v :: l2). rewrite IH. reflexivity.
Qed.

Definition Cons (s : pst) : Prop := sink s ++ in_flight s = produced s.

Lemma cons_step s l s' : Cons s -> pstep no_hoarding s l = Some s' -> Cons s'.
Proof.
  unfold Cons, in_flight. intros HC H. destruct l as [c| |k]; cbn [pstep] in H.
  - destruct (ended s); [discriminate|]. destruct (stages s) as [|h r] eqn:E; [discriminate|]. destruct h as [|x h]; [|discriminate].
    injection H as <-. cbn [stages sink produced]. cbn [rev] in *. rewrite concat_app in *. cbn [concat app] in *. rewrite app_nil_r in HC.
    rewrite <- HC. rewrite !app_assoc. reflexivity.
  - destruct (ended s); [discriminate|]. injection H as <-. exact HC.
  - destruct (can_move no_hoarding s k) eqn:Ec; [|discriminate]. unfold can_move in Ec.
    destruct (nth_error (stages s) k) as [[|c rest]|] eqn:En; try discriminate.
    destruct (nth_error_split3 _ _ _ En) as (l1 & l2 & El & Lk). subst k.
    destruct (S (length l1) =? length (stages s)) eqn:Elen.
    + injection H as <-. change ((sink s ++ [c]) ++ concat (rev (set_nth (length l1) rest (stages s))) = produced s). apply Nat.eqb_eq in Elen.
      assert (l2 = []) by (rewrite El, app_length in Elen; cbn [length] in Elen; destruct l2; [reflexivity|cbn in Elen; lia]). subst l2.
      rewrite El, set_nth_app. rewrite El in HC. rewrite !rev_app_distr in *. cbn [rev app concat] in *.
      rewrite <- HC. rewrite <- !app_assoc. cbn [app]. reflexivity.
    + destruct (nth_error (stages s) (S (length l1))) as [nxt|] eqn:En2; [|discriminate]. injection H as <-.
      change (sink s ++ concat (rev (set_nth (S (length l1)) (nxt ++ [c]) (set_nth (length l1) rest (stages s)))) = produced s).
      destruct l2 as [|b l2]. 
      { exfalso. rewrite El in En2. rewrite nth_error_app2 in En2 by lia. replace (S (length l1) - length l1) with 1 in En2 by lia. discriminate. }
      assert (b = nxt). { rewrite El in En2. rewrite nth_error_app2 in En2 by lia. replace (S (length l1) - length l1) with 1 in En2 by lia. cbn in En2. congruence. } subst b.
      rewrite El. rewrite set_nth_app. rewrite set_nth_app_S. rewrite El in HC.
      rewrite <- HC. f_equal. rewrite !rev_app_distr. cbn [rev]. rewrite <- !app_assoc. cbn [app].
      rewrite !concat_app. cbn [concat]. rewrite ?app_nil_r. rewrite <- ?app_assoc. cbn [app]. reflexivity.
Qed.

Theorem conservation n ls s : prun no_hoarding (p_init n) ls = Some s -> sink s ++ in_flight s = produced s.
Proof.
  assert (G : forall ls s0 s, Cons s0 -> prun no_hoarding s0 ls = Some s -> Cons s).
  { clear. induction ls as [|l ls IH]; intros s0 s HC H; cbn [prun] in H; [inversion H; subst; exact HC|].
    destruct (pstep no_hoarding s0 l) as [s1|] eqn:E; [|discriminate]. eapply IH; [|exact H]. eapply cons_step; eassumption. }
  apply G. unfold Cons, in_flight, p_init. cbn [sink produced stages]. 
  assert (E : concat (rev (repeat (@nil nat) n)) = []).
  { induction n as [|m IHm]; [reflexivity|]. cbn [repeat rev]. rewrite concat_app, IHm. reflexivity. }
  rewrite E. reflexivity.
Qed.

(* bounded progress: every internal step brings one chunk one stage nearer to the proxy *)
Lemma work_app l1 l2 : work (l1 ++ l2) = work l1 + length (concat l1) * length l2 + work l2.
Proof.
  induction l1 as [|h l1 IH]; [reflexivity|].
  cbn [app work concat]. rewrite IH, !app_length. nia.
Qed.

Lemma move_work s k s' : pstep no_hoarding s (Move k) = Some s' -> S (work (stages s')) = work (stages s).
Proof.
  intros H. cbn [pstep] in H.
  destruct (can_move no_hoarding s k) eqn:Ec; [|discriminate]. unfold can_move in Ec.
  destruct (nth_error (stages s) k) as [[|c rest]|] eqn:En; try discriminate.
  destruct (nth_error_split3 _ _ _ En) as (l1 & l2 & El & Lk). subst k.
  destruct (S (length l1) =? length (stages s)) eqn:Elen.
  - injection H as <-. change (S (work (set_nth (length l1) rest (stages s))) = work (stages s)). apply Nat.eqb_eq in Elen.
    assert (l2 = []) by (rewrite El, app_length in Elen; cbn [length] in Elen; destruct l2; [reflexivity|cbn in Elen; lia]). subst l2.
    rewrite El, set_nth_app. rewrite !work_app. cbn [work length]. lia.
  - destruct (nth_error (stages s) (S (length l1))) as [nxt|] eqn:En2; [|discriminate]. injection H as <-.
    change (S (work (set_nth (S (length l1)) (nxt ++ [c]) (set_nth (length l1) rest (stages s)))) = work (stages s)).
    destruct l2 as [|b l2].
    { exfalso. rewrite El in En2. rewrite nth_error_app2 in En2 by lia. replace (S (length l1) - length l1) with 1 in En2 by lia. discriminate. }
    assert (b = nxt). { rewrite El in En2. rewrite nth_error_app2 in En2 by lia. replace (S (length l1) - length l1) with 1 in En2 by lia. cbn in En2. congruence. } subst b.
    rewrite El. rewrite (set_nth_app l1 (nxt :: l2) (c :: rest) rest). rewrite (set_nth_app_S l1 l2 rest nxt (nxt ++ [c])). rewrite !work_app. cbn [work length]. rewrite app_length. cbn [length]. nia.
Qed.

Lemma moves_work : forall ls s s', all_moves ls = true -> prun no_hoarding s ls = Some s' ->
  length ls + work (stages s') = work (stages s).
Proof.
  induction ls as [|l ls IH]; intros s s' Ha H; cbn [prun] in H.
  - injection H as <-. reflexivity.
  - cbn [all_moves forallb] in Ha. apply andb_true_iff in Ha. destruct Ha as [Hl Ha].
    destruct l as [c| |k]; try discriminate.
    destruct (pstep no_hoarding s (Move k)) as [s1|] eqn:E; [|discriminate].
    pose proof (move_work _ _ _ E). pose proof (IH s1 s' Ha H). cbn [length]. lia.
Qed.

Lemma work_le l : work l <= length (concat l) * length l.
Proof. induction l as [|h l IH]; [reflexivity|]. cbn [work concat length]. rewrite app_length. nia. Qed.
