(* Model of encoding/base64.StdEncoding (RFC 4648 alphabet, '=' padding) as used
   by the websocket shim for binary payloads.  Bytes and 6-bit digits are nat;
   characters are abstracted to their 6-bit value plus a padding symbol (the
   alphabet table is a bijection checked by the correspondence run).
   No proofs here. *)
From Coq Require Import List Arith.
Import ListNotations.

Inductive b64sym := D (d : nat) | Pad.

Fixpoint b64_encode (bs : list nat) : list b64sym :=
  match bs with
  | [] => []
  | [a] => [D (a / 4); D ((a mod 4) * 16); Pad; Pad]
  | [a; b] => [D (a / 4); D ((a mod 4) * 16 + b / 16); D ((b mod 16) * 4); Pad]
  | a :: b :: c :: r => D (a / 4) :: D ((a mod 4) * 16 + b / 16) :: D ((b mod 16) * 4 + c / 64) :: D (c mod 64) :: b64_encode r
  end.

Fixpoint b64_decode (ss : list b64sym) : option (list nat) :=
  match ss with
  | [] => Some []
  | [D w; D x; Pad; Pad] => Some [w * 4 + x / 16]
  | [D w; D x; D y; Pad] => Some [w * 4 + x / 16; (x mod 16) * 16 + y / 4]
  | D w :: D x :: D y :: D z :: r =>
      match b64_decode r with
      | Some bs => Some (w * 4 + x / 16 :: (x mod 16) * 16 + y / 4 :: (y mod 4) * 64 + z :: bs)
      | None => None
      end
  | _ => None
  end.

(* the alphabet: digit -> character code *)
Definition b64_char (d : nat) : nat :=
  if d <? 26 then 65 + d else if d <? 52 then 71 + d else if d <? 62 then d - 4 else if d =? 62 then 43 else 47.
Definition sym_char (s : b64sym) : nat := match s with D d => b64_char d | Pad => 61 end.
