(* Model of encoding/hex as used by utils/tcpbridge/connection (EncodeToString,
   DecodeString).  Bytes and characters are nat.  No proofs here. *)
From Coq Require Import List Arith Bool.
Import ListNotations.

(* character codes *)
Definition hexdigit (d : nat) : nat := if d <? 10 then 48 + d else 87 + d.        (* '0'..'9', 'a'..'f' *)

Definition unhex (c : nat) : option nat :=
  if (48 <=? c) && (c <=? 57) then Some (c - 48)
  else if (97 <=? c) && (c <=? 102) then Some (c - 87)
  else if (65 <=? c) && (c <=? 70) then Some (c - 55)
  else None.

Fixpoint hex_encode (bs : list nat) : list nat :=
  match bs with [] => [] | b :: r => hexdigit (b / 16) :: hexdigit (b mod 16) :: hex_encode r end.

(* None = hex.InvalidByteError / hex.ErrLength *)
Fixpoint hex_decode (cs : list nat) : option (list nat) :=
  match cs with
  | [] => Some []
  | [_] => None
  | a :: b :: r =>
      match unhex a, unhex b, hex_decode r with
      | Some x, Some y, Some bs => Some (16 * x + y :: bs)
      | _, _, _ => None
      end
  end.
