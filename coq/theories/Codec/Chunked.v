(* Model of the HTTP/1.1 chunked transfer coding as written by net/http (internal.chunkedWriter, used for the agent's
   response uploads, forced by NewResponseForwarder, and for every body of unknown length) and as read by
   internal.chunkedReader: each non-empty Write of the body becomes  <length in lower-case hex> CRLF <bytes> CRLF,
   the end is  0 CRLF <trailer fields> CRLF.  Bytes and characters are nat.  The trailer section is kept as opaque
   bytes here (its field structure is the business of Agent/RespPath.v).  No proofs here. *)
From Coq Require Import List Arith Bool.
From IP Require Import Codec.Hex.
Import ListNotations.

Definition CR := 13.
Definition LF := 10.

(* ---- the chunk-size line ---- *)
(* digits of n, least significant first; fuel n + 1 always suffices *)
Fixpoint digits_rev (fuel n : nat) : list nat :=
  match fuel with
  | 0 => []
  | S f => (n mod 16) :: (if n / 16 =? 0 then [] else digits_rev f (n / 16))
  end.
Definition to_hex (n : nat) : list nat := map hexdigit (rev (digits_rev (S n) n)).

Fixpoint of_hex_acc (cs : list nat) (acc : nat) : option nat :=
  match cs with
  | [] => Some acc
  | c :: r => match unhex c with Some d => of_hex_acc r (acc * 16 + d) | None => None end
  end.
(* None = "invalid byte in chunk length" / empty size line *)
Definition of_hex (cs : list nat) : option nat := match cs with [] => None | _ => of_hex_acc cs 0 end.

(* ---- writer: one chunk per non-empty write, then the terminating chunk and the (opaque) trailer section ---- *)
Definition enc_chunk (c : list nat) : list nat :=
  match c with [] => [] | _ => to_hex (length c) ++ [CR; LF] ++ c ++ [CR; LF] end.
Definition encode (writes : list (list nat)) (trailer_section : list nat) : list nat :=
  concat (map enc_chunk writes) ++ [48; CR; LF] ++ trailer_section ++ [CR; LF].

(* ---- reader ---- *)
(* the bytes before the first CRLF, and what follows it *)
Fixpoint split_crlf (l : list nat) : option (list nat * list nat) :=
  match l with
  | [] => None
  | c :: r =>
      match r with
      | d :: r' => if (c =? CR) && (d =? LF) then Some ([], r')
                   else match split_crlf r with Some (a, b) => Some (c :: a, b) | None => None end
      | [] => None
      end
  end.

(* Some (body, rest): rest = the bytes after the terminating chunk's size line (trailer section and final CRLF);
   None = malformed or truncated.  One unit of fuel per chunk; length of the input always suffices. *)
Fixpoint decode_fuel (fuel : nat) (l : list nat) (acc : list nat) : option (list nat * list nat) :=
  match fuel with
  | 0 => None
  | S f =>
      match split_crlf l with
      | None => None
      | Some (szline, rest) =>
          match of_hex szline with
          | None => None
          | Some 0 => Some (acc, rest)
          | Some n =>
              if length rest <? n + 2 then None
              else match skipn n rest with
                   | c :: d :: r => if (c =? CR) && (d =? LF) then decode_fuel f r (acc ++ firstn n rest) else None
                   | _ => None
                   end
          end
      end
  end.
Definition decode (l : list nat) : option (list nat * list nat) := decode_fuel (S (length l)) l [].
