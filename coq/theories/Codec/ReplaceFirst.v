(* strings.Replace(s, old, new, 1) on byte lists, and the body splice of
   agent/websockets/shim.go:ShimBody.  No proofs here. *)
From Coq Require Import List Arith Bool.
Import ListNotations.

Fixpoint prefixb (p s : list nat) : bool :=
  match p, s with
  | [], _ => true
  | x :: p', y :: s' => (x =? y) && prefixb p' s'
  | _ :: _, [] => false
  end.

(* index of the first occurrence of a non-empty pattern *)
Fixpoint find (pat s : list nat) : option nat :=
  match s with
  | [] => None
  | _ :: r => if prefixb pat s then Some 0 else option_map S (find pat r)
  end.

Definition replace_first (pat ins s : list nat) : list nat :=
  match find pat s with
  | None => s
  | Some i => firstn i s ++ pat ++ ins ++ skipn (i + length pat) s
  end.

(* ShimBody: the first Read of at most 1024 bytes returned the first k bytes
   (k chosen by the environment, 1 <= k <= 1024 unless the body is shorter);
   only that prefix is searched *)
Definition shim_body (pat script body : list nat) (k : nat) : list nat :=
  replace_first pat (script) (firstn k body) ++ skipn k body.
