(* Executable comparison of net/http's chunked writer and reader (run by the harness) with Codec/Chunked.v; no proofs. *)
From Coq Require Import List Arith Bool ZArith.
From IP Require Import Codec.Chunked.
Import ListNotations.

Fixpoint bytes_eqb (a b : list nat) : bool :=
  match a, b with
  | [], [] => true
  | x :: a', y :: b' => Nat.eqb x y && bytes_eqb a' b'
  | _, _ => false
  end.

(* run-length encoded byte strings (the harness writes long runs compactly) *)
Definition unrle (l : list (nat * nat)) : list nat := concat (map (fun p => repeat (fst p) (snd p)) l).

(* writes and trailer section as given to Go's chunked writer, the bytes it produced, and for some cut positions whether
   Go's chunked reader accepted the prefix as a complete body *)
Definition chunked_case_ok (writes_rle : list (list (nat * nat))) (trailer : list nat) (wire_rle : list (nat * nat)) (cuts : list (nat * bool)) : bool :=
  let writes := map unrle writes_rle in
  let wire := unrle wire_rle in
  bytes_eqb (encode writes trailer) wire &&
  match decode wire with
  | Some (body, rest) => bytes_eqb body (concat writes) && bytes_eqb rest (trailer ++ [CR; LF])
  | None => false
  end &&
  forallb (fun cb => let '(k, go_complete) := cb in
                     Bool.eqb (match decode (firstn k wire) with Some _ => true | None => false end) go_complete) cuts.
