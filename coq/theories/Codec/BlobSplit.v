(* Model of app/store/store.go: newBlob / writeBlobParts / blob.read.
   A byte string shorter than the limit is stored inline; otherwise the first `limit`
   bytes are inline and the rest is cut into len(rest)/limit + 1 parts of at most
   `limit` bytes (the last one may be empty).  No proofs here (Proofs/BlobProofs.v). *)
From Coq Require Import ZArith List Arith.
Import ListNotations.

Section Blob.
  Context {A : Type}.
  Variable limit : nat.

  (* writeBlobParts: part i = bytes[i*limit : min((i+1)*limit, len)], for i < count *)
  Fixpoint chunks (count : nat) (l : list A) : list (list A) :=
    match count with
    | O => []
    | S n => firstn limit l :: chunks n (skipn limit l)
    end.

  Definition part_count (l : list A) : nat := length l / limit + 1.

  (* newBlob: (Inlined, Parts) *)
  Definition split (l : list A) : list A * list (list A) :=
    if length l <? limit then (l, [])
    else (firstn limit l, chunks (part_count (skipn limit l)) (skipn limit l)).

  (* blob.read *)
  Definition join (b : list A * list (list A)) : list A := fst b ++ concat (snd b).
End Blob.

(* the same on lengths only (what the harness can observe of a 3 MB payload) *)
Fixpoint chunk_sizes (limit : Z) (count : nat) (len : Z) : list Z :=
  match count with
  | O => []
  | S n => Z.min limit len :: chunk_sizes limit n (len - Z.min limit len)
  end.

Definition split_sizes (limit len : Z) : Z * list Z :=
  if (len <? limit)%Z then (len, [])
  else (limit, chunk_sizes limit (Z.to_nat ((len - limit) / limit + 1)) (len - limit)).
