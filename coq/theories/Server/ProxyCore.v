(* Model of server/server.go as a labelled transition system.
   Every client handler (ServeHTTP) is a small sequential program
       draw ID; insert into p.requests; offer ID on requestIDs;  (POffer)
       wait on respChan;                                          (PWait)
       copy the response to the client                            (PDone r)
   that can be cancelled before completion (PCancel).  One label per atomic
   action visible at the proxy's interface:

   Arrive c q   ServeHTTP for client c with request token q: newID() is drawn
                (gen n for the n-th draw) and p.requests[id] = pending (a map
                insert: an equal ID overwrites); the handler starts to offer
                the ID on the unbuffered channel requestIDs.
   Hand k i c   poller k (waitForRequestIDs: the blocking first receive or the
                non-blocking drain) receives ID i from c's handler.
   Fetch i o    handleAgentGetRequest: o = token of the request stored under i
                (None = 404).
   Post i r d   handleAgentPostResponse: d = true when the parsed response was
                handed to the waiting client (send on respChan); false for a
                404 or when the poster gives up before a receiver exists.
   Cancel c     the client's context ends (either select of ServeHTTP).

   Granularity: the ID draw + map insert is ONE step; that the draw is atomic
   in the implementation is checked on the implementation (race detector, ID
   distinctness), not assumed.  No proofs here (Proofs/ProxyCoreProofs.v). *)
From Coq Require Import ZArith List Bool.
Import ListNotations.
Open Scope Z_scope.

Definition id := Z.
Definition client := Z.
Definition tok := Z.
Definition resp := Z.
Definition poller := Z.

Inductive phase := POffer | PWait | PDone (r : resp) | PCancel.

Record crec := { cid : id; ctok : tok; cph : phase }.

Record pst := {
  drawn : nat;                          (* number of IDs drawn so far *)
  clients : list (client * crec);       (* one record per client handler *)
  table : list (id * client);           (* p.requests, newest first; lookup = first match *)
  (* history (ghost) fields, used to state the properties *)
  handed : list (poller * id * client);
  fetched : list (id * tok);
  delivered : list (id * resp * client)
}.

Definition init : pst :=
  {| drawn := 0; clients := []; table := []; handed := []; fetched := []; delivered := [] |}.

Inductive lbl :=
| Arrive (c : client) (q : tok)
| Hand (k : poller) (i : id) (c : client)
| Fetch (i : id) (o : option tok)
| Post (i : id) (r : resp) (d : bool)
| Cancel (c : client).

Fixpoint cget (c : client) (l : list (client * crec)) : option crec :=
  match l with [] => None | (d, v) :: r => if c =? d then Some v else cget c r end.

Fixpoint cset (c : client) (v : crec) (l : list (client * crec)) : list (client * crec) :=
  match l with [] => [] | (d, w) :: r => if c =? d then (d, v) :: r else (d, w) :: cset c v r end.

Fixpoint lookup (i : id) (t : list (id * client)) : option client :=
  match t with [] => None | (j, c) :: r => if i =? j then Some c else lookup i r end.

Definition opt_tok_eqb (a b : option tok) : bool :=
  match a, b with None, None => true | Some x, Some y => x =? y | _, _ => false end.

Definition is_offer (p : phase) : bool := match p with POffer => true | _ => false end.
Definition is_wait (p : phase) : bool := match p with PWait => true | _ => false end.

Definition with_phase (v : crec) (p : phase) : crec := {| cid := cid v; ctok := ctok v; cph := p |}.

Section Step.
  Variable gen : nat -> id.   (* the ID produced by the n-th draw *)

  Definition step (s : pst) (l : lbl) : option pst :=
    match l with
    | Arrive c q =>
        match cget c (clients s) with
        | Some _ => None                           (* a client identifier names one request *)
        | None =>
            let i := gen (drawn s) in
            Some {| drawn := S (drawn s);
                    clients := (c, {| cid := i; ctok := q; cph := POffer |}) :: clients s;
                    table := (i, c) :: table s;
                    handed := handed s; fetched := fetched s; delivered := delivered s |}
        end
    | Hand k i c =>
        match cget c (clients s) with
        | Some v =>
            if is_offer (cph v) && (cid v =? i) then
              Some {| drawn := drawn s; clients := cset c (with_phase v PWait) (clients s);
                      table := table s; handed := (k, i, c) :: handed s;
                      fetched := fetched s; delivered := delivered s |}
            else None
        | None => None
        end
    | Fetch i o =>
        let real := match lookup i (table s) with
                    | Some c => option_map ctok (cget c (clients s))
                    | None => None
                    end in
        if opt_tok_eqb o real then
          Some {| drawn := drawn s; clients := clients s; table := table s; handed := handed s;
                  fetched := match o with Some q => (i, q) :: fetched s | None => fetched s end;
                  delivered := delivered s |}
        else None
    | Post i r d =>
        if d then
          match lookup i (table s) with
          | Some c =>
              match cget c (clients s) with
              | Some v =>
                  if is_wait (cph v) then
                    Some {| drawn := drawn s; clients := cset c (with_phase v (PDone r)) (clients s);
                            table := table s; handed := handed s; fetched := fetched s;
                            delivered := (i, r, c) :: delivered s |}
                  else None
              | None => None
              end
          | None => None
          end
        else Some s
    | Cancel c =>
        match cget c (clients s) with
        | Some v =>
            if is_offer (cph v) || is_wait (cph v) then
              Some {| drawn := drawn s; clients := cset c (with_phase v PCancel) (clients s);
                      table := table s; handed := handed s; fetched := fetched s;
                      delivered := delivered s |}
            else Some s
        | None => None
        end
    end.

  Fixpoint run (s : pst) (tr : list lbl) : option pst :=
    match tr with
    | [] => Some s
    | l :: r => match step s l with Some s' => run s' r | None => None end
    end.
End Step.

(* responses received by clients *)
Definition got (s : pst) : list (client * resp) :=
  flat_map (fun cv => match cph (snd cv) with PDone r => [(fst cv, r)] | _ => [] end) (clients s).

(* ---- executable property monitor over a state (evaluated on implementation traces) ---- *)
Fixpoint nodupb (l : list Z) : bool :=
  match l with [] => true | x :: r => negb (existsb (Z.eqb x) r) && nodupb r end.

Definition ids_distinct (s : pst) : bool := nodupb (map (fun cv => cid (snd cv)) (clients s)).

(* every delivered response went to the client owning the ID it was posted under,
   and every fetch under that ID returned that client's token *)
Definition delivered_ok (s : pst) : bool :=
  forallb (fun d =>
    let '(i, r, c) := d in
    match cget c (clients s) with
    | Some v => (cid v =? i) && forallb (fun f => negb (fst f =? i) || (snd f =? ctok v)) (fetched s)
    | None => false
    end) (delivered s).

(* each client at most one response; each ID handed to at most one pending-list reply *)
Definition once_ok (s : pst) : bool :=
  nodupb (map (fun d => snd d) (delivered s)) && nodupb (map (fun h => snd (fst h)) (handed s)).

Definition monitor (s : pst) : bool := delivered_ok s && once_ok s.
