(* The relay of ONE response inside the proxy (server/server.go): the agent's upload handler (handleAgentPostResponse)
   and the client's handler (ServeHTTP) are two goroutines joined by an io.Pipe:
     post handler:    parse the header of the uploaded response; hand it to the waiting client handler (rendezvous on
                      respChan); io.Copy(pw, respBody); [deferred] pw.Close(), respBody.Close()
     client handler:  receive the response; write status and header; io.Copy(w, pipe reader); pipe reader Close();
                      copy resp.Trailer into the client's trailers.
   net/http stores the trailers of the uploaded response into resp.Trailer (a map) from inside the LAST Read of respBody,
   i.e. from the post handler's goroutine; the client handler reads that map.  The two accesses are ordered only through
   the pipe: the post handler closes the pipe's write end after its io.Copy has returned, and the client handler's io.Copy
   returns without error only then.
   [guarded] says whether the client handler skips the trailers when its own io.Copy failed (the client went away) - what
   the source does is regenerated into Gen/SrcFacts_Server.frontendBeforeTrailers.  No proofs here. *)
From Coq Require Import List Bool.
Import ListNotations.

Inductive cphase := CWait | CCopy | CTrailers | CDone.
Inductive pphase := PHand | PRead | PStoring (* inside the last Read: net/http is storing the trailers into the map *)
                  | PAfter (* io.Copy has returned *) | PClosed (* the pipe's write end is closed, the handler returns *).

Record rstate := {
  cl : cphase;
  po : pphase;
  rclosed : bool;        (* the client handler has closed the pipe's read end *)
  wclosed : bool;        (* the post handler has closed the pipe's write end *)
  stored : bool;         (* the trailers are in the map *)
  complete : bool;       (* the upload was read to its end *)
  client_gone : bool;    (* the relay to the client failed *)
  got_trailers : option bool;   (* what the client handler found in the map when it read it *)
  post_ok : option bool         (* the answer to the agent's upload: Some true = 200, Some false = 500 *)
}.

Definition r_init : rstate :=
  {| cl := CWait; po := PHand; rclosed := false; wclosed := false; stored := false; complete := false; client_gone := false;
     got_trailers := None; post_ok := None |}.

Inductive rlabel :=
| Hand            (* rendezvous on respChan *)
| Chunk           (* a piece of the body: read from the upload, written into the pipe, read from the pipe, written to the client *)
| ClientFail      (* a write to the client fails: the client handler's io.Copy returns an error; it closes the read end *)
| PipeWriteFail   (* the post handler's write into the pipe fails because the read end is closed *)
| LastRead        (* the post handler's Read reaches the end of the upload: net/http starts storing the trailers *)
| Stored          (* ... and has stored them; io.Copy returns nil *)
| UploadFail      (* the upload breaks off: io.Copy returns an error *)
| WriterClose     (* deferred pw.Close(): the answer to the agent is determined *)
| ClientEOF       (* the client handler's io.Copy sees the end of the pipe and returns nil *)
| TrailersRead.   (* the client handler has copied resp.Trailer *)

Definition upd (s : rstate) (c : cphase) (p : pphase) : rstate :=
  {| cl := c; po := p; rclosed := rclosed s; wclosed := wclosed s; stored := stored s; complete := complete s; client_gone := client_gone s;
     got_trailers := got_trailers s; post_ok := post_ok s |}.

Definition rstep (guarded : bool) (s : rstate) (l : rlabel) : option rstate :=
  match l, cl s, po s with
  | Hand, CWait, PHand => Some (upd s CCopy PRead)
  | Chunk, CCopy, PRead => if rclosed s then None else Some s
  | ClientFail, CCopy, _ =>
      Some {| cl := if guarded then CDone else CTrailers; po := po s; rclosed := true; wclosed := wclosed s; stored := stored s; complete := complete s;
              client_gone := true; got_trailers := got_trailers s; post_ok := post_ok s |}
  | PipeWriteFail, _, PRead =>
      if rclosed s then Some {| cl := cl s; po := PAfter; rclosed := true; wclosed := wclosed s; stored := stored s; complete := false;
                                client_gone := client_gone s; got_trailers := got_trailers s; post_ok := Some false |} else None
  | LastRead, _, PRead => Some (upd s (cl s) PStoring)
  | Stored, _, PStoring =>
      Some {| cl := cl s; po := PAfter; rclosed := rclosed s; wclosed := wclosed s; stored := true; complete := true;
              client_gone := client_gone s; got_trailers := got_trailers s; post_ok := Some true |}
  | UploadFail, _, PRead =>
      Some {| cl := cl s; po := PAfter; rclosed := rclosed s; wclosed := wclosed s; stored := stored s; complete := false;
              client_gone := client_gone s; got_trailers := got_trailers s; post_ok := Some false |}
  | WriterClose, _, PAfter =>
      Some {| cl := cl s; po := PClosed; rclosed := rclosed s; wclosed := true; stored := stored s; complete := complete s;
              client_gone := client_gone s; got_trailers := got_trailers s; post_ok := post_ok s |}
  | ClientEOF, CCopy, _ => if wclosed s then Some (upd s CTrailers (po s)) else None
  | TrailersRead, CTrailers, _ =>
      Some {| cl := CDone; po := po s; rclosed := rclosed s; wclosed := wclosed s; stored := stored s; complete := complete s;
              client_gone := client_gone s; got_trailers := Some (stored s); post_ok := post_ok s |}
  | _, _, _ => None
  end.

Fixpoint rrun (guarded : bool) (s : rstate) (ls : list rlabel) : option rstate :=
  match ls with
  | [] => Some s
  | l :: r => match rstep guarded s l with Some s' => rrun guarded s' r | None => None end
  end.

(* the two goroutines are at the map at the same time: the client handler is reading it while the post handler's last Read
   is still to come or is storing into it (interleaving semantics: either order of the two unsynchronised accesses is a
   schedule, so a state in which both are pending is a data race) *)
Definition racing (s : rstate) : bool :=
  match cl s, po s with
  | CTrailers, PRead | CTrailers, PStoring => true
  | _, _ => false
  end.

(* what a finished exchange looks like from outside: did the client get everything incl. trailers, what was the agent told *)
Inductive outcome := OComplete (trailers : bool) | OClientGone | OUnfinished.
Definition client_outcome (s : rstate) : outcome :=
  match cl s, client_gone s, got_trailers s with
  | CDone, true, _ => OClientGone
  | CDone, false, Some t => OComplete t
  | _, _, _ => OUnfinished
  end.

(* correspondence: 0 = the model accepts the trace and ends with the observed outcome and upload answer;
   1 = trace not accepted; 2 = outcome differs; 3 = upload answer differs; 4 = the run passes through a racing state *)
Fixpoint races_on (guarded : bool) (s : rstate) (ls : list rlabel) : bool :=
  racing s || match ls with
              | [] => false
              | l :: r => match rstep guarded s l with Some s' => races_on guarded s' r | None => false end
              end.
Definition relay_case (guarded : bool) (ls : list rlabel) (want : outcome) (want_post : option bool) : nat :=
  match rrun guarded r_init ls with
  | None => 1
  | Some s =>
      if races_on guarded r_init ls then 4
      else match client_outcome s, want with
           | OComplete a, OComplete b => if Bool.eqb a b then (if match post_ok s, want_post with Some x, Some y => Bool.eqb x y | None, None => true | _, _ => false end then 0 else 3) else 2
           | OClientGone, OClientGone => if match post_ok s, want_post with Some x, Some y => Bool.eqb x y | None, None => true | _, _ => false end then 0 else 3
           | _, _ => 2
           end
  end.
