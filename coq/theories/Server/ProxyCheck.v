(* Executable acceptance check of an implementation trace against the proxy
   model (C01, C04 hand-off); no proofs. *)
From Coq Require Import ZArith List Bool.
From IP Require Import Server.ProxyCore.
From IP Require Export Lib.Util.
Import ListNotations.
Open Scope Z_scope.

Definition recv_ok (s : pst) (cr : client * resp) : bool :=
  match cget (fst cr) (clients s) with
  | Some v => match cph v with PDone r => r =? snd cr | _ => false end
  | None => false
  end.

(* 0 = accepted and all monitors true; 1 = the model cannot take this trace;
   2 = monitor false; 3 = IDs not distinct; 4 = a client received something
   the model did not deliver to it *)
Definition check_schedule (gen_list : list Z) (tr : list lbl) (recvs : list (client * resp)) : Z :=
  match run (fun n => nth n gen_list (-1)) init tr with
  | None => 1
  | Some s =>
      if negb (ids_distinct s) then 3
      else if negb (monitor s) then 2
      else if negb (forallb (recv_ok s) recvs) then 4
      else 0
  end.
