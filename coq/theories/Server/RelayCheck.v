(* The relay model instantiated with what the source does (the guard is read off the regenerated source fact), and the
   executable check used by the correspondence run.  No proofs. *)
From Coq Require Import String List Bool ZArith.
From IP Require Import Gen.SrcFacts_Server Server.Relay.
From IP Require Export Lib.Util.
Import ListNotations.

(* does the statement in front of the loop over resp.Trailer leave the handler when the relay to the client failed? *)
Definition relay_guarded : bool := existsb (String.eqb "if err != nil { ...; return }") frontendBeforeTrailers.

Definition relay_obs (ls : list rlabel) (want : outcome) (want_post : option bool) : Z :=
  Z.of_nat (relay_case relay_guarded ls want want_post).
