(* Executable comparison for C02; no proofs. *)
From Coq Require Import String List Bool.
From IP Require Import Gen.SrcFacts_Server Lib.Header Server.HopFilter Agent.ForwardCheck.
Import ListNotations.
Open Scope string_scope.
Open Scope list_scope.

(* for every name the client sent and every hop-by-hop name: the values the
   backend saw must be the model's; `ignore` lists names excluded from the
   comparison (framing, declared don't-cares) *)
Definition c02_ok (fields : list (string * string)) (ignore : list string) (seen : header) : bool :=
  let m := to_backend serverHopByHop fields in
  let names := map (fun f => canon (fst f)) fields ++ lib_hop in
  forallb (fun k => key_in ignore k || strs_eqb (hvalues k m) (hvalues k seen)) names.
