(* Model of the request path's header handling (C02):
   server/server.go ServeHTTP (hop-by-hop filter, table regenerated from the
   source) followed by the library stages, specified as: Request.Write /
   ReadRequest keep every field; httputil.ReverseProxy drops its hopHeaders.
   No proofs here. *)
From Coq Require Import String List Bool.
From IP Require Import Lib.Header.
Import ListNotations.
Open Scope string_scope.
Open Scope list_scope.

Definition key_in (tbl : list string) (k : string) : bool := existsb (String.eqb k) tbl.

Definition hfilter (keep : string -> bool) (h : header) : header := filter (fun f => keep (fst f)) h.

(* isHopByHopHeader(name): strings.ToLower(name) in the case list *)
Definition server_filter (tbl : list string) (h : header) : header :=
  hfilter (fun k => negb (key_in tbl (lower k))) h.

(* net/http/httputil hopHeaders (library, modelled) *)
Definition lib_hop : list string :=
  ["Connection"; "Proxy-Connection"; "Keep-Alive"; "Proxy-Authenticate"; "Proxy-Authorization"; "Te"; "Trailer"; "Transfer-Encoding"; "Upgrade"].

Definition revproxy_filter (h : header) : header := hfilter (fun k => negb (key_in lib_hop k)) h.

(* what the backend receives, as a function of the fields the client put on the wire *)
Definition to_backend (tbl : list string) (fields : list (string * string)) : header :=
  revproxy_filter (server_filter tbl (of_wire fields)).

(* the hop-by-hop names the property requires never to be forwarded *)
Definition required_hop : list string :=
  ["connection"; "keep-alive"; "proxy-authenticate"; "proxy-authorization"; "te"; "trailer"; "transfer-encoding"; "upgrade"].

Record request := { r_method : string; r_target : string; r_host : string; r_fields : list (string * string); r_body : nat * string }.
Record backend_view := { b_method : string; b_target : string; b_host : string; b_header : header; b_body : nat * string }.

Definition forward (tbl : list string) (r : request) : backend_view :=
  {| b_method := r_method r; b_target := r_target r; b_host := r_host r; b_header := to_backend tbl (r_fields r); b_body := r_body r |}.
