(* Composition of the proxy core (Server/ProxyCore.v) with the agent's workers
   (agent/agent.go: processOneRequest / forwardRequest, agent/utils/utils.go:
   ReadRequest, NewResponseForwarder) and an arbitrary backend function.

   A worker is created for an ID taken from a pending-list reply (WSpawn; at
   most one per ID: the dedup of C04), fetches the request under ITS ID with
   at most `max_fetch` attempts (WFetch, synchronised with the proxy's Fetch),
   invokes the backend once on what it fetched (WBackend; the nonce makes two
   invocations distinguishable) and uploads the result under ITS ID
   (WUpload, synchronised with the proxy's Post).  The ID is bound at spawn:
   `go processOneRequest(..., requestID)` and
   `NewResponseForwarder(..., request.RequestID, ...)`.
   No proofs here (Proofs/SystemProofs.v). *)
From Coq Require Import ZArith List Bool.
From IP Require Import Server.ProxyCore.
Import ListNotations.
Open Scope Z_scope.

Record wrec := { wq : option tok; wr : option resp; wup : bool; wfa : nat }.

Record sys := {
  px : pst;
  ws : list (id * wrec);
  nonce : nat;
  invoked : list (tok * nat * resp);      (* ghost: backend invocations *)
  inv_ids : list id;                      (* ghost: the worker (ID) behind each invocation *)
  uploads : list (id * resp * bool)       (* ghost: upload events *)
}.

Definition sinit : sys := {| px := init; ws := []; nonce := 0; invoked := []; inv_ids := []; uploads := [] |}.

Inductive slbl :=
| SArrive (c : client) (q : tok)
| SHand (k : poller) (i : id) (c : client)
| SCancel (c : client)
| WSpawn (i : id)
| WFetch (i : id) (o : option tok)
| WBackend (i : id)
| WUpload (i : id) (d : bool).

Fixpoint wget (i : id) (l : list (id * wrec)) : option wrec :=
  match l with [] => None | (j, v) :: r => if i =? j then Some v else wget i r end.
Fixpoint wset (i : id) (v : wrec) (l : list (id * wrec)) : list (id * wrec) :=
  match l with [] => [] | (j, w) :: r => if i =? j then (j, v) :: r else (j, w) :: wset i v r end.

Section Sys.
  Variable gen : nat -> id.
  Variable backend : tok -> nat -> resp.
  Variable max_fetch : nat.      (* 1 + maxReadRequestRetryCount *)

  Definition lift (s : sys) (o : option pst) : option sys :=
    match o with
    | Some p => Some {| px := p; ws := ws s; nonce := nonce s; invoked := invoked s; inv_ids := inv_ids s; uploads := uploads s |}
    | None => None
    end.

  Definition sstep (s : sys) (l : slbl) : option sys :=
    match l with
    | SArrive c q => lift s (step gen (px s) (Arrive c q))
    | SHand k i c => lift s (step gen (px s) (Hand k i c))
    | SCancel c => lift s (step gen (px s) (Cancel c))
    | WSpawn i =>
        if existsb (fun h => snd (fst h) =? i) (handed (px s)) then
          match wget i (ws s) with
          | Some _ => None
          | None => Some {| px := px s; ws := (i, {| wq := None; wr := None; wup := false; wfa := 0 |}) :: ws s;
                            nonce := nonce s; invoked := invoked s; inv_ids := inv_ids s; uploads := uploads s |}
          end
        else None
    | WFetch i o =>
        match wget i (ws s) with
        | Some w =>
            match wq w with
            | Some _ => None
            | None =>
                if (wfa w <? max_fetch)%nat then
                  match step gen (px s) (Fetch i o) with
                  | Some p => Some {| px := p;
                                      ws := wset i {| wq := o; wr := wr w; wup := wup w; wfa := S (wfa w) |} (ws s);
                                      nonce := nonce s; invoked := invoked s; inv_ids := inv_ids s; uploads := uploads s |}
                  | None => None
                  end
                else None
            end
        | None => None
        end
    | WBackend i =>
        match wget i (ws s) with
        | Some w =>
            match wq w, wr w with
            | Some q, None =>
                let r := backend q (nonce s) in
                Some {| px := px s; ws := wset i {| wq := wq w; wr := Some r; wup := wup w; wfa := wfa w |} (ws s);
                        nonce := S (nonce s); invoked := (q, nonce s, r) :: invoked s; inv_ids := i :: inv_ids s; uploads := uploads s |}
            | _, _ => None
            end
        | None => None
        end
    | WUpload i d =>
        match wget i (ws s) with
        | Some w =>
            match wr w with
            | Some r =>
                if wup w then None else
                match step gen (px s) (Post i r d) with
                | Some p => Some {| px := p; ws := wset i {| wq := wq w; wr := wr w; wup := true; wfa := wfa w |} (ws s);
                                    nonce := nonce s; invoked := invoked s; inv_ids := inv_ids s; uploads := (i, r, d) :: uploads s |}
                | None => None
                end
            | None => None
            end
        | None => None
        end
    end.

  Fixpoint srun (s : sys) (tr : list slbl) : option sys :=
    match tr with
    | [] => Some s
    | l :: r => match sstep s l with Some s' => srun s' r | None => None end
    end.
End Sys.

(* number of backend invocations made on behalf of a worker's fetched token *)
Definition invocations_of (q : tok) (s : sys) : nat :=
  length (filter (fun e => fst (fst e) =? q) (invoked s)).
