(* Model of the agent's life-cycle (agent/agent.go main, waitForHealthy,
   runHealthChecks; agent/utils ShutdownSignalChan): health gating, exit on
   consecutive failed checks, graceful shutdown.  Time is abstract (ticks / check
   indices).  No proofs here. *)
From Coq Require Import List Arith Bool.
Import ListNotations.

(* ---- health gating: checks (true = pass) are made until the first one passes;
        returns how many checks were made before polling may start (None: never healthy) ---- *)
Fixpoint wait_healthy (checks : list bool) : option nat :=
  match checks with
  | [] => None
  | true :: _ => Some 1
  | false :: r => option_map S (wait_healthy r)
  end.

(* ---- runHealthChecks: counter of consecutive failures, threshold max 1 t; returns the
        index (1-based) of the check after which the agent terminates itself ---- *)
Fixpoint health_exit_from (thr bad : nat) (i : nat) (checks : list bool) : option nat :=
  match checks with
  | [] => None
  | c :: r =>
      let bad' := if c then 0 else S bad in
      if thr <=? bad' then Some i else health_exit_from thr bad' (S i) r
  end.
Definition health_exit (t : nat) (checks : list bool) : option nat := health_exit_from (Nat.max 1 t) 0 1 checks.

(* specification: position (1-based) where the first window of `thr` consecutive failures ends *)
Fixpoint all_false (l : list bool) : bool := match l with [] => true | b :: r => negb b && all_false r end.
Fixpoint first_window (thr : nat) (i : nat) (checks : list bool) : option nat :=
  match checks with
  | [] => None
  | _ :: r => if (thr <=? length checks) && all_false (firstn thr checks) then Some (i + thr - 1) else first_window thr (S i) r
  end.

(* ---- graceful shutdown ---- *)
Record shutdown_cfg := { grace : nat (* 0 = option disabled *) }.
(* time of process exit for a signal at t_sig *)
Definition exit_time (c : shutdown_cfg) (t_sig : nat) : nat := t_sig + grace c.
(* a request already at the backend, whose backend finishes at t_done (upload takes `up` ticks), is answered in full iff *)
Definition answered (c : shutdown_cfg) (t_sig t_done up : nat) : bool := t_done + up <? exit_time c t_sig.
(* may a new pending-list call start at time t, given the one in flight at the signal returned at t_ret? *)
Definition may_start_list (c : shutdown_cfg) (t_sig t : nat) : bool :=
  match grace c with 0 => t <? t_sig | _ => t <? t_sig end.
