(* Model of agent/agent.go:forwardRequest (identity / credential header edits)
   and of agent/websockets/connection.go:stripWSHeader.  The Header methods
   applied are regenerated from the source (Gen/SrcFacts_Agent.v).
   No proofs here. *)
From Coq Require Import String List Bool.
From IP Require Import Lib.Header.
Import ListNotations.
Open Scope string_scope.
Open Scope list_scope.

Definition uid_key : string := "X-Inverting-Proxy-User-Id".   (* CanonicalHeaderKey(utils.HeaderUserID) *)
Definition auth_key : string := "Authorization".

(* one http.Header method applied to (key, value) *)
Definition apply_method (m key v : string) (h : header) : header :=
  if m =? "Set" then hset key v h
  else if m =? "Add" then hadd key v h
  else if m =? "Del" then hdel key h
  else h.

Definition apply_methods (ms : list string) (key v : string) (h : header) : header :=
  fold_left (fun h m => apply_method m key v h) ms h.

Section Fwd.
  Variable uid_methods : list string.    (* methods applied to HeaderUserID when -forward-user-id is set *)
  Variable auth_methods : list string.   (* methods applied to Authorization when -strip-credentials is set *)

  (* the request headers handed to the handler chain *)
  Definition to_handlers (fwd strip : bool) (user : string) (h : header) : header :=
    let h1 := if fwd then apply_methods uid_methods uid_key user h else h in
    if strip then apply_methods auth_methods auth_key "" h1 else h1.
End Fwd.

(* websocket shim: the header passed to the websocket dial *)
Definition strip_ws (names : list string) (h : header) : header :=
  filter (fun f => negb (existsb (String.eqb (fst f)) names)) h.
