(* Executable comparison for C03; no proofs. *)
From Coq Require Import String List Bool ZArith.
From IP Require Import Gen.SrcFacts_Agent Gen.SrcFacts_Server Lib.Header Server.HopFilter Agent.RespPath Agent.ForwardCheck.
Import ListNotations.
Open Scope string_scope.
Open Scope list_scope.

(* compare status, the values of every field name the backend sent (and of the
   hop-by-hop names), and the trailer map name by name.
   0 ok; 1 status; 2 header values; 3 trailers; 4 model has no response *)
Definition c03_check (b : bresp) (status : Z) (H T : header) (ignore : list string) : Z :=
  match client_view hopHeaders true true serverHopByHop b with
  | None => 4%Z
  | Some (st, mh, mt) =>
      if negb (st =? status)%Z then 1%Z
      else if negb (forallb (fun k => key_in ignore k || strs_eqb (hvalues k mh) (hvalues k H)) (map (fun f => canon (fst f)) (br_fields b) ++ lib_hop)) then 2%Z
      else if negb (forallb (fun k => strs_eqb (hvalues k mt) (hvalues k T)) (hkeys mt ++ hkeys T)) then 3%Z
      else 0%Z
  end.
