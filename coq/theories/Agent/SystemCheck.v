(* Executable acceptance check of an agent round against the composed model
   (C01 agent binding); no proofs. *)
From Coq Require Import ZArith List Bool.
From IP Require Import Server.ProxyCore Agent.System.
Import ListNotations.
Open Scope Z_scope.

(* the backend of the harness: response token = request token * 100000 + nonce + 1 *)
Definition harness_backend (q : tok) (n : nat) : resp := q * 100000 + Z.of_nat n + 1.

Definition triple_eqb (a b : id * resp * client) : bool :=
  (fst (fst a) =? fst (fst b)) && (snd (fst a) =? snd (fst b)) && (snd a =? snd b).

Fixpoint subset3 (a b : list (id * resp * client)) : bool :=
  match a with [] => true | x :: r => existsb (triple_eqb x) b && subset3 r b end.

(* 0 accepted and the uploads observed are exactly the model's deliveries;
   1 trace rejected; 2 deliveries differ *)
Definition check_round (gen_list : list Z) (tr : list slbl) (observed : list (id * resp * client)) : Z :=
  match srun (fun n => nth n gen_list (-1)) harness_backend 3 sinit tr with
  | None => 1
  | Some s => if subset3 observed (delivered (px s)) && subset3 (delivered (px s)) observed then 0 else 2
  end.
