(* Executable comparison for C09: what the backend saw vs the model; no proofs. *)
From Coq Require Import String List Bool ZArith.
From IP Require Import Gen.SrcFacts_Agent Gen.SrcFacts_Websockets Lib.Header Agent.Forward.
Import ListNotations.
Open Scope string_scope.
Open Scope list_scope.

Fixpoint strs_eqb (a b : list string) : bool :=
  match a, b with
  | [], [] => true
  | x :: a', y :: b' => String.eqb x y && strs_eqb a' b'
  | _, _ => false
  end.

(* (fwd, strip, websocket?, asserted user, client fields, observed uid values, observed Authorization values, observed X-Other) *)
Definition c09_ok (fwd strip ws : bool) (user : string) (fields : list (string * string)) (uid auth other : list string) : bool :=
  let h0 := to_handlers userIDHeaderMethods authorizationHeaderMethods fwd strip user (of_wire fields) in
  let h := if ws then strip_ws stripHeaderNames h0 else h0 in
  strs_eqb (hvalues uid_key h) uid && strs_eqb (hvalues auth_key h) auth && strs_eqb (hvalues "X-Other" h) other.
