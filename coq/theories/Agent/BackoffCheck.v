(* Executable comparison of implementation observations with the backoff model
   (used by the correspondence run of C08; no proofs). *)
From Coq Require Import ZArith List Bool.
From IP Require Import Gen.SrcFacts_Agent Agent.Backoff.
From IP Require Export Lib.Util.
Import ListNotations.
Open Scope Z_scope.

Definition lo_now := lo maxBackoffDuration firstRetryWaitDuration jitter_num jitter_den true.
Definition hi_now := hi maxBackoffDuration firstRetryWaitDuration jitter_num jitter_den true.

(* (retry count, smallest and largest duration observed) *)
Definition direct_ok (c : Z * Z * Z) : bool :=
  let '(n, mn, mx) := c in (lo_now n <=? mn) && (mx <=? hi_now n) && (0 <? mn).

(* expected sleep after each list call: Some retry-count after a failure, None after a success *)
Fixpoint expected_from (cnt : Z) (outcomes : list bool) : list (option Z) :=
  match outcomes with
  | [] => []
  | true :: r => None :: expected_from 0 r
  | false :: r => Some cnt :: expected_from ((cnt + 1) mod 2^64) r
  end.

Fixpoint gaps_ok (slack : Z) (exp : list (option Z)) (gaps : list Z) : bool :=
  match exp, gaps with
  | _, [] => true
  | [], _ :: _ => false
  | Some n :: e, g :: gs => (lo_now n <=? g) && (g <=? hi_now n + slack) && gaps_ok slack e gs
  | None :: e, g :: gs => (0 <=? g) && (g <=? slack) && gaps_ok slack e gs
  end.

(* the run-level bound of C08_no_busy_loop on an observed run: the time waited
   in total is at least 0.9 x firstRetryWaitDuration per failed list call (less
   1 ns truncation and 1 ns float rounding each), gaps after successes included *)
Definition total_ok (c : list bool * list Z) : bool :=
  let f := failures (firstn (length (snd c)) (fst c)) in
  (jitter_den - jitter_num) * firstRetryWaitDuration * f
    <=? jitter_den * fold_right Z.add 0 (snd c) + 2 * jitter_den * f.

Definition loop_ok (slack : Z) (c : list bool * list Z) : bool :=
  gaps_ok slack (expected_from 0 (fst c)) (snd c) && total_ok c.
