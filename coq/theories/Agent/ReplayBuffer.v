(* Model of agent/utils/utils.go: bufferedReadSeeker (Read, Seek) and the
   attempt loop of postResponseWithRetries.  Bytes are Z.  The wrapped source
   (an io.Pipe fed by the response serialiser) is a stream S; every source
   read returns the next k bytes for a k chosen by the environment.
   No proofs here (Proofs/ReplayProofs.v). *)
From Coq Require Import ZArith List Bool Arith.
Import ListNotations.

Record brs := { buf : list Z; rh : nat }.        (* writeHead = length buf *)

Definition brs_init : brs := {| buf := []; rh := 0 |}.

(* one Read(p) with len(p) = plen; `d` = the bytes the source returned to the
   inner r.Read(p[readFromBuf:]) (so length d <= plen - readFromBuf).
   Returns the new state and the bytes handed to the caller. *)
Definition brs_read (cap : nat) (b : brs) (plen : nat) (d : list Z) : brs * list Z :=
  let fromBuf := firstn plen (skipn (rh b) (buf b)) in
  let w := firstn (cap - length (buf b)) d in
  ({| buf := buf b ++ w; rh := rh b + length fromBuf + length w |}, fromBuf ++ d).

(* how many bytes the inner source read may return at most *)
Definition src_room (b : brs) (plen : nat) : nat :=
  plen - length (firstn plen (skipn (rh b) (buf b))).

(* Seek(0, SeekStart): refused once the buffer is full *)
Definition brs_seek0 (cap : nat) (b : brs) : option brs :=
  if cap <=? length (buf b) then None else Some {| buf := buf b; rh := 0 |}.

(* ---- a whole upload: operations on the shared reader ---- *)
Inductive op :=
| ORead (plen k : nat)    (* transport reads: buffer size plen, the source yields k more bytes *)
| OFail                   (* the attempt ended with an error or a 5xx answer: Seek(0) and retry *)
| OAck.                   (* the proxy acknowledged the attempt (non-5xx answer) *)

Record ust := {
  rd : brs;
  taken : nat;                 (* bytes consumed from the source so far *)
  cur : list Z;                (* bytes handed to the transport in the current attempt *)
  cur_eof : bool;              (* the current attempt has read up to end of stream *)
  done_attempts : list (list Z * bool * bool);   (* finished attempts: bytes, saw eof, acknowledged *)
  nattempts : nat;
  finished : bool              (* postResponseWithRetries has returned *)
}.

Definition uinit : ust :=
  {| rd := brs_init; taken := 0; cur := []; cur_eof := false; done_attempts := []; nattempts := 1; finished := false |}.

Section Upload.
  Variable cap : nat.            (* readResponseBufSize *)
  Variable max_retries : nat.    (* maxWriteResponseRetryCount *)
  Variable S : list Z.           (* the serialised response *)

  Definition ustep (s : ust) (o : op) : option ust :=
    if finished s then None else
    match o with
    | ORead plen k =>
        let room := src_room (rd s) plen in
        let k' := Nat.min k (Nat.min room (length S - taken s)) in
        let d := firstn k' (skipn (taken s) S) in
        let '(b', outb) := brs_read cap (rd s) plen d in
        (* io.Pipe reports EOF on a read (also a zero-length one) that finds the stream
           exhausted and closed; a read returns no bytes only in that case *)
        let eof := (k' =? 0) && (length S <=? taken s) in
        Some {| rd := b'; taken := taken s + k'; cur := cur s ++ outb; cur_eof := cur_eof s || eof;
                done_attempts := done_attempts s; nattempts := nattempts s; finished := false |}
    | OAck =>
        Some {| rd := rd s; taken := taken s; cur := []; cur_eof := false;
                done_attempts := done_attempts s ++ [(cur s, cur_eof s, true)];
                nattempts := nattempts s; finished := true |}
    | OFail =>
        let closed := done_attempts s ++ [(cur s, cur_eof s, false)] in
        match brs_seek0 cap (rd s) with
        | None => Some {| rd := rd s; taken := taken s; cur := []; cur_eof := false; done_attempts := closed;
                          nattempts := nattempts s; finished := true |}
        | Some b' =>
            if nattempts s <=? max_retries then
              Some {| rd := b'; taken := taken s; cur := []; cur_eof := false; done_attempts := closed;
                      nattempts := Datatypes.S (nattempts s); finished := false |}
            else Some {| rd := b'; taken := taken s; cur := []; cur_eof := false; done_attempts := closed;
                         nattempts := nattempts s; finished := true |}
        end
    end.

  Fixpoint urun (s : ust) (ops : list op) : option ust :=
    match ops with
    | [] => Some s
    | o :: r => match ustep s o with Some s' => urun s' r | None => None end
    end.
End Upload.

(* the transport's copy buffer is at least as large as the replay buffer *)
Definition read_size_ok (cap : nat) (o : op) : Prop :=
  match o with ORead plen _ => cap <= plen | _ => True end.
Definition read_size_okb (cap : nat) (o : op) : bool :=
  match o with ORead plen _ => cap <=? plen | _ => true end.

Fixpoint is_prefixb (a b : list Z) : bool :=
  match a, b with
  | [], _ => true
  | x :: a', y :: b' => Z.eqb x y && is_prefixb a' b'
  | _ :: _, [] => false
  end.

(* ---- two transports sharing the reader: the previous attempt's body reader
   may still be alive when the retry starts (net/http keeps writing the request
   body after an early response).  A Read is not atomic: its two statements
   (copy from the buffer; read the source and append to the buffer) are
   separate steps, so that a Seek(0) and another reader can fall in between. ---- *)
Inductive op2 :=
| O2Buf (who plen : nat)      (* reader `who`: readFromBuf := copy(p, buf[readHead:writeHead]); readHead += ... *)
| O2Src (who k : nat)         (* reader `who`: the inner source read returns (up to) k bytes; buffer them; return *)
| O2Fail                      (* the current attempt failed: Seek(0), next attempt *)
| O2Ack.

Record ust2 := {
  rd2 : brs; taken2 : nat;
  pend : list (nat * (list Z * nat));    (* reader -> (bytes copied from the buffer, room left in p) *)
  outs : list (nat * list Z);            (* reader -> bytes it was handed so far *)
  att2 : nat; acked : option nat
}.
Definition uinit2 : ust2 := {| rd2 := brs_init; taken2 := 0; pend := []; outs := []; att2 := 1; acked := None |}.

Fixpoint add_out (who : nat) (bs : list Z) (l : list (nat * list Z)) : list (nat * list Z) :=
  match l with
  | [] => [(who, bs)]
  | (w, x) :: r => if w =? who then (w, x ++ bs) :: r else (w, x) :: add_out who bs r
  end.
Fixpoint out_of (who : nat) (l : list (nat * list Z)) : list Z :=
  match l with [] => [] | (w, x) :: r => if w =? who then x else out_of who r end.
Fixpoint pend_of (who : nat) (l : list (nat * (list Z * nat))) : option (list Z * nat) :=
  match l with [] => None | (w, x) :: r => if w =? who then Some x else pend_of who r end.
Fixpoint pend_del (who : nat) (l : list (nat * (list Z * nat))) : list (nat * (list Z * nat)) :=
  match l with [] => [] | (w, x) :: r => if w =? who then r else (w, x) :: pend_del who r end.

Definition ustep2 (cap : nat) (S : list Z) (s : ust2) (o : op2) : option ust2 :=
  match o with
  | O2Buf who plen =>
      if (who <=? att2 s) && (1 <=? who) then
        match pend_of who (pend s) with
        | Some _ => None
        | None =>
            let fb := firstn plen (skipn (rh (rd2 s)) (buf (rd2 s))) in
            Some {| rd2 := {| buf := buf (rd2 s); rh := rh (rd2 s) + length fb |}; taken2 := taken2 s;
                    pend := (who, (fb, plen - length fb)) :: pend s; outs := outs s; att2 := att2 s; acked := acked s |}
        end
      else None
  | O2Src who k =>
      match pend_of who (pend s) with
      | None => None
      | Some (fb, room) =>
          let k' := Nat.min k (Nat.min room (length S - taken2 s)) in
          let d := firstn k' (skipn (taken2 s) S) in
          let w := firstn (cap - length (buf (rd2 s))) d in
          Some {| rd2 := {| buf := buf (rd2 s) ++ w; rh := rh (rd2 s) + length w |}; taken2 := taken2 s + k';
                  pend := pend_del who (pend s); outs := add_out who (fb ++ d) (outs s); att2 := att2 s; acked := acked s |}
      end
  | O2Fail =>
      match brs_seek0 cap (rd2 s) with
      | Some b' => Some {| rd2 := b'; taken2 := taken2 s; pend := pend s; outs := outs s; att2 := Datatypes.S (att2 s); acked := acked s |}
      | None => None
      end
  | O2Ack => Some {| rd2 := rd2 s; taken2 := taken2 s; pend := pend s; outs := outs s; att2 := att2 s; acked := Some (att2 s) |}
  end.

Fixpoint urun2 (cap : nat) (S : list Z) (s : ust2) (ops : list op2) : option ust2 :=
  match ops with
  | [] => Some s
  | o :: r => match ustep2 cap S s o with Some s' => urun2 cap S s' r | None => None end
  end.
