(* Model of agent/utils/utils.go: maxRetryCount, ExponentialBackoffDuration,
   addJitter, and of the retry bookkeeping of agent/agent.go:pollForNewRequests.
   No proofs here (Proofs/BackoffProofs.v).  All numbers are Z; the int64
   wrap-around of Go's time.Duration arithmetic is written out explicitly so
   that removing the overflow guard is visible in the model. *)
From Coq Require Import ZArith List Bool.
Import ListNotations.
Open Scope Z_scope.

(* two's complement reinterpretation of an integer as int64 *)
Definition wrap_i64 (x : Z) : Z :=
  let y := x mod 2^64 in if y <? 2^63 then y else y - 2^64.

(* Go: 1 << n on an int64 with an unsigned shift count: 0 once n >= 64 *)
Definition shl1_i64 (n : Z) : Z :=
  if n <? 64 then wrap_i64 (2 ^ n) else 0.

Section Backoff.
  (* constants regenerated from the source (Gen/SrcFacts_Agent.v) *)
  Variable maxB : Z.      (* maxBackoffDuration, ns *)
  Variable first : Z.     (* firstRetryWaitDuration, ns *)
  Variable jnum jden : Z. (* JitterPercent as a fraction *)
  Variable guarded : bool. (* the "retryCount > uint(maxRetryCount)" guard is present *)

  (* uint(math.Log2(float64(maxB / first))): floor of the binary logarithm *)
  Definition threshold : Z := Z.log2 (maxB / first).

  (* targetDuration before jitter, for retry count n (a Go uint: 0 <= n < 2^64) *)
  Definition base (n : Z) : Z :=
    if guarded && (n >? threshold) then maxB
    else wrap_i64 (shl1_i64 n * first).

  (* addJitter with rand.Float64() = k / 2^53, in exact arithmetic, truncated
     towards zero like Go's float64 -> int64 conversion *)
  Definition jit_num (k : Z) : Z := (jden - jnum) * 2^53 + 2 * jnum * k.
  Definition jit_den : Z := jden * 2^53.
  Definition delay (n k : Z) : Z := Z.quot (base n * jit_num k) jit_den.

  (* envelope inside which every real (floating point) result must fall:
     exact value for the smallest and the largest PRNG draw, +-1 ns for
     float64 rounding *)
  Definition lo (n : Z) : Z := Z.min (delay n 0) (delay n (2^53 - 1)) - 1.
  Definition hi (n : Z) : Z := Z.max (delay n 0) (delay n (2^53 - 1)) + 1.

  (* pollForNewRequests: the retry counter (a Go uint, wraps at 2^64) and the
     sleeps performed for a pattern of list-call outcomes (true = success) *)
  Fixpoint sleeps_from (cnt : Z) (outcomes : list bool) : list Z :=
    match outcomes with
    | [] => []
    | true :: r => sleeps_from 0 r
    | false :: r => cnt :: sleeps_from ((cnt + 1) mod 2^64) r
    end.
  (* retry counts used for the successive sleeps *)
  Definition sleeps (outcomes : list bool) : list Z := sleeps_from 0 outcomes.
End Backoff.

(* number of consecutive failures immediately preceding position i, i.e. the
   specification of "which retry count the i-th failing call sleeps with" *)
Fixpoint fails_before (rev_prefix : list bool) : Z :=
  match rev_prefix with
  | false :: r => 1 + fails_before r
  | _ => 0
  end.

Fixpoint spec_sleeps_from (rev_prefix : list bool) (outcomes : list bool) : list Z :=
  match outcomes with
  | [] => []
  | true :: r => spec_sleeps_from (true :: rev_prefix) r
  | false :: r => fails_before rev_prefix :: spec_sleeps_from (false :: rev_prefix) r
  end.
Definition spec_sleeps (outcomes : list bool) : list Z := spec_sleeps_from [] outcomes.

(* total time slept by the poll loop: the retry counts of the successive sleeps
   (sleeps) paired with the PRNG draws of the successive addJitter calls; d is
   the delay function (delay with the regenerated constants) *)
Fixpoint total_wait (d : Z -> Z -> Z) (ns ks : list Z) : Z :=
  match ns, ks with
  | n :: ns', k :: ks' => d n k + total_wait d ns' ks'
  | _, _ => 0
  end.

(* number of failed list calls in an outcome pattern *)
Fixpoint failures (outcomes : list bool) : Z :=
  match outcomes with
  | [] => 0
  | true :: r => failures r
  | false :: r => 1 + failures r
  end.
