(* Model of agent/utils/utils.go: getRequestWithRetries +
   parseRequestFromProxyResponse, i.e. what one worker does with the outcomes
   of its successive fetch attempts.  No proofs here. *)
From Coq Require Import ZArith List Bool.
Import ListNotations.

Inductive fetch_outcome :=
| FOk            (* 200 with a parsable request and start-time header *)
| FNetErr        (* client.Do returned an error *)
| F5xx           (* 500 <= status < 600 *)
| FStatus        (* any other non-200 status *)
| FGarbage.      (* 200 but unparsable (request or start-time header) *)

Definition retryable (o : fetch_outcome) : bool :=
  match o with FNetErr | F5xx => true | _ => false end.

(* attempts made and whether the request is handed to the forwarder;
   `rest` attempts are still allowed, outcomes beyond the script are FOk *)
Fixpoint fetch_loop (rest : nat) (script : list fetch_outcome) : nat * bool :=
  match rest with
  | O => (O, false)
  | S rest' =>
      let o := match script with [] => FOk | o :: _ => o end in
      if retryable o then
        let '(n, f) := fetch_loop rest' (tl script) in (S n, f)
      else (1, match o with FOk => true | _ => false end)
  end.

(* number of backend invocations of one worker *)
Definition forwards (max_fetch : nat) (script : list fetch_outcome) : nat :=
  if snd (fetch_loop max_fetch script) then 1 else 0.
Definition attempts (max_fetch : nat) (script : list fetch_outcome) : nat :=
  fst (fetch_loop max_fetch script).
