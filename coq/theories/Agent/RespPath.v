(* Model of the response path (C03):
   - httputil.ReverseProxy's calls on the ResponseWriter for a backend response
     (library, specified): interim 1xx -> WriteHeader(code); hop-by-hop removal;
     announced trailers as ONE ", "-joined Trailer value; WriteHeader(status);
     body; trailers unprefixed when all were announced, else with TrailerPrefix;
   - agent/utils/utils.go streamingResponseWriter (WriteHeader / Close) with the
     hopHeaders table regenerated from the source;
   - server/server.go: copy of status, non-hop headers, body and trailers.
   Bodies are opaque tokens: the repository code never looks into them.
   The goroutine interleaving of handler and serialiser is NOT in this model
   (see the known finding about the shared trailer map).  No proofs here. *)
From Coq Require Import String List Bool Ascii ZArith.
From IP Require Import Lib.Header Server.HopFilter.
Import ListNotations.
Open Scope string_scope.
Open Scope list_scope.

(* ---- comma-separated name lists ---- *)
Fixpoint join_names (l : list string) : string :=
  match l with
  | [] => ""
  | [x] => x
  | x :: r => x ++ ", " ++ join_names r
  end.

(* split at commas; `acc` is the current piece, reversed-free (appended at the end) *)
Fixpoint split_commas_aux (acc : string) (s : string) : list string :=
  match s with
  | EmptyString => [acc]
  | String c r => if Ascii.eqb c ","%char then acc :: split_commas_aux "" r
                  else split_commas_aux (acc ++ String c "") r
  end.
Definition split_commas (s : string) : list string := split_commas_aux "" s.

Fixpoint ltrim (s : string) : string :=
  match s with String c r => if Ascii.eqb c " "%char then ltrim r else s | EmptyString => EmptyString end.
(* trailing spaces: names in this model never end with a space (hypothesis of the theorems) *)
Definition trim (s : string) : string := ltrim s.

Definition trailer_prefix : string := "Trailer:".

Definition has_prefix (p s : string) : bool := prefix p s.
Definition cut_prefix (p s : string) : string := substring (String.length p) (String.length s - String.length p) s.

(* ---- what the backend produced ---- *)
Record bresp := {
  br_interim : list Z;
  br_status : Z;
  br_fields : list (string * string);       (* header fields on the wire *)
  br_body : nat * string;                    (* length, digest *)
  br_declared : list (string * string);      (* trailer fields announced in Trailer *)
  br_undeclared : list (string * string)     (* trailer fields not announced *)
}.

(* distinct names of a field list, in order of first appearance *)
Fixpoint names_of (l : list (string * string)) (seen : list string) : list string :=
  match l with
  | [] => []
  | (n, _) :: r => let k := canon n in if key_in seen k then names_of r seen else k :: names_of r (k :: seen)
  end.

(* ---- ResponseWriter calls made by ReverseProxy ---- *)
Inductive rwcall :=
| CSetHeader (h : header)          (* rw.Header() now holds h (fields set before the next call) *)
| CWriteHeader (code : Z)
| CWriteBody
| CAddHeader (k v : string).       (* rw.Header().Add(k, v) after the body *)

Definition revproxy_calls (b : bresp) : list rwcall :=
  let announced := names_of (br_declared b) [] in
  let all_trailers := br_declared b ++ br_undeclared b in
  let h0 := hfilter (fun k => negb (key_in lib_hop k)) (of_wire (br_fields b)) in
  let h := match announced with [] => h0 | _ => hadd "Trailer" (join_names announced) h0 end in
  flat_map (fun code => [CSetHeader [("X-Interim", ["1"])]; CWriteHeader code]) (br_interim b)
  ++ [CSetHeader h; CWriteHeader (br_status b); CWriteBody]
  ++ (if (List.length (names_of all_trailers []) =? List.length announced)%nat
      then map (fun t => CAddHeader (canon (fst t)) (snd t)) all_trailers
      else map (fun t => CAddHeader (trailer_prefix ++ canon (fst t)) (snd t)) all_trailers).

(* ---- streamingResponseWriter ---- *)
Record rwst := {
  w_header : header;                        (* what Header() returns *)
  w_sent : option (Z * header);             (* status and header snapshot handed to the serialiser *)
  w_trailer : header;                       (* the trailer map of the streamed response *)
  w_body : bool
}.
Definition rw_init : rwst := {| w_header := []; w_sent := None; w_trailer := []; w_body := false |}.

Section RW.
  Variable hop_tbl : list string.           (* keys of hopHeaders (Gen/SrcFacts_Agent.v) *)
  Variable ignore_1xx : bool.               (* the guard added by the 1xx fix *)
  Variable split_trailer : bool.            (* the comma split added by the trailer fix *)

  Definition declared_keys (h : header) : list string :=
    flat_map (fun v => if split_trailer then map (fun k => canon (trim k)) (split_commas v) else [canon v]) (hvalues "Trailer" h).

  Definition rw_write_header (s : rwst) (code : Z) : rwst :=
    match w_sent s with
    | Some _ => s
    | None =>
        if ignore_1xx && (100 <=? code)%Z && (code <=? 199)%Z then s
        else
          let keys := filter (fun k => negb (key_in hop_tbl k) && negb (k =? "")) (declared_keys (w_header s)) in
          {| w_header := w_header s;
             w_sent := Some (code, hfilter (fun k => negb (key_in hop_tbl k)) (w_header s));
             w_trailer := fold_left (fun t k => if key_in (hkeys t) k then t else t ++ [(k, [])]) keys [];
             w_body := w_body s |}
    end.

  Definition rw_step (s : rwst) (c : rwcall) : rwst :=
    match c with
    | CSetHeader h => {| w_header := h; w_sent := w_sent s; w_trailer := w_trailer s; w_body := w_body s |}
    | CWriteHeader code => rw_write_header s code
    | CWriteBody => let s' := match w_sent s with None => rw_write_header s 200 | Some _ => s end in
                    {| w_header := w_header s'; w_sent := w_sent s'; w_trailer := w_trailer s'; w_body := true |}
    | CAddHeader k v => {| w_header := hadd k v (w_header s); w_sent := w_sent s; w_trailer := w_trailer s; w_body := w_body s |}
    end.

  (* Close(): collect the trailer values *)
  Definition rw_close (s : rwst) : rwst :=
    let s := match w_sent s with None => rw_write_header s 200 | Some _ => s end in
    let t1 := map (fun kv => (fst kv, snd kv ++ hvalues (fst kv) (w_header s))) (w_trailer s) in
    let t2 := fold_left (fun t kv =>
                 if has_prefix trailer_prefix (fst kv) then
                   let k := cut_prefix trailer_prefix (fst kv) in
                   if key_in hop_tbl k then t else fold_left (fun t v => hadd k v t) (snd kv) t
                 else t) (w_header s) t1 in
    {| w_header := w_header s; w_sent := w_sent s; w_trailer := t2; w_body := w_body s |}.

  Definition agent_upload (b : bresp) : option (Z * header * header) :=
    let s := rw_close (fold_left rw_step (revproxy_calls b) rw_init) in
    match w_sent s with
    | Some (code, h) => Some (code, h, w_trailer s)
    | None => None
    end.
End RW.

(* ---- the proxy's copy to the client ---- *)
Definition server_relay (tbl : list string) (u : Z * header * header) : Z * header * header :=
  let '(code, h, t) := u in
  (code, server_filter tbl h, server_filter tbl t).

Definition client_view (hop_tbl : list string) (ignore_1xx split_trailer : bool) (srv_tbl : list string) (b : bresp)
  : option (Z * header * header) :=
  option_map (server_relay srv_tbl) (agent_upload hop_tbl ignore_1xx split_trailer b).
