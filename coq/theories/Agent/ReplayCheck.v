(* Executable comparison of observed upload attempts with the replay-buffer
   model (correspondence run of C06); no proofs. *)
From Coq Require Import ZArith List Bool Arith.
From IP Require Import Gen.SrcFacts_Agent Agent.ReplayBuffer.
Import ListNotations.

Definition cap_src : nat := Z.to_nat readResponseBufSize.
Definition retries_src : nat := Z.to_nat maxWriteResponseRetryCount.

(* observed events of one upload, in order: a Read with buffer size plen that
   returned n bytes in total, the end of a failed attempt, the acknowledgement *)
Inductive ev := ERead (plen n : nat) | EFail | EAck.

(* the stream 0,1,2,...,len-1 (only positions matter to the model) *)
Fixpoint stream_from (z : Z) (len : nat) : list Z :=
  match len with O => [] | Datatypes.S l => z :: stream_from (z + 1)%Z l end.
Definition stream (len : nat) : list Z := stream_from 0%Z len.

Definition ev_step (S : list Z) (s : ust) (e : ev) : option ust :=
  match e with
  | ERead plen n =>
      let fromBuf := length (firstn plen (skipn (rh (rd s)) (buf (rd s)))) in
      ustep cap_src retries_src S s (ORead plen (n - fromBuf))
  | EFail => ustep cap_src retries_src S s OFail
  | EAck => ustep cap_src retries_src S s OAck
  end.

Fixpoint ev_run (S : list Z) (s : ust) (es : list ev) : option ust :=
  match es with
  | [] => Some s
  | e :: r => match ev_step S s e with Some s' => ev_run S s' r | None => None end
  end.

(* observed per attempt: (number of bytes, saw EOF, acknowledged) *)
Definition att_eqb (m : list Z * bool * bool) (o : nat * bool * bool) : bool :=
  let '(bytes, eof, ack) := m in let '(n, eof', ack') := o in
  (length bytes =? n) && Bool.eqb eof eof' && Bool.eqb ack ack'.

Fixpoint atts_eqb (m : list (list Z * bool * bool)) (o : list (nat * bool * bool)) : bool :=
  match m, o with
  | [], [] => true
  | a :: m', b :: o' => att_eqb a b && atts_eqb m' o'
  | _, _ => false
  end.

(* 0 agrees; 1 the model cannot take the event sequence; 2 attempts differ;
   3 model says the loop has not returned although the implementation did (or vice versa) *)
Definition check_upload (len : nat) (es : list ev) (obs : list (nat * bool * bool)) (returned : bool) : Z :=
  match ev_run (stream len) uinit es with
  | None => 1%Z
  | Some s => if negb (atts_eqb (done_attempts s) obs) then 2%Z
              else if negb (Bool.eqb (finished s) returned) then 3%Z else 0%Z
  end.

(* The scripted lingering-reader scenario of the harness: attempt 1 reads the
   first `first` bytes and parks a second Read; the attempt fails; attempt 2
   replays; the rest of the stream arrives (the parked reader is first in
   line); attempt 2 reads to the end and is acknowledged.
   Observed: bytes carried by attempt 2 and bytes swallowed by the stale reader. *)
Definition lingering_ops (size first plen : nat) : list op2 :=
  [O2Buf 1 plen; O2Src 1 first; O2Buf 1 plen; O2Fail; O2Buf 2 plen; O2Src 1 (size - first); O2Src 2 0; O2Ack].

Definition check_lingering (size first plen n2 lingered : nat) : Z :=
  match urun2 cap_src (stream size) uinit2 (lingering_ops size first plen) with
  | None => 1%Z
  | Some s => if (length (out_of 2 (outs s)) =? n2) && (length (out_of 1 (outs s)) =? first + lingered) then 0%Z else 2%Z
  end.
