(* Executable comparison of the agent's observed behaviour with the dedup and
   worker models (correspondence run of C04); no proofs. *)
From Coq Require Import ZArith List Bool Arith.
From IP Require Import Gen.SrcFacts_Agent Lib.Lru Agent.Worker.
Import ListNotations.

Definition K_src : nat := Z.to_nat requestCacheLimit.
Definition max_fetch_src : nat := S (Z.to_nat maxReadRequestRetryCount).

(* executable version of the window hypothesis *)
Fixpoint window_okb_from (K : nat) (rec : list Z) (s : list Z) : bool :=
  match s with
  | [] => true
  | x :: r => (if mem Z.eqb x rec then (index Z.eqb x rec <? K)%nat else true) && window_okb_from K (touch Z.eqb x rec) r
  end.
Definition window_okb (K : nat) (s : list Z) : bool := window_okb_from K [] s.

Fixpoint count (x : Z) (l : list Z) : nat :=
  match l with [] => 0 | y :: r => (if Z.eqb x y then 1 else 0) + count x r end.

Fixpoint script_of (id : Z) (scripts : list (Z * list fetch_outcome)) : list fetch_outcome :=
  match scripts with [] => [] | (j, s) :: r => if Z.eqb id j then s else script_of id r end.

(* one observation: (id, backend invocations, fetch attempts) *)
Definition obs_ok (sp : list Z) (scripts : list (Z * list fetch_outcome)) (o : Z * nat * nat) : bool :=
  let '(id, inv, att) := o in
  let sc := script_of id scripts in
  ((count id sp =? 1) && (inv =? forwards max_fetch_src sc) && (att =? attempts max_fetch_src sc))%nat.

(* 0 = agrees; 1 = outside the window (not compared); 2 = disagreement *)
Definition check_history (lists : list (list Z)) (scripts : list (Z * list fetch_outcome)) (obs : list (Z * nat * nat)) : Z :=
  if negb (window_okb 1000 (concat lists)) then 1%Z
  else let sp := spawned Z.eqb K_src lists in
       if forallb (obs_ok sp scripts) obs && (length sp =? length obs)%nat then 0%Z else 2%Z.
