(* Model of the agent's failure isolation (C07): the poll loop plus one worker
   goroutine per request (agent/agent.go pollForNewRequests / processOneRequest /
   forwardRequest, agent/utils ReadRequest / NewResponseForwarder).  A fault is
   confined to one worker; which branch the code takes for a fault is a table
   read off the source (every one is `log and return`, http.Error, or the 502 of
   httputil.ReverseProxy).  The agent process ends only through the fatal-exit
   call sites reachable from the request path, regenerated from the source
   (Gen/SrcFacts_Agent.v), or through a panic of a shared component (modelled in
   their own files: sessions C10, shim C12, response writer C03).  No proofs here. *)
From Coq Require Import List Arith Bool String.
Import ListNotations.

Inductive stage := SList | SFetch | SConnect | SBackendHeaders | SBackendBody | SUpload | SShimInput.
Inductive wstate :=
| WRunning
| WAnswered (status : nat)     (* a response was uploaded for the request *)
| WDropped.                    (* logged, worker returned without a response (fetch / upload failed) *)

Record agent := { alive : bool; workers : list (nat * wstate); list_failures : nat }.
Definition a_init : agent := {| alive := true; workers := []; list_failures := 0 |}.

Inductive ev :=
| Spawn (i : nat)                  (* a new request ID was listed *)
| Complete (i : nat) (status : nat) (* the backend answered, the response was uploaded *)
| Fault (i : nat) (st : stage)     (* a fault at this stage of worker i (any kind: error, 5xx, close, reset, garbage) *)
| ListFault                        (* the pending-list call failed *)
| ListOk.

Fixpoint wget (i : nat) (l : list (nat * wstate)) : option wstate :=
  match l with [] => None | (j, w) :: r => if i =? j then Some w else wget i r end.
Fixpoint wset (i : nat) (w : wstate) (l : list (nat * wstate)) : list (nat * wstate) :=
  match l with [] => [] | (j, v) :: r => if i =? j then (j, w) :: r else (j, v) :: wset i w r end.

(* the branch taken by the code *)
Definition fault_outcome (st : stage) : wstate :=
  match st with
  | SFetch => WDropped                 (* ReadRequest returns an error: logged *)
  | SConnect | SBackendHeaders => WAnswered 502   (* ReverseProxy's default error handler *)
  | SBackendBody => WAnswered 200      (* status and headers already sent; the copy is aborted *)
  | SUpload => WDropped                (* forwarder Close returns the error: logged *)
  | SShimInput => WAnswered 400        (* http.Error in the shim handlers (500 for a failed dial) *)
  | SList => WDropped
  end.

Section A.
  Variable fatal_sites : list string.    (* fatal calls reachable from the request path (srcfacts) *)

  Definition exits_on_fault : bool := match fatal_sites with [] => false | _ => true end.

  Definition astep (a : agent) (e : ev) : agent :=
    if negb (alive a) then a else
    match e with
    | Spawn i => match wget i (workers a) with
                 | Some _ => a
                 | None => {| alive := true; workers := (i, WRunning) :: workers a; list_failures := list_failures a |}
                 end
    | Complete i st => match wget i (workers a) with
                       | Some WRunning => {| alive := true; workers := wset i (WAnswered st) (workers a); list_failures := list_failures a |}
                       | _ => a
                       end
    | Fault i st => match wget i (workers a) with
                    | Some WRunning => {| alive := negb exits_on_fault; workers := wset i (fault_outcome st) (workers a); list_failures := list_failures a |}
                    | _ => a
                    end
    | ListFault => {| alive := negb exits_on_fault; workers := workers a; list_failures := S (list_failures a) |}
    | ListOk => {| alive := true; workers := workers a; list_failures := 0 |}
    end.

  Definition arun (a : agent) (es : list ev) : agent := fold_left astep es a.
End A.
