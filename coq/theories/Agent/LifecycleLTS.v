(* Labelled transition system of the agent process' life-cycle (agent/agent.go main,
   waitForHealthy, runHealthChecks, pollForNewRequests, processOneRequest;
   agent/utils ShutdownSignalChan).  One label = one observable step of one goroutine,
   or the passing of time, or an event of the environment (a health-check result, a
   signal, the reply of a pending-list call).  Granularity:
     - main goroutine : MWaitHealth -> MRunning -> (MDraining d | exit);
     - signal plumbing: the OS delivers a signal to the registered handler, which puts it
       into a channel of capacity sigCap (dropped when full); one goroutine takes ONE
       signal out and closes the channel main waits on; the handler stays registered for
       the life of the process (a fact regenerated from the source);
     - health goroutine: one label per check result;
     - poll loop: the context test and the start of the list call are one step (the
       `select { case <-ctx.Done(): return; default: list }` of the source);
     - workers: one label per phase change; they never look at the polling context.
   Not modelled: the adapter's set-up failing (log.Fatal), credentials, metrics.
   No proofs here. *)
From Coq Require Import List Arith Bool ZArith.
Import ListNotations.

Record cfg := { hc_enabled : bool; thr : nat; grace : nat (* 0 = option off *); sig_cap : nat }.

Inductive mainst := MWaitHealth | MRunning | MDraining (deadline : nat) | MExited (code : nat) (at_time : nat).
Inductive pollst := PNotStarted | PIdle | PInFlight | PStopped.
Inductive wphase := WFetching | WAtBackend | WUploading | WDone.

Record st := {
  now : nat;
  main : mainst;
  registered : bool;       (* signal.Notify has been called *)
  sigbuf : nat;            (* signals sitting in the channel *)
  chclosed : bool;         (* the channel main waits on has been closed *)
  cancelled : bool;        (* the polling context *)
  cancelled_at : option nat;
  poll : pollst;
  bad : nat;               (* consecutive failed checks counted by runHealthChecks *)
  workers : list (nat * wphase);
  list_starts : list nat;  (* times at which pending-list calls started, newest first *)
  passed : bool            (* some health check has passed (history variable) *)
}.

Inductive label :=
| Tick (dt : nat)
| Check (ok : bool)
| Sig
| SigTake                   (* the signal goroutine receives from the signal channel and closes ch *)
| MainWake                  (* main returns from <-ch *)
| Deadline                  (* time.Sleep(grace) is over: log.Fatal *)
| ListStart
| ListReturn (ids : list nat)
| LoopStop                  (* the poll loop sees the cancelled context and returns *)
| Work (id : nat).

Definition init (c : cfg) : st :=
  let running := negb (hc_enabled c) in
  {| now := 0; main := if running then MRunning else MWaitHealth; registered := running; sigbuf := 0; chclosed := false;
     cancelled := false; cancelled_at := None; poll := if running then PIdle else PNotStarted; bad := 0; workers := [];
     list_starts := []; passed := false |}.

Definition exited (s : st) : bool := match main s with MExited _ _ => true | _ => false end.

Definition upd_main (s : st) (m : mainst) : st :=
  {| now := now s; main := m; registered := registered s; sigbuf := sigbuf s; chclosed := chclosed s; cancelled := cancelled s;
     cancelled_at := cancelled_at s; poll := poll s; bad := bad s; workers := workers s; list_starts := list_starts s; passed := passed s |}.

Definition next_phase (p : wphase) : wphase :=
  match p with WFetching => WAtBackend | WAtBackend => WUploading | WUploading => WDone | WDone => WDone end.

Fixpoint advance (id : nat) (ws : list (nat * wphase)) : option (list (nat * wphase)) :=
  match ws with
  | [] => None
  | (i, p) :: r =>
      if Nat.eqb i id then match p with WDone => None | _ => Some ((i, next_phase p) :: r) end
      else option_map (cons (i, p)) (advance id r)
  end.

Fixpoint spawn (ids : list nat) (ws : list (nat * wphase)) : list (nat * wphase) :=
  match ids with
  | [] => ws
  | i :: r => if existsb (fun w => Nat.eqb (fst w) i) ws then spawn r ws else spawn r (ws ++ [(i, WFetching)])
  end.

(* the partial step function: None = the label is not enabled in this state *)
Definition step (c : cfg) (s : st) (l : label) : option st :=
  if exited s then (match l with Tick dt => Some s | _ => None end) else
  match l with
  | Tick dt =>
      Some {| now := now s + dt; main := main s; registered := registered s; sigbuf := sigbuf s; chclosed := chclosed s; cancelled := cancelled s;
              cancelled_at := cancelled_at s; poll := poll s; bad := bad s; workers := workers s; list_starts := list_starts s; passed := passed s |}
  | Check ok =>
      if negb (hc_enabled c) then None else
      match main s with
      | MWaitHealth =>
          if ok then
            Some {| now := now s; main := MRunning; registered := true; sigbuf := sigbuf s; chclosed := chclosed s; cancelled := cancelled s;
                    cancelled_at := cancelled_at s; poll := PIdle; bad := 0; workers := workers s; list_starts := list_starts s; passed := true |}
          else Some s
      | _ =>
          let bad' := if ok then 0 else S (bad s) in
          let s' := {| now := now s; main := main s; registered := registered s; sigbuf := sigbuf s; chclosed := chclosed s; cancelled := cancelled s;
                       cancelled_at := cancelled_at s; poll := poll s; bad := bad'; workers := workers s; list_starts := list_starts s;
                       passed := passed s || ok |} in
          if Nat.max 1 (thr c) <=? bad' then Some (upd_main s' (MExited 1 (now s))) else Some s'
      end
  | Sig =>
      if registered s then
        if sigbuf s <? sig_cap c then
          Some {| now := now s; main := main s; registered := true; sigbuf := S (sigbuf s); chclosed := chclosed s; cancelled := cancelled s;
                  cancelled_at := cancelled_at s; poll := poll s; bad := bad s; workers := workers s; list_starts := list_starts s; passed := passed s |}
        else Some s                                   (* dropped by signal.Notify's non-blocking send *)
      else Some (upd_main s (MExited 2 (now s)))      (* default disposition: the process is killed by the signal *)
  | SigTake =>
      if chclosed s then None else
      match sigbuf s with
      | 0 => None
      | S n => Some {| now := now s; main := main s; registered := registered s; sigbuf := n; chclosed := true; cancelled := cancelled s;
                       cancelled_at := cancelled_at s; poll := poll s; bad := bad s; workers := workers s; list_starts := list_starts s; passed := passed s |}
      end
  | MainWake =>
      match main s with
      | MRunning =>
          if chclosed s then
            match grace c with
            | 0 => Some (upd_main s (MExited 0 (now s)))
            | g => Some {| now := now s; main := MDraining (now s + g); registered := registered s; sigbuf := sigbuf s; chclosed := true; cancelled := true;
                           cancelled_at := Some (now s); poll := poll s; bad := bad s; workers := workers s; list_starts := list_starts s; passed := passed s |}
            end
          else None
      | _ => None
      end
  | Deadline =>
      match main s with
      | MDraining d => if d <=? now s then Some (upd_main s (MExited 1 (now s))) else None
      | _ => None
      end
  | ListStart =>
      match poll s with
      | PIdle => if cancelled s then None else
          Some {| now := now s; main := main s; registered := registered s; sigbuf := sigbuf s; chclosed := chclosed s; cancelled := false;
                  cancelled_at := cancelled_at s; poll := PInFlight; bad := bad s; workers := workers s; list_starts := now s :: list_starts s; passed := passed s |}
      | _ => None
      end
  | ListReturn ids =>
      match poll s with
      | PInFlight =>
          Some {| now := now s; main := main s; registered := registered s; sigbuf := sigbuf s; chclosed := chclosed s; cancelled := cancelled s;
                  cancelled_at := cancelled_at s; poll := PIdle; bad := bad s; workers := spawn ids (workers s); list_starts := list_starts s; passed := passed s |}
      | _ => None
      end
  | LoopStop =>
      match poll s with
      | PIdle => if cancelled s then
          Some {| now := now s; main := main s; registered := registered s; sigbuf := sigbuf s; chclosed := chclosed s; cancelled := true;
                  cancelled_at := cancelled_at s; poll := PStopped; bad := bad s; workers := workers s; list_starts := list_starts s; passed := passed s |}
          else None
      | _ => None
      end
  | Work id =>
      match advance id (workers s) with
      | Some ws => Some {| now := now s; main := main s; registered := registered s; sigbuf := sigbuf s; chclosed := chclosed s; cancelled := cancelled s;
                           cancelled_at := cancelled_at s; poll := poll s; bad := bad s; workers := ws; list_starts := list_starts s; passed := passed s |}
      | None => None
      end
  end.

Fixpoint run (c : cfg) (s : st) (tr : list label) : option st :=
  match tr with
  | [] => Some s
  | l :: r => match step c s l with Some s' => run c s' r | None => None end
  end.

Definition phase_of (id : nat) (s : st) : option wphase :=
  option_map snd (find (fun w => Nat.eqb (fst w) id) (workers s)).

(* ---- acceptance of an observed run (correspondence check): the trace must be a trace of the LTS and end
        with the observed exit status; expected code None = the process was still alive when observed ---- *)
Definition exit_code (s : st) : option nat := match main s with MExited c _ => Some c | _ => None end.
Definition exit_at (s : st) : option nat := match main s with MExited _ t => Some t | _ => None end.

Definition opt_nat_eqb (a b : option nat) : bool :=
  match a, b with Some x, Some y => Nat.eqb x y | None, None => true | _, _ => false end.

(* 0 = accepted; 1 = some label was not enabled; 2 = wrong exit status *)
Definition check_trace (c : cfg) (tr : list label) (code : option nat) : Z :=
  match run c (init c) tr with
  | None => 1%Z
  | Some s => if opt_nat_eqb (exit_code s) code then 0%Z else 2%Z
  end.

(* index (0-based) of the first label that is not enabled, for diagnostics *)
Fixpoint first_disabled (c : cfg) (s : st) (tr : list label) (i : nat) : option nat :=
  match tr with
  | [] => None
  | l :: r => match step c s l with Some s' => first_disabled c s' r (S i) | None => Some i end
  end.
