(* Model of the response streaming path (C05): handler Write -> body pipe ->
   serialiser (Response.Write, chunked) -> upload pipe -> bufferedReadSeeker.Read
   -> transport -> proxy.  Every stage hands a chunk on as soon as the next stage
   can take it (io.Pipe is a rendezvous; bufferedReadSeeker copies into its replay
   buffer but returns what it read).  A stage holds at most one chunk.
   `hoarding k` models a stage that keeps everything until the stream ends
   (io.ReadAll, a response buffer): the sharpness variant.  No proofs here. *)
From Coq Require Import List Arith Bool.
Import ListNotations.

Record pst := {
  stages : list (list nat);   (* what each stage holds, upstream first *)
  sink : list nat;            (* chunks the proxy has observed *)
  produced : list nat;        (* chunks the backend has written so far *)
  ended : bool                (* the backend finished the response *)
}.

Definition p_init (n : nat) : pst := {| stages := repeat [] n; sink := []; produced := []; ended := false |}.

Inductive plbl :=
| Produce (c : nat)     (* the backend writes and flushes one chunk (enabled when the first stage is free) *)
| EndStream             (* the backend returns *)
| Move (k : nat)        (* stage k hands its oldest chunk to stage k+1, or to the proxy when k is the last stage *)
.

Fixpoint set_nth {A} (k : nat) (v : A) (l : list A) : list A :=
  match l, k with
  | [], _ => []
  | _ :: r, 0 => v :: r
  | x :: r, S k' => x :: set_nth k' v r
  end.

Section P.
  Variable hoarding : nat -> bool.   (* stage k forwards nothing before the end of the stream *)

  Definition can_move (s : pst) (k : nat) : bool :=
    match nth_error (stages s) k with
    | Some (c :: _) =>
        (negb (hoarding k) || ended s) &&
        (if S k =? length (stages s) then true
         else match nth_error (stages s) (S k) with Some [] => true | Some _ => hoarding (S k) | None => false end)
    | _ => false
    end.

  Definition pstep (s : pst) (l : plbl) : option pst :=
    match l with
    | Produce c =>
        if ended s then None else
        match stages s with
        | [] :: r => Some {| stages := [c] :: r; sink := sink s; produced := produced s ++ [c]; ended := false |}
        | h :: r => if hoarding 0 then Some {| stages := (h ++ [c]) :: r; sink := sink s; produced := produced s ++ [c]; ended := false |} else None
        | [] => None
        end
    | EndStream => if ended s then None else Some {| stages := stages s; sink := sink s; produced := produced s; ended := true |}
    | Move k =>
        if can_move s k then
          match nth_error (stages s) k with
          | Some (c :: rest) =>
              if S k =? length (stages s)
              then Some {| stages := set_nth k rest (stages s); sink := sink s ++ [c]; produced := produced s; ended := ended s |}
              else match nth_error (stages s) (S k) with
                   | Some nxt => Some {| stages := set_nth (S k) (nxt ++ [c]) (set_nth k rest (stages s)); sink := sink s; produced := produced s; ended := ended s |}
                   | None => None
                   end
          | _ => None
          end
        else None
    end.

  Fixpoint prun (s : pst) (ls : list plbl) : option pst :=
    match ls with [] => Some s | l :: r => match pstep s l with Some s' => prun s' r | None => None end end.

  (* no internal step is enabled *)
  Definition quiescent (s : pst) : bool := forallb (fun k => negb (can_move s k)) (seq 0 (length (stages s))).
End P.

Definition no_hoarding : nat -> bool := fun _ => false.

(* everything written so far, in order: what the proxy has, then what the stages hold, downstream first *)
Definition in_flight (s : pst) : list nat := concat (rev (stages s)).

(* replay of a lock-step run: every chunk is produced and carried through all n stages before the next one *)
Definition lockstep_labels (n : nat) (chunks : list nat) : list plbl :=
  flat_map (fun c => Produce c :: map Move (seq 0 n)) chunks.
Definition lockstep_ok (n : nat) (chunks : list nat) : bool :=
  match prun no_hoarding (p_init n) (lockstep_labels n chunks) with
  | Some s => quiescent no_hoarding s && (length (sink s) =? length chunks)
  | None => false
  end.

(* distance still to travel: a chunk held by the stage that has j stages after it is j+1 moves from the proxy *)
Fixpoint work (l : list (list nat)) : nat :=
  match l with [] => 0 | h :: r => length h * S (length r) + work r end.


(* a run of internal steps only *)
Definition all_moves (ls : list plbl) : bool := forallb (fun l => match l with Move _ => true | _ => false end) ls.

