(* Model of github.com/golang/groupcache/lru as used by the agent (request-ID
   dedup, agent/agent.go:206-226) and by the session cache
   (agent/sessions/sessions.go).  Keys only, most recently used first.
   No proofs here (Proofs/LruProofs.v). *)
From Coq Require Import List Bool Arith.
Import ListNotations.

Section Lru.
  Context {A : Type}.
  Variable eqb : A -> A -> bool.

  Fixpoint mem (x : A) (l : list A) : bool :=
    match l with [] => false | y :: r => eqb x y || mem x r end.

  Fixpoint remove (x : A) (l : list A) : list A :=
    match l with [] => [] | y :: r => if eqb x y then remove x r else y :: remove x r end.

  (* MoveToFront / PushFront *)
  Definition touch (x : A) (l : list A) : list A := x :: remove x l.

  (* unbounded recency list of a history of key uses (most recent first) *)
  Fixpoint recency (acc : list A) (s : list A) : list A :=
    match s with [] => acc | x :: r => recency (touch x acc) r end.

  (* Cache.Get: hit moves the entry to the front *)
  Definition lru_get (l : list A) (x : A) : list A * bool :=
    if mem x l then (touch x l, true) else (l, false).

  (* Cache.Add with MaxEntries = K (K = 0 means unbounded, as in groupcache) *)
  Definition lru_add (K : nat) (l : list A) (x : A) : list A :=
    if mem x l then touch x l
    else match K with 0 => x :: l | _ => firstn K (x :: l) end.

  (* the agent's use: `if _, ok := Get(id); !ok { Add(id); spawn }`;
     the boolean says whether a worker is spawned *)
  Definition lru_step (K : nat) (l : list A) (x : A) : list A * bool :=
    let '(l1, hit) := lru_get l x in
    if hit then (l1, false) else (lru_add K l1 x, true).

  Fixpoint lru_run (K : nat) (l : list A) (s : list A) : list A * list A :=
    match s with
    | [] => (l, [])
    | x :: r => let '(l1, sp) := lru_step K l x in
                let '(l2, sps) := lru_run K l1 r in
                (l2, if sp then x :: sps else sps)
    end.

  (* IDs for which a worker is spawned, over a history of pending-list replies *)
  Definition spawned (K : nat) (h : list (list A)) : list A := snd (lru_run K [] (concat h)).

  (* position of the first occurrence (length l when absent) *)
  Fixpoint index (x : A) (l : list A) : nat :=
    match l with [] => 0 | y :: r => if eqb x y then 0 else S (index x r) end.

  (* first occurrences, in order *)
  Fixpoint firsts (seen : list A) (s : list A) : list A :=
    match s with
    | [] => []
    | x :: r => if mem x seen then firsts seen r else x :: firsts (x :: seen) r
    end.
End Lru.
