(* Model of net/http.Header as used by the repository: a finite map from
   canonical field names to the list of values in arrival order.  The order of
   different names is not observable (Go map).  No proofs here. *)
From Coq Require Import String List Bool Ascii Arith.
Import ListNotations.
Open Scope string_scope.
Open Scope list_scope.

Definition header := list (string * list string).

Fixpoint hvalues (k : string) (h : header) : list string :=
  match h with
  | [] => []
  | (n, vs) :: r => if n =? k then vs else hvalues k r
  end.

Fixpoint hdel (k : string) (h : header) : header :=
  match h with
  | [] => []
  | (n, vs) :: r => if n =? k then hdel k r else (n, vs) :: hdel k r
  end.

Fixpoint hadd (k v : string) (h : header) : header :=
  match h with
  | [] => [(k, [v])]
  | (n, vs) :: r => if n =? k then (n, vs ++ [v]) :: r else (n, vs) :: hadd k v r
  end.

Definition hset (k v : string) (h : header) : header := (k, [v]) :: hdel k h.

Definition hkeys (h : header) : list string := map fst h.

(* ---- textproto.CanonicalMIMEHeaderKey on ASCII names ---- *)
Definition is_lower (c : ascii) : bool := let n := nat_of_ascii c in (97 <=? n)%nat && (n <=? 122)%nat.
Definition is_upper (c : ascii) : bool := let n := nat_of_ascii c in (65 <=? n)%nat && (n <=? 90)%nat.
Definition to_upper (c : ascii) : ascii := if is_lower c then ascii_of_nat (nat_of_ascii c - 32) else c.
Definition to_lower (c : ascii) : ascii := if is_upper c then ascii_of_nat (nat_of_ascii c + 32) else c.
Definition is_digit (c : ascii) : bool := let n := nat_of_ascii c in (48 <=? n)%nat && (n <=? 57)%nat.
(* RFC 7230 token characters *)
Definition is_tchar (c : ascii) : bool :=
  is_lower c || is_upper c || is_digit c ||
  existsb (Ascii.eqb c) ["!"; "#"; "$"; "%"; "&"; "'"; "*"; "+"; "-"; "."; "^"; "_"; "`"; "|"; "~"]%char.

Fixpoint all_tchar (s : string) : bool :=
  match s with EmptyString => true | String c r => is_tchar c && all_tchar r end.

Fixpoint canon_from (upper : bool) (s : string) : string :=
  match s with
  | EmptyString => EmptyString
  | String c r => String (if upper then to_upper c else to_lower c) (canon_from (Ascii.eqb c "-"%char) r)
  end.

Definition canon (s : string) : string := if all_tchar s then canon_from true s else s.

Fixpoint lower (s : string) : string :=
  match s with EmptyString => EmptyString | String c r => String (to_lower c) (lower r) end.

(* header fields as they appear on the wire -> Header (what ReadRequest / ReadResponse build) *)
Definition of_wire (fields : list (string * string)) : header :=
  fold_left (fun h f => hadd (canon (fst f)) (snd f) h) fields [].

(* remove every field whose name is in a table of canonical names *)
Definition hdel_all (names : list string) (h : header) : header :=
  fold_left (fun h n => hdel n h) names h.
