(* Small executable helpers for the generated cases files (no proofs, no source facts). *)
From Coq Require Import ZArith List Bool.
Import ListNotations.

Fixpoint bad_indices {A} (ok : A -> bool) (i : Z) (l : list A) : list Z :=
  match l with
  | [] => []
  | x :: r => if ok x then bad_indices ok (i + 1)%Z r else i :: bad_indices ok (i + 1)%Z r
  end.

Fixpoint nonzero_indices (i : Z) (l : list Z) : list (Z * Z) :=
  match l with
  | [] => []
  | x :: r => if (x =? 0)%Z then nonzero_indices (i + 1)%Z r else (i, x) :: nonzero_indices (i + 1)%Z r
  end.
