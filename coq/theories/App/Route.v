(* Model of app/store/store.go: mostSpecificMatchingBackend, hasBackend,
   lookupSharedBackend, LookupBackend.  No proofs here (Proofs/RouteProofs.v). *)
From Coq Require Import ZArith String List Bool.
Import ListNotations.
Open Scope string_scope.
Open Scope list_scope.

Record backend := { bid : string; buser : string; euser : string; prefixes : list string }.

(* one iteration of the inner loop: (closestMatch, longestMatchingPath) *)
Definition upd (path id : string) (acc : string * string) (p : string) : string * string :=
  if prefix p path then
    if (fst acc =? "") || (String.length (snd acc) <? String.length p)%nat then (id, p) else acc
  else acc.

Definition most_specific_raw (path : string) (bs : list backend) : string * string :=
  fold_left (fun acc b => fold_left (upd path (bid b)) (prefixes b) acc) bs ("", "").

(* None = the error return "Found no matching backends" *)
Definition most_specific (path : string) (bs : list backend) : option string :=
  let c := fst (most_specific_raw path bs) in if c =? "" then None else Some c.

(* the (backend id, prefix) pairs in iteration order *)
Definition flat (bs : list backend) : list (string * string) :=
  concat (map (fun b => map (pair (bid b)) (prefixes b)) bs).

Section Lookup.
  Variable timeout : Z.          (* backendTimeout, ns *)
  Variable shared : string.      (* sharedBackendUser *)
  Variable trackers : list (string * Z).  (* backend id -> LastSeen (ns) *)
  Variable now : Z.

  Fixpoint last_seen (id : string) (l : list (string * Z)) : option Z :=
    match l with
    | [] => None
    | (k, t) :: r => if k =? id then Some t else last_seen id r
    end.

  (* hasBackend: seen, and time.Since(lastSeen) < timeout *)
  Definition live (id : string) : bool :=
    match last_seen id trackers with
    | Some t => (now - t <? timeout)%Z
    | None => false
    end.

  Definition for_user (u : string) (bs : list backend) : list backend :=
    filter (fun b => euser b =? u) bs.

  (* LookupBackend; None = error, answered 404 by proxyHandler *)
  Definition lookup (user path : string) (bs : list backend) : option string :=
    match most_specific path (for_user user bs) with
    | Some id => if live id then Some id else None
    | None =>
        match most_specific path (for_user shared bs) with
        | Some id => if live id then Some id else None
        | None => None
        end
    end.
End Lookup.
