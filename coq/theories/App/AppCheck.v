(* Executable comparison of driver histories (harness/cmd/appengine) with App/AppModel.v,
   instantiated with the constants regenerated from the source. *)
From Coq Require Import ZArith String List Bool.
From IP Require Import Gen.SrcFacts_App App.Route App.AppModel.
Import ListNotations.
Open Scope string_scope.
Open Scope list_scope.
Open Scope Z_scope.

Definition shared_now : string := hd "" sharedBackendUser.
Definition cap_now : Z := hd 0 responseHandlerChanCaps.
Definition sets_start_now : bool := hd 0 storedResponseSetsStartTime =? 1.
Definition cron_front_admin_now : bool := forallb (fun x => x =? 1) apiUncheckedPathsAdminInYaml.
Definition login_required_now : bool := hd 0 defaultLoginRequired =? 1.
Definition list_limit_now : nat := Z.to_nat (hd 100 pendingQueryLimit).
Definition multi_limit_now : nat := Z.to_nat multiOpSizeLimit.

Definition step_now := step fieldByteLimit cacheEntrySizeLimit backendTimeout shared_now cap_now sets_start_now
                            cron_front_admin_now login_required_now list_limit_now multi_limit_now.
Definition run_now := run fieldByteLimit cacheEntrySizeLimit backendTimeout shared_now cap_now sets_start_now
                          cron_front_admin_now login_required_now list_limit_now multi_limit_now.

Fixpoint list_eqb {A} (eqb : A -> A -> bool) (a b : list A) : bool :=
  match a, b with
  | [], [] => true
  | x :: r, y :: t => eqb x y && list_eqb eqb r t
  | _, _ => false
  end.

Definition out_eqb (a b : out) : bool :=
  match a, b with
  | Status x, Status y => x =? y
  | Backends x, Backends y => list_eqb String.eqb x y
  | Listed x, Listed y => list_eqb Z.eqb x y
  | LongPoll, LongPoll => true
  | Fetched u p, Fetched v q => (u =? v)%string && payload_eqb p q
  | Stored x, Stored y => (x =? y)%string
  | Delivered p, Delivered q => payload_eqb p q
  | NotReady, NotReady => true
  | Hang, Hang => true
  | _, _ => false
  end.

Definition key_eqb (a b : key) : bool :=
  match a, b with
  | KBackend x, KBackend y => (x =? y)%string
  | KReq b1 i1, KReq b2 i2 => (b1 =? b2)%string && (i1 =? i2)
  | KResp x, KResp y => x =? y
  | _, _ => false
  end.

Definition subset (a b : list key) : bool := forallb (fun k => existsb (key_eqb k) b) a.

(* 0 = the whole history agrees; otherwise 10 * (index + 1) + code,
   code 1 = the model's output differs, code 2 = the set of changed entities differs *)
Fixpoint check (s : state) (i : Z) (h : list (op * out * list key)) : Z :=
  match h with
  | [] => 0
  | (o, x, ks) :: r =>
      let '(y, s1) := step_now s o in
      if negb (out_eqb x y) then 10 * (i + 1) + 1
      else let c := changed s s1 in
           if negb (subset ks c && subset c ks) then 10 * (i + 1) + 2
           else check s1 (i + 1) r
  end.

Definition check_history (h : list (op * out * list key)) : Z := check init 0 h.

(* what the model answers at position n of a history (for the replay file) *)
Definition model_out (h : list op) : list out := fst (run_now init h).
