(* Model of the App Engine proxy (app/proxy.go, app/store/store.go, app/cache/cache.go)
   as a state machine over the datastore and memcache contents.  One step = one call
   handled by the app (or, for an end-user request, one of its two phases: store the
   request / the successful poll that finds the response).  Every step takes the set
   of API-call classes that fail while it runs.  No proofs here (Proofs/AppProofs.v).

   Payloads are abstract: a tag identifying the byte string, its length (which decides
   caching and blob splitting) and, for responses, the status code and whether a
   Cache-Control header is present (which decide the GET response cache).  The byte-level
   split/join of blobs is modelled separately in Codec/BlobSplit.v. *)
From Coq Require Import ZArith String List Bool.
From IP Require Import App.Route.
Import ListNotations.
Open Scope string_scope.
Open Scope list_scope.
Open Scope Z_scope.

Record payload := { p_tag : Z; p_len : Z; p_status : Z; p_cc : bool }.

Definition payload_eqb (a b : payload) : bool :=
  (p_tag a =? p_tag b) && (p_len a =? p_len b) && (p_status a =? p_status b) && Bool.eqb (p_cc a) (p_cc b).

(* a stored request: datastore kind req:"<backend>", key <id>; memcache key r:"<backend>":"<id>" *)
Record sreq := { q_backend : string; q_id : Z; q_user : string; q_pay : payload; q_done : bool }.
(* a stored response: datastore kind response, key <id> alone; memcache key resp:"<backend>":"<id>" *)
Record sresp := { s_backend : string; s_id : Z; s_pay : payload }.
(* an end-user handler waiting for its response *)
Record waiter := { w_id : Z; w_backend : string; w_user : string; w_url : string; w_get : bool }.

Record state := {
  backends : list backend;              (* datastore kind backend, in key order *)
  trackers : list (string * Z);         (* datastore kind backendTracker: id -> LastSeen (ns) *)
  dreq : list sreq;                     (* datastore, ordered by id *)
  creq : list sreq;                     (* memcache *)
  dresp : list sresp;                   (* datastore *)
  cresp : list sresp;                   (* memcache *)
  rcache : list (string * string * payload);  (* memcache cache:"<user>":"<url>" -> response *)
  waiting : list waiter
}.

Definition init : state :=
  {| backends := []; trackers := []; dreq := []; creq := []; dresp := []; cresp := []; rcache := []; waiting := [] |}.

Inductive fault :=
| F_oauth | F_get_backend | F_get_tracker | F_get_req | F_get_resp | F_get_parts
| F_put_req | F_put_resp | F_put_parts | F_put_tracker | F_put_activity | F_put_backend
| F_query_backend | F_mc_get | F_mc_set.

Definition fault_eqb (a b : fault) : bool :=
  match a, b with
  | F_oauth, F_oauth | F_get_backend, F_get_backend | F_get_tracker, F_get_tracker | F_get_req, F_get_req
  | F_get_resp, F_get_resp | F_get_parts, F_get_parts | F_put_req, F_put_req | F_put_resp, F_put_resp
  | F_put_parts, F_put_parts | F_put_tracker, F_put_tracker | F_put_activity, F_put_activity
  | F_put_backend, F_put_backend | F_query_backend, F_query_backend | F_mc_get, F_mc_get | F_mc_set, F_mc_set => true
  | _, _ => false
  end.

Definition has (fs : list fault) (f : fault) : bool := existsb (fault_eqb f) fs.

(* the request named by an agent call *)
Inductive ref := RNone (* header absent *) | RId (id : Z).

(* who calls the administration API *)
Record admin_ident := { hdr_admin : bool; oauth_admin : bool }.

Inductive op :=
| OAdd (who : admin_ident) (b : backend) (valid : bool) (fs : list fault)
| OList (who : admin_ident) (fs : list fault)
| ODelete (who : admin_ident) (id : string) (fs : list fault)
| OApiOther (who : admin_ident) (method path : string) (fs : list fault)
| OCron (who : admin_ident)
| OSeen (id : string) (age : Z)                     (* environment: the tracker's LastSeen becomes now - age *)
| OUStart (user : option string) (raw get : bool) (url path : string) (id : Z) (pay : payload) (fs : list fault)
| OUFinish (id : Z)
| OAList (who : option string) (b : string) (fs : list fault)
| OAFetch (who : option string) (b : string) (r : ref) (fs : list fault)
| OARespond (who : option string) (b : string) (r : ref) (pay : payload) (fs : list fault).

Inductive out :=
| Status (code : Z)
| Backends (ids : list string)
| Listed (ids : list Z)
| LongPoll
| Fetched (user : string) (pay : payload)
| Stored (b : string)
| Delivered (pay : payload)
| NotReady
| Hang.

(* keys of the datastore entities a step may touch (trackers, activity trackers and blob parts left out) *)
Inductive key := KBackend (id : string) | KReq (b : string) (id : Z) | KResp (id : Z).

Section Model.
  Variable limit : Z.          (* fieldByteLimit *)
  Variable climit : Z.         (* cacheEntrySizeLimit *)
  Variable timeout : Z.        (* backendTimeout *)
  Variable shared : string.    (* sharedBackendUser *)
  Variable chan_cap : Z.       (* capacity of responseHandler's error channel *)
  Variable sets_start : bool.  (* newStoredResponse fills in StartTime *)
  Variable cron_front_admin : bool.   (* api.yaml: /cron/.* has login: admin *)
  Variable login_required : bool.     (* app.yaml: login: required *)
  Variable list_limit : nat.   (* query limit of ListPendingRequests *)
  Variable multi_limit : nat.  (* multiOpSizeLimit *)

  Definition now : Z := 1000000000000000000.
  Definition hour : Z := 3600000000000.

  (* ---- small maps *)
  Fixpoint insert_backend (b : backend) (l : list backend) : list backend :=
    match l with
    | [] => [b]
    | x :: r => if (bid x =? bid b)%string then b :: r
                else if String.ltb (bid b) (bid x) then b :: x :: r else x :: insert_backend b r
    end.
  Definition find_backend (id : string) (l : list backend) : option backend := find (fun b => (bid b =? id)%string) l.
  Definition remove_backend (id : string) (l : list backend) : list backend := filter (fun b => negb (bid b =? id)%string) l.

  Fixpoint set_tracker (id : string) (t : Z) (l : list (string * Z)) : list (string * Z) :=
    match l with
    | [] => [(id, t)]
    | (k, v) :: r => if (k =? id)%string then (k, t) :: r else (k, v) :: set_tracker id t r
    end.
  Definition remove_tracker (id : string) (l : list (string * Z)) : list (string * Z) :=
    filter (fun kv => negb (fst kv =? id)%string) l.

  Definition req_key (q : sreq) (b : string) (id : Z) : bool := (q_backend q =? b)%string && (q_id q =? id).
  Definition find_req (b : string) (id : Z) (l : list sreq) : option sreq := find (fun q => req_key q b id) l.
  (* datastore order: by kind (backend), then key; only the order inside one backend is observable.
     A Put replaces the entity with the same key. *)
  Fixpoint ins_req (q : sreq) (l : list sreq) : list sreq :=
    match l with
    | [] => [q]
    | x :: r => if (q_backend x =? q_backend q)%string && (q_id q <? q_id x) then q :: x :: r else x :: ins_req q r
    end.
  Definition put_req (q : sreq) (l : list sreq) : list sreq :=
    ins_req q (filter (fun x => negb (req_key x (q_backend q) (q_id q))) l).

  Definition find_dresp (id : Z) (l : list sresp) : option sresp := find (fun r => s_id r =? id) l.
  Definition find_cresp (b : string) (id : Z) (l : list sresp) : option sresp :=
    find (fun r => (s_backend r =? b)%string && (s_id r =? id)) l.
  Definition put_dresp (r : sresp) (l : list sresp) : list sresp :=
    r :: filter (fun x => negb (s_id x =? s_id r)) l.
  Definition put_cresp (r : sresp) (l : list sresp) : list sresp :=
    r :: filter (fun x => negb ((s_backend x =? s_backend r)%string && (s_id x =? s_id r))) l.

  Definition rkey (u url : string) (e : string * string * payload) : bool :=
    (fst (fst e) =? u)%string && (snd (fst e) =? url)%string.
  Definition find_rcache (u url : string) (l : list (string * string * payload)) : option payload :=
    option_map snd (find (rkey u url) l).
  Definition put_rcache (u url : string) (p : payload) (l : list (string * string * payload)) :=
    (u, url, p) :: filter (fun e => negb (rkey u url e)) l.

  Definition find_waiter (id : Z) (l : list waiter) : option waiter := find (fun w => w_id w =? id) l.
  Definition remove_waiter (id : Z) (l : list waiter) : list waiter := filter (fun w => negb (w_id w =? id)) l.

  (* ---- state updates *)
  Definition with_backends (s : state) (v : list backend) : state :=
    {| backends := v; trackers := trackers s; dreq := dreq s; creq := creq s; dresp := dresp s; cresp := cresp s; rcache := rcache s; waiting := waiting s |}.
  Definition with_trackers (s : state) (v : list (string * Z)) : state :=
    {| backends := backends s; trackers := v; dreq := dreq s; creq := creq s; dresp := dresp s; cresp := cresp s; rcache := rcache s; waiting := waiting s |}.
  Definition with_dreq (s : state) (v : list sreq) : state :=
    {| backends := backends s; trackers := trackers s; dreq := v; creq := creq s; dresp := dresp s; cresp := cresp s; rcache := rcache s; waiting := waiting s |}.
  Definition with_creq (s : state) (v : list sreq) : state :=
    {| backends := backends s; trackers := trackers s; dreq := dreq s; creq := v; dresp := dresp s; cresp := cresp s; rcache := rcache s; waiting := waiting s |}.
  Definition with_dresp (s : state) (v : list sresp) : state :=
    {| backends := backends s; trackers := trackers s; dreq := dreq s; creq := creq s; dresp := v; cresp := cresp s; rcache := rcache s; waiting := waiting s |}.
  Definition with_cresp (s : state) (v : list sresp) : state :=
    {| backends := backends s; trackers := trackers s; dreq := dreq s; creq := creq s; dresp := dresp s; cresp := v; rcache := rcache s; waiting := waiting s |}.
  Definition with_rcache (s : state) (v : list (string * string * payload)) : state :=
    {| backends := backends s; trackers := trackers s; dreq := dreq s; creq := creq s; dresp := dresp s; cresp := cresp s; rcache := v; waiting := waiting s |}.
  Definition with_waiting (s : state) (v : list waiter) : state :=
    {| backends := backends s; trackers := trackers s; dreq := dreq s; creq := creq s; dresp := dresp s; cresp := cresp s; rcache := rcache s; waiting := v |}.

  (* ---- the Store interface (cachingStore over persistentStore) *)

  Definition has_parts (p : payload) : bool := limit <=? p_len p.     (* newBlob: len(bytes) < fieldByteLimit is inlined *)
  Definition cacheable (p : payload) : bool := p_len p <? climit.

  (* cachingStore.WriteRequest: the cache first (errors ignored), then the datastore; true = error *)
  Definition write_request (s : state) (fs : list fault) (q : sreq) : state * bool :=
    let s1 := if cacheable (q_pay q) && negb (has fs F_mc_set) then with_creq s (put_req q (creq s)) else s in
    if (has_parts (q_pay q) && has fs F_put_parts) || has fs F_put_req then (s1, true)
    else (with_dreq s1 (put_req q (dreq s1)), false).

  (* cachingStore.ReadRequest *)
  Definition read_request (s : state) (fs : list fault) (b : string) (id : Z) : option sreq :=
    match (if has fs F_mc_get then None else find_req b id (creq s)) with
    | Some q => Some q
    | None =>
        if has fs F_get_req then None else
        match find_req b id (dreq s) with
        | Some q => if has_parts (q_pay q) && has fs F_get_parts then None else Some q
        | None => None
        end
    end.

  (* cachingStore.WriteResponse; true = error *)
  Definition write_response (s : state) (fs : list fault) (r : sresp) : state * bool :=
    let s1 := if cacheable (s_pay r) && negb (has fs F_mc_set) then with_cresp s (put_cresp r (cresp s)) else s in
    if (has_parts (s_pay r) && has fs F_put_parts) || has fs F_put_resp then (s1, true)
    else (with_dresp s1 (put_dresp r (dresp s1)), false).

  (* cachingStore.ReadResponse: the cache is keyed by (backend, id), the datastore by id alone *)
  Definition read_response (s : state) (fs : list fault) (b : string) (id : Z) : option payload :=
    match (if has fs F_mc_get then None else find_cresp b id (cresp s)) with
    | Some r => Some (s_pay r)
    | None =>
        if has fs F_get_resp then None else
        match find_dresp id (dresp s) with
        | Some r => if has_parts (s_pay r) && has fs F_get_parts then None else Some (s_pay r)
        | None => None
        end
    end.

  Definition pending (s : state) (b : string) : list Z :=
    map q_id (firstn list_limit (filter (fun q => (q_backend q =? b)%string && negb (q_done q)) (dreq s))).

  (* persistentStore.DeleteBackend *)
  Definition delete_backend (s : state) (id : string) : state :=
    {| backends := remove_backend id (backends s); trackers := remove_tracker id (trackers s);
       dreq := filter (fun q => negb (q_backend q =? id)%string) (dreq s);
       creq := creq s; dresp := dresp s; cresp := cresp s; rcache := rcache s; waiting := waiting s |}.

  (* LookupBackend under faults *)
  Definition lookup_f (s : state) (fs : list fault) (u path : string) : option string :=
    if has fs F_query_backend then None
    else lookup timeout shared (if has fs F_get_tracker then [] else trackers s) now u path (backends s).

  (* ---- access checks *)

  (* checkBackendID *)
  Definition authorised (s : state) (fs : list fault) (who : option string) (b : string) : bool :=
    match who with
    | None => false
    | Some u =>
        if has fs F_oauth then false
        else if (b =? "")%string then false
        else if has fs F_get_backend then false
        else match find_backend b (backends s) with
             | Some rec => (buser rec =? u)%string
             | None => false
             end
    end.

  (* isAdminRequest *)
  Definition is_admin (who : admin_ident) (fs : list fault) : bool :=
    hdr_admin who || (oauth_admin who && negb (has fs F_oauth)).

  (* ---- the handlers *)

  (* parseBackend: the body must be JSON (valid) and name an ID, a backend user, an end user and a prefix *)
  Definition well_formed (b : backend) : bool :=
    negb (bid b =? "")%string && negb (buser b =? "")%string && negb (euser b =? "")%string &&
    match prefixes b with [] => false | _ => true end.

  Definition add_backend (s : state) (fs : list fault) (b : backend) (valid : bool) : out * state :=
    if negb (valid && well_formed b) then (Status 400, s)
    else if has fs F_put_tracker then (Status 500, s)
    else
      let s1 := with_trackers s (set_tracker (bid b) (now - timeout) (trackers s)) in
      if has fs F_put_backend then (Status 500, s1)
      else (Status 200, with_backends s1 (insert_backend b (backends s1))).

  Definition cron (s : state) : state :=
    let old := firstn multi_limit (map fst (filter (fun kv => snd kv <? now - hour) (trackers s))) in
    let s1 := fold_left delete_backend old s in
    if sets_start then s1 else with_dresp s1 (skipn multi_limit (dresp s1)).

  Definition api_step (s : state) (who : admin_ident) (fs : list fault) (method path : string) (body : option (backend * bool)) : out * state :=
    if negb (is_admin who fs) then (Status 403, s)
    else if (path =? "/api/backends")%string then
      if (method =? "GET")%string then (Backends (map bid (backends s)), s)
      else if (method =? "POST")%string then
        match body with
        | Some (b, valid) => add_backend s fs b valid
        | None => (Status 400, s)
        end
      else (Status 405, s)
    else if prefix "/api/backends/" path then
      if (method =? "DELETE")%string then
        let id := substring 14 (String.length path - 14) path in
        if (id =? "")%string then (Status 400, s) else (Status 200, delete_backend s id)
      else (Status 405, s)
    else (Status 404, s).

  Definition step (s : state) (o : op) : out * state :=
    match o with
    | OAdd who b valid fs => api_step s who fs "POST" "/api/backends" (Some (b, valid))
    | OList who fs => api_step s who fs "GET" "/api/backends" None
    | ODelete who id fs => api_step s who fs "DELETE" ("/api/backends/" ++ id) None
    | OApiOther who method path fs => api_step s who fs method path None
    | OCron who =>
        if cron_front_admin && negb (hdr_admin who) then (Status 403, s) else (Status 200, cron s)
    | OSeen id age =>
        (Status 0, match last_seen id (trackers s) with
                   | Some _ => with_trackers s (set_tracker id (now - age) (trackers s))
                   | None => s
                   end)
    | OUStart user raw get url path id pay fs =>
        match user with
        | None => if login_required && negb raw then (Status 302, s) else (Status 401, s)
        | Some u =>
            match lookup_f s fs u path with
            | None => (Status 404, s)
            | Some b =>
                match (if get && negb (has fs F_mc_get) then find_rcache u url (rcache s) else None) with
                | Some p => (Delivered p, s)
                | None =>
                    let '(s1, err) := write_request s fs {| q_backend := b; q_id := id; q_user := u; q_pay := pay; q_done := false |} in
                    if err then (Status 500, s1)
                    else (Stored b, with_waiting s1 ({| w_id := id; w_backend := b; w_user := u; w_url := url; w_get := get |} :: waiting s1))
                end
            end
        end
    | OUFinish id =>
        match find_waiter id (waiting s) with
        | None => (NotReady, s)
        | Some w =>
            match read_response s [] (w_backend w) id with
            | None => (NotReady, s)
            | Some p =>
                if p_len p =? 0 then (NotReady, s) else
                let s1 := with_waiting s (remove_waiter id (waiting s)) in
                (Delivered p,
                 if w_get w && (p_status p =? 200) && negb (p_cc p)
                 then with_rcache s1 (put_rcache (w_user w) (w_url w) p (rcache s1)) else s1)
            end
        end
    | OAList who b fs =>
        if negb (authorised s fs who b) then (Status 401, s)
        else
          let s1 := if has fs F_put_tracker then s else with_trackers s (set_tracker b now (trackers s)) in
          match pending s b with
          | [] => (LongPoll, s1)
          | ids => (Listed ids, s1)
          end
    | OAFetch who b r fs =>
        if negb (authorised s fs who b) then (Status 401, s)
        else match r with
             | RNone => (Status 400, s)
             | RId id =>
                 match read_request s fs b id with
                 | Some q => (Fetched (q_user q) (q_pay q), s)
                 | None => (Status 404, s)
                 end
             end
    | OARespond who b r pay fs =>
        if negb (authorised s fs who b) then (Status 401, s)
        else match r with
             | RNone => (Status 400, s)
             | RId id =>
                 match read_request s fs b id with
                 | None => (Status 404, s)
                 | Some q =>
                     let '(s1, e1) := write_response s fs {| s_backend := b; s_id := id; s_pay := pay |} in
                     let '(s2, e2) := write_request s1 fs {| q_backend := q_backend q; q_id := q_id q; q_user := q_user q; q_pay := q_pay q; q_done := true |} in
                     let n := (if e1 then 1 else 0) + (if e2 then 1 else 0) in
                     ((if chan_cap <? n then Hang else if 0 <? n then Status 404 else Status 200), s2)
                 end
             end
    end.

  Fixpoint run (s : state) (ops : list op) : list out * state :=
    match ops with
    | [] => ([], s)
    | o :: r => let '(x, s1) := step s o in let '(xs, s2) := run s1 r in (x :: xs, s2)
    end.

  (* ---- which datastore entities differ between two states (for the frame comparison) *)
  Definition backend_eqb (a b : backend) : bool :=
    (bid a =? bid b)%string && (buser a =? buser b)%string && (euser a =? euser b)%string &&
    (Z.of_nat (List.length (prefixes a)) =? Z.of_nat (List.length (prefixes b))) &&
    forallb (fun pq => (fst pq =? snd pq)%string) (combine (prefixes a) (prefixes b)).
  Definition sreq_eqb (a b : sreq) : bool :=
    (q_backend a =? q_backend b)%string && (q_id a =? q_id b) && (q_user a =? q_user b)%string &&
    payload_eqb (q_pay a) (q_pay b) && Bool.eqb (q_done a) (q_done b).
  Definition opt_eqb {A} (eqb : A -> A -> bool) (a b : option A) : bool :=
    match a, b with Some x, Some y => eqb x y | None, None => true | _, _ => false end.

  (* may list a key twice; the comparison is on sets *)
  Definition changed (s s' : state) : list key :=
    let bids := map bid (backends s) ++ map bid (backends s') in
    let rks := map (fun q => (q_backend q, q_id q)) (dreq s) ++ map (fun q => (q_backend q, q_id q)) (dreq s') in
    let sks := map s_id (dresp s) ++ map s_id (dresp s') in
    map KBackend (filter (fun id => negb (opt_eqb backend_eqb (find_backend id (backends s)) (find_backend id (backends s')))) bids)
    ++ map (fun k => KReq (fst k) (snd k))
         (filter (fun k => negb (opt_eqb sreq_eqb (find_req (fst k) (snd k) (dreq s)) (find_req (fst k) (snd k) (dreq s')))) rks)
    ++ map KResp (filter (fun id => negb (opt_eqb (fun a b => payload_eqb (s_pay a) (s_pay b) && (s_backend a =? s_backend b)%string)
                                                  (find_dresp id (dresp s)) (find_dresp id (dresp s')))) sks).
End Model.
