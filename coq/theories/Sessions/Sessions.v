(* Model of agent/sessions/sessions.go: the session cache (an LRU of cookie jars
   keyed by session ID), ServeHTTP and the response writer's WriteHeader.
   The cookie jar is abstract: a jar is the list of the Set-Cookie operations
   applied to it (request indices); what net/http/cookiejar makes of them is
   evaluated by an independent jar in the correspondence run (parametricity).
   Session IDs are nat, 0 = "no session cookie"; fresh IDs (uuid) are drawn
   from a counter.  No proofs here. *)
From Coq Require Import List Arith Bool.
Import ListNotations.

Definition jar := list nat.                       (* indices of the requests whose Set-Cookie fields went in *)
Definition cache := list (nat * jar).             (* most recently used first *)

Fixpoint c_find (sid : nat) (c : cache) : option jar :=
  match c with [] => None | (s, j) :: r => if s =? sid then Some j else c_find sid r end.
Fixpoint c_remove (sid : nat) (c : cache) : cache :=
  match c with [] => [] | (s, j) :: r => if s =? sid then c_remove sid r else (s, j) :: c_remove sid r end.

Section S.
  Variable K : nat.                 (* session-cookie-cache-limit; 0 = unbounded (groupcache/lru) *)
  Variable cache_empty_id : bool.   (* the jar looked up for "no session" is stored in the cache (code before the repair) *)

  Definition bound (c : cache) : cache := match K with 0 => c | _ => firstn K c end.

  (* cachedCookieJar: Get (move to front) or create + Add *)
  Definition lookup (sid : nat) (c : cache) : jar * cache :=
    match c_find sid c with
    | Some j => (j, (sid, j) :: c_remove sid c)
    | None => if (sid =? 0) && negb cache_empty_id then ([], c) else ([], bound ((sid, []) :: c))
    end.

  (* jar.SetCookies mutates the jar object the cache holds (if it still holds it) *)
  Definition store (sid : nat) (j : jar) (c : cache) : cache :=
    map (fun e => if fst e =? sid then (sid, j) else e) c.

  Record sst := { s_cache : cache; s_next : nat; s_eff : list (nat * nat) (* ghost: request index -> session it ran in *) }.
  Definition s0 : sst := {| s_cache := []; s_next := 1; s_eff := [] |}.

  Record sout := {
    o_consulted : jar;        (* the Set-Cookie operations whose result is restored into the request *)
    o_issued : option nat;    (* the session cookie issued to the client *)
    o_session : nat           (* the session the response's cookies are stored under *)
  }.

  (* one request: index i, presented session `use` (0 = none), whether the backend sets cookies *)
  Definition serve (st : sst) (i use : nat) (sets : bool) : sst * sout :=
    let '(consulted, c1) := lookup use (s_cache st) in
    let sid' := if use =? 0 then s_next st else use in
    let next' := if use =? 0 then S (s_next st) else s_next st in
    let '(j', c2) := lookup sid' c1 in
    let c3 := if sets then store sid' (j' ++ [i]) c2 else c2 in
    ({| s_cache := c3; s_next := next'; s_eff := (i, sid') :: s_eff st |},
     {| o_consulted := consulted; o_issued := if use =? 0 then Some sid' else None; o_session := sid' |}).

  Fixpoint run (st : sst) (i : nat) (h : list (nat * bool)) : list sout :=
    match h with
    | [] => []
    | (use, sets) :: r => let '(st', o) := serve st i use sets in o :: run st' (S i) r
    end.

  Fixpoint run_state (st : sst) (i : nat) (h : list (nat * bool)) : sst :=
    match h with [] => st | (use, sets) :: r => run_state (fst (serve st i use sets)) (S i) r end.
End S.

Fixpoint eff_of (i : nat) (l : list (nat * nat)) : option nat :=
  match l with [] => None | (j, s) :: r => if j =? i then Some s else eff_of i r end.
