(* Model of sessionResponseWriter.WriteHeader / Write (agent/sessions/sessions.go) at the level of header fields: what the
   wrapped writer (and so the client) gets to see of the calls httputil.ReverseProxy makes for one response, and what goes
   into the session's cookie jar.  A WriteHeader call is modelled with the contents of the header map at that moment
   (ReverseProxy fills the map, then calls WriteHeader).  [has_session] = the request carried a session cookie;
   [sc] = the Set-Cookie value of a newly issued session cookie.  No proofs here. *)
From Coq Require Import String List Bool ZArith.
From IP Require Import Lib.Header.
Import ListNotations.
Local Open Scope Z_scope.

Definition set_cookie : string := "Set-Cookie"%string.

Record swstate := {
  sw_wrote : bool;
  sw_out : list (Z * header);          (* WriteHeader calls on the wrapped writer, with the header map they see *)
  sw_jar : list string                 (* Set-Cookie values handed to the session's jar, in order *)
}.
Definition sw_init : swstate := {| sw_wrote := false; sw_out := []; sw_jar := [] |}.

Definition informational (c : Z) : bool := (100 <=? c) && (c <=? 199).

Definition sw_header (has_session : bool) (sc : string) (s : swstate) (code : Z) (h : header) : swstate :=
  if sw_wrote s then s
  else if informational code then {| sw_wrote := false; sw_out := sw_out s ++ [(code, hdel set_cookie h)]; sw_jar := sw_jar s |}
  else
    let cookies := hvalues set_cookie h in
    let h1 := hdel set_cookie h in
    let h2 := if has_session then h1 else hadd set_cookie sc h1 in
    {| sw_wrote := true; sw_out := sw_out s ++ [(code, h2)]; sw_jar := sw_jar s ++ cookies |}.

Definition sw_run (has_session : bool) (sc : string) (calls : list (Z * header)) : swstate :=
  fold_left (fun s c => sw_header has_session sc s (fst c) (snd c)) calls sw_init.

(* correspondence: the final status the client saw, the number of Set-Cookie fields it saw and whether one of them is a backend
   cookie; 0 = agrees, 1 = status, 2 = a backend cookie visible / wrong number of Set-Cookie fields *)
Definition sw_case (has_session : bool) (interims : list Z) (final : Z) (backend_cookies : list string) (obs_status : Z) (obs_set_cookies : Z) : Z :=
  let h := fold_left (fun h v => hadd set_cookie v h) backend_cookies [("Content-Type"%string, ["text/plain"%string])] in
  let s := sw_run has_session "SESSION"%string (map (fun c => (c, [("Link"%string, ["x"%string])])) interims ++ [(final, h)]) in
  match last (sw_out s) (0, []) with
  | (c, hh) => if negb (c =? obs_status) then 1
               else if negb (Z.of_nat (length (hvalues set_cookie hh)) =? obs_set_cookies) then 2 else 0
  end.
