(* Executable evaluation of the session model on a history, for the correspondence run of C10; no proofs. *)
From Coq Require Import List Arith Bool ZArith.
From IP Require Import Gen.SrcFacts_Sessions Sessions.Sessions.
Import ListNotations.

Definition cache_empty_id_now : bool := match emptySessionIDNotCached with [1%Z] => false | _ => true end.

(* per request: [issued session id or 0] ++ consulted operations *)
Definition eval_history (K : nat) (h : list (nat * bool)) : list (list nat) :=
  map (fun o => (match o_issued o with Some s => s | None => 0 end) :: o_consulted o) (run K cache_empty_id_now s0 0 h).
