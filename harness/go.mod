module verif/harness

go 1.18

require (
	github.com/google/inverting-proxy v0.0.0
	golang.org/x/net v0.23.0
)

replace github.com/google/inverting-proxy => /repo
