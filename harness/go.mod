module verif/harness

go 1.18

require (
	github.com/golang/protobuf v1.5.3
	github.com/google/inverting-proxy v0.0.0
	golang.org/x/net v0.23.0
)

require google.golang.org/protobuf v1.33.0 // indirect

replace github.com/google/inverting-proxy => /repo
