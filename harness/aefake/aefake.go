// Package aefake is a fake of the App Engine API server ("service bridge") that the
// appengine/v2 SDK talks to over HTTP (POST /rpc_http, protobuf remote_api.Request).
// It implements what the inverting-proxy App Engine app uses: datastore_v3 {Put, Get,
// Delete, RunQuery, Next, BeginTransaction, Commit, Rollback}, memcache {Get, Set} and
// user {GetOAuthUser}.  The protobuf definitions are copies of the SDK's own generated
// files (harness/aepb).  Every operation can be scripted to fail.
package aefake

import (
	"fmt"
	"io"
	"net"
	"net/http"
	"os"
	"sort"
	"strings"
	"sync"

	"github.com/golang/protobuf/proto"

	dspb "verif/harness/aepb/datastore"
	mcpb "verif/harness/aepb/memcache"
	rpb "verif/harness/aepb/remote_api"
	upb "verif/harness/aepb/user"
)

// NoEmail as Identity.OAuthEmail stands for a valid OAuth token whose user has no e-mail address.
const NoEmail = "(token-without-email)"

// Identity is what the platform knows about the caller of one incoming request.
type Identity struct {
	OAuthEmail string // "" = no valid OAuth token
	OAuthAdmin bool
}

// Fault makes the n-th matching API call fail.
type Fault struct {
	Service, Method string
	KindContains    string // datastore: only calls touching a kind containing this
	KindExact       string // datastore queries: only this kind
	Remaining       int    // how many matching calls to fail (decremented)
}

type Op struct {
	Service, Method, Kind, Ticket string
	Failed                        bool
}

type Server struct {
	mu       sync.Mutex
	ln       net.Listener
	entities map[string]map[string]*dspb.EntityProto // kind -> key name -> entity
	cache    map[string][]byte
	idents   map[string]Identity // ticket -> identity
	faults   []*Fault
	Log      []Op
	txn      uint64
}

func New() (*Server, error) {
	ln, err := net.Listen("tcp", "127.0.0.1:0")
	if err != nil {
		return nil, err
	}
	s := &Server{ln: ln, entities: map[string]map[string]*dspb.EntityProto{}, cache: map[string][]byte{}, idents: map[string]Identity{}}
	mux := http.NewServeMux()
	mux.HandleFunc("/rpc_http", s.handle)
	go http.Serve(ln, mux)
	return s, nil
}

func (s *Server) Addr() (host, port string) {
	h, p, _ := net.SplitHostPort(s.ln.Addr().String())
	return h, p
}
func (s *Server) Close() { s.ln.Close() }

func (s *Server) SetIdentity(ticket string, id Identity) {
	s.mu.Lock()
	s.idents[ticket] = id
	s.mu.Unlock()
}

func (s *Server) AddFault(f Fault) {
	s.mu.Lock()
	s.faults = append(s.faults, &f)
	s.mu.Unlock()
}

func (s *Server) ClearFaults() {
	s.mu.Lock()
	s.faults = nil
	s.mu.Unlock()
}

func (s *Server) ClearCache() {
	s.mu.Lock()
	s.cache = map[string][]byte{}
	s.mu.Unlock()
}

// Snapshot returns a printable summary of the datastore: kind/name -> digest of the entity.
func (s *Server) Snapshot() map[string]string {
	s.mu.Lock()
	defer s.mu.Unlock()
	out := map[string]string{}
	for k, m := range s.entities {
		for n, e := range m {
			// the SDK emits struct fields in map order: compare entities up to the order of differently named properties
			c := proto.Clone(e).(*dspb.EntityProto)
			sort.SliceStable(c.Property, func(i, j int) bool { return c.Property[i].GetName() < c.Property[j].GetName() })
			sort.SliceStable(c.RawProperty, func(i, j int) bool { return c.RawProperty[i].GetName() < c.RawProperty[j].GetName() })
			b, _ := proto.Marshal(c)
			out[k+"/"+n] = fmt.Sprintf("%d:%x", len(b), fnv(b))
		}
	}
	return out
}

func fnv(b []byte) uint32 {
	h := uint32(2166136261)
	for _, c := range b {
		h ^= uint32(c)
		h *= 16777619
	}
	return h
}

// SetTimeProperty overwrites an int64 (time, microseconds) property of a stored entity.
func (s *Server) SetTimeProperty(kind, name, prop string, micros int64) bool {
	s.mu.Lock()
	defer s.mu.Unlock()
	e := s.entities[kind][name]
	if e == nil {
		return false
	}
	for _, p := range e.Property {
		if p.GetName() == prop {
			p.Value.Int64Value = proto.Int64(micros)
			return true
		}
	}
	return false
}

func (s *Server) HasEntity(kind, name string) bool {
	s.mu.Lock()
	defer s.mu.Unlock()
	return s.entities[kind][name] != nil
}

func keyOf(r *dspb.Reference) (kind, name string) {
	els := r.GetPath().GetElement()
	if len(els) == 0 {
		return "", ""
	}
	e := els[len(els)-1]
	if e.Name != nil {
		return e.GetType(), e.GetName()
	}
	return e.GetType(), fmt.Sprintf("#%d", e.GetId())
}

func (s *Server) failing(service, method, kind string) bool {
	for _, f := range s.faults {
		if f.Remaining > 0 && f.Service == service && f.Method == method && (f.KindContains == "" || strings.Contains(kind, f.KindContains)) && (f.KindExact == "" || kind == f.KindExact) {
			f.Remaining--
			return true
		}
	}
	return false
}

func (s *Server) handle(w http.ResponseWriter, r *http.Request) {
	body, _ := io.ReadAll(r.Body)
	var req rpb.Request
	if err := proto.Unmarshal(body, &req); err != nil {
		http.Error(w, err.Error(), 400)
		return
	}
	resp := &rpb.Response{}
	out, appErr, rpcErr := s.dispatch(req.GetServiceName(), req.GetMethod(), req.GetRequest(), req.GetRequestId())
	switch {
	case rpcErr != "":
		resp.RpcError = &rpb.RpcError{Code: proto.Int32(int32(rpb.RpcError_UNKNOWN)), Detail: proto.String(rpcErr)}
	case appErr != nil:
		resp.ApplicationError = appErr
	default:
		resp.Response = out
		if resp.Response == nil {
			resp.Response = []byte{}
		}
	}
	b, err := proto.Marshal(resp)
	if err != nil {
		http.Error(w, err.Error(), 500)
		return
	}
	w.Write(b)
}

func trunc(s string) string {
	out := ""
	for _, f := range strings.Split(s, " ") {
		if len(f) > 120 {
			f = f[:120] + "..."
		}
		out += f + " "
	}
	return out
}

func marshal(m proto.Message) []byte {
	b, err := proto.Marshal(m)
	if err != nil {
		panic(err)
	}
	return b
}

func (s *Server) dispatch(service, method string, in []byte, ticket string) (out []byte, appErr *rpb.ApplicationError, rpcErr string) {
	s.mu.Lock()
	defer s.mu.Unlock()
	op := Op{Service: service, Method: method, Ticket: ticket}
	defer func() {
		op.Failed = appErr != nil || rpcErr != ""
		s.Log = append(s.Log, op)
	}()
	fail := func(kind string) bool {
		op.Kind = kind
		return s.failing(service, method, kind)
	}
	switch service + "." + method {
	case "datastore_v3.Put":
		var req dspb.PutRequest
		if err := proto.Unmarshal(in, &req); err != nil {
			return nil, nil, err.Error()
		}
		res := &dspb.PutResponse{}
		kinds := ""
		for _, e := range req.Entity {
			k, _ := keyOf(e.Key)
			kinds += k + ","
		}
		if fail(kinds) {
			return nil, &rpb.ApplicationError{Code: proto.Int32(int32(dspb.Error_INTERNAL_ERROR)), Detail: proto.String("verif: scripted datastore failure")}, ""
		}
		for _, e := range req.Entity {
			k, n := keyOf(e.Key)
			if s.entities[k] == nil {
				s.entities[k] = map[string]*dspb.EntityProto{}
			}
			if os.Getenv("VERIF_AEFAKE_DEBUG") != "" && strings.HasPrefix(k, "req:") {
				if old := s.entities[k][n]; old != nil {
					fmt.Fprintf(os.Stderr, "REWRITE %s/%s\nOLD %s\nNEW %s\n", k, n, trunc(proto.CompactTextString(old)), trunc(proto.CompactTextString(e)))
				}
			}
			s.entities[k][n] = proto.Clone(e).(*dspb.EntityProto)
			res.Key = append(res.Key, e.Key)
		}
		return marshal(res), nil, ""
	case "datastore_v3.Get":
		var req dspb.GetRequest
		if err := proto.Unmarshal(in, &req); err != nil {
			return nil, nil, err.Error()
		}
		kinds := ""
		for _, k := range req.Key {
			kk, _ := keyOf(k)
			kinds += kk + ","
		}
		if fail(kinds) {
			return nil, &rpb.ApplicationError{Code: proto.Int32(int32(dspb.Error_INTERNAL_ERROR)), Detail: proto.String("verif: scripted datastore failure")}, ""
		}
		res := &dspb.GetResponse{}
		for _, k := range req.Key {
			kk, n := keyOf(k)
			ent := &dspb.GetResponse_Entity{Key: k}
			if e := s.entities[kk][n]; e != nil {
				ent.Entity = proto.Clone(e).(*dspb.EntityProto)
			}
			res.Entity = append(res.Entity, ent)
		}
		return marshal(res), nil, ""
	case "datastore_v3.Delete":
		var req dspb.DeleteRequest
		if err := proto.Unmarshal(in, &req); err != nil {
			return nil, nil, err.Error()
		}
		kinds := ""
		for _, k := range req.Key {
			kk, _ := keyOf(k)
			kinds += kk + ","
		}
		if fail(kinds) {
			return nil, &rpb.ApplicationError{Code: proto.Int32(int32(dspb.Error_INTERNAL_ERROR)), Detail: proto.String("verif: scripted datastore failure")}, ""
		}
		for _, k := range req.Key {
			kk, n := keyOf(k)
			delete(s.entities[kk], n)
		}
		return marshal(&dspb.DeleteResponse{}), nil, ""
	case "datastore_v3.RunQuery":
		var q dspb.Query
		if err := proto.Unmarshal(in, &q); err != nil {
			return nil, nil, err.Error()
		}
		if fail(q.GetKind()) {
			return nil, &rpb.ApplicationError{Code: proto.Int32(int32(dspb.Error_INTERNAL_ERROR)), Detail: proto.String("verif: scripted datastore failure")}, ""
		}
		var names []string
		for n := range s.entities[q.GetKind()] {
			names = append(names, n)
		}
		sort.Strings(names) // key order
		res := &dspb.QueryResult{MoreResults: proto.Bool(false), KeysOnly: proto.Bool(q.GetKeysOnly())}
		for _, n := range names {
			e := s.entities[q.GetKind()][n]
			if !matches(e, q.Filter) {
				continue
			}
			if q.Limit != nil && int32(len(res.Result)) >= q.GetLimit() {
				break
			}
			if q.GetKeysOnly() {
				res.Result = append(res.Result, &dspb.EntityProto{Key: e.Key, EntityGroup: e.EntityGroup})
			} else {
				res.Result = append(res.Result, proto.Clone(e).(*dspb.EntityProto))
			}
		}
		return marshal(res), nil, ""
	case "datastore_v3.Next":
		return marshal(&dspb.QueryResult{MoreResults: proto.Bool(false)}), nil, ""
	case "datastore_v3.BeginTransaction":
		var req dspb.BeginTransactionRequest
		proto.Unmarshal(in, &req)
		if fail("") {
			return nil, &rpb.ApplicationError{Code: proto.Int32(int32(dspb.Error_INTERNAL_ERROR)), Detail: proto.String("verif: scripted datastore failure")}, ""
		}
		s.txn++
		return marshal(&dspb.Transaction{Handle: proto.Uint64(s.txn), App: proto.String(req.GetApp())}), nil, ""
	case "datastore_v3.Commit":
		if fail("") {
			return nil, &rpb.ApplicationError{Code: proto.Int32(int32(dspb.Error_INTERNAL_ERROR)), Detail: proto.String("verif: scripted datastore failure")}, ""
		}
		return marshal(&dspb.CommitResponse{}), nil, ""
	case "datastore_v3.Rollback":
		return []byte{}, nil, ""
	case "memcache.Set":
		var req mcpb.MemcacheSetRequest
		if err := proto.Unmarshal(in, &req); err != nil {
			return nil, nil, err.Error()
		}
		if fail("") {
			return nil, nil, "verif: scripted memcache failure"
		}
		res := &mcpb.MemcacheSetResponse{}
		for _, it := range req.Item {
			s.cache[string(it.Key)] = append([]byte(nil), it.Value...)
			res.SetStatus = append(res.SetStatus, mcpb.MemcacheSetResponse_STORED)
		}
		return marshal(res), nil, ""
	case "memcache.Get":
		var req mcpb.MemcacheGetRequest
		if err := proto.Unmarshal(in, &req); err != nil {
			return nil, nil, err.Error()
		}
		if fail("") {
			return nil, nil, "verif: scripted memcache failure"
		}
		res := &mcpb.MemcacheGetResponse{}
		for _, k := range req.Key {
			if v, ok := s.cache[string(k)]; ok {
				res.Item = append(res.Item, &mcpb.MemcacheGetResponse_Item{Key: k, Value: v})
			}
		}
		return marshal(res), nil, ""
	case "user.GetOAuthUser":
		id := s.idents[ticket]
		if fail("") {
			return nil, nil, "verif: scripted user service failure"
		}
		if id.OAuthEmail == "" {
			return nil, &rpb.ApplicationError{Code: proto.Int32(int32(upb.UserServiceError_OAUTH_INVALID_TOKEN)), Detail: proto.String("no valid OAuth token")}, ""
		}
		if id.OAuthEmail == NoEmail {
			// a valid token whose user has no e-mail address (the scope did not cover it): the SDK hands out a user with Email ""
			return marshal(&upb.GetOAuthUserResponse{Email: proto.String(""), UserId: proto.String("uid-no-email"), AuthDomain: proto.String("gmail.com"), IsAdmin: proto.Bool(false)}), nil, ""
		}
		return marshal(&upb.GetOAuthUserResponse{Email: proto.String(id.OAuthEmail), UserId: proto.String("uid-" + id.OAuthEmail), AuthDomain: proto.String("gmail.com"), IsAdmin: proto.Bool(id.OAuthAdmin)}), nil, ""
	}
	return nil, nil, "verif: unsupported API call " + service + "." + method
}

func propValue(e *dspb.EntityProto, name string) *dspb.PropertyValue {
	for _, p := range e.Property {
		if p.GetName() == name {
			return p.Value
		}
	}
	return nil
}

func matches(e *dspb.EntityProto, filters []*dspb.Query_Filter) bool {
	for _, f := range filters {
		if len(f.Property) != 1 {
			return false
		}
		want := f.Property[0]
		have := propValue(e, want.GetName())
		if have == nil {
			return false
		}
		c, ok := compare(have, want.Value)
		if !ok {
			return false
		}
		switch f.GetOp() {
		case dspb.Query_Filter_EQUAL:
			if c != 0 {
				return false
			}
		case dspb.Query_Filter_LESS_THAN:
			if c >= 0 {
				return false
			}
		case dspb.Query_Filter_LESS_THAN_OR_EQUAL:
			if c > 0 {
				return false
			}
		case dspb.Query_Filter_GREATER_THAN:
			if c <= 0 {
				return false
			}
		case dspb.Query_Filter_GREATER_THAN_OR_EQUAL:
			if c < 0 {
				return false
			}
		default:
			return false
		}
	}
	return true
}

func compare(a, b *dspb.PropertyValue) (int, bool) {
	switch {
	case a.Int64Value != nil && b.Int64Value != nil:
		return cmpInt(a.GetInt64Value(), b.GetInt64Value()), true
	case a.BooleanValue != nil && b.BooleanValue != nil:
		x, y := 0, 0
		if a.GetBooleanValue() {
			x = 1
		}
		if b.GetBooleanValue() {
			y = 1
		}
		return cmpInt(int64(x), int64(y)), true
	case a.StringValue != nil && b.StringValue != nil:
		return strings.Compare(a.GetStringValue(), b.GetStringValue()), true
	}
	return 0, false
}

func cmpInt(a, b int64) int {
	if a < b {
		return -1
	}
	if a > b {
		return 1
	}
	return 0
}

// Reset forgets all entities, cache entries, faults and the log.
func (s *Server) Reset() {
	s.mu.Lock()
	s.entities = map[string]map[string]*dspb.EntityProto{}
	s.cache = map[string][]byte{}
	s.faults = nil
	s.Log = nil
	s.mu.Unlock()
}

// EntInfo is a printable view of one stored entity.
type EntInfo struct {
	Kind, Name string
	Str        map[string][]string // string/blob properties (blobs: only their length is kept in Len)
	Len        map[string][]int
	Int        map[string]int64
	Bool       map[string]bool
}

// Entities lists the stored entities whose kind starts with kindPrefix.
func (s *Server) Entities(kindPrefix string) []EntInfo {
	s.mu.Lock()
	defer s.mu.Unlock()
	var out []EntInfo
	for k, m := range s.entities {
		if !strings.HasPrefix(k, kindPrefix) {
			continue
		}
		for n, e := range m {
			inf := EntInfo{Kind: k, Name: n, Str: map[string][]string{}, Len: map[string][]int{}, Int: map[string]int64{}, Bool: map[string]bool{}}
			for _, pl := range [][]*dspb.Property{e.Property, e.RawProperty} {
				for _, p := range pl {
					v := p.GetValue()
					switch {
					case v.StringValue != nil:
						sv := v.GetStringValue()
						inf.Len[p.GetName()] = append(inf.Len[p.GetName()], len(sv))
						if len(sv) <= 256 {
							inf.Str[p.GetName()] = append(inf.Str[p.GetName()], sv)
						}
					case v.Int64Value != nil:
						inf.Int[p.GetName()] = v.GetInt64Value()
					case v.BooleanValue != nil:
						inf.Bool[p.GetName()] = v.GetBooleanValue()
					}
				}
			}
			out = append(out, inf)
		}
	}
	sort.Slice(out, func(i, j int) bool { return out[i].Kind+"/"+out[i].Name < out[j].Kind+"/"+out[j].Name })
	return out
}

// CacheKeys lists the memcache keys.
func (s *Server) CacheKeys() []string {
	s.mu.Lock()
	defer s.mu.Unlock()
	var out []string
	for k := range s.cache {
		out = append(out, k)
	}
	sort.Strings(out)
	return out
}

// LogLen / LogSince give access to the operation log.
func (s *Server) LogLen() int {
	s.mu.Lock()
	defer s.mu.Unlock()
	return len(s.Log)
}
func (s *Server) LogSince(n int) []Op {
	s.mu.Lock()
	defer s.mu.Unlock()
	return append([]Op(nil), s.Log[n:]...)
}
