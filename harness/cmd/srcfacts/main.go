// Command srcfacts regenerates the Coq files Gen/SrcFacts_*.v from the current
// working tree of the repository under verification.  It is a translator for
// the small part of the source the proofs depend on directly: named constants
// (by constant evaluation), string tables (map keys / case lists), literal
// channel capacities, the http.Header method used at a call site, and the
// fatal-exit sites reachable from the per-request code.
//
// A fact that cannot be located is emitted as its documented default together
// with an entry in the `missing` list; the check driver reports it.
package main

import (
	"encoding/json"
	"flag"
	"fmt"
	"go/ast"
	"go/parser"
	"go/token"
	"go/types"
	"math/big"
	"os"
	"path/filepath"
	"regexp"
	"sort"
	"strconv"
	"strings"
)

type pkg struct {
	dir   string
	fset  *token.FileSet
	files []*ast.File
}

func loadPkg(root, dir string) (*pkg, error) {
	fset := token.NewFileSet()
	pkgs, err := parser.ParseDir(fset, filepath.Join(root, dir), func(fi os.FileInfo) bool {
		return !strings.HasSuffix(fi.Name(), "_test.go")
	}, parser.ParseComments)
	if err != nil {
		return nil, err
	}
	p := &pkg{dir: dir, fset: fset}
	var names []string
	for n := range pkgs {
		names = append(names, n)
	}
	sort.Strings(names)
	for _, n := range names {
		var fns []string
		for fn := range pkgs[n].Files {
			fns = append(fns, fn)
		}
		sort.Strings(fns)
		for _, fn := range fns {
			p.files = append(p.files, pkgs[n].Files[fn])
		}
	}
	return p, nil
}

// ---- constant evaluation (exact rationals) ----

var timeUnits = map[string]int64{
	"Nanosecond": 1, "Microsecond": 1e3, "Millisecond": 1e6, "Second": 1e9, "Minute": 60e9, "Hour": 3600e9,
}

func (p *pkg) constExpr(name string) ast.Expr {
	for _, f := range p.files {
		for _, d := range f.Decls {
			gd, ok := d.(*ast.GenDecl)
			if !ok || (gd.Tok != token.CONST && gd.Tok != token.VAR) {
				continue
			}
			for _, s := range gd.Specs {
				vs := s.(*ast.ValueSpec)
				for i, n := range vs.Names {
					if n.Name == name && i < len(vs.Values) {
						return vs.Values[i]
					}
				}
			}
		}
	}
	return nil
}

func (p *pkg) eval(e ast.Expr, depth int) (*big.Rat, error) {
	if depth > 20 {
		return nil, fmt.Errorf("too deep")
	}
	switch x := e.(type) {
	case *ast.BasicLit:
		switch x.Kind {
		case token.INT:
			v, ok := new(big.Int).SetString(strings.ReplaceAll(x.Value, "_", ""), 0)
			if !ok {
				return nil, fmt.Errorf("bad int %q", x.Value)
			}
			return new(big.Rat).SetInt(v), nil
		case token.FLOAT:
			r, ok := new(big.Rat).SetString(strings.ReplaceAll(x.Value, "_", ""))
			if !ok {
				return nil, fmt.Errorf("bad float %q", x.Value)
			}
			return r, nil
		}
		return nil, fmt.Errorf("unsupported literal %s", x.Value)
	case *ast.ParenExpr:
		return p.eval(x.X, depth+1)
	case *ast.Ident:
		ce := p.constExpr(x.Name)
		if ce == nil {
			return nil, fmt.Errorf("unknown identifier %s", x.Name)
		}
		return p.eval(ce, depth+1)
	case *ast.SelectorExpr:
		if id, ok := x.X.(*ast.Ident); ok && id.Name == "time" {
			if u, ok := timeUnits[x.Sel.Name]; ok {
				return new(big.Rat).SetInt64(u), nil
			}
		}
		return nil, fmt.Errorf("unsupported selector")
	case *ast.UnaryExpr:
		v, err := p.eval(x.X, depth+1)
		if err != nil {
			return nil, err
		}
		if x.Op == token.SUB {
			return new(big.Rat).Neg(v), nil
		}
		if x.Op == token.ADD {
			return v, nil
		}
		return nil, fmt.Errorf("unsupported unary")
	case *ast.CallExpr:
		// conversions such as time.Duration(x), int64(x)
		if len(x.Args) == 1 {
			return p.eval(x.Args[0], depth+1)
		}
		return nil, fmt.Errorf("unsupported call")
	case *ast.BinaryExpr:
		a, err := p.eval(x.X, depth+1)
		if err != nil {
			return nil, err
		}
		b, err := p.eval(x.Y, depth+1)
		if err != nil {
			return nil, err
		}
		switch x.Op {
		case token.ADD:
			return new(big.Rat).Add(a, b), nil
		case token.SUB:
			return new(big.Rat).Sub(a, b), nil
		case token.MUL:
			return new(big.Rat).Mul(a, b), nil
		case token.QUO:
			if b.Sign() == 0 {
				return nil, fmt.Errorf("division by zero")
			}
			if a.IsInt() && b.IsInt() {
				q := new(big.Int).Quo(a.Num(), b.Num())
				return new(big.Rat).SetInt(q), nil
			}
			return new(big.Rat).Quo(a, b), nil
		case token.SHL:
			if a.IsInt() && b.IsInt() && b.Num().IsInt64() && b.Num().Int64() < 4096 {
				return new(big.Rat).SetInt(new(big.Int).Lsh(a.Num(), uint(b.Num().Int64()))), nil
			}
		}
		return nil, fmt.Errorf("unsupported binary op %s", x.Op)
	}
	return nil, fmt.Errorf("unsupported expression %T", e)
}

func (p *pkg) funcDecl(name string) *ast.FuncDecl {
	for _, f := range p.files {
		for _, d := range f.Decls {
			if fd, ok := d.(*ast.FuncDecl); ok && fd.Name.Name == name && fd.Body != nil {
				return fd
			}
		}
	}
	return nil
}

// funcDeclRecv finds a method by receiver type name and method name.
func (p *pkg) methodDecl(recv, name string) *ast.FuncDecl {
	for _, f := range p.files {
		for _, d := range f.Decls {
			fd, ok := d.(*ast.FuncDecl)
			if !ok || fd.Name.Name != name || fd.Recv == nil || len(fd.Recv.List) == 0 || fd.Body == nil {
				continue
			}
			t := fd.Recv.List[0].Type
			if st, ok := t.(*ast.StarExpr); ok {
				t = st.X
			}
			if id, ok := t.(*ast.Ident); ok && id.Name == recv {
				return fd
			}
		}
	}
	return nil
}

// assignedExprs returns the source text of every expression assigned (:= or =) to the plain identifier
// `name` anywhere in fd, in source order.
func assignedExprs(fd *ast.FuncDecl, name string) []string {
	var out []string
	if fd == nil {
		return nil
	}
	ast.Inspect(fd.Body, func(n ast.Node) bool {
		switch st := n.(type) {
		case *ast.AssignStmt:
			for i, l := range st.Lhs {
				if id, ok := l.(*ast.Ident); ok && id.Name == name {
					if len(st.Rhs) == len(st.Lhs) {
						out = append(out, types.ExprString(st.Rhs[i]))
					} else if len(st.Rhs) == 1 {
						out = append(out, fmt.Sprintf("#%d of %s", i, types.ExprString(st.Rhs[0])))
					}
				}
			}
		case *ast.ValueSpec:
			for i, id := range st.Names {
				if id.Name == name {
					if i < len(st.Values) {
						out = append(out, types.ExprString(st.Values[i]))
					} else {
						out = append(out, "<zero value>")
					}
				}
			}
		case *ast.IncDecStmt:
			if id, ok := st.X.(*ast.Ident); ok && id.Name == name {
				out = append(out, types.ExprString(st.X)+st.Tok.String())
			}
		}
		return true
	})
	return out
}

// indexKeysAssigned returns the index expressions k of every statement `<sel>[k] = ...` in fd whose indexed
// operand prints as sel; sentValues the values v of every send `<ch> <- v` whose channel prints as ch.
func indexKeysAssigned(fd *ast.FuncDecl, sel string) []string {
	var out []string
	if fd == nil {
		return nil
	}
	ast.Inspect(fd.Body, func(n ast.Node) bool {
		if st, ok := n.(*ast.AssignStmt); ok {
			for _, l := range st.Lhs {
				if ix, ok := l.(*ast.IndexExpr); ok && types.ExprString(ix.X) == sel {
					out = append(out, types.ExprString(ix.Index))
				}
			}
		}
		return true
	})
	return out
}

func sentValues(fd *ast.FuncDecl, ch string) []string {
	var out []string
	if fd == nil {
		return nil
	}
	ast.Inspect(fd.Body, func(n ast.Node) bool {
		if st, ok := n.(*ast.SendStmt); ok && types.ExprString(st.Chan) == ch {
			out = append(out, types.ExprString(st.Value))
		}
		return true
	})
	return out
}

// pkgCalls lists, in source order, the calls `<pkgName>.<F>(...)` made anywhere in fd, as "<pkgName>.<F>".
func pkgCalls(fd *ast.FuncDecl, pkgName string) []string {
	var out []string
	if fd == nil {
		return nil
	}
	ast.Inspect(fd.Body, func(n ast.Node) bool {
		if ce, ok := n.(*ast.CallExpr); ok {
			if sel, ok := ce.Fun.(*ast.SelectorExpr); ok {
				if id, ok := sel.X.(*ast.Ident); ok && id.Name == pkgName {
					out = append(out, pkgName+"."+sel.Sel.Name)
				}
			}
		}
		return true
	})
	return out
}

// callArgs returns the printed arguments (from index `from`) of the first call to `<pkgName>.<fn>` in fd.
func callArgs(fd *ast.FuncDecl, pkgName, fn string, from int) ([]string, bool) {
	var out []string
	found := false
	if fd == nil {
		return nil, false
	}
	ast.Inspect(fd.Body, func(n ast.Node) bool {
		if ce, ok := n.(*ast.CallExpr); ok && !found {
			if sel, ok := ce.Fun.(*ast.SelectorExpr); ok && sel.Sel.Name == fn {
				if id, ok := sel.X.(*ast.Ident); ok && id.Name == pkgName {
					found = true
					for i, a := range ce.Args {
						if i >= from {
							out = append(out, types.ExprString(a))
						}
					}
				}
			}
		}
		return true
	})
	return out, found
}

// callOrder returns, for the statements of fd's body (top level and nested), the source-ordered list of those
// calls whose printed callee is in `names`.
func callOrder(fd *ast.FuncDecl, names map[string]bool) []string {
	var out []string
	if fd == nil {
		return nil
	}
	ast.Inspect(fd.Body, func(n ast.Node) bool {
		if ce, ok := n.(*ast.CallExpr); ok {
			if s := types.ExprString(ce.Fun); names[s] {
				out = append(out, s)
			}
		}
		return true
	})
	return out
}

// methodCallsOn lists, in source order, the methods called on the plain identifier `recv` in fd.
func methodCallsOn(fd *ast.FuncDecl, recv string) []string {
	var out []string
	if fd == nil {
		return nil
	}
	ast.Inspect(fd.Body, func(n ast.Node) bool {
		if ce, ok := n.(*ast.CallExpr); ok {
			if sel, ok := ce.Fun.(*ast.SelectorExpr); ok {
				if id, ok := sel.X.(*ast.Ident); ok && id.Name == recv {
					out = append(out, sel.Sel.Name)
				}
			}
		}
		return true
	})
	return out
}

// limitCalls lists "<func>: <call>" for every call in the package whose callee name sets a deadline, a size limit or a
// socket option that can end or truncate a connection which neither peer has closed; calls inside the functions named in
// `except` (implementations of the net.Conn interface itself) are not listed.
func limitCalls(p *pkg, except map[string]bool) []string {
	names := map[string]bool{"SetDeadline": true, "SetReadDeadline": true, "SetWriteDeadline": true, "SetLinger": true, "SetReadLimit": true,
		"MaxBytesReader": true, "WithTimeout": true, "WithDeadline": true, "SetKeepAlive": true, "SetKeepAlivePeriod": true, "LimitReader": true,
		"TimeoutHandler": true, "MaxBytesHandler": true, "AfterFunc": true}
	fns := p.allFuncs()
	var keys []string
	for k := range fns {
		keys = append(keys, k)
	}
	sort.Strings(keys)
	var out []string
	for _, k := range keys {
		if except[k] {
			continue
		}
		ast.Inspect(fns[k].Body, func(n ast.Node) bool {
			if ce, ok := n.(*ast.CallExpr); ok {
				if sel, ok := ce.Fun.(*ast.SelectorExpr); ok && names[sel.Sel.Name] {
					out = append(out, k+": "+types.ExprString(ce.Fun))
				}
			}
			return true
		})
	}
	return out
}

// copyLoops describes every function literal in fd that calls io.Copy: "io.Copy(dst, src); x.Close(); ..." (the statements
// of the literal that are plain calls, in order, deferred ones marked).
func copyLoops(fd *ast.FuncDecl) []string {
	var out []string
	if fd == nil {
		return nil
	}
	ast.Inspect(fd.Body, func(n ast.Node) bool {
		fl, ok := n.(*ast.FuncLit)
		if !ok {
			return true
		}
		var parts []string
		has := false
		for _, st := range fl.Body.List {
			switch x := st.(type) {
			case *ast.ExprStmt:
				if ce, ok := x.X.(*ast.CallExpr); ok {
					txt := types.ExprString(ce)
					if strings.HasPrefix(txt, "io.Copy(") {
						has = true
					}
					parts = append(parts, txt)
				}
			case *ast.DeferStmt:
				parts = append(parts, "defer "+types.ExprString(x.Call))
			}
		}
		if has {
			out = append(out, strings.Join(parts, "; "))
		}
		return true
	})
	return out
}

// deferredCalls lists the deferred calls written directly in fd's outermost function literal or body that contains the
// io.Copy goroutines (not those inside the goroutines), in source order.
func deferredCalls(body *ast.BlockStmt) []string {
	var out []string
	if body == nil {
		return nil
	}
	var walk func(n ast.Node, depth int)
	walk = func(n ast.Node, depth int) {
		ast.Inspect(n, func(m ast.Node) bool {
			if m == n {
				return true
			}
			switch x := m.(type) {
			case *ast.GoStmt:
				return false // goroutines have their own defers
			case *ast.DeferStmt:
				out = append(out, types.ExprString(x.Call))
			}
			return true
		})
	}
	walk(body, 0)
	return out
}

// timeoutFields lists "<func>: <what>" for every struct-literal field and every assignment to a selector whose name ends in
// Timeout or Deadline (http.Server{ReadTimeout: ...}, client.Timeout = ..., net.Dialer{Timeout: ...}).
func timeoutFields(p *pkg) []string {
	fns := p.allFuncs()
	var keys []string
	for k := range fns {
		keys = append(keys, k)
	}
	sort.Strings(keys)
	isT := func(n string) bool { return strings.HasSuffix(n, "Timeout") || strings.HasSuffix(n, "Deadline") }
	var out []string
	for _, k := range keys {
		ast.Inspect(fns[k].Body, func(n ast.Node) bool {
			switch x := n.(type) {
			case *ast.CompositeLit:
				if x.Type == nil {
					return true
				}
				for _, el := range x.Elts {
					if kv, ok := el.(*ast.KeyValueExpr); ok {
						if id, ok := kv.Key.(*ast.Ident); ok && isT(id.Name) {
							out = append(out, k+": "+types.ExprString(x.Type)+"{"+id.Name+"}")
						}
					}
				}
			case *ast.AssignStmt:
				for i, l := range x.Lhs {
					if sel, ok := l.(*ast.SelectorExpr); ok && isT(sel.Sel.Name) && i < len(x.Rhs) {
						out = append(out, k+": "+types.ExprString(l)+" = "+types.ExprString(x.Rhs[i]))
					}
				}
			}
			return true
		})
	}
	return out
}

// calleesIn lists the printed callees of every call in fd, in source order (arguments before the call that uses them is
// not guaranteed: this is ast.Inspect's pre-order).
func calleesIn(fd *ast.FuncDecl) []string {
	var out []string
	if fd == nil {
		return nil
	}
	ast.Inspect(fd.Body, func(n ast.Node) bool {
		if ce, ok := n.(*ast.CallExpr); ok {
			out = append(out, types.ExprString(ce.Fun))
		}
		return true
	})
	return out
}

// literalField returns the printed value of field `name` in the first composite literal inside fd that has it.
func literalField(fd *ast.FuncDecl, name string) (string, bool) {
	res, found := "", false
	if fd == nil {
		return "", false
	}
	ast.Inspect(fd.Body, func(n ast.Node) bool {
		if kv, ok := n.(*ast.KeyValueExpr); ok && !found {
			if id, ok := kv.Key.(*ast.Ident); ok && id.Name == name {
				res, found = types.ExprString(kv.Value), true
			}
		}
		return true
	})
	return res, found
}

// stmtsBeforeRange renders, in source order, the statements that precede the `for ... range <over>` statement in its block,
// starting at the last one that calls io.Copy: assignments and calls as their expressions, an if statement as
// "if <cond> { ...; return }" when its body ends in a return (and "if <cond> {...}" otherwise).
func stmtsBeforeRange(fd *ast.FuncDecl, over string) ([]string, bool) {
	if fd == nil {
		return nil, false
	}
	var out []string
	found := false
	ast.Inspect(fd.Body, func(n ast.Node) bool {
		var list []ast.Stmt
		switch b := n.(type) {
		case *ast.BlockStmt:
			list = b.List
		case *ast.CaseClause:
			list = b.Body
		case *ast.CommClause:
			list = b.Body
		default:
			return true
		}
		for i, st := range list {
			rs, ok := st.(*ast.RangeStmt)
			if !ok || types.ExprString(rs.X) != over || found {
				continue
			}
			found = true
			start := 0
			render := func(st ast.Stmt) string {
				switch x := st.(type) {
				case *ast.ExprStmt:
					return types.ExprString(x.X)
				case *ast.AssignStmt:
					var r []string
					for _, e := range x.Rhs {
						r = append(r, types.ExprString(e))
					}
					var l []string
					for _, e := range x.Lhs {
						l = append(l, types.ExprString(e))
					}
					return strings.Join(l, ", ") + " " + x.Tok.String() + " " + strings.Join(r, ", ")
				case *ast.IfStmt:
					ends := false
					if k := len(x.Body.List); k > 0 {
						_, ends = x.Body.List[k-1].(*ast.ReturnStmt)
					}
					if ends && x.Else == nil && x.Init == nil {
						return "if " + types.ExprString(x.Cond) + " { ...; return }"
					}
					return "if " + types.ExprString(x.Cond) + " {...}"
				}
				return fmt.Sprintf("%T", st)
			}
			for j := 0; j < i; j++ {
				if strings.Contains(render(list[j]), "io.Copy(") {
					start = j
				}
			}
			for j := start; j < i; j++ {
				out = append(out, render(list[j]))
			}
		}
		return true
	})
	return out, found
}

// fieldAssignments lists, in source order, the assignments to fields of the variable named recv inside fd:
// "<field> = <expr>" (a composite literal is rendered by its type only).
func fieldAssignments(fd *ast.FuncDecl, recv string) []string {
	var out []string
	if fd == nil {
		return nil
	}
	ast.Inspect(fd.Body, func(n ast.Node) bool {
		as, ok := n.(*ast.AssignStmt)
		if !ok {
			return true
		}
		for i, l := range as.Lhs {
			se, ok := l.(*ast.SelectorExpr)
			if !ok || i >= len(as.Rhs) {
				continue
			}
			if id, ok := se.X.(*ast.Ident); !ok || id.Name != recv {
				continue
			}
			var r ast.Expr = as.Rhs[i]
			if u, ok := r.(*ast.UnaryExpr); ok {
				if cl, ok := u.X.(*ast.CompositeLit); ok {
					out = append(out, se.Sel.Name+" = &"+types.ExprString(cl.Type)+"{...}")
					continue
				}
			}
			if cl, ok := r.(*ast.CompositeLit); ok {
				out = append(out, se.Sel.Name+" = "+types.ExprString(cl.Type)+"{...}")
				continue
			}
			out = append(out, se.Sel.Name+" = "+types.ExprString(r))
		}
		return true
	})
	return out
}

// ifConds lists the conditions of the if statements of fd, in source order (an else-if counts as its own statement).
func ifConds(fd *ast.FuncDecl) []string {
	var out []string
	if fd == nil {
		return nil
	}
	ast.Inspect(fd.Body, func(n ast.Node) bool {
		if is, ok := n.(*ast.IfStmt); ok {
			c := types.ExprString(is.Cond)
			if is.Init != nil {
				if as, ok := is.Init.(*ast.AssignStmt); ok && len(as.Rhs) == 1 {
					c = types.ExprString(as.Rhs[0]) + "; " + c
				}
			}
			out = append(out, c)
		}
		return true
	})
	return out
}

// packageVars lists the names of the package-level variables of p (non-test files), sorted.
func packageVars(p *pkg) []string {
	var out []string
	for _, f := range p.files {
		for _, d := range f.Decls {
			gd, ok := d.(*ast.GenDecl)
			if !ok || gd.Tok != token.VAR {
				continue
			}
			for _, sp := range gd.Specs {
				if vs, ok := sp.(*ast.ValueSpec); ok {
					for _, n := range vs.Names {
						out = append(out, n.Name)
					}
				}
			}
		}
	}
	sort.Strings(out)
	return out
}

// updatesOf lists, in source order, the statements of fd that change the variable name: "name++", "name--", "name = <expr>",
// "name += <expr>" (declarations with := included).
func updatesOf(fd *ast.FuncDecl, name string) []string {
	var out []string
	if fd == nil {
		return nil
	}
	ast.Inspect(fd.Body, func(n ast.Node) bool {
		switch x := n.(type) {
		case *ast.IncDecStmt:
			if id, ok := x.X.(*ast.Ident); ok && id.Name == name {
				out = append(out, name+x.Tok.String())
			}
		case *ast.AssignStmt:
			for i, l := range x.Lhs {
				if id, ok := l.(*ast.Ident); ok && id.Name == name && i < len(x.Rhs) {
					out = append(out, name+" "+x.Tok.String()+" "+types.ExprString(x.Rhs[i]))
				}
			}
		}
		return true
	})
	return out
}

// rangeBody renders the top-level statements of the body of the first `for ... range <over>` loop in fd: assignments and calls
// as their expressions, an if statement as "if <cond> { continue }" / "if <cond> {...}".
func rangeBody(fd *ast.FuncDecl, over string) ([]string, bool) {
	if fd == nil {
		return nil, false
	}
	var out []string
	found := false
	ast.Inspect(fd.Body, func(n ast.Node) bool {
		rs, ok := n.(*ast.RangeStmt)
		if !ok || found || types.ExprString(rs.X) != over {
			return true
		}
		found = true
		for _, st := range rs.Body.List {
			switch x := st.(type) {
			case *ast.ExprStmt:
				out = append(out, types.ExprString(x.X))
			case *ast.AssignStmt:
				var l, r []string
				for _, e := range x.Lhs {
					l = append(l, types.ExprString(e))
				}
				for _, e := range x.Rhs {
					r = append(r, types.ExprString(e))
				}
				out = append(out, strings.Join(l, ", ")+" "+x.Tok.String()+" "+strings.Join(r, ", "))
			case *ast.IfStmt:
				if len(x.Body.List) == 1 {
					if bs, ok := x.Body.List[0].(*ast.BranchStmt); ok && bs.Tok == token.CONTINUE && x.Else == nil {
						out = append(out, "if "+types.ExprString(x.Cond)+" { continue }")
						continue
					}
				}
				out = append(out, "if "+types.ExprString(x.Cond)+" {...}")
			default:
				out = append(out, fmt.Sprintf("%T", st))
			}
		}
		return false
	})
	return out, found
}

// goStmts lists "<func>: go <callee>" for every go statement of the package ("go func" for a function literal).
func goStmts(p *pkg) []string {
	fns := p.allFuncs()
	var keys []string
	for k := range fns {
		keys = append(keys, k)
	}
	sort.Strings(keys)
	var out []string
	for _, k := range keys {
		ast.Inspect(fns[k].Body, func(n ast.Node) bool {
			if g, ok := n.(*ast.GoStmt); ok {
				c := "func"
				if _, isLit := g.Call.Fun.(*ast.FuncLit); !isLit {
					c = types.ExprString(g.Call.Fun)
				}
				out = append(out, k+": go "+c)
			}
			return true
		})
	}
	return out
}

func strLit(e ast.Expr) (string, bool) {
	if bl, ok := e.(*ast.BasicLit); ok && bl.Kind == token.STRING {
		s, err := strconv.Unquote(bl.Value)
		if err == nil {
			return s, true
		}
	}
	return "", false
}

// mapKeys returns the string keys of a package-level map literal variable.
func (p *pkg) mapKeys(name string) ([]string, bool) {
	e := p.constExpr(name)
	cl, ok := e.(*ast.CompositeLit)
	if !ok {
		return nil, false
	}
	var keys []string
	for _, el := range cl.Elts {
		kv, ok := el.(*ast.KeyValueExpr)
		if !ok {
			return nil, false
		}
		s, ok := strLit(kv.Key)
		if !ok {
			return nil, false
		}
		if id, ok := kv.Value.(*ast.Ident); ok && id.Name == "false" {
			continue
		}
		keys = append(keys, s)
	}
	sort.Strings(keys)
	return keys, true
}

// caseStrings returns the string literals of the `return true` case clauses
// of the first switch statement of the function.
func (p *pkg) caseStrings(fn string) ([]string, bool) {
	fd := p.funcDecl(fn)
	if fd == nil {
		return nil, false
	}
	var out []string
	found := false
	ast.Inspect(fd.Body, func(n ast.Node) bool {
		sw, ok := n.(*ast.SwitchStmt)
		if !ok || found {
			return true
		}
		found = true
		for _, c := range sw.Body.List {
			cc := c.(*ast.CaseClause)
			retTrue := false
			for _, st := range cc.Body {
				if rs, ok := st.(*ast.ReturnStmt); ok && len(rs.Results) == 1 {
					if id, ok := rs.Results[0].(*ast.Ident); ok && id.Name == "true" {
						retTrue = true
					}
				}
			}
			if !retTrue {
				continue
			}
			for _, e := range cc.List {
				if s, ok := strLit(e); ok {
					out = append(out, s)
				}
			}
		}
		return false
	})
	sort.Strings(out)
	return out, found
}

// chanCaps returns the capacities of the make(chan ...) calls in a function
// body, in source order (0 for unbuffered); -1 when not a constant.
func (p *pkg) chanCaps(fd *ast.FuncDecl) []int64 {
	var caps []int64
	if fd == nil {
		return nil
	}
	ast.Inspect(fd.Body, func(n ast.Node) bool {
		ce, ok := n.(*ast.CallExpr)
		if !ok {
			return true
		}
		id, ok := ce.Fun.(*ast.Ident)
		if !ok || id.Name != "make" || len(ce.Args) == 0 {
			return true
		}
		if _, ok := ce.Args[0].(*ast.ChanType); !ok {
			return true
		}
		if len(ce.Args) == 1 {
			caps = append(caps, 0)
			return true
		}
		v, err := p.eval(ce.Args[1], 0)
		if err != nil || !v.IsInt() {
			caps = append(caps, -1)
		} else {
			caps = append(caps, v.Num().Int64())
		}
		return true
	})
	return caps
}

// headerMethods returns, in source order, the method names M of calls of the
// form <expr>.Header.M(<sel or ident named hdr>, ...) in the function.
func (p *pkg) headerMethods(fn, hdr string) []string {
	fd := p.funcDecl(fn)
	var out []string
	if fd == nil {
		return nil
	}
	ast.Inspect(fd.Body, func(n ast.Node) bool {
		ce, ok := n.(*ast.CallExpr)
		if !ok || len(ce.Args) == 0 {
			return true
		}
		sel, ok := ce.Fun.(*ast.SelectorExpr)
		if !ok {
			return true
		}
		inner, ok := sel.X.(*ast.SelectorExpr)
		if !ok || inner.Sel.Name != "Header" {
			return true
		}
		name := ""
		switch a := ce.Args[0].(type) {
		case *ast.SelectorExpr:
			name = a.Sel.Name
		case *ast.Ident:
			name = a.Name
		}
		if name == hdr {
			out = append(out, sel.Sel.Name)
		}
		return true
	})
	return out
}

// ---- fatal sites reachable from roots (name-resolved call graph inside a package) ----

func (p *pkg) allFuncs() map[string]*ast.FuncDecl {
	m := map[string]*ast.FuncDecl{}
	for _, f := range p.files {
		for _, d := range f.Decls {
			if fd, ok := d.(*ast.FuncDecl); ok && fd.Body != nil {
				key := fd.Name.Name
				if fd.Recv != nil && len(fd.Recv.List) > 0 {
					t := fd.Recv.List[0].Type
					if st, ok := t.(*ast.StarExpr); ok {
						t = st.X
					}
					if id, ok := t.(*ast.Ident); ok {
						key = id.Name + "." + fd.Name.Name
					}
				}
				m[key] = fd
			}
		}
	}
	return m
}

func isFatalCall(ce *ast.CallExpr) string {
	switch f := ce.Fun.(type) {
	case *ast.Ident:
		if f.Name == "panic" {
			return "panic"
		}
	case *ast.SelectorExpr:
		if id, ok := f.X.(*ast.Ident); ok {
			if id.Name == "log" && (strings.HasPrefix(f.Sel.Name, "Fatal") || strings.HasPrefix(f.Sel.Name, "Panic")) {
				return "log." + f.Sel.Name
			}
			if id.Name == "os" && f.Sel.Name == "Exit" {
				return "os.Exit"
			}
		}
	}
	return ""
}

// fatalSites lists "func:call" for every fatal call in functions reachable
// from the given roots by calls to identifiers / methods defined in the package.
func (p *pkg) fatalSites(roots []string) []string {
	funcs := p.allFuncs()
	byShort := map[string][]string{}
	for k := range funcs {
		short := k
		if i := strings.Index(k, "."); i >= 0 {
			short = k[i+1:]
		}
		byShort[short] = append(byShort[short], k)
	}
	seen := map[string]bool{}
	var out []string
	var visit func(k string)
	visit = func(k string) {
		if seen[k] {
			return
		}
		seen[k] = true
		fd := funcs[k]
		if fd == nil {
			return
		}
		ast.Inspect(fd.Body, func(n ast.Node) bool {
			ce, ok := n.(*ast.CallExpr)
			if !ok {
				return true
			}
			if s := isFatalCall(ce); s != "" {
				out = append(out, k+":"+s)
			}
			switch f := ce.Fun.(type) {
			case *ast.Ident:
				for _, t := range byShort[f.Name] {
					visit(t)
				}
			case *ast.SelectorExpr:
				for _, t := range byShort[f.Sel.Name] {
					if strings.Contains(t, ".") {
						visit(t)
					}
				}
			}
			return true
		})
	}
	for _, r := range roots {
		for _, t := range byShort[r] {
			visit(t)
		}
		visit(r)
	}
	sort.Strings(out)
	return out
}

// ---- Coq emission ----

type emitter struct {
	sb      strings.Builder
	missing []string
	facts   map[string]interface{}
}

func coqString(s string) string {
	return `"` + strings.ReplaceAll(s, `"`, `""`) + `"%string`
}

func (e *emitter) z(name string, v *big.Rat, err error, def int64, src string) {
	if err != nil || v == nil || !v.IsInt() {
		e.missing = append(e.missing, name)
		fmt.Fprintf(&e.sb, "(* MISSING %s (%v): default *)\nDefinition %s : Z := %d.\n", src, err, name, def)
		e.facts[name] = nil
		return
	}
	fmt.Fprintf(&e.sb, "(* %s *)\nDefinition %s : Z := %s.\n", src, name, zlit(v.Num()))
	e.facts[name] = v.Num().String()
}

func zlit(v *big.Int) string {
	if v.Sign() < 0 {
		return "(" + v.String() + ")"
	}
	return v.String()
}

func (e *emitter) strs(name string, v []string, ok bool, def []string, src string) {
	if !ok {
		e.missing = append(e.missing, name)
		v = def
		fmt.Fprintf(&e.sb, "(* MISSING %s: default *)\n", src)
		e.facts[name] = nil
	} else {
		fmt.Fprintf(&e.sb, "(* %s *)\n", src)
		e.facts[name] = v
	}
	var parts []string
	for _, s := range v {
		parts = append(parts, coqString(s))
	}
	fmt.Fprintf(&e.sb, "Definition %s : list string := [%s].\n", name, strings.Join(parts, "; "))
}

func (e *emitter) zs(name string, v []int64, ok bool, def []int64, src string) {
	if !ok {
		e.missing = append(e.missing, name)
		v = def
		fmt.Fprintf(&e.sb, "(* MISSING %s: default *)\n", src)
		e.facts[name] = nil
	} else {
		fmt.Fprintf(&e.sb, "(* %s *)\n", src)
		e.facts[name] = v
	}
	var parts []string
	for _, s := range v {
		parts = append(parts, fmt.Sprintf("%d", s))
	}
	fmt.Fprintf(&e.sb, "Definition %s : list Z := [%s].\n", name, strings.Join(parts, "; "))
}

func newEmitter(title string) *emitter {
	e := &emitter{facts: map[string]interface{}{}}
	fmt.Fprintf(&e.sb, "(* GENERATED by harness/cmd/srcfacts from the repository working tree: %s.\n   Do not edit; regenerated on every check run. *)\n", title)
	e.sb.WriteString("From Coq Require Import ZArith String List.\nImport ListNotations.\nLocal Open Scope Z_scope.\nLocal Open Scope list_scope.\n\n")
	return e
}

func writeIfChanged(path, content string) (bool, error) {
	old, err := os.ReadFile(path)
	if err == nil && string(old) == content {
		return false, nil
	}
	return true, os.WriteFile(path, []byte(content), 0o644)
}

func main() {
	repo := flag.String("repo", "/repo", "repository root")
	out := flag.String("out", "", "output directory for SrcFacts_*.v")
	jsonOut := flag.String("json", "", "write facts + missing list as JSON here")
	flag.Parse()
	if *out == "" {
		fmt.Fprintln(os.Stderr, "need -out")
		os.Exit(2)
	}
	summary := map[string]interface{}{}
	changed := []string{}
	emit := func(component string, e *emitter) {
		fmt.Fprintf(&e.sb, "\nDefinition missing : list string := [")
		var parts []string
		for _, m := range e.missing {
			parts = append(parts, coqString(m))
		}
		e.sb.WriteString(strings.Join(parts, "; ") + "].\n")
		path := filepath.Join(*out, "SrcFacts_"+component+".v")
		ch, err := writeIfChanged(path, e.sb.String())
		if err != nil {
			fmt.Fprintln(os.Stderr, err)
			os.Exit(1)
		}
		if ch {
			changed = append(changed, component)
		}
		summary[component] = map[string]interface{}{"facts": e.facts, "missing": e.missing}
	}

	mustLoad := func(dir string) *pkg {
		p, err := loadPkg(*repo, dir)
		if err != nil {
			// a package that does not parse: everything in it is missing
			return &pkg{dir: dir, fset: token.NewFileSet()}
		}
		return p
	}

	// ---- Agent (agent/agent.go, agent/utils/utils.go) ----
	{
		u := mustLoad("agent/utils")
		a := mustLoad("agent")
		e := newEmitter("agent/agent.go, agent/utils/utils.go")
		c := func(p *pkg, name string) (*big.Rat, error) {
			ex := p.constExpr(name)
			if ex == nil {
				return nil, fmt.Errorf("not found")
			}
			return p.eval(ex, 0)
		}
		v, err := c(u, "maxBackoffDuration")
		e.z("maxBackoffDuration", v, err, 3000000000, "agent/utils const maxBackoffDuration (ns)")
		v, err = c(u, "firstRetryWaitDuration")
		e.z("firstRetryWaitDuration", v, err, 1000000, "agent/utils const firstRetryWaitDuration (ns)")
		v, err = c(u, "JitterPercent")
		if err == nil && v != nil {
			e.z("jitter_num", new(big.Rat).SetInt(v.Num()), nil, 1, "agent/utils const JitterPercent numerator")
			e.z("jitter_den", new(big.Rat).SetInt(v.Denom()), nil, 10, "agent/utils const JitterPercent denominator")
		} else {
			e.z("jitter_num", nil, err, 1, "agent/utils const JitterPercent numerator")
			e.z("jitter_den", nil, err, 10, "agent/utils const JitterPercent denominator")
		}
		v, err = c(u, "maxReadRequestRetryCount")
		e.z("maxReadRequestRetryCount", v, err, 2, "agent/utils const maxReadRequestRetryCount")
		v, err = c(u, "maxWriteResponseRetryCount")
		e.z("maxWriteResponseRetryCount", v, err, 2, "agent/utils const maxWriteResponseRetryCount")
		v, err = c(u, "readResponseBufSize")
		e.z("readResponseBufSize", v, err, 4096, "agent/utils const readResponseBufSize")
		v, err = c(a, "requestCacheLimit")
		e.z("requestCacheLimit", v, err, 1000, "agent const requestCacheLimit")
		{
			pf := a.funcDecl("pollForNewRequests")
			e.strs("dedupConstructor", assignedExprs(pf, "previouslySeenRequests"), pf != nil, []string{"lru.New(requestCacheLimit)"}, "agent pollForNewRequests: what the set of previously seen request IDs is (a recency-ordered LRU cache)")
			e.strs("dedupMethods", methodCallsOn(pf, "previouslySeenRequests"), pf != nil, []string{"Get", "Add"}, "agent pollForNewRequests: methods called on it, in source order (Get refreshes the recency of a re-listed ID)")
		}
		keys, ok := u.mapKeys("hopHeaders")
		e.strs("hopHeaders", keys, ok, nil, "agent/utils var hopHeaders (keys mapped to true, sorted)")
		hm := a.headerMethods("forwardRequest", "HeaderUserID")
		e.strs("userIDHeaderMethods", hm, a.funcDecl("forwardRequest") != nil, []string{"Add"}, "agent forwardRequest: Header methods applied to utils.HeaderUserID, in order")
		hm = a.headerMethods("forwardRequest", "headerAuthorization")
		e.strs("authorizationHeaderMethods", hm, a.funcDecl("forwardRequest") != nil, []string{"Del"}, "agent forwardRequest: Header methods applied to headerAuthorization, in order")
		e.strs("forwardRequestConds", ifConds(a.funcDecl("forwardRequest")), a.funcDecl("forwardRequest") != nil,
			[]string{"*debug", "*forwardUserID", "*stripCredentials", "err != nil", "*debug", "responseForwarder.Close(); err != nil"},
			"agent forwardRequest: the conditions of its if statements, in order (the identity header is set whenever --forward-user-id is on and the credentials are removed whenever --strip-credentials is on: no further condition on the request)")
		e.strs("retryCountUpdates", updatesOf(a.funcDecl("pollForNewRequests"), "retryCount"), a.funcDecl("pollForNewRequests") != nil, []string{"retryCount++", "retryCount = 0"},
			"agent pollForNewRequests: every statement that changes the consecutive-failure counter (declared with its zero value, plus one per failed poll, back to 0 on a successful one: the counter of the loop model)")
		e.strs("assertedIdentitySource", assignedExprs(u.funcDecl("parseRequestFromProxyResponse"), "user"), u.funcDecl("parseRequestFromProxyResponse") != nil, []string{"proxyResp.Header.Get(HeaderUserID)"},
			"agent/utils parseRequestFromProxyResponse: where the asserted identity comes from (the first value of the proxy's user-ID field, as one string: never a join of several lines)")
		e.strs("parseRequestIDsConds", ifConds(u.funcDecl("parseRequestIDs")), u.funcDecl("parseRequestIDs") != nil,
			[]string{"err != nil", "response.StatusCode != http.StatusOK", "len(responseBytes) <= 0", "json.Unmarshal(responseBytes, &requests); err != nil"},
			"agent/utils parseRequestIDs: the conditions of its if statements, in order (a pending-list answer is a success only with status 200 and a body that is empty or a JSON list; everything else is a failed poll, which the loop answers with the back-off)")
		caps := u.chanCaps(u.funcDecl("NewResponseForwarder"))
		e.zs("responseForwarderChanCaps", caps, u.funcDecl("NewResponseForwarder") != nil, []int64{0, 1, 1}, "agent/utils NewResponseForwarder: make(chan) capacities in source order")
		// hostProxy.FlushInterval = <duration> ; resp.TransferEncoding = []string{"chunked"} in NewResponseForwarder
		var flush *big.Rat
		var flushErr error = fmt.Errorf("not found")
		if fd := a.funcDecl("hostProxy"); fd != nil {
			ast.Inspect(fd.Body, func(n ast.Node) bool {
				as, ok := n.(*ast.AssignStmt)
				if !ok || len(as.Lhs) != 1 || len(as.Rhs) != 1 {
					return true
				}
				if sel, ok := as.Lhs[0].(*ast.SelectorExpr); ok && sel.Sel.Name == "FlushInterval" {
					flush, flushErr = a.eval(as.Rhs[0], 0)
				}
				return true
			})
		}
		e.z("flushInterval", flush, flushErr, 100000000, "agent hostProxy: ReverseProxy.FlushInterval (ns)")
		{
			hp := a.funcDecl("hostProxy")
			e.strs("reverseProxySetup", fieldAssignments(hp, "hostProxy"), hp != nil, []string{"Transport = &http2.Transport{...}", "FlushInterval = 100 * time.Millisecond", "ModifyResponse = shimFunc"},
				"agent hostProxy: every field of the httputil.ReverseProxy that is set (the transport of the --force-http2 mode, the flush interval, and the shim-script splice as the only response hook: nothing else sits between the backend's response and the response writer)")
		}
		var forced []string
		if fd := u.funcDecl("NewResponseForwarder"); fd != nil {
			ast.Inspect(fd.Body, func(n ast.Node) bool {
				as, ok := n.(*ast.AssignStmt)
				if !ok || len(as.Lhs) != 1 || len(as.Rhs) != 1 {
					return true
				}
				if sel, ok := as.Lhs[0].(*ast.SelectorExpr); ok && sel.Sel.Name == "TransferEncoding" {
					if cl, ok := as.Rhs[0].(*ast.CompositeLit); ok {
						for _, el := range cl.Elts {
							if s, ok := strLit(el); ok {
								forced = append(forced, s)
							}
						}
					}
				}
				return true
			})
		}
		{
			var lc, tf []string
			for _, d := range []string{"agent", "agent/utils", "agent/banner", "agent/sessions"} {
				if mp, err := loadPkg(*repo, d); err == nil {
					for _, c := range limitCalls(mp, nil) {
						lc = append(lc, d+" "+c)
					}
					for _, c := range timeoutFields(mp) {
						tf = append(tf, d+" "+c)
					}
				} else {
					e.missing = append(e.missing, "agentLimitCalls:"+d)
				}
			}
			e.strs("agentLimitCalls", lc, true, nil, "agent, agent/utils, agent/banner, agent/sessions: calls that set a deadline, a size limit or a socket option (none: nothing on the request or response path is cut off by the agent itself)")
			e.strs("agentTimeoutFields", tf, true, []string{"agent runAdapter: client.Timeout = *proxyTimeout", "agent/sessions NewCache: Cache{sessionCookieTimeout}"}, "the same packages: timeout / deadline fields set (the proxy-facing client's -proxy-timeout and the session cookie lifetime, nothing on the backend side)")
		}
		{
			ssc := u.funcDecl("ShutdownSignalChan")
			e.strs("shutdownSignalPkgCalls", pkgCalls(ssc, "signal"), ssc != nil, []string{"signal.Notify"}, "agent/utils ShutdownSignalChan: calls into os/signal (the handler is registered and never unregistered)")
			sigsArgs, ok := callArgs(ssc, "signal", "Notify", 1)
			e.strs("shutdownSignals", sigsArgs, ok, []string{"syscall.SIGINT", "syscall.SIGTERM"}, "agent/utils ShutdownSignalChan: signals passed to signal.Notify")
			e.zs("shutdownChanCaps", u.chanCaps(ssc), ssc != nil, []int64{1, 0}, "agent/utils ShutdownSignalChan: capacities of the channels made (signal channel, notification channel)")
			var elsewhere []string
			for _, pk := range []*pkg{u, a} {
				fns := pk.allFuncs()
				var names []string
				for n := range fns {
					names = append(names, n)
				}
				sort.Strings(names)
				for _, n := range names {
					if n == "ShutdownSignalChan" {
						continue
					}
					for _, c := range pkgCalls(fns[n], "signal") {
						elsewhere = append(elsewhere, n+": "+c)
					}
				}
			}
			e.strs("signalPkgCallsElsewhere", elsewhere, true, nil, "agent, agent/utils: calls into os/signal outside ShutdownSignalChan (must be none)")
			mn := a.funcDecl("main")
			e.strs("mainLifecycleOrder", callOrder(mn, map[string]bool{"waitForHealthy": true, "runHealthChecks": true, "runAdapter": true, "utils.ShutdownSignalChan": true,
				"requestPollingCancel": true, "time.Sleep": true, "log.Fatal": true}), mn != nil,
				[]string{"log.Fatal", "log.Fatal", "waitForHealthy", "runHealthChecks", "runAdapter", "log.Fatal", "utils.ShutdownSignalChan", "requestPollingCancel", "time.Sleep", "log.Fatal"},
				"agent main: source order of the life-cycle calls")
		}
		e.strs("forcedTransferEncoding", forced, u.funcDecl("NewResponseForwarder") != nil, []string{"chunked"}, "agent/utils NewResponseForwarder: TransferEncoding forced on the uploaded response")
		roots := []string{"processOneRequest", "forwardRequest", "pollForNewRequests", "hostProxy"}
		fs := a.fatalSites(roots)
		e.strs("fatalSitesAgentRequestPath", fs, a.funcDecl("processOneRequest") != nil, nil, "agent: fatal calls reachable from processOneRequest/forwardRequest/pollForNewRequests/hostProxy")
		fs = u.fatalSites([]string{"ReadRequest", "ListPendingRequests", "NewResponseForwarder", "postResponseWithRetries", "NewStreamingResponseWriter",
			"streamingResponseWriter.WriteHeader", "streamingResponseWriter.Write", "streamingResponseWriter.Close", "responseForwarder.Close", "bufferedReadSeeker.Read", "bufferedReadSeeker.Seek"})
		e.strs("fatalSitesUtilsRequestPath", fs, u.funcDecl("ReadRequest") != nil, nil, "agent/utils: fatal calls reachable from the per-request functions")
		emit("Agent", e)
	}

	// ---- Server (server/server.go) ----
	{
		s := mustLoad("server")
		e := newEmitter("server/server.go")
		cs, ok := s.caseStrings("isHopByHopHeader")
		e.strs("serverHopByHop", cs, ok, nil, "server isHopByHopHeader: lower-case names answered true (sorted)")
		caps := s.chanCaps(s.funcDecl("newProxy"))
		e.zs("proxyRequestIDsChanCap", caps, s.funcDecl("newProxy") != nil, []int64{0}, "server newProxy: capacity of the request-ID channel")
		caps = s.chanCaps(s.funcDecl("newPendingRequest"))
		e.zs("pendingRespChanCap", caps, s.funcDecl("newPendingRequest") != nil, []int64{0}, "server newPendingRequest: capacity of the response channel")
		{
			mn := s.funcDecl("main")
			e.strs("serverMainHTTPCalls", pkgCalls(mn, "http"), mn != nil, []string{"http.Serve"}, "server main: calls into net/http (the proxy is served by http.Serve: no read, write or idle deadlines)")
			var fields []string
			for _, f := range s.files {
				ast.Inspect(f, func(n ast.Node) bool {
					cl, ok := n.(*ast.CompositeLit)
					if !ok || cl.Type == nil || types.ExprString(cl.Type) != "http.Server" {
						return true
					}
					for _, el := range cl.Elts {
						if kv, ok := el.(*ast.KeyValueExpr); ok {
							fields = append(fields, types.ExprString(kv.Key))
						}
					}
					return true
				})
			}
			e.strs("serverLimitCalls", append(limitCalls(s, nil), timeoutFields(s)...), true, nil, "server package: deadline / limit / socket-option calls and timeout fields (none)")
			e.strs("serverHTTPServerFields", fields, true, nil, "server package: fields set in http.Server literals (none: no such literal)")
			{
				sv := s.methodDecl("proxy", "ServeHTTP")
				v, ok := stmtsBeforeRange(sv, "resp.Trailer")
				e.strs("frontendBeforeTrailers", v, ok, []string{"_, err := io.Copy(w, resp.Body)", "resp.Body.Close()", "if err != nil { ...; return }"},
					"server proxy.ServeHTTP: what happens between the relay of the body and the reading of resp.Trailer (the trailers are read only when the relay reached the end of the body: if the client went away the agent may still be uploading, and net/http fills resp.Trailer in from that other goroutine)")
			}
			{
				sv := s.methodDecl("proxy", "ServeHTTP")
				v, ok := rangeBody(sv, "resp.Header")
				e.strs("frontendHeaderRelay", v, ok, []string{"if isHopByHopHeader(name) { continue }", "w.Header()[name] = vals"},
					"server proxy.ServeHTTP: the loop that relays the header of the uploaded response to the client (every field that is not hop-by-hop, with ALL of its values: the slice is handed over as it is)")
			}
			e.strs("serverGoroutines", goStmts(s), true, nil, "server package: every goroutine started by the proxy's own code (none: whatever is written to a client's http.ResponseWriter is written by that client's own handler, before it returns)")
		}
		nid := s.methodDecl("proxy", "newID")
		e.strs("newIDCallees", calleesIn(nid), nid != nil, []string{"p.Lock", "p.randGenerator.Int63", "p.Unlock", "sha256.Sum256", "[]byte", "fmt.Sprintf", "fmt.Sprintf"},
			"server proxy.newID: what it calls (a draw from the proxy's random generator under the lock, hashed)")
		seed, okSeed := literalField(s.funcDecl("newProxy"), "randGenerator")
		e.strs("idGeneratorSeed", []string{seed}, okSeed, []string{"rand.New(rand.NewSource(time.Now().UnixNano()))"}, "server newProxy: the generator is seeded from the clock, so the IDs of two proxy instances differ")
		sh := s.methodDecl("proxy", "ServeHTTP")
		e.strs("frontendIDSources", assignedExprs(sh, "id"), sh != nil, []string{"p.newID()"}, "server proxy.ServeHTTP: every expression assigned to the request ID `id` (must be the proxy's own fresh draw)")
		e.strs("frontendTableKeys", indexKeysAssigned(sh, "p.requests"), sh != nil, []string{"id"}, "server proxy.ServeHTTP: keys under which a pending request is entered into p.requests")
		e.strs("frontendEnqueued", sentValues(sh, "p.requestIDs"), sh != nil, []string{"id"}, "server proxy.ServeHTTP: values sent on the request-ID channel")
		emit("Server", e)
	}

	// ---- Websockets ----
	{
		w := mustLoad("agent/websockets")
		e := newEmitter("agent/websockets/*.go")
		keys, ok := w.mapKeys("stripHeaderNames")
		e.strs("stripHeaderNames", keys, ok, nil, "agent/websockets var stripHeaderNames (sorted)")
		// fields of targetURL assigned in createShimChannel (Scheme, Host, Opaque, ...)
		var assigned []string
		if fd := w.funcDecl("createShimChannel"); fd != nil {
			ast.Inspect(fd.Body, func(n ast.Node) bool {
				as, ok := n.(*ast.AssignStmt)
				if !ok {
					return true
				}
				for _, l := range as.Lhs {
					if sel, ok := l.(*ast.SelectorExpr); ok {
						if id, ok := sel.X.(*ast.Ident); ok && id.Name == "targetURL" {
							assigned = append(assigned, sel.Sel.Name)
						}
					}
				}
				return true
			})
		}
		e.strs("targetURLAssignedFields", assigned, w.funcDecl("createShimChannel") != nil, []string{"Scheme", "Host"}, "agent/websockets createShimChannel: fields of targetURL that are overwritten before dialling")
		caps := w.chanCaps(w.funcDecl("NewConnection"))
		e.zs("connectionChanCaps", caps, w.funcDecl("NewConnection") != nil, []int64{10, 10}, "agent/websockets NewConnection: make(chan) capacities in source order (server, client)")
		e.strs("websocketsLimitCalls", limitCalls(w, nil), true, nil, "agent/websockets: calls that set a deadline or a size limit on a shimmed connection or on a shim request (none)")
		e.strs("shimPackageVars", packageVars(w), true, []string{"shimTmpl", "stripHeaderNames", "websocketShimInjectedHeadersPath"}, "agent/websockets: package-level variables (a template, a table and a path, all read-only after start-up: shim sessions share the connection table of their shim and nothing else)")
		emit("Websockets", e)
	}

	// ---- Sessions ----
	{
		ss := mustLoad("agent/sessions")
		e := newEmitter("agent/sessions/sessions.go")
		// does cachedCookieJar return early for the empty session ID (no cache entry for "no session")?
		guard := int64(0)
		fd := ss.methodDecl("Cache", "cachedCookieJar")
		if fd != nil {
			ast.Inspect(fd.Body, func(n ast.Node) bool {
				ifs, ok := n.(*ast.IfStmt)
				if !ok {
					return true
				}
				if be, ok := ifs.Cond.(*ast.BinaryExpr); ok && be.Op == token.EQL {
					if id, ok := be.X.(*ast.Ident); ok && id.Name == "sessionID" {
						if s, ok := strLit(be.Y); ok && s == "" {
							for _, st := range ifs.Body.List {
								if _, ok := st.(*ast.ReturnStmt); ok {
									guard = 1
								}
							}
						}
					}
				}
				return true
			})
		}
		e.zs("emptySessionIDNotCached", []int64{guard}, fd != nil, []int64{0}, "agent/sessions cachedCookieJar: 1 if it returns early (no cache entry) for the empty session ID")
		{
			wh := ss.methodDecl("sessionResponseWriter", "WriteHeader")
			e.strs("sessionWriterOrder", callOrder(wh, map[string]bool{"cookieJar.SetCookies": true, "w.wrapped.WriteHeader": true}), wh != nil,
				[]string{"w.wrapped.WriteHeader", "w.wrapped.WriteHeader", "cookieJar.SetCookies", "w.wrapped.WriteHeader"},
				"agent/sessions sessionResponseWriter.WriteHeader: the calls that release the header to the writer behind it and the call that stores the intercepted cookies, in source order (informational branch; branch without cookies; then the cookies go into the jar BEFORE the header is released: a client that follows up at once finds them in its session)")
		}
		e.strs("sessionsPackageVars", packageVars(ss), true, nil, "agent/sessions: package-level variables (none: everything sessions share is the Cache, under its mutex)")
		emit("Sessions", e)
	}

	// ---- TcpBridge ----
	{
		t := mustLoad("utils/tcpbridge/connection")
		e := newEmitter("utils/tcpbridge/connection/connection.go")
		ex := t.constExpr("StreamingPath")
		sp, ok := "", false
		if ex != nil {
			sp, ok = strLit(ex)
		}
		e.strs("streamingPath", []string{sp}, ok, []string{""}, "tcpbridge const StreamingPath")
		{
			hd := t.funcDecl("Handler")
			e.strs("bridgeBackendCopyLoops", copyLoops(hd), hd != nil, []string{"defer wg.Done(); io.Copy(backendConn, frontendConn); backendConn.Close()", "defer wg.Done(); io.Copy(frontendConn, backendConn); frontendConn.Close()"},
				"tcpbridge connection.Handler: the two copy goroutines (each closes its destination when its source ends)")
			var hb *ast.BlockStmt
			if hd != nil {
				hb = hd.Body
			}
			{
				dw := t.funcDecl("DialWebsocket")
				e.strs("bridgeDialCallees", calleesIn(dw), dw != nil, []string{"websocket.DefaultDialer.DialContext", "backendURL.String", "fmt.Errorf"},
					"tcpbridge connection.DialWebsocket: what it calls (the frontend's set-up of a bridged connection is bounded by gorilla's DefaultDialer, whose HandshakeTimeout is 45 s: a websocket peer that never answers cannot hold the client's connection for ever)")
			}
			e.strs("bridgePackageVars", packageVars(t), true, nil, "utils/tcpbridge/connection: package-level variables (none: two bridged connections share no lock, buffer or pool - what happens to one cannot hold up or alter another)")
			e.strs("bridgeBackendDefers", deferredCalls(hb), hd != nil, []string{"cancel()", "wsConn.Close()", "backendConn.Close()"}, "tcpbridge connection.Handler: deferred calls outside the goroutines, in source order (the websocket is closed on every return after the upgrade, also when the dial fails)")
			if fp, err := loadPkg(*repo, "utils/tcpbridge/tcp-bridge-frontend"); err == nil {
				mn := fp.funcDecl("main")
				e.strs("bridgeFrontendCopyLoops", copyLoops(mn), mn != nil, []string{"defer wg.Done(); io.Copy(backendConn, conn); backendConn.Close()", "defer wg.Done(); io.Copy(conn, backendConn); conn.Close()"},
					"tcp-bridge-frontend main: the two copy goroutines")
			} else {
				e.missing = append(e.missing, "bridgeFrontendCopyLoops")
			}
		}
		{
			gs := goStmts(t)
			for _, d := range []string{"utils/tcpbridge/tcp-bridge-frontend", "utils/tcpbridge/tcp-bridge-backend"} {
				if mp, err := loadPkg(*repo, d); err == nil {
					for _, g := range goStmts(mp) {
						gs = append(gs, filepath.Base(d)+" "+g)
					}
				}
			}
			e.strs("bridgeGoroutines", gs, true, []string{"Handler: go func", "Handler: go func", "tcp-bridge-frontend main: go func", "tcp-bridge-frontend main: go func", "tcp-bridge-frontend main: go func"},
				"utils/tcpbridge: every goroutine started (the two copy loops of each half and the frontend's per-connection goroutine: nothing else writes to or reads from a bridged connection)")
		}
		lc := limitCalls(t, map[string]bool{"WebsocketNetConn.SetDeadline": true})
		for _, d := range []string{"utils/tcpbridge/tcp-bridge-frontend", "utils/tcpbridge/tcp-bridge-backend"} {
			if mp, err := loadPkg(*repo, d); err == nil {
				lc = append(lc, limitCalls(mp, nil)...)
			}
		}
		e.strs("bridgeLimitCalls", lc, true, nil, "utils/tcpbridge (connection and both binaries): calls that set a deadline, a read limit or a socket option on a bridged connection (none: the bridge ends a connection only when a peer does)")
		emit("TcpBridge", e)
	}

	// ---- App ----
	{
		st := mustLoad("app/store")
		ca := mustLoad("app/cache")
		ap := mustLoad("app")
		e := newEmitter("app/**")
		c := func(p *pkg, name string) (*big.Rat, error) {
			ex := p.constExpr(name)
			if ex == nil {
				return nil, fmt.Errorf("not found")
			}
			return p.eval(ex, 0)
		}
		v, err := c(st, "fieldByteLimit")
		e.z("fieldByteLimit", v, err, 1000000, "app/store const fieldByteLimit")
		v, err = c(st, "backendTimeout")
		e.z("backendTimeout", v, err, 300000000000, "app/store const backendTimeout (ns)")
		v, err = c(ca, "cacheEntrySizeLimit")
		e.z("cacheEntrySizeLimit", v, err, 1000000, "app/cache const cacheEntrySizeLimit")
		v, err = c(ap, "responseWaitTimeout")
		e.z("responseWaitTimeout", v, err, 30000000000, "app const responseWaitTimeout (ns)")
		ex := st.constExpr("sharedBackendUser")
		sp, ok := "", false
		if ex != nil {
			sp, ok = strLit(ex)
		}
		e.strs("sharedBackendUser", []string{sp}, ok, []string{"allUsers"}, "app/store const sharedBackendUser")
		caps := ap.chanCaps(ap.funcDecl("responseHandler"))
		e.zs("responseHandlerChanCaps", caps, ap.funcDecl("responseHandler") != nil, []int64{1}, "app responseHandler: make(chan error, N) capacities")
		// concurrent senders on the error channel of postResponse (send statements inside go-literals)
		senders := int64(0)
		if fd := ap.funcDecl("postResponse"); fd != nil && fd.Body != nil {
			ast.Inspect(fd.Body, func(n ast.Node) bool {
				if g, ok := n.(*ast.GoStmt); ok {
					ast.Inspect(g.Call, func(m ast.Node) bool {
						if _, ok := m.(*ast.SendStmt); ok {
							senders++
						}
						return true
					})
					return false
				}
				return true
			})
		}
		e.zs("postResponseConcurrentSenders", []int64{senders}, ap.funcDecl("postResponse") != nil, []int64{2}, "app postResponse: send statements on the error channel inside go statements")
		// does newStoredResponse fill in StartTime (the cron job deletes responses with StartTime < now-2min)?
		setsStart, foundLit := int64(0), false
		if fd := st.funcDecl("newStoredResponse"); fd != nil && fd.Body != nil {
			ast.Inspect(fd.Body, func(n ast.Node) bool {
				switch x := n.(type) {
				case *ast.CompositeLit:
					if id, ok := x.Type.(*ast.Ident); ok && id.Name == "storedResponse" {
						foundLit = true
						for _, el := range x.Elts {
							if kv, ok := el.(*ast.KeyValueExpr); ok {
								if k, ok := kv.Key.(*ast.Ident); ok && k.Name == "StartTime" {
									setsStart = 1
								}
							}
						}
					}
				case *ast.AssignStmt:
					for _, l := range x.Lhs {
						if se, ok := l.(*ast.SelectorExpr); ok && se.Sel.Name == "StartTime" {
							setsStart = 1
						}
					}
				}
				return true
			})
		}
		e.zs("storedResponseSetsStartTime", []int64{setsStart}, foundLit, []int64{0}, "app/store newStoredResponse: the stored response carries a StartTime (1) or the zero time (0)")
		// agent handlers whose first statement validates the caller and whose second rejects with 401
		var guarded []string
		for _, hn := range []string{"pendingHandler", "requestHandler", "responseHandler"} {
			fd := ap.funcDecl(hn)
			if fd == nil || fd.Body == nil || len(fd.Body.List) < 2 {
				continue
			}
			as, ok := fd.Body.List[0].(*ast.AssignStmt)
			if !ok || len(as.Lhs) != 2 || len(as.Rhs) != 1 {
				continue
			}
			ce, ok := as.Rhs[0].(*ast.CallExpr)
			if !ok {
				continue
			}
			if id, ok := ce.Fun.(*ast.Ident); !ok || id.Name != "checkBackendID" {
				continue
			}
			ifs, ok := fd.Body.List[1].(*ast.IfStmt)
			if !ok {
				continue
			}
			has401, hasReturn := false, false
			ast.Inspect(ifs.Body, func(n ast.Node) bool {
				if se, ok := n.(*ast.SelectorExpr); ok && se.Sel.Name == "StatusUnauthorized" {
					has401 = true
				}
				return true
			})
			if len(ifs.Body.List) > 0 {
				_, hasReturn = ifs.Body.List[len(ifs.Body.List)-1].(*ast.ReturnStmt)
			}
			// every other use of the store in the handler must name the validated ID
			usesValidated := true
			if lhs0, ok := as.Lhs[0].(*ast.Ident); ok {
				for _, stt := range fd.Body.List[2:] {
					ast.Inspect(stt, func(n ast.Node) bool {
						if c2, ok := n.(*ast.CallExpr); ok {
							for _, a := range c2.Args {
								if se, ok := a.(*ast.CallExpr); ok {
									// r.Header.Get(HeaderBackendID) used again after validation
									if sel, ok := se.Fun.(*ast.SelectorExpr); ok && sel.Sel.Name == "Get" && len(se.Args) == 1 {
										if id, ok := se.Args[0].(*ast.Ident); ok && id.Name == "HeaderBackendID" {
											usesValidated = false
										}
									}
								}
							}
						}
						return true
					})
				}
				_ = lhs0
			}
			if has401 && hasReturn && usesValidated {
				guarded = append(guarded, hn)
			}
		}
		e.strs("agentHandlersGuardedFirst", guarded, true, nil, "app: agent handlers that start with checkBackendID and answer 401 + return on error")
		// API paths served before the administrator check, and whether api.yaml restricts each to `login: admin`
		var unchecked []string
		var uncheckedYaml []int64
		if fd := ap.funcDecl("handleAPIRequest"); fd != nil && fd.Body != nil {
			for _, stt := range fd.Body.List {
				ifs, ok := stt.(*ast.IfStmt)
				if !ok {
					continue
				}
				if ue, ok := ifs.Cond.(*ast.UnaryExpr); ok {
					if ce, ok := ue.X.(*ast.CallExpr); ok {
						if id, ok := ce.Fun.(*ast.Ident); ok && id.Name == "isAdminRequest" {
							break
						}
					}
				}
				if be, ok := ifs.Cond.(*ast.BinaryExpr); ok {
					if lit, ok := strLit(be.Y); ok {
						unchecked = append(unchecked, lit)
					}
				}
			}
		}
		yamlLogin := func(file, path string) string {
			b, err := os.ReadFile(filepath.Join(*repo, "app", file))
			if err != nil {
				return ""
			}
			type hd struct{ url, login string }
			var hs []hd
			for _, line := range strings.Split(string(b), "\n") {
				t := strings.TrimSpace(line)
				if strings.HasPrefix(t, "- url:") {
					hs = append(hs, hd{url: strings.TrimSpace(strings.TrimPrefix(t, "- url:"))})
				} else if strings.HasPrefix(t, "login:") && len(hs) > 0 {
					hs[len(hs)-1].login = strings.TrimSpace(strings.TrimPrefix(t, "login:"))
				}
			}
			for _, h := range hs {
				if re, err := regexp.Compile("^" + h.url + "$"); err == nil && re.MatchString(path) {
					return h.login
				}
			}
			return ""
		}
		for _, u := range unchecked {
			if yamlLogin("api.yaml", u) == "admin" {
				uncheckedYaml = append(uncheckedYaml, 1)
			} else {
				uncheckedYaml = append(uncheckedYaml, 0)
			}
		}
		e.strs("apiUncheckedPaths", unchecked, ap.funcDecl("handleAPIRequest") != nil, nil, "app handleAPIRequest: paths served before the isAdminRequest check")
		e.zs("apiUncheckedPathsAdminInYaml", uncheckedYaml, true, nil, "app/api.yaml: the first handler matching each of those paths has `login: admin` (1) or not (0)")
		lr := int64(0)
		if yamlLogin("app.yaml", "/any/path") == "required" {
			lr = 1
		}
		e.zs("defaultLoginRequired", []int64{lr}, true, nil, "app/app.yaml: the catch-all handler has `login: required`")
		// query limit of ListPendingRequests
		var lim []int64
		if fd := st.methodDecl("persistentStore", "ListPendingRequests"); fd != nil && fd.Body != nil {
			ast.Inspect(fd.Body, func(n ast.Node) bool {
				if ce, ok := n.(*ast.CallExpr); ok {
					if se, ok := ce.Fun.(*ast.SelectorExpr); ok && se.Sel.Name == "Limit" && len(ce.Args) == 1 {
						if v, err := st.eval(ce.Args[0], 0); err == nil && v.IsInt() {
							lim = append(lim, v.Num().Int64())
						}
					}
				}
				return true
			})
		}
		e.zs("pendingQueryLimit", lim, len(lim) == 1, []int64{100}, "app/store ListPendingRequests: query limit")
		v, err = c(st, "multiOpSizeLimit")
		e.z("multiOpSizeLimit", v, err, 500, "app/store const multiOpSizeLimit")
		v, err = c(ap, "requestsWaitTimeout")
		e.z("requestsWaitTimeout", v, err, 30000000000, "app const requestsWaitTimeout (ns)")
		emit("App", e)
	}

	summary["changed"] = changed
	if *jsonOut != "" {
		b, _ := json.MarshalIndent(summary, "", " ")
		os.WriteFile(*jsonOut, b, 0o644)
	}
	fmt.Printf("srcfacts: wrote %d component files, changed: %v\n", 6, changed)
}
