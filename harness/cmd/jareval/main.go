// Command jareval evaluates, on a fresh and independent net/http/cookiejar per query, which
// cookies a standards-compliant jar holds for a URL after a given list of Set-Cookie
// operations (used by the C10 check: the Coq model says WHICH operations belong to the
// session, this tool says what a real jar makes of them).
package main

import (
	"encoding/json"
	"net/http"
	"net/http/cookiejar"
	"net/url"
	"os"

	"golang.org/x/net/publicsuffix"
)

type op struct {
	URL        string   `json:"url"`
	SetCookies []string `json:"set_cookies"`
}
type query struct {
	URL string `json:"url"`
	Ops []op   `json:"ops"`
}

func main() {
	var qs []query
	if err := json.NewDecoder(os.Stdin).Decode(&qs); err != nil {
		panic(err)
	}
	out := make([][][2]string, 0, len(qs))
	for _, q := range qs {
		jar, _ := cookiejar.New(&cookiejar.Options{PublicSuffixList: publicsuffix.List})
		for _, o := range q.Ops {
			u, err := url.Parse(o.URL)
			if err != nil {
				continue
			}
			h := http.Header{}
			for _, sc := range o.SetCookies {
				h.Add("Set-Cookie", sc)
			}
			cs := (&http.Response{Header: h}).Cookies()
			if len(cs) > 0 {
				jar.SetCookies(u, cs)
			}
		}
		u, _ := url.Parse(q.URL)
		res := [][2]string{}
		for _, c := range jar.Cookies(u) {
			res = append(res, [2]string{c.Name, c.Value})
		}
		out = append(out, res)
	}
	json.NewEncoder(os.Stdout).Encode(out)
}
