// Command lifecycle drives the real agent binary as a black box (C20): scripted health
// endpoint, fake proxy logging pending-list calls, signals at chosen phases, exit time and
// status.  One JSON line per scenario.
package main

import (
	"bufio"
	"bytes"
	"encoding/json"
	"flag"
	"fmt"
	"io"
	"net/http"
	"net/http/httptest"
	"os"
	"os/exec"
	"path/filepath"
	"strings"
	"sync"
	"syscall"
	"time"
)

type scenario struct {
	Name          string `json:"name"`
	Kind          string `json:"kind"`             // gate | unhealthy | graceful | nohealth
	Checks        []bool `json:"checks,omitempty"` // results of successive health checks (then: pass)
	Threshold     int    `json:"threshold,omitempty"`
	GraceMs       int    `json:"grace_ms"`
	Signal        string `json:"signal,omitempty"` // INT | TERM
	Phase         string `json:"phase,omitempty"`  // idle | at-backend
	BackendMs     int    `json:"backend_ms,omitempty"`
	SignalAfterMs int    `json:"signal_after_ms,omitempty"` // after the request reached the backend (or after start when idle)
	Second        string `json:"second_signal,omitempty"`          // a second signal (INT | TERM) ...
	SecondAfterMs int    `json:"second_signal_after_ms,omitempty"` // ... this long after the first one
	ListHoldMs    int    `json:"list_hold_ms,omitempty"`       // how long the list call in flight at the signal is held after it (default 150 ms; a long poll lasts up to 30 s)
	CheckDelaysMs []int  `json:"check_delays_ms,omitempty"`    // how long the backend takes to answer health check i (default 0)
	LateListed    bool   `json:"late_listed,omitempty"`        // the list call in flight at the signal is answered with a request ID ("req-late")
	RequestBodyMs int    `json:"request_body_ms,omitempty"`    // the forwarded request is a POST whose body the proxy delivers over this long (the signal falls in between)
	ListFault     string `json:"list_fault,omitempty"`      // "503": how the list call in flight at the signal ends (default: empty list). A dropped connection is not used: net/http re-sends an idempotent GET on its own, which the fake proxy cannot tell from a new poll
}

type result struct {
	Scenario      scenario `json:"scenario"`
	HealthTimesMs []int64  `json:"health_times_ms"` // when each health check arrived (since start)
	HealthResults []bool   `json:"health_results"`
	ListStartsMs  []int64  `json:"list_starts_ms"`
	ListReturnsMs []int64  `json:"list_returns_ms"`
	SignalMs      int64    `json:"signal_ms"`
	ExitMs        int64    `json:"exit_ms"` // -1: still running when the scenario ended
	ExitCode      int      `json:"exit_code"`
	AtBackendMs   int64    `json:"at_backend_ms"`
	UploadDoneMs  int64    `json:"upload_done_ms"` // -1: no complete upload
	UploadOK      bool     `json:"upload_ok"`
	LateFetchedMs int64    `json:"late_fetched_ms"`     // when the request listed by the call in flight at the signal was fetched (-1: never)
	LateBackend   int      `json:"late_backend_calls"`  // how often it reached the backend
	LateUploadOK  bool     `json:"late_upload_ok"`
	BodySeen      int      `json:"backend_saw_body_bytes"`
	Err           string   `json:"err,omitempty"`
	Stderr        string   `json:"stderr_tail,omitempty"`
}

func runScenario(agentBin string, sc scenario) result {
	res := result{Scenario: sc, ExitMs: -1, UploadDoneMs: -1, AtBackendMs: -1, SignalMs: -1, LateFetchedMs: -1}
	start := time.Now()
	ms := func() int64 { return time.Since(start).Milliseconds() }
	var mu sync.Mutex
	checkNo := 0
	atBackend := make(chan struct{}, 1)
	backend := httptest.NewServer(http.HandlerFunc(func(w http.ResponseWriter, r *http.Request) {
		switch {
		case r.URL.Path == "/healthz":
			mu.Lock()
			i := checkNo
			checkNo++
			ok := true
			if i < len(sc.Checks) {
				ok = sc.Checks[i]
			}
			res.HealthTimesMs = append(res.HealthTimesMs, ms())
			res.HealthResults = append(res.HealthResults, ok)
			mu.Unlock()
			if i < len(sc.CheckDelaysMs) && sc.CheckDelaysMs[i] > 0 {
				time.Sleep(time.Duration(sc.CheckDelaysMs[i]) * time.Millisecond)
			}
			if ok {
				w.Write([]byte("ok"))
			} else {
				w.WriteHeader(500)
			}
		case r.URL.Path == "/late":
			mu.Lock()
			res.LateBackend++
			mu.Unlock()
			w.Header().Set("X-Work", "done")
			w.Write(bytes.Repeat([]byte("w"), 20000))
		case r.URL.Path == "/work":
			mu.Lock()
			res.AtBackendMs = ms()
			mu.Unlock()
			if r.Method == "POST" {
				b, _ := io.ReadAll(r.Body)
				mu.Lock()
				res.BodySeen = len(b)
				mu.Unlock()
			}
			select {
			case atBackend <- struct{}{}:
			default:
			}
			time.Sleep(time.Duration(sc.BackendMs) * time.Millisecond)
			w.Header().Set("X-Work", "done")
			w.Write(bytes.Repeat([]byte("w"), 20000))
		default:
			w.WriteHeader(404)
		}
	}))
	defer backend.Close()
	metadata := httptest.NewServer(http.HandlerFunc(func(w http.ResponseWriter, r *http.Request) {
		if strings.HasPrefix(r.URL.Path, "/computeMetadata/v1/instance/service-accounts/") && strings.HasSuffix(r.URL.Path, "/token") {
			json.NewEncoder(w).Encode(map[string]interface{}{"access_token": "fake", "expires_in": 1000, "token_type": "Bearer"})
			return
		}
		if strings.HasPrefix(r.URL.Path, "/computeMetadata/v1/project/project-id") {
			io.WriteString(w, "12345")
			return
		}
		io.WriteString(w, "ok")
	}))
	defer metadata.Close()
	listed := false
	signalled := make(chan struct{})
	var lastListStart time.Time
	listInFlight := 0
	proxy := httptest.NewServer(http.HandlerFunc(func(w http.ResponseWriter, r *http.Request) {
		id := r.Header.Get("X-Inverting-Proxy-Request-ID")
		switch {
		case strings.HasSuffix(r.URL.Path, "agent/pending"):
			mu.Lock()
			res.ListStartsMs = append(res.ListStartsMs, ms())
			give := sc.Phase == "at-backend" && !listed
			listed = true
			lastListStart = time.Now()
			listInFlight++
			mu.Unlock()
			if give {
				w.Write([]byte(`["req-1"]`))
			} else {
				// a long poll: hold the call for a while
				faulted := false
				select {
				case <-time.After(400 * time.Millisecond):
				case <-r.Context().Done():
				case <-signalled:
					// the call in flight when the signal arrives
					hold := 150
					if sc.ListHoldMs > 0 {
						hold = sc.ListHoldMs
					}
					select {
					case <-time.After(time.Duration(hold) * time.Millisecond):
					case <-r.Context().Done():
					}
					switch sc.ListFault {
					case "503":
						faulted = true
						w.WriteHeader(503)
					case "drop":
						faulted = true
						if hj, ok := w.(http.Hijacker); ok {
							if c, _, err := hj.Hijack(); err == nil {
								c.Close()
							}
						}
					}
				}
				if !faulted {
					select {
					case <-signalled:
						if sc.LateListed {
							w.Write([]byte(`["req-late"]`))
							break
						}
						w.Write([]byte("[]"))
					default:
						w.Write([]byte("[]"))
					}
				}
			}
			mu.Lock()
			listInFlight--
			res.ListReturnsMs = append(res.ListReturnsMs, ms())
			mu.Unlock()
		case strings.HasSuffix(r.URL.Path, "agent/request"):
			w.Header().Set("X-Inverting-Proxy-Request-Start-Time", time.Now().Format(time.RFC3339Nano))
			switch {
			case id == "req-late":
				mu.Lock()
				res.LateFetchedMs = ms()
				mu.Unlock()
				fmt.Fprintf(w, "GET /late HTTP/1.1\r\nHost: verif.example\r\n\r\n")
			case sc.RequestBodyMs > 0:
				// a request whose body is still arriving from the proxy while the agent has already handed it to the backend
				fmt.Fprintf(w, "POST /work HTTP/1.1\r\nHost: verif.example\r\nContent-Type: application/octet-stream\r\nContent-Length: 40000\r\n\r\n")
				fl, _ := w.(http.Flusher)
				for k := 0; k < 4; k++ {
					w.Write(bytes.Repeat([]byte("b"), 10000))
					if fl != nil {
						fl.Flush()
					}
					if k < 3 {
						time.Sleep(time.Duration(sc.RequestBodyMs/3) * time.Millisecond)
					}
				}
			default:
				fmt.Fprintf(w, "GET /work HTTP/1.1\r\nHost: verif.example\r\n\r\n")
			}
		case strings.HasSuffix(r.URL.Path, "agent/response"):
			b, err := io.ReadAll(r.Body)
			ok := false
			if err == nil {
				if resp, perr := http.ReadResponse(bufio.NewReader(bytes.NewReader(b)), nil); perr == nil {
					body, rerr := io.ReadAll(resp.Body)
					ok = rerr == nil && resp.StatusCode == 200 && len(body) == 20000 && resp.Header.Get("X-Work") == "done"
				}
			}
			mu.Lock()
			if id == "req-late" {
				res.LateUploadOK = ok
			} else {
				res.UploadDoneMs = ms()
				res.UploadOK = ok && id == "req-1"
			}
			mu.Unlock()
			w.WriteHeader(200)
		}
	}))
	defer proxy.Close()

	home, _ := os.MkdirTemp("", "verif-agent-home")
	defer os.RemoveAll(home)
	os.MkdirAll(filepath.Join(home, ".config", "gcloud"), 0o755)
	args := []string{"--proxy", proxy.URL + "/", "--backend", "verif-backend", "--host", strings.TrimPrefix(backend.URL, "http://"), "--disable-gce-vm-header"}
	if (sc.Kind != "nohealth" && sc.Kind != "graceful") || (sc.Kind == "graceful" && len(sc.Checks) > 0) {
		args = append(args, "--health-check-path", "/healthz", "--health-check-interval-seconds", "1", fmt.Sprintf("--health-check-unhealthy-threshold=%d", sc.Threshold))
	}
	if sc.GraceMs > 0 {
		args = append(args, "--graceful-shutdown-timeout", fmt.Sprintf("%dms", sc.GraceMs))
	}
	cmd := exec.Command(agentBin, args...)
	cmd.Env = []string{"HOME=" + home, "PATH=", "GCE_METADATA_HOST=" + strings.TrimPrefix(metadata.URL, "http://")}
	var stderr bytes.Buffer
	cmd.Stderr = &stderr
	if err := cmd.Start(); err != nil {
		res.Err = err.Error()
		return res
	}
	exited := make(chan error, 1)
	go func() { exited <- cmd.Wait() }()
	exitInfo := func(err error) {
		res.ExitMs = ms()
		res.ExitCode = 0
		if ee, ok := err.(*exec.ExitError); ok {
			res.ExitCode = ee.ExitCode()
		}
	}
	limit := 9 * time.Second
	switch sc.Kind {
	case "graceful":
		if sc.Phase == "at-backend" {
			select {
			case <-atBackend:
			case <-time.After(5 * time.Second):
				res.Err = "request never reached the backend"
			}
		}
		time.Sleep(time.Duration(sc.SignalAfterMs) * time.Millisecond)
		// send the signal while a pending-list call is in flight (100..250 ms into its 400 ms hold), never at a poll boundary
		for i := 0; i < 400 && sc.Phase != "health-wait"; i++ {
			mu.Lock()
			ok := listInFlight > 0 && time.Since(lastListStart) >= 100*time.Millisecond && time.Since(lastListStart) <= 250*time.Millisecond
			mu.Unlock()
			if ok {
				break
			}
			time.Sleep(5 * time.Millisecond)
		}
		sig := syscall.SIGINT
		if sc.Signal == "TERM" {
			sig = syscall.SIGTERM
		}
		mu.Lock()
		res.SignalMs = ms()
		mu.Unlock()
		cmd.Process.Signal(sig)
		close(signalled)
		if sc.Second != "" {
			go func() {
				time.Sleep(time.Duration(sc.SecondAfterMs) * time.Millisecond)
				sig2 := syscall.SIGINT
				if sc.Second == "TERM" {
					sig2 = syscall.SIGTERM
				}
				cmd.Process.Signal(sig2)
			}()
		}
		limit = time.Duration(sc.GraceMs+3000) * time.Millisecond
	case "unhealthy", "gate":
		limit = time.Duration(len(sc.Checks)+3) * time.Second
	case "nohealth":
		limit = 1500 * time.Millisecond
	}
	select {
	case err := <-exited:
		exitInfo(err)
	case <-time.After(limit):
		cmd.Process.Kill()
		<-exited
	}
	// give a late upload a moment (the proxy handler may still be finishing)
	time.Sleep(50 * time.Millisecond)
	mu.Lock()
	defer mu.Unlock()
	s := stderr.String()
	if len(s) > 600 {
		s = s[len(s)-600:]
	}
	res.Stderr = s
	return res
}

func main() {
	agentBin := flag.String("agent", "", "agent binary")
	outPath := flag.String("out", "", "output file")
	tier := flag.String("tier", "quick", "quick|thorough")
	only := flag.String("only", "", "run only the scenarios whose name contains this")
	flag.Parse()
	var scs []scenario
	T, F := true, false
	scs = append(scs,
		scenario{Name: "nohealth-polls-at-once", Kind: "nohealth"},
		scenario{Name: "gate-pass-first", Kind: "gate", Checks: []bool{T}, Threshold: 2},
		scenario{Name: "gate-late-2", Kind: "gate", Checks: []bool{F, F, T}, Threshold: 2},
		scenario{Name: "gate-late-3", Kind: "gate", Checks: []bool{F, F, F, T}, Threshold: 1},
		scenario{Name: "unhealthy-t1", Kind: "unhealthy", Checks: []bool{T, T, F, T}, Threshold: 1},
		scenario{Name: "unhealthy-t2-reset", Kind: "unhealthy", Checks: []bool{T, F, T, F, F, T}, Threshold: 2},
		scenario{Name: "unhealthy-t3", Kind: "unhealthy", Checks: []bool{T, F, F, T, F, F, F, T}, Threshold: 3},
		scenario{Name: "unhealthy-t0-means-1", Kind: "unhealthy", Checks: []bool{T, T, T, F, T}, Threshold: 0},
		scenario{Name: "healthy-forever", Kind: "unhealthy", Checks: []bool{T, F, T, F, T, F}, Threshold: 2},
		// a failing check that takes longer than the interval, then a pass, then a quick failure: one after the other, never two in a row
		scenario{Name: "slow-failing-check-then-pass-then-fail-t2", Kind: "unhealthy", Checks: []bool{T, F, T, F, T, T}, CheckDelaysMs: []int{0, 2500, 0, 0, 0, 0}, Threshold: 2},
		// a backend that comes up late and then flaps: failures before the first passing check do not count
		scenario{Name: "late-then-single-flap-t2", Kind: "unhealthy", Checks: []bool{F, T, F, T, T}, Threshold: 2},
		scenario{Name: "late-2-then-two-flaps-t3", Kind: "unhealthy", Checks: []bool{F, F, T, F, F, T}, Threshold: 3},
		scenario{Name: "late-then-exit-t2", Kind: "unhealthy", Checks: []bool{F, F, F, T, F, F, T}, Threshold: 2},
	)
	for _, sig := range []string{"INT", "TERM"} {
		scs = append(scs,
			scenario{Name: "graceful-off-idle-" + sig, Kind: "graceful", GraceMs: 0, Signal: sig, Phase: "idle", SignalAfterMs: 800},
			scenario{Name: "graceful-1s-idle-" + sig, Kind: "graceful", GraceMs: 1000, Signal: sig, Phase: "idle", SignalAfterMs: 800},
			scenario{Name: "graceful-3s-backend-finishes-" + sig, Kind: "graceful", GraceMs: 3000, Signal: sig, Phase: "at-backend", BackendMs: 1200, SignalAfterMs: 200},
			scenario{Name: "graceful-1s-backend-too-slow-" + sig, Kind: "graceful", GraceMs: 1000, Signal: sig, Phase: "at-backend", BackendMs: 2500, SignalAfterMs: 200},
			scenario{Name: "graceful-off-at-backend-" + sig, Kind: "graceful", GraceMs: 0, Signal: sig, Phase: "at-backend", BackendMs: 1500, SignalAfterMs: 200},
			scenario{Name: "signal-while-waiting-for-health-" + sig, Kind: "graceful", GraceMs: 0, Signal: sig, Phase: "health-wait", SignalAfterMs: 1500, Checks: []bool{F, F, F, F, F, F, F, F, F, F, F, F}, Threshold: 2},
			scenario{Name: "signal-while-waiting-for-health-grace-1s-" + sig, Kind: "graceful", GraceMs: 1000, Signal: sig, Phase: "health-wait", SignalAfterMs: 1500, Checks: []bool{F, F, F, F, T}, Threshold: 2},
			scenario{Name: "graceful-3s-backend-finishes-second-signal-" + sig, Kind: "graceful", GraceMs: 3000, Signal: sig, Phase: "at-backend", BackendMs: 1500, SignalAfterMs: 200, Second: map[string]string{"INT": "TERM", "TERM": "TERM"}[sig], SecondAfterMs: 500},
			scenario{Name: "graceful-2s-idle-second-signal-" + sig, Kind: "graceful", GraceMs: 2000, Signal: sig, Phase: "idle", SignalAfterMs: 700, Second: "INT", SecondAfterMs: 300},
			scenario{Name: "graceful-1500ms-backend-finishes-in-the-last-half-second-" + sig, Kind: "graceful", GraceMs: 1500, Signal: sig, Phase: "at-backend", BackendMs: 1150, SignalAfterMs: 100},
			scenario{Name: "graceful-800ms-idle-" + sig, Kind: "graceful", GraceMs: 800, Signal: sig, Phase: "idle", SignalAfterMs: 700},
			scenario{Name: "graceful-off-idle-long-poll-in-flight-" + sig, Kind: "graceful", GraceMs: 0, Signal: sig, Phase: "idle", SignalAfterMs: 700, ListHoldMs: 4000},
			scenario{Name: "graceful-1s-idle-long-poll-in-flight-" + sig, Kind: "graceful", GraceMs: 1000, Signal: sig, Phase: "idle", SignalAfterMs: 700, ListHoldMs: 4000},
			scenario{Name: "graceful-2s-idle-poll-in-flight-lists-a-request-" + sig, Kind: "graceful", GraceMs: 2000, Signal: sig, Phase: "idle", SignalAfterMs: 700, LateListed: true},
			scenario{Name: "graceful-3s-request-body-still-arriving-" + sig, Kind: "graceful", GraceMs: 3000, Signal: sig, Phase: "at-backend", BackendMs: 300, SignalAfterMs: 150, RequestBodyMs: 1500},
			scenario{Name: "graceful-2s-idle-list-503-" + sig, Kind: "graceful", GraceMs: 2000, Signal: sig, Phase: "idle", SignalAfterMs: 700, ListFault: "503"},
			scenario{Name: "graceful-3s-backend-list-503-" + sig, Kind: "graceful", GraceMs: 3000, Signal: sig, Phase: "at-backend", BackendMs: 1200, SignalAfterMs: 200, ListFault: "503"},
		)
	}
	if *tier == "thorough" {
		for g := 500; g <= 4000; g += 700 {
			for b := 300; b <= 3300; b += 1000 {
				scs = append(scs, scenario{Name: fmt.Sprintf("graceful-%d-backend-%d", g, b), Kind: "graceful", GraceMs: g, Signal: "TERM", Phase: "at-backend", BackendMs: b, SignalAfterMs: 100})
			}
		}
		pats := [][]bool{{T, F, F, F}, {T, T, F, F, T, F, F, F}, {F, T, F, T, F, F}, {T, F, T, F, T, F, F}}
		for i, p := range pats {
			for t := 1; t <= 3; t++ {
				scs = append(scs, scenario{Name: fmt.Sprintf("unhealthy-pat%d-t%d", i, t), Kind: "unhealthy", Checks: p, Threshold: t})
			}
		}
	}
	f, err := os.Create(*outPath)
	if err != nil {
		panic(err)
	}
	defer f.Close()
	var wg sync.WaitGroup
	var omu sync.Mutex
	sem := make(chan struct{}, 16)
	for _, sc := range scs {
		if *only != "" && !strings.Contains(sc.Name, *only) {
			continue
		}
		wg.Add(1)
		sem <- struct{}{}
		go func(sc scenario) {
			defer wg.Done()
			defer func() { <-sem }()
			r := runScenario(*agentBin, sc)
			b, _ := json.Marshal(r)
			omu.Lock()
			f.Write(append(b, '\n'))
			omu.Unlock()
		}(sc)
	}
	wg.Wait()
}
