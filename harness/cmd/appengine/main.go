// Command appengine runs the real App Engine app binary (built from /repo/app) three times
// (services default, agent, api) against the fake API server of package aefake, plays the
// App Engine front end (identity headers, the login constraints of app/*.yaml) and drives
// seeded random operation histories plus a few fixed scenarios.  One JSON line per
// operation is written; lib/appeng.py replays the same histories on the Coq model
// (C17 access control, C18 lookup + liveness, C19 relay).
package main

import (
	"bufio"
	"bytes"
	"encoding/json"
	"flag"
	"fmt"
	"io"
	"math/rand"
	"net"
	"net/http"
	neturl "net/url"
	"os"
	"os/exec"
	"path/filepath"
	"regexp"
	"sort"
	"strings"
	"sync"
	"sync/atomic"
	"time"

	"verif/harness/aefake"
)

type env struct {
	api    *aefake.Server
	ports  map[string]string
	cmds   []*exec.Cmd
	seq    int64
	login  map[string][][2]interface{} // service -> [(regexp, "admin"|"required")]
	out    *os.File
	omu    sync.Mutex
	limit  int
	sticky []string
}

// fedUser stands for a signed-in end user that has no e-mail address (a federated identity only): user.Current returns a
// user whose Email is empty.
const fedUser = "fed:"

type ident struct {
	User      string // front-end (cookie) user: X-AppEngine-User-Email
	UserAdmin bool
	OAuth     string // OAuth identity of the token
	OAuthAdm  bool
}

type reply struct {
	Status int
	Header http.Header
	Body   []byte
	Err    string
	ReqID  string
	Ms     int64
	Front  bool // answered by the (emulated) front end, the app was not reached
}

func freePort() string {
	l, _ := net.Listen("tcp", "127.0.0.1:0")
	defer l.Close()
	_, p, _ := net.SplitHostPort(l.Addr().String())
	return p
}

func (e *env) emit(v interface{}) {
	b, _ := json.Marshal(v)
	e.omu.Lock()
	e.out.Write(append(b, '\n'))
	e.omu.Unlock()
}

func start(appBin, repo string) (*env, error) {
	api, err := aefake.New()
	if err != nil {
		return nil, err
	}
	e := &env{api: api, ports: map[string]string{}, login: map[string][][2]interface{}{}, limit: 1000000}
	host, port := api.Addr()
	for _, svc := range []string{"default", "agent", "api"} {
		p := freePort()
		e.ports[svc] = p
		cmd := exec.Command(appBin)
		cmd.Env = []string{"PORT=" + p, "GAE_SERVICE=" + svc, "GAE_APPLICATION=s~verif-app", "GAE_ENV=standard", "GAE_VERSION=1", "GAE_INSTANCE=i1", "GAE_DEPLOYMENT_ID=1",
			"API_HOST=" + host, "API_PORT=" + port, "GOOGLE_CLOUD_PROJECT=verif-app", "HOME=/nonexistent", "PATH="}
		cmd.Stderr = io.Discard
		if os.Getenv("VERIF_APP_LOG") != "" {
			f, _ := os.Create(os.Getenv("VERIF_APP_LOG") + "." + svc)
			cmd.Stderr = f
		}
		if err := cmd.Start(); err != nil {
			return nil, err
		}
		e.cmds = append(e.cmds, cmd)
	}
	for _, p := range e.ports {
		ok := false
		for i := 0; i < 200; i++ {
			c, err := net.Dial("tcp", "127.0.0.1:"+p)
			if err == nil {
				c.Close()
				ok = true
				break
			}
			time.Sleep(25 * time.Millisecond)
		}
		if !ok {
			return nil, fmt.Errorf("app service on port %s did not start", p)
		}
	}
	// the front end enforces the `login:` settings of the service's yaml
	for svc, file := range map[string]string{"agent": "agent.yaml", "api": "api.yaml", "default": "app.yaml"} {
		b, err := os.ReadFile(filepath.Join(repo, "app", file))
		if err != nil {
			return nil, err
		}
		var cur string
		for _, line := range strings.Split(string(b), "\n") {
			t := strings.TrimSpace(line)
			if strings.HasPrefix(t, "- url:") {
				cur = strings.TrimSpace(strings.TrimPrefix(t, "- url:"))
			}
			if strings.HasPrefix(t, "login:") && cur != "" {
				lv := strings.TrimSpace(strings.TrimPrefix(t, "login:"))
				if re, err := regexp.Compile("^" + cur + "$"); err == nil {
					e.login[svc] = append(e.login[svc], [2]interface{}{re, lv})
				}
			}
		}
	}
	return e, nil
}

func (e *env) stop() {
	for _, c := range e.cmds {
		c.Process.Kill()
		c.Wait()
	}
	e.api.Close()
}

var client = &http.Client{CheckRedirect: func(*http.Request, []*http.Request) error { return http.ErrUseLastResponse },
	Transport: &http.Transport{MaxIdleConnsPerHost: 64, DisableCompression: true}}

// call plays the front end for one request.  raw skips the front end's login enforcement.
func (e *env) call(svc, method, path string, id ident, hdr map[string]string, body []byte, timeout time.Duration, raw bool) reply {
	n := atomic.AddInt64(&e.seq, 1)
	return e.callN(n, svc, method, path, id, hdr, body, timeout, raw)
}

func ridOf(n int64) string { return fmt.Sprintf("rid%08d", n) }

func (e *env) callN(n int64, svc, method, path string, id ident, hdr map[string]string, body []byte, timeout time.Duration, raw bool) reply {
	ticket := fmt.Sprintf("ticket-%d", n)
	reqID := ridOf(n)
	e.api.SetIdentity(ticket, aefake.Identity{OAuthEmail: id.OAuth, OAuthAdmin: id.OAuthAdm})
	if !raw {
		p := path
		if i := strings.Index(p, "?"); i >= 0 {
			p = p[:i]
		}
		for _, rl := range e.login[svc] {
			if rl[0].(*regexp.Regexp).MatchString(p) {
				if rl[1] == "admin" && !id.UserAdmin {
					return reply{Status: 403, Body: []byte("front end: admin login required"), ReqID: reqID, Front: true}
				}
				if rl[1] == "required" && id.User == "" { // (fedUser is signed in)
					return reply{Status: 302, Body: []byte("front end: login required"), ReqID: reqID, Front: true}
				}
				break
			}
		}
	}
	var rd io.Reader = bytes.NewReader(body)
	if hdr["X-Verif-Chunked"] != "" && len(body) > 0 {
		rd = io.MultiReader(rd) // hides the length: the client sends the body with Transfer-Encoding: chunked
	}
	req, err := http.NewRequest(method, "http://127.0.0.1:"+e.ports[svc]+path, rd)
	if err != nil {
		return reply{Err: err.Error()}
	}
	req.Host = "verif-app.appspot.com"
	for k, v := range hdr {
		if k != "X-Verif-Chunked" {
			req.Header.Set(k, v)
		}
	}
	req.Header.Set("X-AppEngine-API-Ticket", ticket)
	req.Header.Set("X-AppEngine-Request-Log-Id", reqID)
	if id.User == fedUser {
		req.Header.Set("X-AppEngine-Federated-Identity", "https://idp.example/users/9")
		req.Header.Set("X-AppEngine-Federated-Provider", "https://idp.example/")
		req.Header.Set("X-AppEngine-Auth-Domain", "example.com")
		req.Header.Set("X-AppEngine-User-Is-Admin", "0")
	} else if id.User != "" {
		req.Header.Set("X-AppEngine-User-Email", id.User)
		// user.User.ID is only populated for Google accounts: two of the test users have none
		if id.User != "u1@example.com" && id.User != "u2@example.com" {
			req.Header.Set("X-AppEngine-User-Id", "uid-"+id.User)
		}
		// the app's auth domain is the domain of the test users (user.User.String() then differs from Email)
		req.Header.Set("X-AppEngine-Auth-Domain", "example.com")
		if id.UserAdmin {
			req.Header.Set("X-AppEngine-User-Is-Admin", "1")
		} else {
			req.Header.Set("X-AppEngine-User-Is-Admin", "0")
		}
	}
	t0 := time.Now()
	c := *client
	c.Timeout = timeout
	resp, err := c.Do(req)
	if err != nil {
		return reply{Err: err.Error(), ReqID: reqID, Ms: time.Since(t0).Milliseconds()}
	}
	defer resp.Body.Close()
	b, err := io.ReadAll(resp.Body)
	r := reply{Status: resp.StatusCode, Header: resp.Header, Body: b, ReqID: reqID, Ms: time.Since(t0).Milliseconds()}
	if err != nil {
		r.Err = err.Error()
	}
	return r
}

// ---------------------------------------------------------------- fault classes

var faultClasses = map[string]aefake.Fault{
	"oauth":         {Service: "user", Method: "GetOAuthUser"},
	"get_backend":   {Service: "datastore_v3", Method: "Get", KindContains: "backend,"},
	"get_tracker":   {Service: "datastore_v3", Method: "Get", KindContains: "backendTracker,"},
	"get_req":       {Service: "datastore_v3", Method: "Get", KindContains: "req:"},
	"get_resp":      {Service: "datastore_v3", Method: "Get", KindContains: "response,"},
	"get_parts":     {Service: "datastore_v3", Method: "Get", KindContains: "blobParts,"},
	"put_req":       {Service: "datastore_v3", Method: "Put", KindContains: "req:"},
	"put_resp":      {Service: "datastore_v3", Method: "Put", KindContains: "response,"},
	"put_parts":     {Service: "datastore_v3", Method: "Put", KindContains: "blobParts,"},
	"put_tracker":   {Service: "datastore_v3", Method: "Put", KindContains: "backendTracker,"},
	"put_activity":  {Service: "datastore_v3", Method: "Put", KindContains: "activityTracker,"},
	"put_backend":   {Service: "datastore_v3", Method: "Put", KindContains: "backend,"},
	"query_backend": {Service: "datastore_v3", Method: "RunQuery", KindExact: "backend"},
	"mc_get":        {Service: "memcache", Method: "Get"},
	"mc_set":        {Service: "memcache", Method: "Set"},
}

func (e *env) withFaults(fs []string, f func()) {
	for _, n := range fs {
		fc := faultClasses[n]
		fc.Remaining = 1 << 30
		e.api.AddFault(fc)
	}
	f()
	if len(fs) > 0 {
		e.api.ClearFaults()
		for _, n := range e.sticky {
			fc := faultClasses[n]
			fc.Remaining = 1 << 30
			e.api.AddFault(fc)
		}
	}
}

// ---------------------------------------------------------------- store views

type reqView struct {
	Backend, ID, User string
	Completed         bool
	Inlined           int
	Parts             []string
}

func (e *env) storedRequests() []reqView {
	var out []reqView
	for _, en := range e.api.Entities("req:") {
		b := strings.TrimPrefix(en.Kind, "req:")
		if u, err := unquote(b); err == nil {
			b = u
		}
		v := reqView{Backend: b, ID: en.Name, Completed: en.Bool["Completed"]}
		if l := en.Len["RequestBytes.Inlined"]; len(l) > 0 {
			v.Inlined = l[0]
		}
		v.Parts = en.Str["RequestBytes.Parts"]
		if u := en.Str["User"]; len(u) > 0 {
			v.User = u[0]
		}
		out = append(out, v)
	}
	return out
}

func unquote(s string) (string, error) {
	var u string
	err := json.Unmarshal([]byte(s), &u)
	return u, err
}

func (e *env) partLens(names []string) []int {
	m := map[string]int{}
	for _, en := range e.api.Entities("blobParts") {
		if l := en.Len["Bytes"]; len(l) > 0 {
			m[en.Name] = l[0]
		} else {
			m[en.Name] = 0
		}
	}
	out := []int{}
	for _, n := range names {
		if l, ok := m[n]; ok {
			out = append(out, l)
		} else {
			out = append(out, -1)
		}
	}
	return out
}

type respView struct {
	ID, Backend string
	Inlined     int
	Parts       []string
	StartTime   int64
}

func (e *env) storedResponses() []respView {
	var out []respView
	for _, en := range e.api.Entities("response") {
		if en.Kind != "response" {
			continue
		}
		v := respView{ID: en.Name, StartTime: en.Int["StartTime"]}
		if b := en.Str["BackendID"]; len(b) > 0 {
			v.Backend = b[0]
		}
		if l := en.Len["ResponseBytes.Inlined"]; len(l) > 0 {
			v.Inlined = l[0]
		}
		v.Parts = en.Str["ResponseBytes.Parts"]
		out = append(out, v)
	}
	return out
}

func diffKeys(a, b map[string]string) []string {
	d := []string{}
	for k, v := range a {
		if b[k] != v {
			d = append(d, k)
		}
	}
	for k := range b {
		if _, ok := a[k]; !ok {
			d = append(d, k)
		}
	}
	sort.Strings(d)
	return d
}

// ---------------------------------------------------------------- histories

type ucall struct {
	K         int
	N         int64
	RID       string
	User      string
	Method    string
	URL       string
	Body      []byte
	Marker    string
	done      chan reply
	finished  bool
	Backend   string // observed: the backend under which the request was stored
	StoredLen int
}

type hist struct {
	e      *env
	rng    *rand.Rand
	idx    int
	opi    int
	calls  []*ucall
	tags   int
	posts  map[int][]byte // tag -> bytes posted
	ovh    int            // measured request serialisation overhead (stored length - body length), 0 = unknown
	sticky []string
}

var (
	backendIDs = []string{"b0", "b1", "b2", "b3"}
	agentMails = []string{"agent0@example.com", "agent1@example.com", "agent2@example.com"}
	// near misses of registered identities: case, prefix, suffix, sub-address
	agentNear = []string{"Agent0@example.com", "agent0@example.com.evil.example", "xagent0@example.com", "agent0", "agent1@EXAMPLE.com", "agent0+x@example.com", "allUsers", aefake.NoEmail}
	userMails = []string{"u0@example.com", "u1@example.com", "u2@example.com"}
	userNear  = []string{"U0@example.com", "u0@example.com.evil.example", "xu0@example.com", "u1@EXAMPLE.COM", "allusers", "AllUsers"}
	// prefixes are matched against the DECODED request path; two of them need escaping on the wire
	prefixPool = []string{"/", "/a/", "/a/b/", "/b/", "/a/b/c/", "/x", "/a", "/my notebooks/", "/~u/"}
	// request targets as sent (escaped form)
	pathPool = []string{"/", "/a/x", "/a/b/x", "/a/b/c/d", "/b/", "/bq", "/x", "/y/z", "/a", "/a/b/", "/my%20notebooks/n1", "/my%20notebooks", "/%7Eu/home", "/~u/home", "/a%2Fb/x", "/a/b%2Fc/d"}
)

func (h *hist) pick(l []string) string { return l[h.rng.Intn(len(l))] }

func (h *hist) emit(op map[string]interface{}, obs map[string]interface{}) {
	h.e.emit(map[string]interface{}{"kind": "op", "h": h.idx, "i": h.opi, "op": op, "obs": obs})
	h.opi++
	if op["op"] != "ufinish" && op["op"] != "upeek" && len(h.sticky) == 0 {
		h.collect()
	}
}

// collect: a waiting client handler polls every 100 ms; as soon as a response is visible to it the
// driver waits for it to return, so that the order of deliveries is the order in the history.
func (h *hist) collect() {
	for _, c := range h.calls {
		if !c.finished && c.Backend != "" && h.responseReady(c) {
			h.opUFinish(c.K)
		}
	}
}

// sticky faults stay on across operations (they also hit the polls of waiting client handlers)
func (h *hist) opSticky(fs []string) {
	h.e.api.ClearFaults()
	h.sticky = fs
	h.e.sticky = fs
	for _, n := range fs {
		fc := faultClasses[n]
		fc.Remaining = 1 << 30
		h.e.api.AddFault(fc)
	}
	h.e.emit(map[string]interface{}{"kind": "op", "h": h.idx, "i": h.opi, "op": map[string]interface{}{"op": "sticky", "faults": fs}, "obs": map[string]interface{}{}})
	h.opi++
	if len(fs) == 0 {
		time.Sleep(150 * time.Millisecond) // one poll period of the waiting handlers
		h.collect()
	}
}

// upeek: is a response visible to the waiting handler of call k right now?
func (h *hist) opUPeek(k int) {
	c := h.calls[k]
	if c.finished || c.Backend == "" {
		return
	}
	if h.responseReady(c) {
		h.opUFinish(k)
		return
	}
	h.emit(map[string]interface{}{"op": "upeek", "k": k}, map[string]interface{}{"ready": false})
}

func adminIdent(name string) ident {
	switch name {
	case "admin":
		return ident{User: "admin@example.com", UserAdmin: true}
	case "oauthadmin":
		return ident{OAuth: "root@example.com", OAuthAdm: true}
	case "user":
		return ident{User: "u0@example.com"}
	case "oauth":
		return ident{OAuth: "agent0@example.com"}
	}
	return ident{}
}

func agentHdr(backend, reqID string) map[string]string {
	h := map[string]string{}
	if backend != "" {
		h["X-Inverting-Proxy-Backend-ID"] = backend
	}
	if reqID != "" {
		h["X-Inverting-Proxy-Request-ID"] = reqID
	}
	return h
}

const quick = 5 * time.Second

func (h *hist) faultsFor(classes []string, p float64) []string {
	fs := []string{}
	if h.rng.Float64() >= p {
		return fs
	}
	for _, c := range classes {
		if h.rng.Intn(3) == 0 {
			fs = append(fs, c)
		}
	}
	if len(fs) == 0 {
		fs = append(fs, classes[h.rng.Intn(len(classes))])
	}
	sort.Strings(fs)
	return fs
}

func (h *hist) opAdd(id, name, buser, euser string, prefixes []string, fs []string) {
	b, _ := json.Marshal(map[string]interface{}{"id": id, "backendUser": buser, "endUser": euser, "pathPrefixes": prefixes})
	before := h.e.api.Snapshot()
	var r reply
	h.e.withFaults(fs, func() { r = h.e.call("api", "POST", "/api/backends", adminIdent(name), nil, b, quick, false) })
	if prefixes == nil {
		prefixes = []string{}
	}
	h.emit(map[string]interface{}{"op": "add", "ident": name, "id": id, "buser": buser, "euser": euser, "prefixes": prefixes, "faults": fs},
		map[string]interface{}{"status": r.Status, "err": r.Err, "changed": diffKeys(before, h.e.api.Snapshot())})
}

func (h *hist) opList(name string) {
	before := h.e.api.Snapshot()
	r := h.e.call("api", "GET", "/api/backends", adminIdent(name), nil, nil, quick, false)
	var bs []map[string]interface{}
	json.Unmarshal(r.Body, &bs)
	ids := []string{}
	for _, b := range bs {
		ids = append(ids, fmt.Sprint(b["id"]))
	}
	sort.Strings(ids)
	h.emit(map[string]interface{}{"op": "list", "ident": name},
		map[string]interface{}{"status": r.Status, "err": r.Err, "ids": ids, "body_len": len(r.Body), "mentions_backend_user": bytes.Contains(r.Body, []byte("@example.com")),
			"changed": diffKeys(before, h.e.api.Snapshot())})
}

func (h *hist) opDelete(name, id string) {
	before := h.e.api.Snapshot()
	r := h.e.call("api", "DELETE", "/api/backends/"+id, adminIdent(name), nil, nil, quick, false)
	h.emit(map[string]interface{}{"op": "delete", "ident": name, "id": id},
		map[string]interface{}{"status": r.Status, "err": r.Err, "changed": diffKeys(before, h.e.api.Snapshot())})
}

func (h *hist) opAPIOther(name, method, path string) {
	before := h.e.api.Snapshot()
	r := h.e.call("api", method, path, adminIdent(name), nil, nil, quick, false)
	h.emit(map[string]interface{}{"op": "api_other", "ident": name, "method": method, "path": path},
		map[string]interface{}{"status": r.Status, "err": r.Err, "front": r.Front, "changed": diffKeys(before, h.e.api.Snapshot())})
}

func (h *hist) opCron(name string) {
	before := h.e.api.Snapshot()
	r := h.e.call("api", "GET", "/cron/delete", adminIdent(name), nil, nil, quick, false)
	h.emit(map[string]interface{}{"op": "cron", "ident": name},
		map[string]interface{}{"status": r.Status, "err": r.Err, "front": r.Front, "changed": diffKeys(before, h.e.api.Snapshot())})
}

var ageSeconds = map[string]int64{"live": 2, "edge-live": 290, "edge-stale": 310, "stale": 1800, "old": 7200}

func (h *hist) opSeen(id, age string) {
	ok := h.e.api.SetTimeProperty("backendTracker", id, "LastSeen", time.Now().Add(-time.Duration(ageSeconds[age])*time.Second).UnixNano()/1000)
	h.emit(map[string]interface{}{"op": "seen", "id": id, "age": age, "age_s": ageSeconds[age]}, map[string]interface{}{"applied": ok})
}

func (h *hist) bodyFor(target int) []byte {
	// target = wanted length of the stored (serialised) request; falls back to the body length when the overhead is unknown
	n := target
	if h.ovh > 0 && target >= h.ovh {
		n = target - h.ovh
	}
	if n < 0 {
		n = 0
	}
	b := make([]byte, n)
	for i := range b {
		b[i] = byte('a' + (i+target)%26)
	}
	return b
}

func (h *hist) opUStart(user, method, url string, target int, fs []string, raw bool) {
	wireUser := user
	fed := user == fedUser
	if fed {
		user = "" // recorded as the empty e-mail address, marked federated
	}
	k := len(h.calls)
	var body []byte
	if method == "POST" {
		body = h.bodyFor(target)
	}
	n := atomic.AddInt64(&h.e.seq, 1)
	c := &ucall{K: k, N: n, RID: ridOf(n), User: user, Method: method, URL: url, Body: body, Marker: fmt.Sprintf("m-%d-%d", h.idx, k), done: make(chan reply, 1)}
	h.calls = append(h.calls, c)
	gt := h.groundTruth()
	before := h.e.api.Snapshot()
	for _, name := range fs {
		fc := faultClasses[name]
		fc.Remaining = 1 << 30
		h.e.api.AddFault(fc)
	}
	go func() {
		hdr := map[string]string{"X-Verif": c.Marker}
		if strings.Contains(url, "chunked=1") {
			hdr["X-Verif-Chunked"] = "1"
		}
		c.done <- h.e.callN(n, "default", method, url, ident{User: wireUser}, hdr, body, 45*time.Second, raw)
	}()
	obs := map[string]interface{}{}
	deadline := time.Now().Add(6 * time.Second)
	for {
		select {
		case r := <-c.done:
			c.finished = true
			obs["outcome"] = "returned"
			obs["status"] = r.Status
			obs["front"] = r.Front
			obs["err"] = r.Err
			obs["resp_tag"] = r.Header.Get("X-Resp-Tag")
			obs["body_ok"] = h.bodyMatches(r)
			obs["hdr_ok"] = headersMatch(r)
			obs["has_reqid_header"] = r.Header.Get("X-Inverting-Proxy-Request-ID") != ""
		default:
		}
		if c.finished {
			break
		}
		found := false
		for _, v := range h.e.storedRequests() {
			if v.ID == c.RID {
				c.Backend = v.Backend
				pl := h.e.partLens(v.Parts)
				c.StoredLen = v.Inlined
				for _, l := range pl {
					c.StoredLen += l
				}
				obs["outcome"] = "stored"
				obs["backend"] = v.Backend
				obs["stored_user"] = v.User
				obs["inlined"] = v.Inlined
				obs["part_lens"] = pl
				obs["stored_len"] = c.StoredLen
				obs["backend_enduser"] = h.endUserOf(v.Backend)
				if method == "POST" && h.ovh == 0 {
					h.ovh = c.StoredLen - len(body)
				}
				found = true
			}
		}
		if found {
			break
		}
		if time.Now().After(deadline) {
			obs["outcome"] = "stuck"
			break
		}
		time.Sleep(3 * time.Millisecond)
	}
	if len(fs) > 0 {
		// keep the faults until the handler has passed its store calls
		if !c.finished {
			time.Sleep(20 * time.Millisecond)
		}
		h.e.api.ClearFaults()
		for _, n := range h.sticky {
			fc := faultClasses[n]
			fc.Remaining = 1 << 30
			h.e.api.AddFault(fc)
		}
	}
	obs["changed"] = diffKeys(before, h.e.api.Snapshot())
	obs["gt_backends"] = gt
	h.emit(map[string]interface{}{"op": "ustart", "k": k, "user": user, "federated": fed, "method": method, "url": url, "body_len": len(body), "rid": c.RID, "faults": fs, "raw": raw}, obs)
}

// headersMatch: the repeated fields of the posted response arrive complete and in order
func headersMatch(r reply) bool {
	var tag int
	if _, err := fmt.Sscanf(r.Header.Get("X-Resp-Tag"), "t%d", &tag); err != nil {
		return false
	}
	xm, sc := r.Header["X-Multi"], r.Header["Set-Cookie"]
	return len(xm) == 3 && xm[0] == fmt.Sprintf("m1-%d", tag) && xm[1] == fmt.Sprintf("m2-%d", tag) && xm[2] == "" &&
		len(sc) == 2 && sc[0] == fmt.Sprintf("a=%d", tag) && sc[1] == fmt.Sprintf("b=%d; Path=/", tag)
}

func (h *hist) bodyMatches(r reply) bool {
	t := r.Header.Get("X-Resp-Tag")
	var tag int
	if _, err := fmt.Sscanf(t, "t%d", &tag); err != nil {
		return false
	}
	want, ok := h.posts[tag]
	if !ok {
		return false
	}
	i := bytes.Index(want, []byte("\r\n\r\n"))
	return bytes.Equal(want[i+4:], r.Body)
}

func (h *hist) opUFinish(k int) {
	c := h.calls[k]
	if c.finished {
		return
	}
	select {
	case r := <-c.done:
		c.finished = true
		h.emit(map[string]interface{}{"op": "ufinish", "k": k}, map[string]interface{}{"status": r.Status, "err": r.Err, "resp_tag": r.Header.Get("X-Resp-Tag"), "body_ok": h.bodyMatches(r), "hdr_ok": headersMatch(r),
			"body_len": len(r.Body), "ms": r.Ms})
	case <-time.After(10 * time.Second):
		h.emit(map[string]interface{}{"op": "ufinish", "k": k}, map[string]interface{}{"status": -1, "err": "no answer within 10 s"})
	}
}

func mkResponse(tag int, total int, status int, cacheControl bool) []byte {
	// repeated header fields must all reach the client, in order
	head := fmt.Sprintf("HTTP/1.1 %d Status\r\nX-Resp-Tag: t%d\r\nX-Multi: m1-%d\r\nSet-Cookie: a=%d\r\nX-Multi: m2-%d\r\nSet-Cookie: b=%d; Path=/\r\nX-Multi: \r\n", status, tag, tag, tag, tag, tag)
	if cacheControl {
		head += "Cache-Control: no-store\r\n"
	}
	head += "Content-Length: "
	for bl := total; bl >= 0; bl-- {
		hd := head + fmt.Sprint(bl) + "\r\n\r\n"
		if len(hd)+bl == total {
			body := make([]byte, bl)
			for i := range body {
				body[i] = byte('A' + (i+tag)%26)
			}
			return append([]byte(hd), body...)
		}
		if len(hd)+bl < total {
			break
		}
	}
	return []byte(head + "0\r\n\r\n")
}

func (h *hist) ridFor(ref string) string {
	var k int
	if i := strings.LastIndex(ref, "+k"); i > 0 {
		// a request ID made up by the caller: "<prefix>+k<n>" stands for <prefix> ":" <the ID of call n>
		if _, err := fmt.Sscanf(ref[i+1:], "k%d", &k); err == nil && k < len(h.calls) {
			return ref[:i] + ":" + h.calls[k].RID
		}
	}
	if _, err := fmt.Sscanf(ref, "k%d", &k); err == nil && k < len(h.calls) {
		return h.calls[k].RID
	}
	if ref == "none" {
		return ""
	}
	return "no-such-request"
}

func (h *hist) kOf(rid string) interface{} {
	for _, c := range h.calls {
		if c.RID == rid {
			return c.K
		}
	}
	return rid
}

func (h *hist) opAList(mail, backend string, fs []string) {
	ownerBefore := h.ownerOf(backend)
	before := h.e.api.Snapshot()
	var r reply
	h.e.withFaults(fs, func() {
		r = h.e.call("agent", "GET", "/agent/pending", ident{OAuth: mail}, agentHdr(backend, ""), nil, 3*time.Second, false)
	})
	var ids []string
	json.Unmarshal(r.Body, &ids)
	ks := []interface{}{}
	for _, id := range ids {
		ks = append(ks, h.kOf(id))
	}
	obs := map[string]interface{}{"status": r.Status, "err": r.Err != "", "ks": ks, "changed": diffKeys(before, h.e.api.Snapshot()), "leak": r.Status != 200 && h.leaks(r), "denial": h.denial(r, fs)}
	if r.Err != "" {
		obs["status"] = -1 // long poll (nothing pending): the client gave up after 3 s
	}
	obs["owner"] = ownerBefore
	obs["tracker_age_after_s"] = h.trackerAge(backend)
	h.emit(map[string]interface{}{"op": "alist", "ident": mail, "backend": backend, "faults": fs}, obs)
}

// leaks: does an error reply reveal anything about stored requests, users or backend owners?
// denial: the text of a 401 answer to a call made without injected faults ("" otherwise).  A caller that is refused
// must not be able to tell a backend ID that exists from one that does not.
func (h *hist) denial(r reply, fs []string) string {
	if r.Status != 401 || len(fs) > 0 || len(h.e.sticky) > 0 {
		return ""
	}
	b := strings.TrimSpace(string(r.Body))
	if len(b) > 200 {
		b = b[:200]
	}
	if b == "" {
		b = "(empty)"
	}
	return b
}

func (h *hist) leaks(r reply) bool {
	if r.Header.Get("X-Inverting-Proxy-User-ID") != "" || r.Header.Get("X-Inverting-Proxy-Request-Start-Time") != "" {
		return true
	}
	for _, c := range h.calls {
		if bytes.Contains(r.Body, []byte(c.Marker)) || (c.User != "" && bytes.Contains(r.Body, []byte(c.User))) {
			return true
		}
	}
	for _, m := range agentMails {
		if bytes.Contains(r.Body, []byte(m)) {
			return true
		}
	}
	return false
}

func (h *hist) opAFetch(mail, backend, ref string, fs []string) {
	rid := h.ridFor(ref)
	ownerBefore := h.ownerOf(backend)
	before := h.e.api.Snapshot()
	var r reply
	h.e.withFaults(fs, func() {
		r = h.e.call("agent", "GET", "/agent/request", ident{OAuth: mail}, agentHdr(backend, rid), nil, quick, false)
	})
	obs := map[string]interface{}{"status": r.Status, "err": r.Err, "changed": diffKeys(before, h.e.api.Snapshot()), "user_hdr": r.Header.Get("X-Inverting-Proxy-User-ID"), "len": len(r.Body)}
	if r.Status == 200 {
		obs["matches"] = -1
		if fr, err := http.ReadRequest(bufio.NewReader(bytes.NewReader(r.Body))); err == nil {
			b, _ := io.ReadAll(fr.Body)
			for _, c := range h.calls {
				if fr.Header.Get("X-Verif") == c.Marker {
					if fr.Method == c.Method && fr.URL.RequestURI() == c.URL && bytes.Equal(b, c.Body) && len(r.Body) == c.StoredLen {
						obs["matches"] = c.K
					} else {
						obs["matches"] = -2
						obs["mismatch"] = fmt.Sprintf("method %s uri %s body %d fetched %d stored %d", fr.Method, fr.URL.RequestURI(), len(b), len(r.Body), c.StoredLen)
					}
				}
			}
		} else {
			obs["parse_err"] = err.Error()
		}
	} else {
		obs["leak"] = h.leaks(r)
		obs["denial"] = h.denial(r, fs)
	}
	obs["owner"] = ownerBefore
	h.emit(map[string]interface{}{"op": "afetch", "ident": mail, "backend": backend, "req": ref, "faults": fs}, obs)
}

func (h *hist) opARespond(mail, backend, ref string, total int, status int, cc bool, fs []string) {
	rid := h.ridFor(ref)
	h.tags++
	tag := h.tags
	resp := mkResponse(tag, total, status, cc)
	h.posts[tag] = resp
	ownerBefore := h.ownerOf(backend)
	before := h.e.api.Snapshot()
	var r reply
	h.e.withFaults(fs, func() {
		r = h.e.call("agent", "POST", "/agent/response", ident{OAuth: mail}, agentHdr(backend, rid), resp, 10*time.Second, false)
	})
	obs := map[string]interface{}{"status": r.Status, "err": r.Err != "", "ms": r.Ms, "leak": r.Status != 200 && h.leaks(r), "denial": h.denial(r, fs)}
	if r.Err != "" {
		obs["status"] = -1 // the call did not return
	}
	time.Sleep(5 * time.Millisecond)
	obs["changed"] = diffKeys(before, h.e.api.Snapshot())
	for _, v := range h.e.storedResponses() {
		if v.ID == rid {
			obs["resp_inlined"] = v.Inlined
			obs["resp_part_lens"] = h.e.partLens(v.Parts)
			obs["resp_start_time"] = v.StartTime
		}
	}
	obs["owner"] = ownerBefore
	obs["rid"] = rid
	h.emit(map[string]interface{}{"op": "arespond", "ident": mail, "backend": backend, "req": ref, "tag": tag, "len": len(resp), "status": status, "cc": cc, "faults": fs}, obs)
}

// responseReady: would a poll of the waiting client handler find a response now?
func (h *hist) responseReady(c *ucall) bool {
	for _, v := range h.e.storedResponses() {
		if v.ID == c.RID {
			return true
		}
	}
	key := fmt.Sprintf("resp:%q:%q", c.Backend, c.RID)
	for _, k := range h.e.api.CacheKeys() {
		if k == key {
			return true
		}
	}
	return false
}

func (h *hist) pendingOf(backend string) []string {
	var out []string
	for _, v := range h.e.storedRequests() {
		if v.Backend == backend && !v.Completed {
			out = append(out, v.ID)
		}
	}
	return out
}

var sizePool = []int{999999, 1000000, 1000001, 1999999, 2000000, 2000001, 3000000}

func (h *hist) size(boundaryP float64) int {
	if h.rng.Float64() < boundaryP {
		return sizePool[h.rng.Intn(len(sizePool))]
	}
	return 400 + h.rng.Intn(3000)
}

func (h *hist) run(nops int, faultP, bigP float64) {
	h.e.api.Reset()
	h.posts = map[int][]byte{}
	registered := map[string]string{} // backend id -> backend user (what the generator believes; only used to bias choices)
	for i := 0; i < 1+h.rng.Intn(3); i++ {
		id := h.pick(backendIDs)
		bu := h.pick(agentMails)
		eu := h.pick(append(userMails, "allUsers", "allUsers"))
		np := 1 + h.rng.Intn(3)
		var ps []string
		for j := 0; j < np; j++ {
			ps = append(ps, h.pick(prefixPool))
		}
		h.opAdd(id, "admin", bu, eu, ps, []string{})
		registered[id] = bu
		if h.rng.Intn(4) != 0 {
			h.opSeen(id, "live")
		}
	}
	for h.opi < nops {
		x := h.rng.Intn(100)
		switch {
		case x < 8: // admin add by a random identity
			name := h.pick([]string{"admin", "admin", "oauthadmin", "user", "oauth", "none"})
			id := h.pick(backendIDs)
			bu := h.pick(agentMails)
			eu := h.pick(append(userMails, "allUsers"))
			var ps []string
			for j := 0; j < 1+h.rng.Intn(3); j++ {
				ps = append(ps, h.pick(prefixPool))
			}
			if h.rng.Intn(12) == 0 {
				ps = nil // rejected: missing field
			}
			fs := h.faultsFor([]string{"put_tracker", "put_backend", "oauth"}, faultP)
			h.opAdd(id, name, bu, eu, ps, fs)
			if (name == "admin" || name == "oauthadmin") && ps != nil && len(fs) == 0 {
				registered[id] = bu
			}
		case x < 12:
			h.opList(h.pick([]string{"admin", "oauthadmin", "user", "oauth", "none"}))
		case x < 16:
			name := h.pick([]string{"admin", "oauthadmin", "user", "oauth", "none"})
			id := h.pick(backendIDs)
			h.opDelete(name, id)
			if name == "admin" || name == "oauthadmin" {
				delete(registered, id)
			}
		case x < 19:
			m := h.pick([]string{"PUT", "GET", "POST", "DELETE"})
			p := h.pick([]string{"/api/backends", "/api/backends/b0", "/api/other", "/api/backends/"})
			h.opAPIOther(h.pick([]string{"admin", "oauthadmin", "user", "oauth", "none"}), m, p)
		case x < 22:
			h.opCron(h.pick([]string{"admin", "admin", "oauthadmin", "user", "none"}))
			registered = map[string]string{} // the generator no longer knows; choices become unbiased
			for _, en := range h.e.api.Entities("backend") {
				if en.Kind == "backend" {
					if bu := en.Str["BackendUser"]; len(bu) > 0 {
						registered[en.Name] = bu[0]
					}
				}
			}
		case x < 30:
			h.opSeen(h.pick(backendIDs), h.pick([]string{"live", "live", "live", "edge-live", "edge-stale", "stale", "old"}))
		case x < 50: // end-user request
			user := h.pick(append(append(userMails, "", "allUsers", fedUser), userNear...))
			method := "POST"
			if h.rng.Intn(4) == 0 {
				method = "GET"
			}
			url := h.pick(pathPool)
			if bs := h.backends(); len(bs) > 0 && h.rng.Intn(10) < 7 {
				// aim at a registered backend: its end user and a path under one of its prefixes
				b := bs[h.rng.Intn(len(bs))]
				if eu := b.Str["EndUser"]; len(eu) > 0 && eu[0] != "allUsers" {
					user = eu[0]
				} else {
					user = h.pick(userMails)
				}
				if h.rng.Intn(8) == 0 {
					user = h.pick(userNear)
				}
				if ps := b.Str["PathPrefixes"]; len(ps) > 0 {
					url = (&neturl.URL{Path: h.pick(ps) + h.pick([]string{"", "x", "x/y", "b/", "b/c/z"})}).EscapedPath()
				}
				if h.rng.Intn(3) != 0 {
					h.opSeen(b.Name, h.pick([]string{"live", "live", "live", "edge-live"}))
				}
			}
			if h.rng.Intn(3) == 0 {
				url += fmt.Sprintf("?q=%d", h.rng.Intn(3))
			}
			raw := user == "" && h.rng.Intn(2) == 0
			fs := h.faultsFor([]string{"query_backend", "get_tracker", "put_req", "put_parts", "mc_set", "mc_get"}, faultP)
			sz := h.size(bigP)
			if contains(fs, "put_req") || contains(fs, "put_parts") {
				// the stored length of a request that is not stored cannot be observed: stay away from the limits
				sz = 400 + h.rng.Intn(3000)
				if h.rng.Intn(4) == 0 {
					sz = 2500000
				}
			}
			h.opUStart(user, method, url, sz, fs, raw)
		case x < 62: // agent list
			mail := h.pick(append(append(agentMails, ""), agentNear...))
			backend := h.pick(append(backendIDs, "", "nosuch", "B0", "b0x", "b0%20", "b"))
			if h.rng.Intn(2) == 0 {
				ids := []string{}
				for id := range registered {
					ids = append(ids, id)
				}
				sort.Strings(ids)
				if len(ids) > 0 {
					backend = h.pick(ids)
					mail = registered[backend]
				}
			}
			fs := h.faultsFor([]string{"oauth", "get_backend", "put_tracker"}, faultP)
			// an authorised list with nothing pending is a 30 s long poll which also keeps refreshing the tracker: skip it
			if h.ownerOf(backend) == mail && mail != "" && len(h.pendingOf(backend)) == 0 && !contains(fs, "oauth") && !contains(fs, "get_backend") {
				continue
			}
			h.opAList(mail, backend, fs)
		case x < 78: // agent fetch
			mail, backend, ref := h.agentTarget(registered)
			h.opAFetch(mail, backend, ref, h.faultsFor([]string{"oauth", "get_backend", "mc_get", "get_req", "get_parts"}, faultP))
		case x < 94: // agent respond
			mail, backend, ref := h.agentTarget(registered)
			status := 200
			if h.rng.Intn(5) == 0 {
				status = 404
			}
			h.opARespond(mail, backend, ref, h.size(bigP)+60, status, h.rng.Intn(3) == 0,
				h.faultsFor([]string{"oauth", "get_backend", "mc_get", "mc_set", "get_req", "put_req", "put_resp", "put_parts", "put_activity"}, faultP))
		default:
			h.opList("admin")
		}
	}
}

func (h *hist) backends() []aefake.EntInfo {
	var out []aefake.EntInfo
	for _, en := range h.e.api.Entities("backend") {
		if en.Kind == "backend" {
			out = append(out, en)
		}
	}
	return out
}

// groundTruth: the registered backends and the age of their trackers, read from the fake datastore
func (h *hist) groundTruth() []map[string]interface{} {
	ages := map[string]float64{}
	nowMicros := time.Now().UnixNano() / 1000
	for _, en := range h.e.api.Entities("backendTracker") {
		ages[en.Name] = float64(nowMicros-en.Int["LastSeen"]) / 1e6
	}
	out := []map[string]interface{}{}
	for _, en := range h.backends() {
		eu := ""
		if v := en.Str["EndUser"]; len(v) > 0 {
			eu = v[0]
		}
		age, ok := ages[en.Name]
		if !ok {
			age = -1
		}
		ps := en.Str["PathPrefixes"]
		if ps == nil {
			ps = []string{}
		}
		out = append(out, map[string]interface{}{"id": en.Name, "euser": eu, "prefixes": ps, "age_s": age})
	}
	return out
}

// trackerAge: seconds since the backend's tracker was last written (-1: no tracker)
func (h *hist) trackerAge(backend string) float64 {
	nowMicros := time.Now().UnixNano() / 1000
	for _, en := range h.e.api.Entities("backendTracker") {
		if en.Name == backend {
			return float64(nowMicros-en.Int["LastSeen"]) / 1e6
		}
	}
	return -1
}

func (h *hist) opWait(ms int) {
	time.Sleep(time.Duration(ms) * time.Millisecond)
	h.emit(map[string]interface{}{"op": "wait", "ms": ms}, map[string]interface{}{})
}

func (h *hist) endUserOf(backend string) string {
	for _, en := range h.backends() {
		if en.Name == backend {
			if eu := en.Str["EndUser"]; len(eu) > 0 {
				return eu[0]
			}
		}
	}
	return ""
}

// ownerOf reads the registered backend user from the (fake) datastore: ground truth, used only to avoid long polls.
func (h *hist) ownerOf(backend string) string {
	for _, en := range h.e.api.Entities("backend") {
		if en.Kind == "backend" && en.Name == backend {
			if bu := en.Str["BackendUser"]; len(bu) > 0 {
				return bu[0]
			}
		}
	}
	return "\x00none"
}

func contains(l []string, s string) bool {
	for _, x := range l {
		if x == s {
			return true
		}
	}
	return false
}

func (h *hist) agentTarget(registered map[string]string) (mail, backend, ref string) {
	mail = h.pick(append(append(agentMails, ""), agentNear...))
	backend = h.pick(append(backendIDs, "", "nosuch", "B0", "b0x", "b0%20", "b"))
	ref = "unknown"
	var stored []*ucall
	for _, c := range h.calls {
		if c.Backend != "" {
			stored = append(stored, c)
		}
	}
	if len(stored) > 0 && h.rng.Intn(6) != 0 {
		c := stored[h.rng.Intn(len(stored))]
		ref = fmt.Sprintf("k%d", c.K)
		switch h.rng.Intn(10) {
		case 0: // another backend's agent names this request
		case 1: // the right backend, a random identity
			backend = c.Backend
		default: // the authorised agent (as far as the generator knows)
			backend = c.Backend
			if bu := h.ownerOf(backend); bu != "\x00none" {
				mail = bu
			}
		}
	} else if h.rng.Intn(8) == 0 {
		ref = "none"
	}
	return
}

// ---------------------------------------------------------------- scripted histories

const (
	ag0 = "agent0@example.com"
	us0 = "u0@example.com"
)

func (h *hist) setup() {
	h.e.api.Reset()
	h.posts = map[int][]byte{}
	h.opAdd("b0", "admin", ag0, us0, []string{"/"}, []string{})
	h.opSeen("b0", "live")
}

func (h *hist) lastK() string { return fmt.Sprintf("k%d", len(h.calls)-1) }

// script 0: both store writes of a posted response fail (two senders on the error channel)
func (h *hist) scriptBothWritesFail() {
	h.setup()
	h.opUStart(us0, "POST", "/w", 800, []string{}, false)
	h.opARespond(ag0, "b0", h.lastK(), 900, 200, true, []string{"put_req", "put_resp"})
	h.opUStart(us0, "POST", "/w2", 800, []string{}, false)
	h.opARespond(ag0, "b0", h.lastK(), 2500000, 200, true, []string{"put_parts"})
	h.opUStart(us0, "POST", "/w3", 800, []string{}, false)
	h.opARespond(ag0, "b0", h.lastK(), 900, 200, true, []string{"mc_get", "mc_set", "put_req", "put_resp"})
	h.opAList(ag0, "b0", []string{})
}

// script 1: the cron job runs between the agent's post and the waiting handler's next successful poll
func (h *hist) scriptCronBetween() {
	h.setup()
	h.opUStart(us0, "POST", "/c", 800, []string{}, false)
	k := len(h.calls) - 1
	h.opSticky([]string{"get_resp", "mc_get"})
	h.opWait(250) // at least two polls of the waiting handler fail before the response is there
	h.opARespond(ag0, "b0", h.lastK(), 1000500, 200, true, []string{})
	h.opCron("admin")
	h.opSticky([]string{})
	h.opUPeek(k)
	// and a small (cached) response
	h.opUStart(us0, "POST", "/c2", 800, []string{}, false)
	k = len(h.calls) - 1
	h.opSticky([]string{"get_resp", "mc_get"})
	h.opWait(250)
	h.opARespond(ag0, "b0", h.lastK(), 900, 200, true, []string{})
	h.opCron("admin")
	h.opSticky([]string{})
	h.opUPeek(k)
}

// script 2: request and response sizes at the inline/part/cache limits
func (h *hist) scriptSizes() {
	h.setup()
	h.opUStart(us0, "POST", "/probe", 800, []string{}, false) // measures the serialisation overhead
	h.opARespond(ag0, "b0", h.lastK(), 700, 200, true, []string{})
	for _, n := range []int{999998, 999999, 1000000, 1000001, 1999999, 2000000, 2000001, 3000000} {
		h.opUStart(us0, "POST", "/size", n, []string{}, false)
		h.opAFetch(ag0, "b0", h.lastK(), []string{})
		h.opAFetch(ag0, "b0", h.lastK(), []string{"mc_get"})
		h.opARespond(ag0, "b0", h.lastK(), n, 200, true, []string{})
		h.opAList(ag0, "b0", []string{})
	}
	// uploads of unknown length (Transfer-Encoding: chunked on the client's side)
	for _, n := range []int{900, 400000, 1200000} {
		h.opUStart(us0, "POST", fmt.Sprintf("/up/%d?chunked=1", n), n, []string{}, false)
		h.opAFetch(ag0, "b0", h.lastK(), []string{})
		h.opARespond(ag0, "b0", h.lastK(), 700, 200, true, []string{})
	}
}

// script 3: identities x backends x requests for the three agent endpoints
func (h *hist) scriptAccessMatrix() {
	h.e.api.Reset()
	h.posts = map[int][]byte{}
	h.opAdd("b0", "admin", "agent0@example.com", "u0@example.com", []string{"/"}, []string{})
	h.opAdd("b1", "admin", "agent1@example.com", "u1@example.com", []string{"/"}, []string{})
	h.opSeen("b0", "live")
	h.opSeen("b1", "live")
	h.opUStart("u0@example.com", "POST", "/secret0", 600, []string{}, false)
	h.opUStart("u1@example.com", "POST", "/secret1", 600, []string{}, false)
	h.opUStart("u0@example.com", "POST", "/secret0b", 600, []string{}, false)
	h.opUStart("u1@example.com", "POST", "/secret1b", 600, []string{}, false)
	for _, mail := range []string{"", "agent0@example.com", "agent1@example.com", "agent2@example.com", "Agent0@example.com", "agent0@example.com.evil.example", "agent0"} {
		for _, b := range []string{"b0", "b1", "nosuch", "", "B0"} {
			if !(h.ownerOf(b) == mail && len(h.pendingOf(b)) == 0) {
				h.opAList(mail, b, []string{})
			}
			for _, ref := range []string{"k0", "k1", "unknown", "none"} {
				h.opAFetch(mail, b, ref, []string{})
			}
			for _, ref := range []string{"k2", "k3", "unknown", "none"} {
				h.opARespond(mail, b, ref, 700, 200, true, []string{})
			}
		}
	}
	for _, name := range []string{"none", "user", "oauth", "oauthadmin", "admin"} {
		h.opList(name)
		h.opAdd("b2", name, "agent2@example.com", "u2@example.com", []string{"/z/"}, []string{})
		h.opAPIOther(name, "PUT", "/api/backends")
		h.opAPIOther(name, "GET", "/api/other")
		h.opCron(name)
		h.opDelete(name, "b2")
	}
}

// script 4: routing and liveness (C18): own before shared, longest prefix, the 5-minute window
func (h *hist) scriptRouting() {
	h.e.api.Reset()
	h.posts = map[int][]byte{}
	h.opAdd("b0", "admin", ag0, "u0@example.com", []string{"/"}, []string{})
	h.opAdd("b1", "admin", ag0, "u0@example.com", []string{"/a/", "/a/b/"}, []string{})
	h.opAdd("b2", "admin", ag0, "allUsers", []string{"/s/", "/a/"}, []string{})
	h.opAdd("b3", "admin", ag0, "u1@example.com", []string{"/a/b/c/", "/my notebooks/", "/~u/"}, []string{})
	for _, ages := range [][4]string{{"live", "live", "live", "live"}, {"live", "edge-live", "live", "live"}, {"live", "edge-stale", "live", "live"}, {"live", "stale", "live", "old"}, {"stale", "live", "edge-live", "live"}} {
		for i, a := range ages {
			h.opSeen(fmt.Sprintf("b%d", i), a)
		}
		for _, u := range []string{"u0@example.com", "u1@example.com", "u2@example.com", "allUsers", "U0@example.com", "AllUsers", fedUser} {
			for _, p := range []string{"/x", "/a/x", "/a/b/x", "/a/b/c/x", "/s/x", "/a", "/sx", "/my%20notebooks/n", "/%7Eu/h", "/~u/h", "/a%2Fb/x"} {
				h.opUStart(u, "POST", p, 500, []string{}, false)
			}
		}
	}
}

// script 5: the GET response cache
func (h *hist) scriptGetCache() {
	h.setup()
	h.opAdd("b1", "admin", ag0, "u1@example.com", []string{"/"}, []string{})
	h.opSeen("b1", "live")
	h.opUStart(us0, "GET", "/page?x=1", 0, []string{}, false)
	h.opARespond(ag0, "b0", h.lastK(), 800, 200, false, []string{})
	h.opUStart(us0, "GET", "/page?x=1", 0, []string{}, false)      // served from the cache
	h.opUStart(us0, "GET", "/page?x=2", 0, []string{}, false)      // another URL
	h.opARespond(ag0, "b0", h.lastK(), 800, 200, true, []string{}) // Cache-Control: not cached
	h.opUStart(us0, "GET", "/page?x=2", 0, []string{}, false)
	h.opARespond(ag0, "b0", h.lastK(), 800, 404, false, []string{}) // not 200: not cached
	h.opUStart(us0, "GET", "/page?x=2", 0, []string{}, false)
	h.opARespond(ag0, "b0", h.lastK(), 800, 200, false, []string{})
	h.opUStart("u1@example.com", "GET", "/page?x=1", 0, []string{}, false) // another user: not served from u0's cache
	h.opARespond(ag0, "b1", h.lastK(), 800, 200, false, []string{})
	h.opUStart(us0, "GET", "/page?x=1", 0, []string{"mc_get"}, false)
	h.opARespond(ag0, "b0", h.lastK(), 800, 200, false, []string{})
	h.opUStart(us0, "POST", "/page?x=1", 300, []string{}, false)
	h.opARespond(ag0, "b0", h.lastK(), 800, 200, false, []string{})
	// two users without an App Engine user ID, each with a backend of their own, asking for the same URL
	h.opAdd("b2", "admin", ag0, "u2@example.com", []string{"/"}, []string{})
	h.opSeen("b2", "live")
	h.opUStart("u1@example.com", "GET", "/private", 0, []string{}, false)
	h.opARespond(ag0, "b1", h.lastK(), 800, 200, false, []string{})
	h.opUStart("u2@example.com", "GET", "/private", 0, []string{}, false) // must go to b2, not be answered from u1's cache entry
	h.opARespond(ag0, "b2", h.lastK(), 800, 200, false, []string{})
	h.opUStart("u1@example.com", "GET", "/private", 0, []string{}, false) // u1's own cached response
	// the administrator takes u1's backend away: u1 has no backend any more, also not for URLs it was served before
	h.opDelete("admin", "b1")
	h.opUStart("u1@example.com", "GET", "/private", 0, []string{}, false)
	h.opUStart("u1@example.com", "GET", "/page?x=1", 0, []string{}, false)
	// ... and gives the ID to another user
	h.opAdd("b1", "admin", ag0, "u2@example.com", []string{"/private"}, []string{})
	h.opSeen("b1", "live")
	h.opUStart("u1@example.com", "GET", "/private", 0, []string{}, false)
	// the agent of us0's backend has not polled for longer than the liveness window: also a URL us0 was served before is a 404 now
	h.ages("b0", 400)
	h.opUStart(us0, "GET", "/page?x=1", 0, []string{}, false)
	h.ages("b0", 2)
	h.opUStart(us0, "GET", "/page?x=1", 0, []string{}, false) // live again: the cached response
}

// script 6: an agent's poll refreshes the liveness of its backend (trackers close to the end of the window)
func (h *hist) scriptRefresh() {
	h.e.api.Reset()
	h.posts = map[int][]byte{}
	h.opAdd("b0", "admin", ag0, us0, []string{"/"}, []string{})
	h.opAdd("b1", "admin", ag0, "allUsers", []string{"/s/"}, []string{})
	h.opSeen("b0", "live")
	h.opSeen("b1", "live")
	h.opUStart(us0, "POST", "/r0", 400, []string{}, false)
	h.opUStart("u1@example.com", "POST", "/s/r1", 400, []string{}, false)
	h.ages("b0", 297)
	h.ages("b1", 200)
	h.opAList(ag0, "b0", []string{}) // refreshes b0
	h.opWait(4000)
	h.opUStart(us0, "POST", "/r2", 400, []string{}, false)                // b0 polled 4 s ago: live (297 s + 4 s would not be)
	h.opUStart("u1@example.com", "POST", "/s/r3", 400, []string{}, false) // b1 seen 204 s ago: live
}

// ages sets a tracker to an exact age in seconds (reported to the model as a `seen` operation)
func (h *hist) ages(id string, seconds int64) {
	ok := h.e.api.SetTimeProperty("backendTracker", id, "LastSeen", time.Now().Add(-time.Duration(seconds)*time.Second).UnixNano()/1000)
	h.emit(map[string]interface{}{"op": "seen", "id": id, "age": "exact", "age_s": seconds}, map[string]interface{}{"applied": ok})
}

// script 7: the write that marks a request completed fails, the agent posts the response again (as its retry
// loop does); afterwards the request must not be listed as pending any more.  Small (memcached) and large requests.
func (h *hist) scriptCompletionRetry() {
	h.setup()
	for _, sz := range []int{800, 1200000} {
		for _, fs := range [][]string{{"put_req"}, {"put_req", "mc_set"}} {
			h.opUStart(us0, "POST", fmt.Sprintf("/cr/%d/%d", sz, len(fs)), sz, []string{}, false)
			k := h.lastK()
			h.opARespond(ag0, "b0", k, 900, 200, true, fs)
			h.opARespond(ag0, "b0", k, 900, 200, true, fs)
			h.opARespond(ag0, "b0", k, 900, 200, true, []string{})
			h.opAList(ag0, "b0", []string{})
		}
	}
}

// script 8: an agent loses a backend (the administrator registers it for another agent, or deletes it) while requests are
// pending: from then on its calls are refused, also right after calls of its own that were accepted, and the client gets the
// response of the agent the backend now belongs to
func (h *hist) scriptRevokedAgent() {
	h.setup()
	ag1 := "agent1@example.com"
	h.opUStart(us0, "POST", "/rv/1", 500, []string{}, false)
	k := h.lastK()
	h.opAList(ag0, "b0", []string{})
	h.opAFetch(ag0, "b0", k, []string{})
	h.opAdd("b0", "admin", ag1, us0, []string{"/"}, []string{}) // b0 now belongs to agent1
	h.opAFetch(ag0, "b0", k, []string{})
	h.opARespond(ag0, "b0", k, 700, 200, true, []string{})
	h.opAList(ag0, "b0", []string{})
	h.opARespond(ag1, "b0", k, 900, 200, true, []string{})
	h.opUStart(us0, "POST", "/rv/2", 500, []string{}, false)
	k2 := h.lastK()
	h.opAFetch(ag1, "b0", k2, []string{})
	h.opDelete("admin", "b0")
	h.opARespond(ag1, "b0", k2, 700, 200, true, []string{})
	h.opAFetch(ag1, "b0", k2, []string{})
}

// script 9: backend IDs that contain the character a composite key might be joined with, and a request ID made up by an
// agent so that "<its backend>:<made-up ID>" reads like "<another backend>:<a real ID>"
func (h *hist) scriptCraftedIDs() {
	h.e.api.Reset()
	h.posts = map[int][]byte{}
	ag1 := "agent1@example.com"
	h.opAdd("corp:u", "admin", ag0, us0, []string{"/"}, []string{})
	h.opAdd("corp", "admin", ag1, "u1@example.com", []string{"/"}, []string{})
	h.opSeen("corp:u", "live")
	h.opSeen("corp", "live")
	h.opUStart(us0, "POST", "/secret", 600, []string{}, false) // stored for corp:u
	k := h.lastK()
	h.opAFetch(ag1, "corp", "u+"+k, []string{})
	h.opARespond(ag1, "corp", "u+"+k, 700, 200, true, []string{})
	h.opAList(ag0, "corp:u", []string{})
	h.opAFetch(ag0, "corp:u", k, []string{})
	h.opARespond(ag0, "corp:u", k, 900, 200, true, []string{})
}

var scripts = []func(*hist){(*hist).scriptBothWritesFail, (*hist).scriptCronBetween, (*hist).scriptSizes, (*hist).scriptAccessMatrix, (*hist).scriptRouting, (*hist).scriptGetCache, (*hist).scriptRefresh,
	(*hist).scriptCompletionRetry, (*hist).scriptRevokedAgent, (*hist).scriptCraftedIDs}

// concurrentRelay: many requests in flight, all answered by agent posts that overlap in time.  Not replayed
// on the (sequential) model: every client must get exactly the response posted under its own request ID.
func (e *env) concurrentRelay(rounds, n int) {
	for round := 0; round < rounds; round++ {
		h := &hist{e: e, rng: rand.New(rand.NewSource(int64(round))), idx: 1000 + round}
		e.api.Reset()
		h.posts = map[int][]byte{}
		b, _ := json.Marshal(map[string]interface{}{"id": "b0", "backendUser": ag0, "endUser": "allUsers", "pathPrefixes": []string{"/"}})
		e.call("api", "POST", "/api/backends", adminIdent("admin"), nil, b, quick, false)
		e.api.SetTimeProperty("backendTracker", "b0", "LastSeen", time.Now().UnixNano()/1000)
		type cl struct {
			n    int64
			rid  string
			done chan reply
			tag  int
		}
		cls := make([]*cl, n)
		for i := range cls {
			c := &cl{n: atomic.AddInt64(&e.seq, 1), done: make(chan reply, 1), tag: i + 1}
			c.rid = ridOf(c.n)
			cls[i] = c
			go func(c *cl, i int) {
				c.done <- e.callN(c.n, "default", "POST", fmt.Sprintf("/conc/%d", i), ident{User: userMails[i%len(userMails)]}, nil, []byte("req"), 45*time.Second, false)
			}(c, i)
		}
		// wait until every request is stored
		for w := 0; w < 1000; w++ {
			if len(e.storedRequests()) >= n {
				break
			}
			time.Sleep(5 * time.Millisecond)
		}
		// all posts at once; sizes differ so that a recycled buffer would show
		var wg sync.WaitGroup
		statuses := make([]int, n)
		for i, c := range cls {
			resp := mkResponse(c.tag, 600+37*(i%17), 200, true)
			h.posts[c.tag] = resp
			wg.Add(1)
			go func(i int, c *cl, resp []byte) {
				defer wg.Done()
				r := e.call("agent", "POST", "/agent/response", ident{OAuth: ag0}, agentHdr("b0", c.rid), resp, 10*time.Second, false)
				statuses[i] = r.Status
			}(i, c, resp)
		}
		wg.Wait()
		wrong, missing, badBody := 0, 0, 0
		var examples []string
		for i, c := range cls {
			select {
			case r := <-c.done:
				var tag int
				fmt.Sscanf(r.Header.Get("X-Resp-Tag"), "t%d", &tag)
				if r.Status != 200 || tag != c.tag {
					wrong++
					if len(examples) < 5 {
						examples = append(examples, fmt.Sprintf("client %d (request %s) got status %d tag %q, its agent post was t%d (answered %d)", i, c.rid, r.Status, r.Header.Get("X-Resp-Tag"), c.tag, statuses[i]))
					}
				} else if !h.bodyMatches(r) || !headersMatch(r) {
					badBody++
				}
			case <-time.After(10 * time.Second):
				missing++
			}
		}
		e.emit(map[string]interface{}{"kind": "conc", "round": round, "clients": n, "wrong_response": wrong, "no_response": missing, "bytes_differ": badBody, "examples": examples})
	}
}

// ---------------------------------------------------------------- fixed scenarios

// lateResponse: the authorised agent posts the response 27.2 s after the request was stored (the client waits up to 30 s):
// the client receives exactly that response, and the agent's post is answered 200.
func (e *env) lateResponse() {
	e.api.Reset()
	b, _ := json.Marshal(map[string]interface{}{"id": "late", "backendUser": "late-agent@example.com", "endUser": "late@example.com", "pathPrefixes": []string{"/"}})
	e.call("api", "POST", "/api/backends", adminIdent("admin"), nil, b, quick, false)
	e.api.SetTimeProperty("backendTracker", "late", "LastSeen", time.Now().UnixNano()/1000)
	type cres struct {
		r       reply
		seconds float64
	}
	done := make(chan cres, 1)
	t0 := time.Now()
	go func() {
		r := e.call("default", "POST", "/answered-late", ident{User: "late@example.com"}, nil, []byte("x"), 60*time.Second, false)
		done <- cres{r, time.Since(t0).Seconds()}
	}()
	rid := ""
	for i := 0; i < 1000 && rid == ""; i++ {
		for _, v := range e.storedRequests() {
			if v.Backend == "late" {
				rid = v.ID
			}
		}
		time.Sleep(5 * time.Millisecond)
	}
	row := map[string]interface{}{"kind": "late-response", "posted_after_s": 27.2}
	if rid == "" {
		row["err"] = "the request was never stored"
		e.emit(row)
		return
	}
	time.Sleep(time.Until(t0.Add(27200 * time.Millisecond)))
	resp := mkResponse(77, 900, 200, true)
	ar := e.call("agent", "POST", "/agent/response", ident{OAuth: "late-agent@example.com"}, agentHdr("late", rid), resp, 10*time.Second, false)
	row["agent_status"] = ar.Status
	select {
	case c := <-done:
		row["client_status"], row["client_seconds"], row["client_got_the_response"] = c.r.Status, c.seconds, c.r.Header.Get("X-Resp-Tag") == "t77"
	case <-time.After(20 * time.Second):
		row["client_status"] = -1
	}
	e.emit(row)
}

// startTimeout: a stored request nobody answers is answered 504 once, after responseWaitTimeout.
func (e *env) startTimeout(res chan map[string]interface{}) {
	b, _ := json.Marshal(map[string]interface{}{"id": "tmo", "backendUser": "tmo-agent@example.com", "endUser": "tmo@example.com", "pathPrefixes": []string{"/"}})
	e.call("api", "POST", "/api/backends", adminIdent("admin"), nil, b, quick, false)
	e.api.SetTimeProperty("backendTracker", "tmo", "LastSeen", time.Now().UnixNano()/1000)
	go func() {
		t0 := time.Now()
		r := e.call("default", "POST", "/never-answered", ident{User: "tmo@example.com"}, nil, []byte("x"), 60*time.Second, false)
		res <- map[string]interface{}{"kind": "timeout504", "status": r.Status, "err": r.Err, "seconds": time.Since(t0).Seconds(), "reqid_header": r.Header.Get("X-Inverting-Proxy-Request-ID") == r.ReqID}
	}()
	// wait until the request is stored so that a Reset cannot make the lookup fail
	for i := 0; i < 400; i++ {
		for _, v := range e.storedRequests() {
			if v.Backend == "tmo" {
				return
			}
		}
		time.Sleep(5 * time.Millisecond)
	}
}

func main() {
	appBin := flag.String("app", "", "app binary")
	repo := flag.String("repo", "/repo", "repository root (for app/*.yaml)")
	outPath := flag.String("out", "", "output file")
	seed := flag.Int64("seed", 1, "")
	nh := flag.Int("histories", 30, "")
	nops := flag.Int("ops", 28, "")
	faultP := flag.Float64("faultp", 0.2, "probability that an operation runs with failing API calls")
	bigP := flag.Float64("bigp", 0.12, "probability of a payload at/above the 1,000,000-byte limits")
	withTimeout := flag.Bool("timeout504", true, "")
	withLate := flag.Bool("late", false, "also run the scenario in which the response is posted 27 s after the request")
	concRounds := flag.Int("conc", 3, "rounds of the concurrent relay scenario")
	flag.Parse()
	f, err := os.Create(*outPath)
	if err != nil {
		panic(err)
	}
	defer f.Close()
	e, err := start(*appBin, *repo)
	if err != nil {
		fmt.Fprintln(os.Stderr, err)
		os.Exit(2)
	}
	e.out = f
	defer e.stop()
	tres := make(chan map[string]interface{}, 1)
	if *withTimeout {
		e.startTimeout(tres)
	}
	for i, sc := range scripts {
		h := &hist{e: e, rng: rand.New(rand.NewSource(int64(i))), idx: i}
		sc(h)
		e.api.ClearFaults()
		e.sticky = nil
	}
	for i := len(scripts); i < len(scripts)+*nh; i++ {
		h := &hist{e: e, rng: rand.New(rand.NewSource(*seed*1000003 + int64(i))), idx: i}
		fp := *faultP
		if i%3 == 0 {
			fp = 0 // every third history runs without faults
		}
		h.run(*nops, fp, *bigP)
	}
	e.concurrentRelay(*concRounds, 32)
	if *withTimeout {
		select {
		case r := <-tres:
			e.emit(r)
		case <-time.After(50 * time.Second):
			e.emit(map[string]interface{}{"kind": "timeout504", "status": -1, "err": "client never answered"})
		}
	}
	if *withLate {
		e.lateResponse()
	}
	e.emit(map[string]interface{}{"kind": "done", "histories": *nh})
}
