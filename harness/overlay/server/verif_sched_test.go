//go:build verif

package main

import (
	"bufio"
	"bytes"
	"context"
	"crypto/sha256"
	"encoding/hex"
	"encoding/json"
	"fmt"
	"io"
	"net"
	"net/http"
	"strings"
	"sync"
	"testing"
	"time"
)

// Scripted agent + N concurrent clients against the real proxy (newProxy()).
// Every interface event the harness performs/observes is appended to one
// linearised log (Hand / Fetch / Post); client outcomes are recorded per client.

type verifEvent struct {
	Kind      string `json:"kind"` // hand, fetch, post
	Poller    int    `json:"poller,omitempty"`
	ID        string `json:"id"`
	Tok       string `json:"tok,omitempty"`  // fetch: token found in the fetched request ("" = 404)
	Resp      string `json:"resp,omitempty"` // post: response token
	Delivered bool   `json:"delivered,omitempty"`
	Status    int    `json:"status,omitempty"`
}

type verifClientResult struct {
	C        int      `json:"c"`
	Tok      string   `json:"tok"`
	Status   int      `json:"status"`
	RespHdr  string   `json:"resp_hdr"`
	BodyOK   bool     `json:"body_ok"`
	BodyTok  string   `json:"body_tok"`
	Trailer  string   `json:"trailer"`
	Err      string   `json:"err,omitempty"`
	Canceled bool     `json:"canceled,omitempty"`
	BodyLen  int      `json:"body_len"`
	Multi    []string `json:"multi"`    // values of the repeated response fields X-Verif-Multi and Set-Cookie, in order
	WantLen  int      `json:"want_len"` // -1: not determined by the plan (a second post with another size may win)
}

func verifBody(tok string, n int) []byte {
	// body = token line + deterministic filler derived from the token
	var b bytes.Buffer
	b.WriteString(tok + "\n")
	h := sha256.Sum256([]byte(tok))
	for b.Len() < n {
		b.WriteString(hex.EncodeToString(h[:]))
		h = sha256.Sum256(h[:])
	}
	if n < len(tok)+1 {
		n = len(tok) + 1
	}
	return b.Bytes()[:n]
}

func verifBodyToken(b []byte) (string, bool) {
	i := bytes.IndexByte(b, '\n')
	if i < 0 {
		return "", false
	}
	tok := string(b[:i])
	return tok, bytes.Equal(b, verifBody(tok, len(b)))
}

func TestVerifServerSchedules(t *testing.T) {
	out := verifOpenOut(t)
	defer out.close()
	rng := &verifRng{s: verifSeed()}
	nsched := 24
	if verifThorough() {
		nsched = 400
	}
	sizes := []int{0, 1, 2, 1023, 1024, 4095, 4096, 4097, 32767, 32768, 32769, 65537, 300000}
	var wg sync.WaitGroup
	sem := make(chan struct{}, 6)
	for si := 0; si < nsched; si++ {
		n := 2 + rng.intn(31)
		if si%6 == 0 {
			n = 48 + rng.intn(17)
		}
		p := 1 + rng.intn(8)
		szs := sizes
		if si%8 == 5 {
			// a burst larger than any internal batch size, all waiting before the agent's first poll
			n = 101 + rng.intn(160)
			szs = []int{0, 1, 2, 1023, 1024}
		}
		sub := &verifRng{s: rng.next()}
		wg.Add(1)
		sem <- struct{}{}
		go func(si, n, p int, sub *verifRng, szs []int) {
			defer wg.Done()
			defer func() { <-sem }()
			verifRunSchedule(out, si, n, p, sub, szs)
		}(si, n, p, sub, szs)
	}
	wg.Wait()
}

func verifRunSchedule(out *verifOut, si, n, npollers int, rng *verifRng, sizes []int) {
	px := newProxy()
	// Not httptest.Server: its Close waits for handlers, and a post for a client that
	// went away stays blocked in handleAgentPostResponse (unread body => no close
	// detection). http.Server.Close does not wait.
	ln, err := net.Listen("tcp", "127.0.0.1:0")
	if err != nil {
		panic(err)
	}
	hs := &http.Server{Handler: px}
	go hs.Serve(ln)
	defer hs.Close()
	srv := struct{ URL string }{"http://" + ln.Addr().String()}
	var mu sync.Mutex
	var events []verifEvent
	logEv := func(e verifEvent) {
		mu.Lock()
		events = append(events, e)
		mu.Unlock()
	}
	ctx, cancelAll := context.WithCancel(context.Background())
	defer cancelAll()
	agentClient := &http.Client{Transport: &http.Transport{MaxIdleConnsPerHost: 64}}
	defer agentClient.CloseIdleConnections()

	// per-schedule random choices, drawn up front from the single PRNG
	type cplan struct {
		tok        string
		reqSize    int
		respSize   int
		cancelAt   time.Duration // 0 = never
		dupPost    bool
		fetchTwice bool
		delayMs    int
		abortMid   bool // the client hangs up after the first bytes of the response body
		tailLate   bool // (with abortMid) a short response whose second chunk and whose trailer section arrive after pauses
	}
	plans := make([]cplan, n)
	withCancels := si%4 == 3
	for c := range plans {
		plans[c] = cplan{tok: fmt.Sprintf("s%dc%dx%x", si, c, rng.next()&0xffff), reqSize: sizes[rng.intn(len(sizes))], respSize: sizes[rng.intn(len(sizes))],
			dupPost: rng.intn(8) == 0, fetchTwice: rng.intn(6) == 0, delayMs: rng.intn(20)}
		if withCancels && rng.intn(10) == 0 {
			plans[c].cancelAt = time.Duration(1+rng.intn(30)) * time.Millisecond
		}
	}
	// schedules in which responses are produced slowly (the agent uploads them piece by piece) and some clients hang up in
	// the middle of theirs while the others are still being served
	slowBodies := si%6 == 1 && n <= 100
	if slowBodies {
		for c := range plans {
			plans[c].respSize = 300000
			plans[c].dupPost = false
			if c%3 == 1 {
				plans[c].abortMid = true
				if c%2 == 0 {
					// the rest of the response (a last chunk, then the trailers) reaches the proxy after the client has gone
					plans[c].tailLate = true
					plans[c].respSize = 6000 + 3000
				}
			}
		}
	}
	if si%6 == 3 && n <= 100 {
		// two responses of several MiB among the others (larger than any buffer or default limit on the way)
		for c := 0; c < 2 && c < n; c++ {
			plans[c].respSize = 3<<20 + 17 + c
			plans[c].dupPost = false
			plans[c].cancelAt = 0
		}
	}
	unknownPosts := rng.intn(3)
	planByTok := map[string]*cplan{}
	for c := range plans {
		planByTok[plans[c].tok] = &plans[c]
	}

	// ---- scripted agent
	pollersGo := make(chan struct{})
	ids := make(chan string, 4*n+16)
	var pollWG, workWG sync.WaitGroup
	for k := 0; k < npollers; k++ {
		pollWG.Add(1)
		go func(k int) {
			defer pollWG.Done()
			if n > 100 {
				// let the whole burst queue up first
				select {
				case <-pollersGo:
				case <-ctx.Done():
				}
			}
			for ctx.Err() == nil {
				req, _ := http.NewRequestWithContext(ctx, "GET", srv.URL+"/agent/pending", nil)
				req.Header.Set("X-Inverting-Proxy-Backend-ID", "verif")
				resp, err := agentClient.Do(req)
				if err != nil {
					return
				}
				b, _ := io.ReadAll(resp.Body)
				resp.Body.Close()
				var l []string
				if json.Unmarshal(b, &l) != nil {
					continue
				}
				mu.Lock()
				for _, id := range l {
					events = append(events, verifEvent{Kind: "hand", Poller: k + 1, ID: id})
				}
				mu.Unlock()
				for _, id := range l {
					ids <- id
				}
			}
		}(k)
	}
	var nonceMu sync.Mutex
	nonce := 0
	var fetchedMu sync.Mutex
	fetchedOnce := map[string]bool{}
	fetch := func(id string) (string, bool) {
		req, _ := http.NewRequestWithContext(ctx, "GET", srv.URL+"/agent/request", nil)
		req.Header.Set("X-Inverting-Proxy-Backend-ID", "verif")
		req.Header.Set("X-Inverting-Proxy-Request-ID", id)
		resp, err := agentClient.Do(req)
		if err != nil {
			return "", false
		}
		defer resp.Body.Close()
		if resp.StatusCode != 200 {
			io.Copy(io.Discard, resp.Body)
			logEv(verifEvent{Kind: "fetch", ID: id, Tok: "", Status: resp.StatusCode})
			return "", false
		}
		fr, err := http.ReadRequest(bufio.NewReader(resp.Body))
		if err != nil {
			logEv(verifEvent{Kind: "fetch", ID: id, Tok: "!unparsable", Status: 200})
			return "", false
		}
		body, _ := io.ReadAll(fr.Body)
		tok := fr.Header.Get("X-Verif-Token")
		bt, ok := verifBodyToken(body)
		// The request body is a stream that the proxy can serialise once: only the first
		// fetch of an ID carries it, later fetches of the same ID are compared on
		// header and path only (their body is a declared don't-care).
		fetchedMu.Lock()
		first := !fetchedOnce[id]
		fetchedOnce[id] = true
		fetchedMu.Unlock()
		if !strings.Contains(fr.URL.Path, tok) || (first && (!ok || bt != tok)) {
			tok = "!mixed:" + tok + ":" + bt + ":" + fr.URL.Path
		}
		logEv(verifEvent{Kind: "fetch", ID: id, Tok: tok, Status: 200})
		return tok, true
	}
	post := func(id, respTok string, size int, timeout time.Duration, tailLate bool) {
		pctx, pc := context.WithTimeout(ctx, timeout)
		defer pc()
		body := verifBody(respTok, size)
		var wire bytes.Buffer
		var cuts []int // tailLate: where the upload pauses
		// (a field that occurs on several lines: every line is part of the response)
		fmt.Fprintf(&wire, "HTTP/1.1 200 OK\r\nX-Verif-Resp: %s\r\nX-Verif-Multi: first-%s\r\nSet-Cookie: a=%s\r\nX-Verif-Multi: second-%s\r\nSet-Cookie: b=%s\r\nTrailer: X-Verif-Trailer\r\nTransfer-Encoding: chunked\r\n\r\n", respTok, respTok, respTok, respTok, respTok)
		for off := 0; off < len(body); {
			l := 1 + (len(body)-off)/2
			if l > 20000 {
				l = 20000
			}
			if tailLate {
				// two chunks: the first reaches the client (which then hangs up), the second arrives after that
				l = 6000
				if off > 0 {
					l = len(body) - off
				}
				if off > 0 {
					cuts = append(cuts, wire.Len())
				}
			}
			fmt.Fprintf(&wire, "%x\r\n", l)
			wire.Write(body[off : off+l])
			wire.WriteString("\r\n")
			off += l
		}
		cuts = append(cuts, wire.Len())
		fmt.Fprintf(&wire, "0\r\nX-Verif-Trailer: %s\r\n\r\n", respTok)
		var upload io.Reader = &wire
		if tailLate {
			// first chunk; pause; second chunk; pause; the terminating chunk with the trailer section on its own
			pr, pw := io.Pipe()
			all := append([]byte(nil), wire.Bytes()...)
			go func() {
				prev := 0
				for k, c := range append(cuts, len(all)) {
					if _, err := pw.Write(all[prev:c]); err != nil {
						return
					}
					prev = c
					if k == 0 {
						time.Sleep(60 * time.Millisecond) // the client has hung up by then
					} else {
						time.Sleep(3 * time.Millisecond) // the proxy has noticed by then
					}
				}
				pw.Close()
			}()
			upload = pr
		} else if slowBodies {
			// the same bytes, uploaded in pieces with pauses (a backend that produces its response over some time)
			pr, pw := io.Pipe()
			all := append([]byte(nil), wire.Bytes()...)
			go func() {
				for off := 0; off < len(all); {
					l := 8192
					if off+l > len(all) {
						l = len(all) - off
					}
					if _, err := pw.Write(all[off : off+l]); err != nil {
						return
					}
					off += l
					time.Sleep(time.Millisecond)
				}
				pw.Close()
			}()
			upload = pr
		}
		req, _ := http.NewRequestWithContext(pctx, "POST", srv.URL+"/agent/response", upload)
		req.Header.Set("X-Inverting-Proxy-Backend-ID", "verif")
		req.Header.Set("X-Inverting-Proxy-Request-ID", id)
		resp, err := agentClient.Do(req)
		if err != nil {
			logEv(verifEvent{Kind: "post", ID: id, Resp: respTok, Delivered: false, Status: -1})
			return
		}
		io.Copy(io.Discard, resp.Body)
		resp.Body.Close()
		logEv(verifEvent{Kind: "post", ID: id, Resp: respTok, Delivered: resp.StatusCode == 200, Status: resp.StatusCode})
	}
	dispatcherDone := make(chan struct{})
	go func() {
		defer close(dispatcherDone)
		for {
			select {
			case <-ctx.Done():
				return
			case id := <-ids:
				workWG.Add(1)
				go func(id string) {
					defer workWG.Done()
					tok, ok := fetch(id)
					if !ok {
						return
					}
					pl := planByTok[tok]
					delay, size, dup, twice, tailLate := 0, 10, false, false, false
					if pl != nil {
						delay, size, dup, twice, tailLate = pl.delayMs, pl.respSize, pl.dupPost, pl.fetchTwice, pl.tailLate
					}
					time.Sleep(time.Duration(delay) * time.Millisecond)
					if twice {
						fetch(id)
					}
					nonceMu.Lock()
					nonce++
					nn := nonce
					nonceMu.Unlock()
					post(id, fmt.Sprintf("R|%s|%d", tok, nn), size, 90*time.Second, tailLate)
					if dup {
						nonceMu.Lock()
						nonce++
						nn = nonce
						nonceMu.Unlock()
						post(id, fmt.Sprintf("R|%s|%d", tok, nn), 8, 300*time.Millisecond, false)
					}
				}(id)
			}
		}
	}()
	for u := 0; u < unknownPosts; u++ {
		workWG.Add(1)
		go func(u int) {
			defer workWG.Done()
			post(fmt.Sprintf("unknown-%d-%d", si, u), "R|nobody|0", 5, 2*time.Second, false)
		}(u)
	}

	// ---- clients, released together by a barrier
	results := make([]verifClientResult, n)
	var cwg sync.WaitGroup
	barrier := make(chan struct{})
	for c := 0; c < n; c++ {
		cwg.Add(1)
		go func(c int) {
			defer cwg.Done()
			pl := plans[c]
			res := &results[c]
			res.C, res.Tok = c+1, pl.tok
			tr := &http.Transport{}
			defer tr.CloseIdleConnections()
			cl := &http.Client{Transport: tr}
			cto := 120 * time.Second
			if n > 100 {
				cto = 120 * time.Second
			}
			cctx, cc := context.WithTimeout(ctx, cto)
			defer cc()
			if pl.cancelAt > 0 {
				cctx, cc = context.WithTimeout(ctx, pl.cancelAt)
				defer cc()
				res.Canceled = true
			}
			<-barrier
			req, _ := http.NewRequestWithContext(cctx, "POST", srv.URL+"/c/"+pl.tok+"?q="+pl.tok, bytes.NewReader(verifBody(pl.tok, pl.reqSize)))
			req.Header.Set("X-Verif-Token", pl.tok)
			if si%5 == 2 {
				// clients that send the request-ID header themselves (an upstream hop, a retrying client
				// library or an attacker): the same values from every client of the schedule.  (A request
				// carrying the backend-ID header is an agent request by definition and is not used here.)
				req.Header.Set("X-Inverting-Proxy-Request-ID", fmt.Sprintf("client-chosen-%d", c%2))
			}
			resp, err := cl.Do(req)
			if err != nil {
				res.Err = "do: " + err.Error()
				return
			}
			defer resp.Body.Close()
			if pl.abortMid {
				// hang up in the middle of the body
				io.ReadFull(resp.Body, make([]byte, 600))
				res.Canceled = true
				res.Err = "aborted by the client after 600 body bytes"
				cc()
				tr.CloseIdleConnections()
				return
			}
			b, err := io.ReadAll(resp.Body)
			if err != nil {
				res.Err = "read: " + err.Error()
			}
			res.Status = resp.StatusCode
			res.RespHdr = resp.Header.Get("X-Verif-Resp")
			res.Multi = append(append([]string{}, resp.Header.Values("X-Verif-Multi")...), resp.Header.Values("Set-Cookie")...)
			res.BodyTok, res.BodyOK = verifBodyToken(b)
			res.BodyLen = len(b)
			res.WantLen = -1
			if !pl.dupPost {
				res.WantLen = len(verifBody(fmt.Sprintf("R|%s|%d", pl.tok, 0), pl.respSize))
			}
			res.Trailer = resp.Trailer.Get("X-Verif-Trailer")
		}(c)
	}
	close(barrier)
	if n > 100 {
		time.Sleep(500 * time.Millisecond)
	}
	close(pollersGo)
	cwg.Wait()
	// let outstanding posts finish, then stop the agent
	doneW := make(chan struct{})
	go func() { workWG.Wait(); close(doneW) }()
	select {
	case <-doneW:
	case <-time.After(30 * time.Second):
	}
	// drain: IDs of cancelled clients may still be queued; give the pollers a moment
	time.Sleep(30 * time.Millisecond)
	cancelAll()
	pollWG.Wait()
	<-dispatcherDone
	mu.Lock()
	evs := append([]verifEvent(nil), events...)
	mu.Unlock()
	out.emit(map[string]interface{}{"kind": "schedule", "index": si, "clients": n, "pollers": npollers, "results": results, "events": evs})
}

// TestVerifServerIDs: the request IDs drawn by several proxy instances created one after the other (a restarted or
// replaced proxy behind the same address, with the same agent still running and remembering the IDs it has seen):
// within an instance and across instances no ID may repeat.
func TestVerifServerIDs(t *testing.T) {
	out := verifOpenOut(t)
	defer out.close()
	const instances, per = 4, 500
	seen := map[string]int{}
	within, across := 0, 0
	var sample []string
	for i := 0; i < instances; i++ {
		p := newProxy()
		mine := map[string]bool{}
		for k := 0; k < per; k++ {
			id := p.newID()
			if mine[id] {
				within++
			} else if _, ok := seen[id]; ok {
				across++
				if len(sample) < 5 {
					sample = append(sample, id)
				}
			}
			mine[id] = true
		}
		for id := range mine {
			seen[id] = i
		}
		time.Sleep(2 * time.Millisecond)
	}
	out.emit(map[string]interface{}{"kind": "ids", "instances": instances, "per_instance": per, "distinct": len(seen), "repeated_within_an_instance": within, "repeated_across_instances": across, "sample": sample})
}
