//go:build verif

package utils

import (
	"strconv"
	"testing"
)

// TestVerifC08Direct calls ExponentialBackoffDuration over the whole uint
// range (boundary values + seeded random ones) and records, per retry count,
// the smallest and largest duration seen over a number of jitter draws.
func TestVerifC08Direct(t *testing.T) {
	out := verifOpenOut(t)
	defer out.close()
	rng := &verifRng{s: verifSeed()}
	var ns []uint64
	for n := uint64(0); n <= 70; n++ {
		ns = append(ns, n)
	}
	for _, sh := range []uint{31, 32, 33, 52, 53, 62, 63} {
		b := uint64(1) << sh
		ns = append(ns, b-1, b, b+1)
	}
	ns = append(ns, ^uint64(0), ^uint64(0)-1, 100, 1000, 4096, 65536)
	random := 2000
	draws := 100
	if verifThorough() {
		random = 200000
		draws = 200
	}
	for i := 0; i < random; i++ {
		v := rng.next()
		// spread over magnitudes
		v >>= uint(rng.intn(64))
		ns = append(ns, v)
	}
	for _, n := range ns {
		var mn, mx int64
		for i := 0; i < draws; i++ {
			d := int64(ExponentialBackoffDuration(uint(n)))
			if i == 0 || d < mn {
				mn = d
			}
			if i == 0 || d > mx {
				mx = d
			}
		}
		out.emit(map[string]interface{}{"kind": "direct", "n": strconv.FormatUint(n, 10), "min": mn, "max": mx, "draws": draws})
	}
}
