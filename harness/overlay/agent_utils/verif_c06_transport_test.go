//go:build verif

package utils

import (
	"bufio"
	"bytes"
	"fmt"
	"io"
	"net"
	"net/http"
	"net/http/httputil"
	"strings"
	"sync"
	"testing"
	"time"
)

// Byte-level fault server playing the proxy's agent/response endpoint for the
// REAL http.Transport.  Per connection (= per attempt) it follows a script.
type verifTCPAttempt struct {
	// When to answer: "full" after the complete (chunked) body, "headers" right after
	// the request headers (early answer while the body is still streaming),
	// "close0" close the connection without reading, "closeN" close after N body bytes.
	When   string `json:"when"`
	N      int    `json:"n,omitempty"`
	Status int    `json:"status,omitempty"`
}

type verifTCPObs struct {
	Body     []byte `json:"-"`
	BodyLen  int    `json:"body_len"`
	Complete bool   `json:"complete"` // terminating chunk seen
	Status   int    `json:"status"`   // what we answered (0 = closed)
	Acked    bool   `json:"acked"`
}

type verifFaultServer struct {
	ln     net.Listener
	mu     sync.Mutex
	script []verifTCPAttempt
	obs    []*verifTCPObs
	gate   chan struct{} // closed once the second connection has sent its headers
	nconn  int
}

func newVerifFaultServer(script []verifTCPAttempt) *verifFaultServer {
	ln, err := net.Listen("tcp", "127.0.0.1:0")
	if err != nil {
		panic(err)
	}
	s := &verifFaultServer{ln: ln, script: script, gate: make(chan struct{})}
	go func() {
		for {
			c, err := ln.Accept()
			if err != nil {
				return
			}
			s.mu.Lock()
			i := s.nconn
			s.nconn++
			sc := verifTCPAttempt{When: "full", Status: 200}
			if i < len(s.script) {
				sc = s.script[i]
			}
			o := &verifTCPObs{}
			s.obs = append(s.obs, o)
			s.mu.Unlock()
			go s.serve(c, i, sc, o)
		}
	}()
	return s
}

func (s *verifFaultServer) serve(c net.Conn, i int, sc verifTCPAttempt, o *verifTCPObs) {
	defer c.Close()
	if sc.When == "close0" {
		return
	}
	br := bufio.NewReader(c)
	req, err := http.ReadRequest(br)
	if err != nil {
		return
	}
	if i == 1 {
		select {
		case <-s.gate:
		default:
			close(s.gate)
		}
	}
	answer := func(code int) {
		if sc.When == "full-stalled-reply" {
			// the reply announces a body that never comes (a proxy that hangs while writing its error page); the connection stays open
			fmt.Fprintf(c, "HTTP/1.1 %d %s\r\nContent-Type: text/plain\r\nContent-Length: 4096\r\n\r\npartial error page", code, http.StatusText(code))
			s.mu.Lock()
			o.Status = code
			o.Acked = false
			s.mu.Unlock()
			time.Sleep(15 * time.Second)
			return
		}
		fmt.Fprintf(c, "HTTP/1.1 %d %s\r\nContent-Length: 2\r\n\r\nok", code, http.StatusText(code))
		s.mu.Lock()
		o.Status = code
		o.Acked = code < 500
		s.mu.Unlock()
	}
	if sc.When == "headers" {
		answer(sc.Status)
		// keep reading whatever the transport still sends on this connection
	}
	// read the (chunked) body ourselves so that partial bodies are recorded too
	var body bytes.Buffer
	complete := false
	cr := httputil.NewChunkedReader(br)
	buf := make([]byte, 32*1024)
	for {
		n, err := cr.Read(buf)
		body.Write(buf[:n])
		s.mu.Lock()
		o.Body = append([]byte(nil), body.Bytes()...)
		o.BodyLen = body.Len()
		s.mu.Unlock()
		if strings.HasPrefix(sc.When, "closeN") && body.Len() >= sc.N {
			return
		}
		if sc.When == "statusN" && body.Len() >= sc.N {
			// answer in the middle of the body and stop reading: the transport gives the status to the agent
			answer(sc.Status)
			time.Sleep(200 * time.Millisecond)
			return
		}
		if err == io.EOF {
			complete = true
			break
		}
		if err != nil {
			break
		}
	}
	_ = req
	s.mu.Lock()
	o.Complete = complete
	s.mu.Unlock()
	if (sc.When == "full" || sc.When == "full-stalled-reply") && complete {
		answer(sc.Status)
	}
}

type verifTransportCase struct {
	Name     string            `json:"name"`
	Size     int               `json:"size"`
	First    int               `json:"first"` // bytes written before the gate
	Gated    bool              `json:"gated"` // hold the rest of the body back until attempt 2 has started
	Script   []verifTCPAttempt `json:"script"`
	MaxConns int               `json:"max_conns_per_host,omitempty"` // the client's transport allows this many connections per host (0 = no limit)
}

func verifRunTransport(out *verifOut, tc verifTransportCase) {
	srv := newVerifFaultServer(tc.Script)
	defer srv.ln.Close()
	tr := &http.Transport{MaxConnsPerHost: tc.MaxConns}
	defer tr.CloseIdleConnections()
	client := &http.Client{Transport: tr, Timeout: 20 * time.Second}
	req, _ := http.NewRequest("GET", "http://backend.invalid/x", nil)
	rf, err := NewResponseForwarder(client, "http://"+srv.ln.Addr().String()+"/", "b", "id", req, nil)
	if err != nil {
		out.emit(map[string]interface{}{"kind": "transport", "case": tc, "error": err.Error()})
		return
	}
	body := verifStream(tc.Size, 42)
	type hres struct {
		writeErr string
		closeErr string
	}
	hdone := make(chan hres, 1)
	go func() {
		var r hres
		rf.Header().Set("X-Verif", "c06")
		rf.Header().Set("Content-Type", "application/octet-stream")
		rf.WriteHeader(200)
		first := tc.First
		if first > len(body) {
			first = len(body)
		}
		if _, err := rf.Write(body[:first]); err != nil {
			r.writeErr = err.Error()
		}
		if tc.Gated {
			select {
			case <-srv.gate:
				time.Sleep(80 * time.Millisecond)
			case <-time.After(5 * time.Second):
			}
		}
		if r.writeErr == "" && first < len(body) {
			if _, err := rf.Write(body[first:]); err != nil {
				r.writeErr = err.Error()
			}
		}
		if err := rf.Close(); err != nil {
			r.closeErr = err.Error()
		}
		hdone <- r
	}()
	var hr hres
	handlerReturned := false
	select {
	case hr = <-hdone:
		handlerReturned = true
	case <-time.After(12 * time.Second):
	}
	time.Sleep(100 * time.Millisecond)
	srv.mu.Lock()
	defer srv.mu.Unlock()
	var atts []map[string]interface{}
	for _, o := range srv.obs {
		// the uploaded bytes are a serialised HTTP response: parse it
		parsedOK, bodyOK, bodyLen := false, false, 0
		if resp, err := http.ReadResponse(bufio.NewReader(bytes.NewReader(o.Body)), nil); err == nil {
			b, rerr := io.ReadAll(resp.Body)
			parsedOK = rerr == nil && resp.StatusCode == 200 && resp.Header.Get("X-Verif") == "c06"
			bodyOK = rerr == nil && bytes.Equal(b, body)
			bodyLen = len(b)
		}
		atts = append(atts, map[string]interface{}{"upload_len": o.BodyLen, "complete": o.Complete, "status": o.Status, "acked": o.Acked,
			"parsed_ok": parsedOK, "body_ok": bodyOK, "resp_body_len": bodyLen})
	}
	out.emit(map[string]interface{}{"kind": "transport", "case": tc, "attempts": atts, "handler_returned": handlerReturned,
		"write_err": hr.writeErr, "close_err": hr.closeErr})
}

func TestVerifC06Transport(t *testing.T) {
	out := verifOpenOut(t)
	defer out.close()
	ok := verifTCPAttempt{When: "full", Status: 200}
	f500 := verifTCPAttempt{When: "full", Status: 500}
	early := verifTCPAttempt{When: "headers", Status: 500}
	var cases []verifTransportCase
	for _, size := range []int{10, 3000, 4000, 5000, 100000} {
		cases = append(cases,
			verifTransportCase{Name: "healthy", Size: size, First: size, Script: []verifTCPAttempt{ok}},
			verifTransportCase{Name: "500-after-body-then-ok", Size: size, First: 1, Script: []verifTCPAttempt{f500, ok}},
			verifTransportCase{Name: "500-500-then-ok", Size: size, First: size, Script: []verifTCPAttempt{f500, {When: "full", Status: 503}, ok}},
			verifTransportCase{Name: "all-fail", Size: size, First: 2, Script: []verifTCPAttempt{f500, f500, f500, f500}},
			verifTransportCase{Name: "close-before-read-then-ok", Size: size, First: size, Script: []verifTCPAttempt{{When: "close0"}, ok}},
			verifTransportCase{Name: "close-mid-body-then-ok", Size: size, First: size, Script: []verifTCPAttempt{{When: "closeN", N: size / 2}, ok}},
		)
	}
	// a client whose transport is limited to one connection per host (a proxy-facing client configured for a small pool): a
	// failed attempt must give its connection back before the next one starts
	for _, size := range []int{10, 3000} {
		cases = append(cases,
			verifTransportCase{Name: "500-after-body-then-ok/one-connection-per-host", Size: size, First: size, MaxConns: 1, Script: []verifTCPAttempt{f500, ok}},
			verifTransportCase{Name: "all-fail/one-connection-per-host", Size: size, First: size, MaxConns: 1, Script: []verifTCPAttempt{f500, f500, f500, f500}},
		)
	}
	// a 5xx reply whose own body never arrives: the attempt is over when the status is known
	for _, size := range []int{10, 3000} {
		cases = append(cases, verifTransportCase{Name: "5xx-reply-body-stalls-then-ok", Size: size, First: size, Script: []verifTCPAttempt{{When: "full-stalled-reply", Status: 503}, ok}})
	}
	// every attempt is refused while the handler still has most of its body to write: the handler must not stay blocked
	for _, size := range []int{5000, 100000, 1000000} {
		cases = append(cases,
			verifTransportCase{Name: "early-5xx-every-attempt", Size: size, First: 1, Script: []verifTCPAttempt{early, early, early, early}},
			verifTransportCase{Name: "5xx-mid-body-every-attempt", Size: size, First: 2, Script: []verifTCPAttempt{{When: "statusN", N: 512, Status: 503}, {When: "statusN", N: 512, Status: 503}, {When: "statusN", N: 512, Status: 503}, {When: "statusN", N: 512, Status: 503}}},
		)
	}
	// a single 5xx past the replay limit: no retry is possible, the upload gives up
	cases = append(cases, verifTransportCase{Name: "5xx-past-replay-limit", Size: 100000, First: 3, Script: []verifTCPAttempt{{When: "statusN", N: 8192, Status: 503}, ok}})
	for _, size := range []int{10, 3000} {
		cases = append(cases, verifTransportCase{Name: "early-500-while-streaming", Size: size, First: 1, Gated: true, Script: []verifTCPAttempt{early, ok}})
	}
	var wg sync.WaitGroup
	sem := make(chan struct{}, 12)
	for _, c := range cases {
		wg.Add(1)
		sem <- struct{}{}
		go func(c verifTransportCase) {
			defer wg.Done()
			defer func() { <-sem }()
			verifRunTransport(out, c)
		}(c)
	}
	wg.Wait()
}

// ---- keep-alive reuse: the script is per REQUEST, connections stay open after an answered request, so a
// later attempt can land on a connection that has already served one (the case in which net/http itself
// re-sends a request it considers replayable).  Every request whose headers reach the server is an attempt.

type verifKAStep struct {
	When   string `json:"when"` // "answer" (read the body, answer Status, keep the connection) or "close" (close without answering)
	Status int    `json:"status,omitempty"`
}

func verifRunKeepAlive(out *verifOut, name string, size int, script []verifKAStep) {
	ln, err := net.Listen("tcp", "127.0.0.1:0")
	if err != nil {
		panic(err)
	}
	defer ln.Close()
	var mu sync.Mutex
	nreq := 0
	var seen []map[string]interface{}
	go func() {
		for {
			c, err := ln.Accept()
			if err != nil {
				return
			}
			go func(c net.Conn) {
				defer c.Close()
				br := bufio.NewReader(c)
				for onConn := 0; ; onConn++ {
					req, err := http.ReadRequest(br)
					if err != nil {
						return
					}
					mu.Lock()
					i := nreq
					nreq++
					st := verifKAStep{When: "answer", Status: 200}
					if i < len(script) {
						st = script[i]
					}
					seen = append(seen, map[string]interface{}{"request": i + 1, "nth_on_connection": onConn + 1, "step": st})
					mu.Unlock()
					if st.When == "close" {
						return
					}
					io.Copy(io.Discard, req.Body)
					fmt.Fprintf(c, "HTTP/1.1 %d %s\r\nContent-Length: 0\r\n\r\n", st.Status, http.StatusText(st.Status))
				}
			}(c)
		}
	}()
	tr := &http.Transport{}
	defer tr.CloseIdleConnections()
	client := &http.Client{Transport: tr, Timeout: 20 * time.Second}
	req, _ := http.NewRequest("GET", "http://backend.invalid/x", nil)
	rf, err := NewResponseForwarder(client, "http://"+ln.Addr().String()+"/", "b", "id", req, nil)
	if err != nil {
		out.emit(map[string]interface{}{"kind": "keepalive", "name": name, "error": err.Error()})
		return
	}
	done := make(chan string, 1)
	go func() {
		rf.Header().Set("X-Verif", "c06")
		rf.WriteHeader(200)
		rf.Write(verifStream(size, 7))
		if err := rf.Close(); err != nil {
			done <- err.Error()
			return
		}
		done <- ""
	}()
	returned, closeErr := false, ""
	select {
	case closeErr = <-done:
		returned = true
	case <-time.After(12 * time.Second):
	}
	time.Sleep(100 * time.Millisecond)
	mu.Lock()
	defer mu.Unlock()
	out.emit(map[string]interface{}{"kind": "keepalive", "name": name, "size": size, "script": script, "requests_seen": seen, "n_requests": len(seen), "handler_returned": returned, "close_err": closeErr})
}

func TestVerifC06KeepAlive(t *testing.T) {
	out := verifOpenOut(t)
	defer out.close()
	a := func(code int) verifKAStep { return verifKAStep{When: "answer", Status: code} }
	cl := verifKAStep{When: "close"}
	for _, size := range []int{10, 3000, 5000, 100000} {
		verifRunKeepAlive(out, "healthy", size, []verifKAStep{a(200)})
		verifRunKeepAlive(out, "503-then-ok-same-connection", size, []verifKAStep{a(503), a(200)})
		verifRunKeepAlive(out, "503-then-close-on-reused-connection", size, []verifKAStep{a(503), cl, a(200)})
		verifRunKeepAlive(out, "503-close-503-close", size, []verifKAStep{a(503), cl, a(503), cl, a(200)})
		verifRunKeepAlive(out, "503-then-closes", size, []verifKAStep{a(503), cl, cl, cl, cl, cl, a(200)})
		verifRunKeepAlive(out, "always-503", size, []verifKAStep{a(503), a(503), a(503), a(503), a(503), a(503)})
	}
}
