//go:build verif

package utils

import (
	"bytes"
	"errors"
	"io"
	"net/http"
	"strings"
	"sync"
	"testing"
	"time"
)

// One attempt of the scripted proxy: read the upload body with buffers of
// size plen until `pos` bytes have been seen (or EOF), then fail / answer 5xx,
// or (kind 0) read to the end and acknowledge.
type verifAttemptScript struct {
	Kind int `json:"kind"` // 0 ack after reading everything, 1 transport error, 2 status 500, 3 status 503
	Pos  int `json:"pos"`
	Plen int `json:"plen"`
	// Linger: after answering, keep one more Read of the body going on another
	// goroutine (what net/http's transport does after an early response).
	Linger bool `json:"linger,omitempty"`
}

type verifEv struct {
	K    string `json:"k"` // read, fail, ack
	Plen int    `json:"plen,omitempty"`
	N    int    `json:"n,omitempty"`
	EOF  bool   `json:"eof,omitempty"`
}

type verifAttemptObs struct {
	N        int  `json:"n"`
	EOF      bool `json:"eof"`
	Acked    bool `json:"acked"`
	IsPrefix bool `json:"is_prefix"`
	Complete bool `json:"complete"`
}

type verifUploadScript struct {
	mu       sync.Mutex
	stream   []byte
	script   []verifAttemptScript
	attempt  int
	events   []verifEv
	attempts []verifAttemptObs
	lingerWG sync.WaitGroup
	lingered [][]byte
	release  chan struct{} // closed when a lingering reader is parked (about to block in Read)
}

func (u *verifUploadScript) RoundTrip(r *http.Request) (*http.Response, error) {
	u.mu.Lock()
	i := u.attempt
	u.attempt++
	sc := verifAttemptScript{Kind: 0, Pos: 1 << 30, Plen: 32768}
	if i < len(u.script) {
		sc = u.script[i]
	}
	u.mu.Unlock()
	var got []byte
	sawEOF := false
	buf := make([]byte, sc.Plen)
	for sc.Kind == 0 || len(got) < sc.Pos {
		n, err := r.Body.Read(buf)
		got = append(got, buf[:n]...)
		u.mu.Lock()
		u.events = append(u.events, verifEv{K: "read", Plen: sc.Plen, N: n, EOF: err == io.EOF})
		u.mu.Unlock()
		if err == io.EOF {
			sawEOF = true
			break
		}
		if err != nil {
			break
		}
	}
	obs := verifAttemptObs{N: len(got), EOF: sawEOF, Acked: sc.Kind == 0, IsPrefix: bytes.HasPrefix(u.stream, got), Complete: bytes.Equal(u.stream, got)}
	u.mu.Lock()
	u.attempts = append(u.attempts, obs)
	if sc.Kind == 0 {
		u.events = append(u.events, verifEv{K: "ack"})
	} else {
		u.events = append(u.events, verifEv{K: "fail"})
	}
	u.mu.Unlock()
	if sc.Linger {
		u.lingerWG.Add(1)
		body := r.Body
		go func() {
			defer u.lingerWG.Done()
			b := make([]byte, sc.Plen)
			if u.release != nil {
				close(u.release)
			}
			n, _ := body.Read(b)
			u.mu.Lock()
			u.lingered = append(u.lingered, append([]byte(nil), b[:n]...))
			u.mu.Unlock()
		}()
		// make sure the stale reader is parked in Read before the retry starts
		time.Sleep(30 * time.Millisecond)
	}
	mk := func(code int) *http.Response {
		return &http.Response{StatusCode: code, Status: http.StatusText(code), Proto: "HTTP/1.1", ProtoMajor: 1, ProtoMinor: 1,
			Header: http.Header{}, Body: io.NopCloser(strings.NewReader("x")), Request: r}
	}
	switch sc.Kind {
	case 1:
		return nil, errors.New("verif: scripted upload failure")
	case 2:
		return mk(500), nil
	case 3:
		return mk(503), nil
	}
	return mk(200), nil
}

func verifStream(n int, seed uint64) []byte {
	r := &verifRng{s: seed}
	b := make([]byte, n)
	for i := range b {
		b[i] = byte(r.next())
	}
	return b
}

type verifC06Case struct {
	Size   int                  `json:"size"`
	Segs   []int                `json:"segs"`
	Script []verifAttemptScript `json:"script"`
	// gate: the writer holds back everything after the first `Gate` bytes until the
	// lingering reader is parked (only used by the lingering cases)
	Gate int `json:"gate,omitempty"`
}

func verifRunC06(out *verifOut, kind string, c verifC06Case, seed uint64) {
	stream := verifStream(c.Size, seed)
	pr, pw := io.Pipe()
	us := &verifUploadScript{stream: stream, script: c.Script}
	if c.Gate > 0 {
		us.release = make(chan struct{})
	}
	writerDone := make(chan error, 1)
	go func() {
		off := 0
		var werr error
		gated := c.Gate > 0
		for _, s := range c.Segs {
			if off >= len(stream) {
				break
			}
			if off+s > len(stream) {
				s = len(stream) - off
			}
			if gated && off >= c.Gate {
				<-us.release
				time.Sleep(60 * time.Millisecond)
				gated = false
			}
			if _, werr = pw.Write(stream[off : off+s]); werr != nil {
				break
			}
			off += s
		}
		if werr == nil && off < len(stream) {
			_, werr = pw.Write(stream[off:])
		}
		pw.Close()
		writerDone <- werr
	}()
	client := &http.Client{Transport: us}
	retc := make(chan error, 1)
	go func() {
		retc <- postResponseWithRetries(client, "http://verif-proxy.invalid/agent/response", "b", "id", pr)
	}()
	var reterr error
	returned := false
	select {
	case reterr = <-retc:
		returned = true
	case <-time.After(10 * time.Second):
	}
	// what NewResponseForwarder's goroutine does next: close the read side
	pr.Close()
	writerUnblocked := false
	select {
	case <-writerDone:
		writerUnblocked = true
	case <-time.After(3 * time.Second):
	}
	us.lingerWG.Wait()
	us.mu.Lock()
	defer us.mu.Unlock()
	lingered := 0
	for _, l := range us.lingered {
		lingered += len(l)
	}
	errs := ""
	if reterr != nil {
		errs = reterr.Error()
	}
	out.emit(map[string]interface{}{"kind": kind, "case": c, "events": us.events, "attempts": us.attempts, "returned": returned, "err": errs,
		"writer_unblocked": writerUnblocked, "lingered_bytes": lingered})
}

func TestVerifC06Scripted(t *testing.T) {
	out := verifOpenOut(t)
	defer out.close()
	rng := &verifRng{s: verifSeed()}
	sizes := []int{1, 100, 4095, 4096, 4097, 5000, 8192, 20000}
	plens := []int{4096, 8192, 32768}
	segsFor := func(size, style int) []int {
		switch style {
		case 0:
			return []int{size}
		case 1:
			return []int{1, size}
		case 2:
			var s []int
			for n := 0; n < size; n += 1000 {
				s = append(s, 1000)
			}
			return s
		}
		var s []int
		for n := 0; n < size; {
			k := 1 + rng.intn(3000)
			s = append(s, k)
			n += k
		}
		return s
	}
	var cases []verifC06Case
	// every single fault: kind x position class x size
	for _, size := range sizes {
		for _, pos := range []int{0, 1, 100, 4095, 4096, 4097, size - 1, size, size + 1} {
			if pos < 0 || pos > size+1 {
				continue
			}
			for _, kind := range []int{1, 2} {
				cases = append(cases, verifC06Case{Size: size, Segs: segsFor(size, (size+pos+kind)%3), Script: []verifAttemptScript{{Kind: kind, Pos: pos, Plen: plens[(pos+kind)%3]}}})
			}
		}
	}
	// fault sequences over two and three attempts
	n2 := 120
	if verifThorough() {
		n2 = 4000
		sizes = append(sizes, 1<<20, 3<<20)
	}
	for i := 0; i < n2; i++ {
		size := sizes[rng.intn(len(sizes))]
		nf := 2 + rng.intn(2)
		var sc []verifAttemptScript
		for j := 0; j < nf; j++ {
			pos := []int{0, 1, 100, 2000, 4095, 4096, 4097, size}[rng.intn(8)]
			if pos > size {
				pos = size
			}
			sc = append(sc, verifAttemptScript{Kind: 1 + rng.intn(3), Pos: pos, Plen: plens[rng.intn(3)]})
		}
		cases = append(cases, verifC06Case{Size: size, Segs: segsFor(size, rng.intn(4)), Script: sc})
	}
	// no fault at all
	for _, size := range sizes {
		cases = append(cases, verifC06Case{Size: size, Segs: segsFor(size, 3)})
	}
	var wg sync.WaitGroup
	sem := make(chan struct{}, 16)
	for i, c := range cases {
		wg.Add(1)
		sem <- struct{}{}
		go func(i int, c verifC06Case) {
			defer wg.Done()
			defer func() { <-sem }()
			verifRunC06(out, "scripted", c, uint64(i)*7919+verifSeed())
		}(i, c)
	}
	wg.Wait()
}

// TestVerifC06Lingering: an early 5xx while the body is still streaming, with the
// previous attempt's body reader still alive when the retry starts.
func TestVerifC06Lingering(t *testing.T) {
	out := verifOpenOut(t)
	defer out.close()
	var cases []verifC06Case
	for _, size := range []int{10, 3000, 5000} {
		for _, first := range []int{1, 5} {
			for _, kind := range []int{2, 1} {
				cases = append(cases, verifC06Case{Size: size, Segs: []int{first, size}, Gate: first,
					Script: []verifAttemptScript{{Kind: kind, Pos: first, Plen: 32768, Linger: true}}})
			}
		}
	}
	var wg sync.WaitGroup
	for i, c := range cases {
		wg.Add(1)
		go func(i int, c verifC06Case) {
			defer wg.Done()
			verifRunC06(out, "lingering", c, uint64(i)*104729+verifSeed())
		}(i, c)
	}
	wg.Wait()
}
